#!/bin/bash
# usage: tools_seedtry.sh <property> <patch>  — apply a candidate change to /repo, run that property's check and list every property that reports, undo
set -u
id=$1; patch=$2
cd /repo || exit 2
git diff --quiet || { echo "/repo is not clean"; exit 2; }
git apply "$patch" || { echo "PATCH does not apply"; exit 2; }
cd /verif
out=$(./bin/h2lint -property $id -tier quick 2>&1)
echo "$out" | grep -E "^FAIL" | cut -c1-330
echo "$out" | tail -1
echo "-- all properties reporting:"
./bin/h2lint -all 2>&1 | grep -E "^C[0-9]+ tier" | grep -v "violations=0" | cut -c1-60
git -C /repo checkout -- .
