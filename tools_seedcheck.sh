#!/bin/bash
# usage: tools_seedcheck.sh <patch> [properties...]  — apply a seeded patch to /repo, run checks, undo
set -u
patch=$1; shift
cd /repo || exit 2
if ! git apply --check "$patch" 2>/dev/null; then echo "PATCH DOES NOT APPLY"; exit 2; fi
git apply "$patch"
cd /verif
props="$@"; [ -z "$props" ] && props=$(seq -f "C%02g" 1 20)
for p in $props; do
  out=$(./bin/h2lint -property $p -tier quick 2>&1); rc=$?
  echo "$p exit=$rc $(echo "$out" | grep -c '^VIOLATION') violation(s)"
  echo "$out" | grep '^FAIL' | cut -c1-300
done
git -C /repo checkout -- .
