#!/usr/bin/env python3
"""Development aid (not part of any check): for the edits of a `h2lint -sweep`
run that no rule noticed, ask whether the repository's own tests notice them.
Edits that survive both are the shape of breakage the rules must learn to see.
Uses `go test -overlay`, so /repo is never modified and no copy is made.
usage: tools_mutest.py sweep.json out.json [workers]"""
import json, os, subprocess, sys, tempfile, shutil, concurrent.futures as cf
src, out = sys.argv[1], sys.argv[2]
workers = int(sys.argv[3]) if len(sys.argv) > 3 else 4
env = dict(os.environ, GOFLAGS='-mod=mod', GOPROXY='off')
SKIP = 'Stress|Soak|TestAllocsPerRequest|DoesNotBuffer|TableGrowth|Flood|RapidReset|TestIdleConnection'
edits = [e for e in json.load(open(src)) if e['outcome'] == 'survived']
def run(e):
    d = tempfile.mkdtemp(prefix='mt-', dir='/tmp')
    try:
        path = os.path.join('/repo', e['file'])
        data = open(path, 'rb').read()
        new = data[:e['off']] + e['new'].encode() + data[e['off'] + e['len']:]
        f = os.path.join(d, 'f.go'); open(f, 'wb').write(new)
        ov = os.path.join(d, 'ov.json'); json.dump({'Replace': {path: f}}, open(ov, 'w'))
        pkg = './http2utils' if e['file'].startswith('http2utils') else '.'
        try:
            p = subprocess.run(['go', 'test', '-overlay', ov, '-vet=off', '-count=1', '-timeout', '150s', '-skip', SKIP, '.', './h2spec'],
                               cwd='/repo', env=env, capture_output=True, text=True, timeout=400)
            e['tests'] = 'pass' if p.returncode == 0 else 'fail'
            if p.returncode != 0:
                tail = [l for l in p.stdout.splitlines() if l.startswith('--- FAIL') or 'panic' in l or 'build failed' in l][:3]
                e['why'] = ' | '.join(tail)[:300]
        except subprocess.TimeoutExpired:
            e['tests'] = 'timeout'
    finally:
        shutil.rmtree(d, ignore_errors=True)
    return e
res = []
with cf.ThreadPoolExecutor(workers) as ex:
    for i, e in enumerate(ex.map(run, edits)):
        res.append(e)
        if i % 20 == 0:
            json.dump(res, open(out, 'w'), indent=1)
            print(i, len(edits), sum(1 for r in res if r['tests'] == 'pass'), 'pass so far', flush=True)
json.dump(res, open(out, 'w'), indent=1)
print('done', len(res), 'tests-pass:', sum(1 for r in res if r['tests'] == 'pass'))
