#!/bin/bash
# usage: tools_seedverify.sh <ID> <outdir> [suite]  — confirm a seeded change in a scratch worktree
# checks: demo passes on the unchanged tree; patch applies, builds; demo fails with it; (suite) existing suite passes with it
set -u
id=$1; out=$2; suite=${3:-}
export GOFLAGS=-mod=mod GOPROXY=off
wt=/tmp/sv/$id
rm -rf $wt; mkdir -p /tmp/sv
git -C /repo worktree add -q --detach $wt ${SEEDBASE:-HEAD} || exit 2
cd $wt
cp $out/zz_seed_test.go .
r1=$(go test -vet=off -count=1 -timeout 180s -run "TestSeeded$id" . 2>&1 | tail -3); echo "$r1" | grep -q '^ok' && echo "DEMO-BASE: pass" || { echo "DEMO-BASE: FAIL"; echo "$r1"; }
if git apply --check $out/patch.diff 2>/dev/null; then git apply $out/patch.diff; else echo "PATCH: does not apply"; fi
go build ./... 2>&1 | head -3
r2=$(go test -vet=off -count=1 -timeout 180s -run "TestSeeded$id" . 2>&1 | tail -15); echo "$r2" | grep -q '^ok' && echo "DEMO-PATCHED: pass (BAD)" || { echo "DEMO-PATCHED: fail (expected)"; echo "$r2" | grep -m3 -E "^\s+.*_test.go|panic|FAIL:" ; }
if [ -n "$suite" ]; then
  mv zz_seed_test.go /tmp/sv/$id.demo
  r3=$(go test -vet=off -count=1 -timeout 25m ./... 2>&1 | grep -v "no test files"); echo "$r3" | grep -E "^(ok|FAIL|---)" | head -8
fi
cd /; git -C /repo worktree remove --force $wt
