#!/bin/bash
# regression: every stored seeded change must make its own property's check fail; the unchanged tree must pass
cd /verif
bad=0
for d in /verif/seeded/C*; do
  id=$(basename $d)
  pf=$d/patch.diff; [ -f $d/patch_current.diff ] && pf=$d/patch_current.diff
  if grep -q '"superseded_by"' $d/meta.json 2>/dev/null; then echo "$id: superseded (a later repair made this change harmless; see meta.json)"; continue; fi
  if ! git -C /repo apply --check $pf 2>/dev/null; then echo "$id: patch does not apply to the current tree"; bad=1; continue; fi
  git -C /repo apply $pf
  prop=${id:0:3}
  out=$(./bin/h2lint -property $prop -tier quick 2>&1); rc=$?
  git -C /repo checkout -- .
  rule=$(echo "$out" | grep -m1 '^FAIL' | sed 's/^FAIL rule=\([^ ]*\).*/\1/')
  if [ $rc -eq 1 ]; then echo "$id: reported by $rule"; else echo "$id: NOT REPORTED (exit $rc)"; bad=1; fi
done
exit $bad
