package main

import (
	"bufio"
	"encoding/json"
	"fmt"
	"os"
	"path/filepath"
	"sort"
	"strings"
	"sync"
)

// thoroughExtras runs the additional thorough-tier controls shared by all
// properties: a second load under GOARCH=386 whose file sets must equal the
// default load's (a build-tagged file added later is not silently skipped).
func thoroughExtras(id string, base *Base, prog *Prog, outs *[]*Out) []string {
	var notes []string
	b386, err := loadBase("GOARCH=386")
	o := &Out{rule: &Rule{Name: "build-coverage", Engine: "load", Doc: "the file set analysed equals the file set of a GOARCH=386 build: no build-tagged library file escapes the analysis"}, Funcs: map[string]bool{}}
	if err != nil {
		o.undecided("goarch-386", "?", "second load failed: "+err.Error())
	} else {
		a := append(append([]string{}, base.MainFiles...), base.UtilFiles...)
		b := append(append([]string{}, b386.MainFiles...), b386.UtilFiles...)
		sort.Strings(a)
		sort.Strings(b)
		if strings.Join(a, "\n") == strings.Join(b, "\n") {
			o.ok("goarch-386", "?", fmt.Sprintf("%d files in both builds", len(a)))
		} else {
			o.bad("goarch-386", "?", "the amd64 and 386 builds compile different library files; the analysis covers only the amd64 set")
		}
		notes = append(notes, fmt.Sprintf("GOARCH=386 load: %d files, same set: %v", len(b), strings.Join(a, "\n") == strings.Join(b, "\n")))
	}
	*outs = append(*outs, o)
	notes = append(notes, sensitivitySweep(id, base, prog)...)
	for _, f := range thoroughHooks[id] {
		notes = append(notes, f(base, prog, outs)...)
	}
	return notes
}

var thoroughHooks = map[string][]func(*Base, *Prog, *[]*Out) []string{}

// anchorFiles reads the files a property is anchored in from properties.jsonl.
func anchorFiles(id string) []string {
	f, err := os.Open(filepath.Join(verifDir, "properties.jsonl"))
	if err != nil {
		return nil
	}
	defer f.Close()
	sc := bufio.NewScanner(f)
	sc.Buffer(make([]byte, 1<<20), 1<<20)
	for sc.Scan() {
		var rec struct {
			ID      string `json:"id"`
			Anchors struct {
				Files []string `json:"files"`
			} `json:"anchors"`
		}
		if json.Unmarshal(sc.Bytes(), &rec) == nil && rec.ID == id {
			return rec.Anchors.Files
		}
	}
	return nil
}

// sensitivitySweep (thorough tier, evidence only): mechanical single-token
// edits of the property's anchor files, each built in memory and run through
// the property's rules. Reports how many the rules notice. It measures the
// rules, not the tree, and never changes the exit status; unnoticed edits
// include equivalent ones and ones outside the property.
func sensitivitySweep(id string, base *Base, prog *Prog) []string {
	files := anchorFiles(id)
	if len(files) == 0 {
		return []string{"sensitivity sweep: no anchor files"}
	}
	var rules []*Rule
	for _, r := range rulesFor(id) {
		if r.Name != "bounds-residual" {
			rules = append(rules, r)
		}
	}
	baseFail := map[string]bool{}
	for _, r := range rules {
		for _, in := range runRule(prog, r).Insts {
			if !in.OK {
				baseFail[fullKey(in)] = true
			}
		}
	}
	var edits []sweepEdit
	for _, e := range genSweepEdits(prog, "") {
		for _, f := range files {
			if e.File == f {
				edits = append(edits, e)
			}
		}
	}
	type res struct{ outcome, by string }
	results := make([]res, len(edits))
	sem := make(chan struct{}, 12)
	var wg sync.WaitGroup
	for i, e := range edits {
		wg.Add(1)
		go func(i int, e sweepEdit) {
			defer wg.Done()
			sem <- struct{}{}
			defer func() { <-sem }()
			defer func() {
				if x := recover(); x != nil {
					results[i] = res{"invalid", ""}
				}
			}()
			p, err := base.build([]Subst{e.Sub})
			if err != nil {
				results[i] = res{"invalid", ""}
				return
			}
			for _, r := range rules {
				for _, in := range runRule(p, r).Insts {
					if !in.OK && !baseFail[fullKey(in)] {
						results[i] = res{"noticed", r.Name}
						return
					}
				}
			}
			results[i] = res{"unnoticed", ""}
		}(i, e)
	}
	wg.Wait()
	n, un, inv := 0, 0, 0
	byRule := map[string]int{}
	byFnUn := map[string]int{}
	for i, r := range results {
		switch r.outcome {
		case "noticed":
			n++
			byRule[r.by]++
		case "unnoticed":
			un++
			byFnUn[edits[i].Fn]++
		default:
			inv++
		}
	}
	var rl []string
	for k, v := range byRule {
		rl = append(rl, fmt.Sprintf("%s:%d", k, v))
	}
	sort.Strings(rl)
	var fl []string
	for k, v := range byFnUn {
		fl = append(fl, fmt.Sprintf("%s:%d", k, v))
	}
	sort.Strings(fl)
	return []string{
		fmt.Sprintf("sensitivity sweep over anchor files %v: %d mechanical single-token edits (operator swaps, deleted early exits / calls / stores, constants +1, bool flips) built in memory; %d noticed by this property's rules, %d unnoticed (includes equivalent edits and edits outside the property), %d did not compile", files, len(edits), n, un, inv),
		"noticed by rule: " + strings.Join(rl, " "),
		"unnoticed edits per function: " + strings.Join(fl, " "),
	}
}
