package main

import (
	"fmt"
	"sort"
	"strings"
)

// thoroughExtras runs the additional thorough-tier controls shared by all
// properties: a second load under GOARCH=386 whose file sets must equal the
// default load's (a build-tagged file added later is not silently skipped).
func thoroughExtras(id string, base *Base, prog *Prog, outs *[]*Out) []string {
	var notes []string
	b386, err := loadBase("GOARCH=386")
	o := &Out{rule: &Rule{Name: "build-coverage", Engine: "load", Doc: "the file set analysed equals the file set of a GOARCH=386 build: no build-tagged library file escapes the analysis"}, Funcs: map[string]bool{}}
	if err != nil {
		o.undecided("goarch-386", "?", "second load failed: "+err.Error())
	} else {
		a := append(append([]string{}, base.MainFiles...), base.UtilFiles...)
		b := append(append([]string{}, b386.MainFiles...), b386.UtilFiles...)
		sort.Strings(a)
		sort.Strings(b)
		if strings.Join(a, "\n") == strings.Join(b, "\n") {
			o.ok("goarch-386", "?", fmt.Sprintf("%d files in both builds", len(a)))
		} else {
			o.bad("goarch-386", "?", "the amd64 and 386 builds compile different library files; the analysis covers only the amd64 set")
		}
		notes = append(notes, fmt.Sprintf("GOARCH=386 load: %d files, same set: %v", len(b), strings.Join(a, "\n") == strings.Join(b, "\n")))
	}
	*outs = append(*outs, o)
	for _, f := range thoroughHooks[id] {
		notes = append(notes, f(base, prog, outs)...)
	}
	return notes
}

var thoroughHooks = map[string][]func(*Base, *Prog, *[]*Out) []string{}
