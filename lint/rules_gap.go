package main

// Rules added after the mutation sweep: mechanical single-token edits of
// serverConn.go that neither the existing rules nor the repository's tests
// noticed were triaged by hand; those that break a property got a structural
// clause here. Each clause names the construct by role and states the
// consequence of losing it.

import (
	"fmt"
	"go/ast"
	"go/token"
	"go/types"
	"strings"
)

func init() {
	register(&Rule{
		Name: "credit-overflow-check", Props: []string{"C06", "C08", "C14"}, Engine: "LIN", Floor: 3,
		Doc: "every site that grows a server send window (SETTINGS delta on each stream, connection WINDOW_UPDATE, stream WINDOW_UPDATE) is followed by a rejecting comparison of that window against exactly 2^31-1, strict, with FLOW_CONTROL_ERROR (RFC 7540 s6.9.1)",
		Run: ruleCreditOverflow,
	})
	register(&Rule{
		Name: "unknown-stream-classification", Props: []string{"C08", "C10"}, Engine: "LIN", Floor: 3,
		Doc: "for a frame on an id not in the table: RST_STREAM is a connection error only when the id is above the highest accepted one (idle), and a new stream is refused as 'lower than the latest' only when its id is strictly below it; the conditions are canonical comparisons against lastID",
		Run: ruleUnknownStream,
	})
	register(&Rule{
		Name: "completion-closes-stream", Props: []string{"C13", "C01", "C06"}, Engine: "AST", Floor: 3,
		Doc: "wherever the response is reported complete (finishRequest or sendData returned true) the stream is marked closed and handed to closeStream: after a handler reports back, in the resume branch, and in flushStreams; otherwise finished streams keep their table entry and their concurrency slot for the life of the connection",
		Run: ruleCompletionCloses,
	})
	register(&Rule{
		Name: "emitters-address-stream", Props: []string{"C01", "C14", "C09", "C02"}, Engine: "AST", Floor: 9,
		Doc: "every function that builds a stream-level frame (DATA, HEADERS, RST_STREAM, stream WINDOW_UPDATE) sets the frame header's stream id from its stream argument before queuing it, and connection-level frames (SETTINGS, PING, GOAWAY) do not set one",
		Run: ruleEmittersAddressStream,
	})
	register(&Rule{
		Name: "request-mapping", Props: []string{"C01", "C20", "C13", "C10"}, Engine: "AST", Floor: 14,
		Doc: "each decoded request field reaches the request the handler sees: :method, :path and :authority are stored through their header setters (and the path kept for validation), every regular field ends in a Set*/Add* call in each clause of the field switch, each pseudo-header clause sets the flag it tested; the header-list size is accumulated as name+value+32 per field and compared strictly with the limit; body and content-length limits reject only above the limit; a cut field is carried over whenever at least one byte of it has arrived; the handler-running marker is set before the handler goroutine starts; hasBody is 'stream or at least one byte'",
		Run: ruleRequestMapping,
	})
	register(&Rule{
		Name: "settings-applied", Props: []string{"C18"}, Engine: "AST", Floor: 6,
		Doc: "the values of a received SETTINGS frame reach the state that enforces them: the server copies the frame and resizes its encoder to the peer's HEADER_TABLE_SIZE; the client publishes MAX_CONCURRENT_STREAMS, MAX_FRAME_SIZE and HEADER_TABLE_SIZE, and the write loop applies the table size to its encoder before encoding a request; responses drop connection-specific fields",
		Run: ruleSettingsApplied,
	})
}

func ruleCreditOverflow(p *Prog, r *Out) {
	fd := p.decl("(*serverConn).handleStreams")
	hf := p.decl("(*serverConn).handleFrame")
	if fd == nil || hf == nil {
		r.undecided("anchors", "?", "handleStreams/handleFrame no longer resolve")
		return
	}
	r.fn("(*serverConn).handleStreams", "(*serverConn).handleFrame")
	strictOver := func(cond ast.Expr, term string) bool {
		c, ok := p.canonCmp(cond, nil)
		// w > MAX  <=>  MAX - w + 1 <= 0
		return ok && c.Op == "le" && len(c.L.T) == 1 && c.L.T[term] == -1 && c.L.C == 1<<31
	}
	flowReject := func(b *ast.BlockStmt) bool {
		okk := false
		ast.Inspect(b, func(n ast.Node) bool {
			if c, ok := n.(*ast.CallExpr); ok {
				switch p.calleeOf(c) {
				case "(*serverConn).writeGoAway":
					if len(c.Args) == 3 {
						if v, ok := p.intConst(c.Args[1]); ok && v == 3 {
							okk = true
						}
					}
				case "NewResetStreamError", "NewGoAwayError":
					if v, ok := p.intConst(c.Args[0]); ok && v == 3 {
						okk = true
					}
				}
			}
			return true
		})
		return okk
	}
	// in handleStreams: after `X += ...` on a window, the next statement in the same list tests it
	ast.Inspect(fd.Body, func(n ast.Node) bool {
		var list []ast.Stmt
		switch x := n.(type) {
		case *ast.BlockStmt:
			list = x.List
		case *ast.CaseClause:
			list = x.Body
		default:
			return true
		}
		for i, s := range list {
			as, ok := s.(*ast.AssignStmt)
			if !ok || as.Tok != token.ADD_ASSIGN || len(as.Lhs) != 1 {
				continue
			}
			term := p.text(as.Lhs[0])
			if !(p.isFieldSel(as.Lhs[0], "Stream", "window") || p.isFieldSel(as.Lhs[0], "serverConn", "clientWindow")) {
				continue
			}
			okk := false
			if i+1 < len(list) {
				if ifs, ok := list[i+1].(*ast.IfStmt); ok && strictOver(ifs.Cond, term) && flowReject(ifs.Body) {
					okk = true
				}
			}
			r.check(okk, "credit of "+term+" checked against 2^31-1", p.pos(as.Pos()), term+" > 2^31-1 -> FLOW_CONTROL_ERROR right after the credit",
				fmt.Sprintf("the credit `%s` is not immediately followed by a rejecting test `%s > 2^31-1` with FLOW_CONTROL_ERROR: a peer can push the window past 2^31-1 (or a legal window is refused because the bound is not exactly 2^31-1)", p.text(as), term))
		}
		return true
	})
	// stream WINDOW_UPDATE: atomic.AddInt64(&strm.window, win) > MAX
	found := false
	ast.Inspect(hf.Body, func(n ast.Node) bool {
		ifs, ok := n.(*ast.IfStmt)
		if !ok {
			return true
		}
		b, ok := ast.Unparen(ifs.Cond).(*ast.BinaryExpr)
		if !ok {
			return true
		}
		if c, ok := ast.Unparen(b.X).(*ast.CallExpr); ok && p.calleeOf(c) == "atomic.AddInt64" && strings.Contains(p.text(c.Args[0]), "strm.window") {
			found = true
			r.check(strictOver(ifs.Cond, p.text(b.X)) && flowReject(ifs.Body), "stream WINDOW_UPDATE credit checked against 2^31-1", p.pos(ifs.Pos()), "AddInt64(...) > 2^31-1 -> FLOW_CONTROL_ERROR",
				"the stream WINDOW_UPDATE credit is not tested strictly against exactly 2^31-1 with FLOW_CONTROL_ERROR")
		}
		return true
	})
	if !found {
		r.bad("stream WINDOW_UPDATE credit checked against 2^31-1", p.pos(hf.Pos()), "handleFrame no longer tests the credited stream window against 2^31-1")
	}
}

func ruleUnknownStream(p *Prog, r *Out) {
	fd := p.decl("(*serverConn).handleStreams")
	if fd == nil {
		r.undecided("handleStreams", "?", "no longer resolves")
		return
	}
	r.fn("(*serverConn).handleStreams")
	pm := p.pmFor(fd)
	rstIdle, lower, lookup := false, false, false
	ast.Inspect(fd.Body, func(n ast.Node) bool {
		ifs, ok := n.(*ast.IfStmt)
		if !ok {
			return true
		}
		// the idle test may also ask the closed-stream memory first: a refused
		// stream is closed without ever having been the latest
		cmpExpr := ifs.Cond
		if ifs.Init != nil && squash(p.text(ifs.Init)) == "_,closed:=closedStrms[fr.Stream()]" {
			if atoms, pure := pureJunction(ifs.Cond, true); pure && len(atoms) == 2 {
				for i, a := range atoms {
					if !a.Val && p.text(a.Cond) == "closed" && atoms[1-i].Val {
						cmpExpr = atoms[1-i].Cond
					}
				}
			}
		}
		c, ok := p.canonCmp(cmpExpr, nil)
		if !ok || c.Op != "le" || len(c.L.T) != 2 {
			return true
		}
		id, last := c.L.T["fr.Stream()"], c.L.T["sc.lastID"]
		// the order of ids is judged by the highest id a request has named
		// (highID, raised by refusals too), which is stored only after this
		// test: at or below it is out of order
		if hi, ok := c.L.T["highID"]; ok && id == 1 && hi == -1 && c.L.C == 0 {
			ga := false
			inspectCalls(ifs.Body, func(cl *ast.CallExpr) {
				if p.calleeOf(cl) == "(*serverConn).writeGoAway" {
					ga = true
				}
			})
			if ga {
				lower = true
			}
			return true
		}
		switch {
		case id == -1 && last == 1 && c.L.C == 1: // Stream() > lastID
			// inside the RST_STREAM branch, body sends GOAWAY
			under := false
			for _, g := range p.knownFacts(pm, ifs) {
				if g.Val && squash(p.text(g.Cond)) == "fr.Type()==FrameResetStream" {
					under = true
				}
			}
			ga := false
			inspectCalls(ifs.Body, func(cl *ast.CallExpr) {
				if p.calleeOf(cl) == "(*serverConn).writeGoAway" {
					ga = true
				}
			})
			if under && ga {
				rstIdle = true
			}
		case id == 1 && last == -1 && c.L.C == 0: // Stream() <= lastID
			inspectCalls(ifs.Body, func(cl *ast.CallExpr) {
				if p.calleeOf(cl) == "(*Streams).Search" {
					lookup = true
				}
			})
		}
		return true
	})
	// the `id <= lastID` test in front of the lookup is only a shortcut: no entry with a higher id
	// survives the frame that created it, so an unguarded search finds the same thing
	if !lookup {
		guardedElsewhere := false
		ast.Inspect(fd.Body, func(n ast.Node) bool {
			if ifs, ok := n.(*ast.IfStmt); ok {
				inspectCalls(ifs.Body, func(cl *ast.CallExpr) {
					if p.calleeOf(cl) == "(*Streams).Search" && strings.Contains(p.text(ifs.Cond), "lastID") {
						guardedElsewhere = true
					}
				})
			}
			return true
		})
		if !guardedElsewhere {
			inspectCalls(fd.Body, func(cl *ast.CallExpr) {
				if p.calleeOf(cl) == "(*Streams).Search" && len(cl.Args) == 1 && squash(p.text(cl.Args[0])) == "fr.Stream()" {
					lookup = true
				}
			})
		}
	}
	pos := p.pos(fd.Pos())
	// PRIORITY on an unknown stream keeps no state, but one that names itself as
	// its parent is still an error (RFC 7540 s5.3.1)
	selfDep := false
	ast.Inspect(fd.Body, func(n ast.Node) bool {
		ifs, ok := n.(*ast.IfStmt)
		if !ok || squash(p.text(ifs.Cond)) != "fr.Body().(*Priority).Stream()==fr.Stream()" {
			return true
		}
		ga, leaves := false, false
		for _, s := range ifs.Body.List {
			if es, ok := s.(*ast.ExprStmt); ok {
				if c, ok := es.X.(*ast.CallExpr); ok && p.calleeOf(c) == "(*serverConn).writeGoAway" && len(c.Args) == 3 {
					if v, ok := p.intConst(c.Args[1]); ok && v == 1 {
						ga = true
					}
				}
			}
			if b, ok := s.(*ast.BranchStmt); ok && b.Tok == token.BREAK && b.Label != nil {
				leaves = true
			}
		}
		for _, g := range p.knownFacts(pm, ifs) {
			if g.Val && squash(p.text(g.Cond)) == "fr.Type()==FramePriority" && ga && leaves {
				selfDep = true
			}
		}
		return true
	})
	r.check(selfDep, "PRIORITY on an unknown stream that depends on itself is refused", pos, "if parent == own id { GOAWAY(PROTOCOL_ERROR); leave }", "a PRIORITY frame on a stream that is not in the table is ignored even when it names its own stream as the parent: RFC 7540 s5.3.1 makes that an error of type PROTOCOL_ERROR")
	r.check(rstIdle, "RST_STREAM on an idle id only (id > lastID)", pos, "fr.Stream() > sc.lastID (and not remembered as closed) -> GOAWAY", "the test that makes RST_STREAM on an unknown stream a connection error is no longer exactly `id > lastID` (possibly after asking the closed-stream memory): a late RST_STREAM for the most recent, already finished stream kills the connection (RFC 7540 s5.1: ignored on closed streams)")
	r.check(lower, "lower-than-latest is exact (id <= highID)", pos, "fr.Stream() <= highID -> GOAWAY", "the 'stream id lower than the latest' refusal is no longer exactly `id <= highID`, the highest id a request has named so far")
	r.check(lookup, "table lookup for ids up to lastID", pos, "fr.Stream() <= sc.lastID -> Search", "the stream table is searched under a condition on lastID other than `id <= lastID` (or not at all): ids at or below the highest accepted one must be found, or they are created a second time")
}

func ruleCompletionCloses(p *Prog, r *Out) {
	fd := p.decl("(*serverConn).handleStreams")
	fl := p.decl("(*serverConn).flushStreams")
	if fd == nil || fl == nil {
		r.undecided("anchors", "?", "handleStreams/flushStreams no longer resolve")
		return
	}
	r.fn("(*serverConn).handleStreams", "(*serverConn).flushStreams")
	sites := 0
	ast.Inspect(fd.Body, func(n ast.Node) bool {
		ifs, ok := n.(*ast.IfStmt)
		if !ok {
			return true
		}
		c, ok := ast.Unparen(ifs.Cond).(*ast.CallExpr)
		if !ok {
			return true
		}
		name := p.calleeOf(c)
		if name != "(*serverConn).finishRequest" && name != "(*serverConn).sendData" {
			return true
		}
		sites++
		set, closed := false, false
		for _, s := range ifs.Body.List {
			if es, ok := s.(*ast.ExprStmt); ok {
				if cl, ok := es.X.(*ast.CallExpr); ok {
					if p.calleeOf(cl) == "(*Stream).SetState" && len(cl.Args) == 1 && p.text(cl.Args[0]) == "StreamStateClosed" {
						set = true
					}
					if p.text(cl.Fun) == "closeStream" {
						closed = true
					}
				}
			}
		}
		where := "after " + name[strings.LastIndex(name, ".")+1:]
		pm := p.pmFor(fd)
		inFrameClause := false
		for cur := pm[ifs]; cur != nil; cur = pm[cur] {
			if cc, ok := cur.(*ast.CommClause); ok && cc.Comm != nil && strings.Contains(p.text(cc.Comm), "sc.reader") {
				inFrameClause = true
			}
		}
		// in the frame clause the closed-state sweep at the end of the clause calls closeStream
		r.check(set && (closed || inFrameClause), "stream loop closes a finished stream "+where, p.pos(ifs.Pos()), "SetState(Closed) (+ closeStream or the clause's sweep)",
			"when "+name+" reports the response complete the stream is not marked closed and closed: it keeps its table entry, its RequestCtx and its concurrency slot, and after MaxConcurrentStreams such responses every new stream is refused")
		return true
	})
	// a stream the loop resets is closed there and then
	resets := 0
	ast.Inspect(fd.Body, func(n ast.Node) bool {
		var list []ast.Stmt
		switch x := n.(type) {
		case *ast.BlockStmt:
			list = x.List
		case *ast.CaseClause:
			list = x.Body
		case *ast.CommClause:
			list = x.Body
		default:
			return true
		}
		for i, s := range list {
			es, ok := s.(*ast.ExprStmt)
			if !ok {
				continue
			}
			c, ok := es.X.(*ast.CallExpr)
			if !ok {
				continue
			}
			idText, _, _, isReset := p.resetCall(c)
			if !isReset || !strings.HasSuffix(idText, ".ID()") {
				continue
			}
			recv := strings.TrimSuffix(idText, ".ID()")
			resets++
			closedAfter := false
			for j, t := range list {
				if j == i {
					continue
				}
				if es2, ok := t.(*ast.ExprStmt); ok {
					if c2, ok := es2.X.(*ast.CallExpr); ok && p.calleeOf(c2) == "(*Stream).SetState" && p.text(c2.Fun.(*ast.SelectorExpr).X) == recv && p.text(c2.Args[0]) == "StreamStateClosed" {
						closedAfter = true
					}
				}
			}
			// or the stream was closed just before (implicit close of an older idle stream)
			for _, t := range list[:i] {
				if es2, ok := t.(*ast.ExprStmt); ok {
					if c2, ok := es2.X.(*ast.CallExpr); ok && p.text(c2.Fun) == "closeStream" && len(c2.Args) == 1 && p.text(c2.Args[0]) == recv {
						closedAfter = true
					}
				}
			}
			// outside the frame path nothing comes along later to notice a closed
			// state: the stream has to be taken out of the table there and then
			if _, inTimer := n.(*ast.CommClause); inTimer || strings.Contains(p.text(c.Args[1]), "StreamCanceled") {
				removed := false
				for _, t := range list[i+1:] {
					if es2, ok := t.(*ast.ExprStmt); ok {
						if c2, ok := es2.X.(*ast.CallExpr); ok && p.text(c2.Fun) == "closeStream" && len(c2.Args) == 1 && p.text(c2.Args[0]) == recv {
							removed = true
						}
					}
				}
				for _, t := range list[:i] {
					if es2, ok := t.(*ast.ExprStmt); ok {
						if c2, ok := es2.X.(*ast.CallExpr); ok && p.text(c2.Fun) == "closeStream" && len(c2.Args) == 1 && p.text(c2.Args[0]) == recv {
							removed = true
						}
					}
				}
				r.check(removed, "stream reset off the frame path leaves the table ("+p.text(c.Args[1])+")", p.pos(c.Pos()), "closeStream(x) in the same block", "the stream loop resets "+recv+" where no frame of that stream is being handled (a timer, the implicit close of older streams) and does not take it out of the table: nothing later notices its closed state, so it keeps its entry and its concurrency slot for the life of the connection")
			}
			r.check(closedAfter, "stream reset by the loop is closed ("+p.text(c.Args[1])+")", p.pos(c.Pos()), "writeReset(x.ID(), ...) ; x.SetState(Closed)",
				"the stream loop sends RST_STREAM("+p.text(c.Args[1])+") for "+recv+" but does not mark it closed in the same block: the stream stays in the table, half-closed and never answered, and keeps its concurrency slot")
		}
		return true
	})
	if resets < 2 {
		r.bad("stream loop closes the streams it resets", p.pos(fd.Pos()), fmt.Sprintf("only %d reset sites found in the stream loop", resets))
	}
	if sites < 2 {
		r.bad("stream loop closes finished streams", p.pos(fd.Pos()), fmt.Sprintf("only %d completion sites found in the stream loop (handler report and resume branch expected)", sites))
	}
	// flushStreams: done list -> SetState + closeStream
	okk := false
	ast.Inspect(fl.Body, func(n ast.Node) bool {
		rs, ok := n.(*ast.RangeStmt)
		if !ok || p.text(rs.X) != "done" {
			return true
		}
		set, closed := false, false
		for _, s := range rs.Body.List {
			if es, ok := s.(*ast.ExprStmt); ok {
				if cl, ok := es.X.(*ast.CallExpr); ok {
					if p.calleeOf(cl) == "(*Stream).SetState" && p.text(cl.Args[0]) == "StreamStateClosed" {
						set = true
					}
					if p.text(cl.Fun) == "closeStream" {
						closed = true
					}
				}
			}
		}
		okk = set && closed
		return true
	})
	// the walk over the table: every stream is visited, and the table is not edited under the walk
	walkAll, noEdit, walks := true, true, 0
	ast.Inspect(fl.Body, func(n ast.Node) bool {
		rs, ok := n.(*ast.RangeStmt)
		if !ok || p.text(rs.X) != "strms" {
			return true
		}
		walks++
		ast.Inspect(rs.Body, func(m ast.Node) bool {
			switch x := m.(type) {
			case *ast.BranchStmt:
				if x.Tok == token.BREAK {
					walkAll = false
				}
			case *ast.ReturnStmt:
				walkAll = false
			case *ast.CallExpr:
				if p.text(x.Fun) == "closeStream" {
					noEdit = false
				}
			}
			return true
		})
		return true
	})
	r.check(walks == 1 && walkAll, "flushStreams offers the new credit to every stream", p.pos(fl.Pos()), "range over the whole table, no break", "flushStreams stops walking the stream table early: a stream blocked on its own window ends the walk, and the streams behind it are never resumed by connection-level credit although both their windows are open")
	r.check(walks == 1 && noEdit, "flushStreams does not edit the table while walking it", p.pos(fl.Pos()), "finished streams are collected, closed after the walk", "flushStreams closes a finished stream inside the walk over the table: closeStream removes it from the slice being ranged over, the next stream is skipped and stays stalled")
	r.check(okk, "flushStreams closes the streams it finished", p.pos(fl.Pos()), "for s in done: SetState(Closed); closeStream(s)", "flushStreams no longer marks closed and closes the streams whose response it completed")
	// the flush / resume conditions are the conjunction of the three facts
	for _, site := range []struct {
		fd   *ast.FuncDecl
		name string
		recv string
	}{{fd, "resume branch", "strm"}, {fl, "flushStreams", "s"}} {
		found := false
		ast.Inspect(site.fd.Body, func(n ast.Node) bool {
			ifs, ok := n.(*ast.IfStmt)
			if !ok {
				return true
			}
			atoms := conjuncts(ifs.Cond, true)
			want := map[string]bool{site.recv + ".responded": false, "!" + site.recv + ".handlerRunning": false, site.recv + ".hasMoreToSend()": false}
			n2 := 0
			for _, a := range atoms {
				t := squash(p.text(a.Cond))
				if !a.Val {
					t = "!" + t
				}
				if _, ok := want[t]; ok {
					want[t] = true
					n2++
				}
			}
			if n2 == 3 {
				found = true
			}
			return true
		})
		r.check(found, site.name+" condition is responded && !handlerRunning && hasMoreToSend", p.pos(site.fd.Pos()), "conjunction of the three facts",
			"the "+site.name+" no longer requires all of: the request was dispatched, its handler has returned, and response data is pending. With any of them dropped the loop touches a response its handler is still writing, or sends before the HEADERS frame")
	}
}

func ruleEmittersAddressStream(p *Prog, r *Out) {
	type em struct {
		fn     string
		want   string // expected SetStream argument text ("" = must not set a non-zero stream)
		kind   int64
		hdrVar string
	}
	ems := []em{
		{"(*serverConn).writeWindowUpdate", "id", 8, "fr"},
		{"(*serverConn).writeReset", "strm", 3, "fr"},
		{"(*serverConn).finishRequest", "strm.ID()", 1, "fr"},
		{"(*serverConn).sendData", "strm.ID()", 0, "fr"},
		{"(*serverConn).writeGoAway", "", 7, "fr"},
		{"(*serverConn).writePing", "", 6, "fr"},
		{"(*serverConn).handlePing", "", 6, "fr"},
		{"(*serverConn).handleSettings", "", 4, "fr"},
		{"(*Conn).updateWindow", "streamID", 8, "fr"},
		{"(*Conn).cancelStream", "id", 3, "h"},
		{"(*Conn).resetStreamNow", "id", 3, "h"},
		{"(*Conn).writeData", "id", 0, "fh"},
		{"(*Conn).writeRequest", "id", 1, "fr"},
	}
	for _, e := range ems {
		fd := p.decl(e.fn)
		if fd == nil {
			r.undecided(e.fn, "?", "no longer resolves")
			continue
		}
		r.fn(e.fn)
		// every AcquireFrame(kind) site in the function
		acquires := 0
		inspectCalls(fd.Body, func(c *ast.CallExpr) {
			if p.calleeOf(c) == "AcquireFrame" && len(c.Args) == 1 {
				if v, ok := p.intConst(c.Args[0]); ok && v == e.kind {
					acquires++
				}
			}
		})
		var sets []string
		inspectCalls(fd.Body, func(c *ast.CallExpr) {
			if p.calleeOf(c) == "(*FrameHeader).SetStream" && len(c.Args) == 1 {
				sets = append(sets, p.text(c.Args[0]))
			}
		})
		key := e.fn + " addresses its frame"
		if acquires == 0 {
			r.bad(key, p.pos(fd.Pos()), fmt.Sprintf("%s no longer builds a %s frame", e.fn, frameTypeNames[e.kind]))
			continue
		}
		if e.want == "" {
			bad := ""
			for _, s := range sets {
				if s != "0" {
					bad = s
				}
			}
			r.check(bad == "", key, p.pos(fd.Pos()), "connection-level frame on stream 0", fmt.Sprintf("%s puts its %s frame on stream %s; the frame is connection-level and must be sent on stream 0", e.fn, frameTypeNames[e.kind], bad))
			continue
		}
		n := 0
		for _, s := range sets {
			if s == e.want {
				n++
			}
		}
		r.check(n >= acquires && len(sets) == n, key, p.pos(fd.Pos()), fmt.Sprintf("SetStream(%s) for each of its %d frames", e.want, acquires),
			fmt.Sprintf("%s builds %d %s frame(s) but sets the stream id to %v (expected %s each time): the frame goes out on stream 0 or on another stream, so credit, resets or data reach the wrong stream", e.fn, acquires, frameTypeNames[e.kind], sets, e.want))
	}
}

func ruleRequestMapping(p *Prog, r *Out) {
	hd := p.decl("(*serverConn).handleHeaderFrame")
	if hd == nil {
		r.undecided("handleHeaderFrame", "?", "no longer resolves")
		return
	}
	r.fn("(*serverConn).handleHeaderFrame", "(*serverConn).handleFrame", "(*serverConn).dispatchHandler", "(*serverConn).finishRequest", "(*serverConn).refillPending")
	pos := p.pos(hd.Pos())
	// pseudo clauses
	type pc struct {
		name, flag string
		setters    []string
	}
	for _, c := range []pc{
		{"StringMethod", "pseudoMethod", []string{"SetMethodBytes"}},
		{"StringPath", "pseudoPath", []string{"SetRequestURIBytes"}},
		{"StringScheme", "pseudoScheme", nil},
		{"StringAuthority", "pseudoAuthority", []string{"SetHostBytes"}},
	} {
		var clause *ast.CaseClause
		ast.Inspect(hd.Body, func(n ast.Node) bool {
			if cc, ok := n.(*ast.CaseClause); ok && len(cc.List) == 1 && squash(p.text(cc.List[0])) == "bytes.Equal(k,"+c.name+")" {
				clause = cc
			}
			return true
		})
		if clause == nil {
			r.bad("pseudo-header "+c.name+" clause", pos, "no clause handles "+c.name)
			continue
		}
		flagSet := false
		calls := map[string]bool{}
		for _, s := range clause.Body {
			if as, ok := s.(*ast.AssignStmt); ok && len(as.Lhs) == 1 && p.isFieldSel(as.Lhs[0], "Stream", c.flag) && p.text(as.Rhs[0]) == "true" {
				flagSet = true
			}
			if es, ok := s.(*ast.ExprStmt); ok {
				if cl, ok := es.X.(*ast.CallExpr); ok {
					n := p.calleeOf(cl)
					calls[n[strings.LastIndex(n, ".")+1:]] = true
				}
			}
		}
		r.check(flagSet, c.name+" marks itself seen", p.pos(clause.Pos()), c.flag+" = true", "the "+c.name+" clause no longer records that the pseudo-header was seen: a second occurrence is accepted, and a missing one is not noticed")
		for _, st := range c.setters {
			r.check(calls[st], c.name+" reaches the request ("+st+")", p.pos(clause.Pos()), st+"(v)", "the value of "+c.name+" no longer reaches the request the handler sees ("+st+" is not called)")
		}
		if c.name == "StringPath" {
			kept := false
			for _, s := range clause.Body {
				if as, ok := s.(*ast.AssignStmt); ok && p.isFieldSel(as.Lhs[0], "Stream", "path") {
					kept = true
				}
			}
			r.check(kept, ":path kept for validation", p.pos(clause.Pos()), "strm.path = v", "the :path value is no longer kept on the stream: the non-empty :path check at END_HEADERS sees nothing")
		}
	}
	// regular-field switch: every clause accepts
	ast.Inspect(hd.Body, func(n ast.Node) bool {
		sw, ok := n.(*ast.SwitchStmt)
		if !ok || sw.Tag != nil {
			return true
		}
		isRegular := false
		for _, c := range sw.Body.List {
			cc := c.(*ast.CaseClause)
			if len(cc.List) == 1 && squash(p.text(cc.List[0])) == "bytes.Equal(k,StringUserAgent)" {
				isRegular = true
			}
		}
		if !isRegular {
			return true
		}
		for _, c := range sw.Body.List {
			cc := c.(*ast.CaseClause)
			label := "default"
			if len(cc.List) == 1 {
				label = p.text(cc.List[0])
			}
			acc := false
			for _, s := range cc.Body {
				if es, ok := s.(*ast.ExprStmt); ok {
					if cl, ok := es.X.(*ast.CallExpr); ok {
						nme := p.calleeOf(cl)
						m := nme[strings.LastIndex(nme, ".")+1:]
						if strings.Contains(nme, "fasthttp.") && (strings.HasPrefix(m, "Set") || strings.HasPrefix(m, "Add")) {
							acc = true
						}
					}
				}
			}
			r.check(acc, "regular field clause `"+label+"` delivers the field", p.pos(cc.Pos()), "a Set*/Add* on the request header at the top level of the clause",
				"the regular-field clause `"+label+"` no longer hands the field to the request header unconditionally: the handler does not see a field the peer sent")
		}
		return false
	})
	// header list size accounting and limit
	accOK, limOK := false, false
	ast.Inspect(hd.Body, func(n ast.Node) bool {
		switch x := n.(type) {
		case *ast.AssignStmt:
			if x.Tok == token.ADD_ASSIGN && len(x.Lhs) == 1 && p.isFieldSel(x.Lhs[0], "Stream", "headerListSize") {
				if p.linOf(x.Rhs[0], nil).eq(Lin{T: map[string]int64{"len(k)": 1, "len(v)": 1}, C: 32}) {
					accOK = true
				}
			}
		case *ast.IfStmt:
			for _, a := range conjuncts(x.Cond, true) {
				if c, ok := p.canonCmp(a.Cond, nil); ok && c.Op == "le" && a.Val {
					if c.L.eq(Lin{T: map[string]int64{"sc.maxHeaderList": 1, "strm.headerListSize": -1}, C: 1}) && isRejectingBody(p, x.Body) &&
						p.isConjunctionOf(x.Cond, "sc.maxHeaderList>0", "strm.headerListSize>sc.maxHeaderList") {
						limOK = true
					}
				}
			}
		}
		return true
	})
	r.check(accOK, "header list size counts name+value+32", pos, "headerListSize += len(k)+len(v)+32", "the running header-list size is no longer increased by len(name)+len(value)+32 per field (RFC 7540 s6.5.2): MaxHeaderListSize is enforced against a wrong total")
	r.check(limOK, "header list limit is strict", pos, "maxHeaderList > 0 && headerListSize > maxHeaderList rejects", "the header-list limit no longer rejects exactly when a limit is set and the size exceeds it")
	// carry-over condition
	carry := false
	ast.Inspect(hd.Body, func(n ast.Node) bool {
		ifs, ok := n.(*ast.IfStmt)
		if !ok {
			return true
		}
		atoms := conjuncts(ifs.Cond, true)
		e, l, h := false, false, false
		for _, a := range atoms {
			t := squash(p.text(a.Cond))
			if a.Val && t == "errors.Is(err,ErrUnexpectedSize)" {
				e = true
			}
			if c, ok := p.canonCmp(a.Cond, nil); ok && a.Val && c.Op == "le" && c.L.eq(Lin{T: map[string]int64{"len(pb)": -1}, C: 1}) {
				l = true
			}
			if !a.Val && t == "fr.Flags().Has(FlagEndHeaders)" {
				h = true
			}
		}
		if e && l && h && len(atoms) == 3 {
			carry = true
		}
		return true
	})
	r.check(carry, "carry-over whenever a byte of the field has arrived", pos, "ErrUnexpectedSize && len(pb) > 0 && !END_HEADERS", "the carry-over condition is no longer exactly 'the decoder ran out of input, at least one byte of the field is here, and END_HEADERS is not set': a header block cut after the first byte of a field is refused, or a truncated final block is waited for")
	// content-length pre-check and body limit: reject only above the limit
	for _, s := range []struct {
		fn, l, rr, what string
	}{
		{"(*serverConn).handleHeaderFrame", "n", "sc.maxRequestBodySize", "declared content-length"},
		{"(*serverConn).handleFrame", "strm.recvBody", "sc.maxRequestBodySize", "received body"},
	} {
		f2 := p.decl(s.fn)
		okk := false
		if f2 != nil {
			ast.Inspect(f2.Body, func(n ast.Node) bool {
				ifs, ok := n.(*ast.IfStmt)
				if !ok || !isRejectingBody(p, ifs.Body) {
					return true
				}
				atoms := conjuncts(ifs.Cond, true)
				pos0, over := false, false
				for _, a := range atoms {
					if c, ok := p.canonCmp(a.Cond, nil); ok && a.Val && c.Op == "le" {
						if c.L.eq(Lin{T: map[string]int64{s.rr: -1}, C: 1}) { // max > 0
							pos0 = true
						}
						if c.L.eq(Lin{T: map[string]int64{s.rr: 1, s.l: -1}, C: 1}) { // x > max
							over = true
						}
					}
				}
				if pos0 && over && len(atoms) == 2 {
					okk = true
				}
				return true
			})
		}
		r.check(okk, s.what+" refused only above MaxRequestBodySize", p.pos(f2.Pos()), s.l+" > max (when max > 0) rejects", "the "+s.what+" limit is no longer 'reject exactly when it exceeds MaxRequestBodySize (if a limit is set)': a body of exactly the limit is refused, or one above it is accepted")
	}
	// handlerRunning set before the goroutine starts
	if dd := p.decl("(*serverConn).dispatchHandler"); dd != nil {
		setIdx, goIdx := -1, -1
		for i, s := range dd.Body.List {
			if as, ok := s.(*ast.AssignStmt); ok && len(as.Lhs) == 1 && p.isFieldSel(as.Lhs[0], "Stream", "handlerRunning") && p.text(as.Rhs[0]) == "true" {
				setIdx = i
			}
			if _, ok := s.(*ast.GoStmt); ok {
				goIdx = i
			}
		}
		r.check(setIdx >= 0 && goIdx > setIdx, "handler-running marker set before the handler starts", p.pos(dd.Pos()), "handlerRunning = true; go ...", "dispatchHandler no longer sets Stream.handlerRunning before starting the handler goroutine: closeStream then recycles the stream and its RequestCtx while the handler is still using them, and the concurrency slot is handed out early")
	}
	// hasBody
	if fr := p.decl("(*serverConn).finishRequest"); fr != nil {
		okk := false
		ast.Inspect(fr.Body, func(n ast.Node) bool {
			if as, ok := n.(*ast.AssignStmt); ok && len(as.Lhs) == 1 && p.text(as.Lhs[0]) == "hasBody" {
				if b, ok := as.Rhs[0].(*ast.BinaryExpr); ok && b.Op == token.LOR && strings.HasSuffix(squash(p.text(b.X)), "IsBodyStream()") {
					if c, ok := p.canonCmp(b.Y, nil); ok && c.Op == "le" && len(c.L.T) == 1 && c.L.C == 1 {
						for t, co := range c.L.T {
							if co == -1 && strings.HasPrefix(t, "len(") {
								okk = true
							}
						}
					}
				}
			}
			return true
		})
		r.check(okk, "hasBody = streamed or at least one byte", p.pos(fr.Pos()), "IsBodyStream() || len(Body()) > 0", "finishRequest no longer treats 'a body stream, or at least one body byte' as having a body: a one-byte body is dropped and END_STREAM goes out on HEADERS")
	}
	// refillPending keeps every byte it read
	if rf := p.decl("(*serverConn).refillPending"); rf != nil {
		okk := false
		ast.Inspect(rf.Body, func(n ast.Node) bool {
			ifs, ok := n.(*ast.IfStmt)
			if !ok {
				return true
			}
			if c, ok := p.canonCmp(ifs.Cond, nil); ok && c.Op == "le" && c.L.eq(Lin{T: map[string]int64{"n": -1}, C: 1}) {
				d, rd := false, false
				for _, s := range ifs.Body.List {
					if as, ok := s.(*ast.AssignStmt); ok {
						if p.isFieldSel(as.Lhs[0], "Stream", "pendingData") && squash(p.text(as.Rhs[0])) == "buf[:n]" {
							d = true
						}
						if p.isFieldSel(as.Lhs[0], "Stream", "bodyRead") && as.Tok == token.ADD_ASSIGN && p.ubKey(as.Rhs[0]) == "n" {
							rd = true
						}
					}
				}
				okk = d && rd
			}
			return true
		})
		r.check(okk, "streamed body keeps every byte read", p.pos(rf.Pos()), "n > 0 -> pendingData = buf[:n]; bodyRead += n", "refillPending no longer keeps exactly the n bytes a Read returned whenever n > 0 (and counts them): a short read is dropped from the response body")
	}
}

func ruleSettingsApplied(p *Prog, r *Out) {
	if fd := p.decl("(*serverConn).handleSettings"); fd != nil {
		r.fn("(*serverConn).handleSettings")
		cp, rs := false, false
		for _, s := range fd.Body.List {
			if es, ok := s.(*ast.ExprStmt); ok {
				if c, ok := es.X.(*ast.CallExpr); ok {
					if (p.calleeOf(c) == "(*Settings).CopyTo" || p.calleeOf(c) == "(*Settings).applyTo") && squash(p.text(c.Args[0])) == "&sc.clientS" {
						cp = true
					}
					if p.calleeOf(c) == "(*HPACK).SetMaxTableSize" && strings.HasPrefix(p.text(c.Fun), "sc.enc.") && strings.Contains(p.text(c.Args[0]), "HeaderTableSize()") {
						rs = true
					}
				}
			}
		}
		r.check(cp, "server keeps the peer's settings", p.pos(fd.Pos()), "st.CopyTo(&sc.clientS)", "the server no longer copies a received SETTINGS frame into its record of the peer's settings")
		r.check(rs, "server encoder follows HEADER_TABLE_SIZE", p.pos(fd.Pos()), "sc.enc.SetMaxTableSize(peer's table size)", "the server no longer resizes its HPACK encoder to the peer's SETTINGS_HEADER_TABLE_SIZE: after the peer lowers it, responses reference table entries the peer has dropped (COMPRESSION_ERROR at the peer)")
	} else {
		r.undecided("(*serverConn).handleSettings", "?", "no longer resolves")
	}
	if fd := p.decl("(*Conn).handleSettings"); fd != nil {
		r.fn("(*Conn).handleSettings", "(*Conn).writeRequest")
		stored := map[string]string{}
		inspectCalls(fd.Body, func(c *ast.CallExpr) {
			if p.calleeOf(c) == "atomic.StoreUint32" && len(c.Args) == 2 {
				stored[strings.TrimPrefix(p.text(c.Args[0]), "&")] = squash(p.text(c.Args[1]))
			}
		})
		for f, getter := range map[string]string{"c.maxStreams": "MaxConcurrentStreams()", "c.maxFrameSize": "MaxFrameSize()", "c.encTableSize": "HeaderTableSize()"} {
			r.check(strings.HasSuffix(stored[f], getter), "client publishes "+f, p.pos(fd.Pos()), f+" = received "+getter, fmt.Sprintf("the client no longer publishes the received %s into %s (stored: %q): the write loop and CanOpenStream keep using the old limit", getter, f, stored[f]))
		}
	}
	if fd := p.decl("(*Conn).writeRequest"); fd != nil {
		okk := false
		ast.Inspect(fd.Body, func(n ast.Node) bool {
			ifs, ok := n.(*ast.IfStmt)
			if !ok || ifs.Init == nil || !strings.Contains(p.text(ifs.Init), "c.encTableSize") {
				return true
			}
			inspectCalls(ifs.Body, func(c *ast.CallExpr) {
				if p.calleeOf(c) == "(*HPACK).SetMaxTableSize" && strings.HasPrefix(p.text(c.Fun), "c.enc.") {
					okk = true
				}
			})
			return true
		})
		// and it precedes the first AppendHeaderField
		r.check(okk, "client encoder follows HEADER_TABLE_SIZE", p.pos(fd.Pos()), "writeRequest applies encTableSize to c.enc before encoding", "the client's write loop no longer applies the server's SETTINGS_HEADER_TABLE_SIZE to its encoder before encoding a request")
	}
	// the "seen" marker the write loop compares against starts at the encoder's real size,
	// and the handshake moves encoder, record and marker together
	if fd := p.decl("NewConn"); fd != nil {
		r.fn("NewConn", "(*Conn).doHandshake")
		init := map[string]int64{}
		ast.Inspect(fd.Body, func(n ast.Node) bool {
			switch x := n.(type) {
			case *ast.AssignStmt:
				if len(x.Lhs) == 1 {
					for _, f := range []string{"encTableSize", "encTableSizeSeen"} {
						if p.isFieldSel(x.Lhs[0], "Conn", f) {
							if v, ok := p.intConst(x.Rhs[0]); ok {
								init[f] = v
							}
						}
					}
				}
			case *ast.KeyValueExpr:
				k := p.text(x.Key)
				if k == "encTableSize" || k == "encTableSizeSeen" {
					if v, ok := p.intConst(x.Value); ok {
						init[k] = v
					}
				}
			}
			return true
		})
		encInit := int64(-1)
		if rd := p.decl("(*HPACK).Reset"); rd != nil {
			for _, s := range rd.Body.List {
				if as, ok := s.(*ast.AssignStmt); ok && p.isFieldSel(as.Lhs[0], "HPACK", "maxTableSize") {
					if v, ok := p.intConst(as.Rhs[0]); ok {
						encInit = v
					}
				}
			}
		}
		r.check(len(init) == 2 && init["encTableSize"] == encInit && init["encTableSizeSeen"] == encInit, "client's table-size record starts at the encoder's size", p.pos(fd.Pos()), fmt.Sprintf("encTableSize = encTableSizeSeen = %d", encInit),
			fmt.Sprintf("NewConn leaves the record of the encoder's table size at %v while the encoder starts with %d: the write loop applies a new size only when it differs from the recorded one, so the first SETTINGS_HEADER_TABLE_SIZE equal to the stale record (0 when it was never set) is acknowledged and never applied", init, encInit))
	}
	// invariant behind the marker: encTableSizeSeen is the encoder's current limit, so the two
	// only ever change together, with the same value
	for _, fn := range []string{"(*Conn).doHandshake", "(*Conn).writeRequest"} {
		fd := p.decl(fn)
		if fd == nil {
			continue
		}
		ast.Inspect(fd.Body, func(n ast.Node) bool {
			b, ok := n.(*ast.BlockStmt)
			if !ok {
				return true
			}
			enc, seen := "", ""
			var at ast.Node
			for _, s := range b.List {
				switch x := s.(type) {
				case *ast.ExprStmt:
					if cl, ok := x.X.(*ast.CallExpr); ok && p.calleeOf(cl) == "(*HPACK).SetMaxTableSize" && strings.HasPrefix(p.text(cl.Fun), "c.enc.") {
						enc, at = squash(p.text(cl.Args[0])), x
					}
				case *ast.AssignStmt:
					if len(x.Lhs) == 1 && p.isFieldSel(x.Lhs[0], "Conn", "encTableSizeSeen") {
						seen, at = squash(p.text(x.Rhs[0])), x
					}
				}
			}
			if enc == "" && seen == "" {
				return true
			}
			// an intermediate limit (the lowest size the server went through) may be
			// given to the encoder alone when the same path goes on to set encoder
			// and marker to one value: the marker then is the encoder's limit again
			if enc != "" && seen == "" {
				pm := p.pmFor(fd)
				var holder ast.Node = b
				for holder != nil {
					if _, isIf := pm[holder].(*ast.IfStmt); isIf {
						holder = pm[holder]
						break
					}
					holder = pm[holder]
				}
				if ifs, ok := holder.(*ast.IfStmt); ok {
					if outer, ok := pm[ifs].(*ast.BlockStmt); ok {
						e2, s2 := "", ""
						for _, s := range outer.List {
							if s.Pos() <= ifs.Pos() {
								continue
							}
							switch x := s.(type) {
							case *ast.ExprStmt:
								if cl, ok := x.X.(*ast.CallExpr); ok && p.calleeOf(cl) == "(*HPACK).SetMaxTableSize" && strings.HasPrefix(p.text(cl.Fun), "c.enc.") {
									e2 = squash(p.text(cl.Args[0]))
								}
							case *ast.AssignStmt:
								if len(x.Lhs) == 1 && p.isFieldSel(x.Lhs[0], "Conn", "encTableSizeSeen") {
									s2 = squash(p.text(x.Rhs[0]))
								}
							}
						}
						if e2 != "" && e2 == s2 {
							return true
						}
					}
				}
			}
			r.check(enc == seen, fn+" moves the encoder and its marker together", p.pos(at.Pos()), "c.enc.SetMaxTableSize(x) and encTableSizeSeen = x in the same block", fmt.Sprintf("%s changes the encoder's table limit (%q) and the write loop's marker (%q) apart: the marker is compared with every newly received HEADER_TABLE_SIZE to decide whether the encoder needs changing, so once it differs from the encoder's real limit a received size is acknowledged and never applied", fn, enc, seen))
			return true
		})
	}
	if fd := p.decl("fasthttpResponseHeaders"); fd != nil {
		r.fn("fasthttpResponseHeaders")
		dels := map[string]bool{}
		inspectCalls(fd.Body, func(c *ast.CallExpr) {
			if strings.HasSuffix(p.calleeOf(c), ".Del") && len(c.Args) == 1 {
				if v := p.constOf(c.Args[0]); v != nil {
					dels[strings.Trim(v.ExactString(), "\"")] = true
				}
			}
		})
		r.check(dels["Connection"] && dels["Transfer-Encoding"], "responses drop connection-specific fields", p.pos(fd.Pos()), "Del(Connection), Del(Transfer-Encoding)", "the response encoder no longer removes Connection / Transfer-Encoding: a conforming peer treats such a response as malformed (RFC 7540 s8.1.2.2)")
		cl := false
		ast.Inspect(fd.Body, func(n ast.Node) bool {
			if ifs, ok := n.(*ast.IfStmt); ok && squash(p.text(ifs.Cond)) == "!res.IsBodyStream()" {
				inspectCalls(ifs.Body, func(c *ast.CallExpr) {
					if strings.HasSuffix(p.calleeOf(c), ".SetContentLength") && squash(p.text(c.Args[0])) == "len(res.Body())" {
						cl = true
					}
				})
			}
			return true
		})
		r.check(cl, "buffered response declares its length", p.pos(fd.Pos()), "SetContentLength(len(body)) when not streamed", "a buffered response no longer gets content-length = len(body)")
	}
}

func init() {
	register(&Rule{
		Name: "config-reaches-enforcement", Props: []string{"C13", "C18", "C14"}, Engine: "AST", Floor: 8,
		Doc: "the limits a user configures are the ones the connection enforces and advertises: ServeConn takes MaxHeaderListSize and the request-body limit from the configuration, puts MaxConcurrentStreams and the receive window into the SETTINGS object that the handshake sends and that stream creation compares against, the receive-window accounting starts from the advertised window, a non-positive MaxConcurrentStreams gets a positive default, and the send side starts from the RFC's 65535 connection window",
		Run: ruleConfigEnforcement,
	})
}

func ruleConfigEnforcement(p *Prog, r *Out) {
	fd := p.decl("(*Server).ServeConn")
	if fd == nil {
		r.undecided("(*Server).ServeConn", "?", "no longer resolves")
		return
	}
	r.fn("(*Server).ServeConn", "(*ServerConfig).defaults", "maxRequestBodySize", "(*serverConn).Handshake", "(*serverConn).Serve")
	pos := p.pos(fd.Pos())
	// composite literal fields
	lit := map[string]string{}
	ast.Inspect(fd.Body, func(n ast.Node) bool {
		if cl, ok := n.(*ast.CompositeLit); ok && strings.HasSuffix(p.text(cl.Type), "serverConn") {
			for _, e := range cl.Elts {
				if kv, ok := e.(*ast.KeyValueExpr); ok {
					lit[p.text(kv.Key)] = squash(p.text(kv.Value))
				}
			}
		}
		return true
	})
	r.check(lit["maxHeaderList"] == "s.cnf.MaxHeaderListSize", "header-list limit comes from the configuration", pos, "maxHeaderList: s.cnf.MaxHeaderListSize", "the connection's header-list limit is "+lit["maxHeaderList"]+", not the configured MaxHeaderListSize")
	r.check(lit["maxRequestBodySize"] == "maxRequestBodySize(s.s)", "body limit comes from the fasthttp server", pos, "maxRequestBodySize: maxRequestBodySize(s.s)", "the connection's request-body limit is "+lit["maxRequestBodySize"]+", not the fasthttp server's MaxRequestBodySize")
	if md := p.decl("maxRequestBodySize"); md != nil {
		ok := false
		for _, s := range md.Body.List {
			if ifs, isIf := s.(*ast.IfStmt); isIf {
				if c, okc := p.canonCmp(ifs.Cond, nil); okc && c.Op == "le" && c.L.eq(Lin{T: map[string]int64{"s.MaxRequestBodySize": -1}, C: 1}) {
					if ret, isRet := ifs.Body.List[0].(*ast.ReturnStmt); isRet && p.text(ret.Results[0]) == "s.MaxRequestBodySize" {
						ok = true
					}
				}
			}
		}
		r.check(ok, "configured body limit is used when set", p.pos(md.Pos()), "if s.MaxRequestBodySize > 0 { return it }", "maxRequestBodySize no longer returns the configured MaxRequestBodySize whenever it is positive")
	}
	// statements before the handshake
	idx := map[string]int{}
	for i, s := range fd.Body.List {
		switch x := s.(type) {
		case *ast.ExprStmt:
			if c, ok := x.X.(*ast.CallExpr); ok {
				idx[squash(p.text(c))] = i + 1
			}
		case *ast.AssignStmt:
			idx[squash(p.text(x))] = i + 1
		case *ast.IfStmt:
			if x.Init != nil && strings.Contains(p.text(x.Init), "sc.Handshake()") {
				idx["handshake"] = i + 1
			}
		}
	}
	hs := idx["handshake"]
	before := func(k string) bool { return idx[k] > 0 && hs > 0 && idx[k] < hs }
	r.check(before("sc.st.SetMaxConcurrentStreams(uint32(s.cnf.MaxConcurrentStreams))"), "configured stream limit is advertised and enforced", pos, "sc.st.SetMaxConcurrentStreams(cnf) before the handshake", "ServeConn no longer puts the configured MaxConcurrentStreams into the SETTINGS object before the handshake: the limit advertised and enforced (sc.st.maxStreams) is the library default, not the configured one")
	r.check(before("sc.st.SetMaxWindowSize(uint32(sc.maxWindow))") && before("sc.currentWindow=sc.maxWindow"), "advertised receive window is the accounted one", pos, "SetMaxWindowSize(maxWindow); currentWindow = maxWindow", "the receive window the server advertises and the one its accounting starts from no longer come from the same value: credit is returned too late (the peer stalls) or the peer is held to a window it was not told")
	r.check(idx["sc.st.Reset()"] > 0 && idx["sc.st.Reset()"] < idx["sc.st.SetMaxConcurrentStreams(uint32(s.cnf.MaxConcurrentStreams))"], "settings object reset before it is filled", pos, "sc.st.Reset() first", "the SETTINGS object is not reset before the configured values are stored (or is reset after them)")
	// the handshake sends that same object
	if hd := p.decl("(*serverConn).Handshake"); hd != nil {
		ok := false
		inspectCalls(hd.Body, func(c *ast.CallExpr) {
			if p.calleeOf(c) == "Handshake" && len(c.Args) == 4 && squash(p.text(c.Args[2])) == "&sc.st" && squash(p.text(c.Args[3])) == "sc.maxWindow" {
				ok = true
			}
		})
		r.check(ok, "handshake sends the enforced settings", p.pos(hd.Pos()), "Handshake(false, bw, &sc.st, sc.maxWindow)", "the server handshake no longer sends the SETTINGS object (and connection window) that the connection enforces")
	}
	if dd := p.decl("(*ServerConfig).defaults"); dd != nil {
		ok := false
		for _, s := range dd.Body.List {
			if ifs, isIf := s.(*ast.IfStmt); isIf {
				if c, okc := p.canonCmp(ifs.Cond, nil); okc && c.Op == "le" && c.L.eq(Lin{T: map[string]int64{"sc.MaxConcurrentStreams": 1}}) {
					if as, isAs := ifs.Body.List[0].(*ast.AssignStmt); isAs {
						if v, okv := p.intConst(as.Rhs[0]); okv && v > 0 && p.text(as.Lhs[0]) == "sc.MaxConcurrentStreams" {
							ok = true
						}
					}
				}
			}
		}
		r.check(ok, "unset stream limit gets a positive default", p.pos(dd.Pos()), "MaxConcurrentStreams <= 0 -> positive default", "a non-positive MaxConcurrentStreams no longer gets a positive default: the server advertises 0 (or a negative value converted to a huge one) and refuses, or never limits, streams")
	}
	if dd := p.decl("(*ServerConfig).defaults"); dd != nil {
		ok := false
		for _, s := range dd.Body.List {
			if ifs, isIf := s.(*ast.IfStmt); isIf && squash(p.text(ifs.Cond)) == "sc.MaxHeaderListSize==0" && len(ifs.Body.List) == 1 {
				if as, isAs := ifs.Body.List[0].(*ast.AssignStmt); isAs && p.text(as.Lhs[0]) == "sc.MaxHeaderListSize" {
					if v, okv := p.intConst(as.Rhs[0]); okv && v > 0 {
						ok = true
					}
				}
			}
		}
		r.check(ok, "unset header-list limit gets a positive default", p.pos(dd.Pos()), "MaxHeaderListSize == 0 -> positive default", "a MaxHeaderListSize of 0 no longer becomes a positive default: zero means no limit to the connection, so a server configured with nothing bounds neither the header list nor the bytes carried between CONTINUATION frames")
	}
	{
		// the window is a positive constant a WINDOW_UPDATE can express, set before it is used
		wi, ok := 0, false
		for i, s := range fd.Body.List {
			if as, isAs := s.(*ast.AssignStmt); isAs && len(as.Lhs) == 1 && squash(p.text(as.Lhs[0])) == "sc.maxWindow" {
				if v, okv := p.intConst(as.Rhs[0]); okv && v >= 65535 && v <= 1<<31-1 {
					ok = true
					wi = i + 1
				}
			}
		}
		r.check(ok && wi < idx["sc.currentWindow=sc.maxWindow"] && wi < idx["sc.st.SetMaxWindowSize(uint32(sc.maxWindow))"], "the receive window is a constant between 65535 and 2^31-1", pos, "sc.maxWindow = <constant> before it is advertised and accounted", "ServeConn no longer sets the receive window to a constant between 65535 and 2^31-1 before advertising it: a window of zero is advertised and no peer can send a byte of any body")
	}
	if sd := p.decl("(*serverConn).Serve"); sd != nil {
		ok := false
		for _, s := range sd.Body.List {
			if as, isAs := s.(*ast.AssignStmt); isAs && len(as.Lhs) == 1 && p.isFieldSel(as.Lhs[0], "serverConn", "clientWindow") {
				if v := p.constOf(as.Rhs[0]); v != nil && v.ExactString() == "65535" {
					ok = true
				}
			}
		}
		r.check(ok, "connection send window starts at 65535", p.pos(sd.Pos()), "clientWindow = 65535", "the server's connection-level send window no longer starts at 65535 octets (RFC 7540 s6.9.2: not affected by SETTINGS): it sends more than the peer granted, or stalls early")
	}
}

func init() {
	register(&Rule{
		Name: "server-construction", Props: []string{"C13", "C18", "C01", "C08", "C17"}, Engine: "AST", Floor: 3,
		Doc: "every function that builds a Server value applies ServerConfig.defaults to the configuration it stores (a zero configuration advertises nothing and enforces a limit of zero concurrent streams), and ReadPreface accepts exactly a complete, byte-equal client preface",
		Run: ruleServerConstruction,
	})
}

func ruleServerConstruction(p *Prog, r *Out) {
	n := 0
	var names []string
	for name := range p.funcDecls {
		names = append(names, name)
	}
	sortStrings(names)
	for _, name := range names {
		fd := p.funcDecls[name]
		if fd.Body == nil {
			continue
		}
		var lit *ast.CompositeLit
		ast.Inspect(fd.Body, func(nd ast.Node) bool {
			if cl, ok := nd.(*ast.CompositeLit); ok && p.text(cl.Type) == "Server" {
				lit = cl
			}
			return true
		})
		if lit == nil {
			continue
		}
		n++
		r.fn(name)
		// the configuration stored is one defaults() was applied to
		cnfSrc := ""
		for _, e := range lit.Elts {
			if kv, ok := e.(*ast.KeyValueExpr); ok && p.text(kv.Key) == "cnf" {
				cnfSrc = p.text(kv.Value)
			}
		}
		applied := false
		inspectCalls(fd.Body, func(c *ast.CallExpr) {
			if p.calleeOf(c) != "(*ServerConfig).defaults" {
				return
			}
			recv := squash(p.text(c.Fun.(*ast.SelectorExpr).X))
			if cnfSrc != "" && recv == cnfSrc && c.Pos() < lit.Pos() {
				applied = true
			}
			if cnfSrc == "" && strings.HasSuffix(recv, ".cnf") && c.Pos() > lit.Pos() {
				applied = true
			}
		})
		r.check(applied, name+" applies the configuration defaults", p.pos(lit.Pos()), "cnf.defaults() on the configuration the Server keeps", name+" builds a Server whose configuration never went through ServerConfig.defaults: MaxConcurrentStreams stays 0, so the connection enforces a limit of zero streams (every request is refused with REFUSED_STREAM) while advertising none, and MaxHeaderListSize stays 0 (no limit)")
	}
	if n < 2 {
		r.bad("Server constructors", "?", fmt.Sprintf("only %d functions building a Server were found", n))
	}
	if fd := p.decl("(*Server).ServeConn"); fd != nil {
		r.fn("(*Server).ServeConn")
		t := stmtTexts(p, fd.Body.List)
		hs, sv, de, en := -1, -1, -1, -1
		for i, x := range t {
			switch x {
			case "iferr:=sc.Handshake();err!=nil{returnerr}":
				hs = i
			case "returnsc.Serve()":
				sv = i
			case "sc.dec.Reset()":
				de = i
			case "sc.enc.Reset()":
				en = i
			}
		}
		r.check(hs >= 0 && sv == hs+1 && sv == len(t)-1, "a failed handshake ends the connection, a good one is served", p.pos(fd.Pos()), "if err := sc.Handshake(); err != nil { return err }; return sc.Serve()", "ServeConn no longer returns the handshake's error and otherwise serves: a connection whose SETTINGS never went out is served, or one that is fine is dropped")
		lg := -1
		for i, x := range t {
			if x == "ifsc.logger==nil{sc.logger=logger}" {
				lg = i
			}
		}
		r.check(lg >= 0 && lg < hs, "a connection always has a logger", p.pos(fd.Pos()), "if sc.logger == nil { sc.logger = logger } before the handshake", "ServeConn no longer falls back to the package logger when the fasthttp server has none: the report of a panicking handler is then itself a nil dereference, on a goroutine nothing recovers")
		r.check(de >= 0 && en >= 0 && de < hs && en < hs, "both HPACK contexts start from the protocol's initial state", p.pos(fd.Pos()), "sc.enc.Reset(); sc.dec.Reset() before the handshake", "ServeConn no longer resets the connection's HPACK encoder and decoder before use: a zero HPACK has a dynamic table of size 0 while the peer assumes 4096 octets, so the first indexed reference to a dynamic entry fails the connection")
	} else {
		r.undecided("(*Server).ServeConn", "?", "no longer resolves")
	}
	if fd := p.decl("ReadPreface"); fd != nil {
		r.fn("ReadPreface")
		ok := false
		ast.Inspect(fd.Body, func(nd ast.Node) bool {
			ifs, isIf := nd.(*ast.IfStmt)
			if !isIf || !p.isConjunctionOf(ifs.Cond, "err==nil", "n==prefaceLen") {
				return true
			}
			for _, s := range ifs.Body.List {
				if in, isIn := s.(*ast.IfStmt); isIn && squash(p.text(in.Cond)) == "bytes.Equal(b,http2Preface)" {
					if res := firstReturn(in.Body); len(res) == 1 && p.text(res[0]) == "true" {
						ok = true
					}
				}
			}
			return true
		})
		last := retResults(fd.Body.List[len(fd.Body.List)-1])
		// the whole preface is waited for: one Read returns what has arrived
		full := false
		ast.Inspect(fd.Body, func(nd ast.Node) bool {
			if as, isAs := nd.(*ast.AssignStmt); isAs && len(as.Rhs) == 1 {
				if c, isC := as.Rhs[0].(*ast.CallExpr); isC && p.calleeOf(c) == "io.ReadFull" && len(c.Args) == 2 && squash(p.text(c.Args[1])) == "b[:prefaceLen]" {
					full = true
				}
			}
			return true
		})
		r.check(full, "the preface is read in full, in however many pieces it arrives", p.pos(fd.Pos()), "io.ReadFull(br, b[:prefaceLen])", "ReadPreface no longer waits for all 24 octets (io.ReadFull): a single Read returns what has arrived so far, and a preface split across two segments is taken for a wrong one")
		r.check(ok && len(last) == 1 && p.text(last[0]) == "false", "preface accepted only when complete and equal", p.pos(fd.Pos()), "err == nil && n == prefaceLen && bytes.Equal(b, preface) -> true; else false", "ReadPreface no longer accepts exactly a complete, byte-equal client connection preface (RFC 7540 s3.5)")
	} else {
		r.undecided("ReadPreface", "?", "no longer resolves")
	}
}

func init() {
	register(&Rule{
		Name: "response-status-once", Props: []string{"C20", "C02"}, Engine: "AST", Floor: 2,
		Doc: "the client's response header reader accepts :status at most once per response (a seen-marker is tested, rejecting, before the status is stored, and set with it) and a response whose header block carried no :status is failed (the marker is tested, negated and rejecting, where the block or the response ends); RFC 7540 s8.1.2.4",
		Run: ruleResponseStatusOnce,
	})
}

func ruleResponseStatusOnce(p *Prog, r *Out) {
	fd := p.decl("(*Conn).readHeader")
	if fd == nil {
		r.undecided("(*Conn).readHeader", "?", "no longer resolves")
		return
	}
	r.fn("(*Conn).readHeader", "(*Conn).readStream", "(*Conn).dispatch")
	// the statement list that stores the status
	var list []ast.Stmt
	var store ast.Stmt
	ast.Inspect(fd.Body, func(n ast.Node) bool {
		b, ok := n.(*ast.BlockStmt)
		if !ok {
			return true
		}
		for _, s := range b.List {
			if es, ok := s.(*ast.ExprStmt); ok {
				if c, ok := es.X.(*ast.CallExpr); ok && strings.HasSuffix(p.calleeOf(c), ".SetStatusCode") {
					list, store = b.List, s
				}
			}
		}
		return true
	})
	if store == nil {
		r.bad("status stored", p.pos(fd.Pos()), "readHeader never stores the status code")
		return
	}
	// a marker: tested (rejecting) before the store and set true in the same list
	marker := ""
	for _, s := range list {
		if s == store {
			break
		}
		if ifs, ok := s.(*ast.IfStmt); ok && isRejectingBody(p, ifs.Body) {
			cond := ast.Unparen(ifs.Cond)
			switch cond.(type) {
			case *ast.Ident, *ast.SelectorExpr:
				name := squash(p.text(cond))
				if name != "regularSeen" {
					for _, s2 := range list {
						if as, ok := s2.(*ast.AssignStmt); ok && len(as.Lhs) == 1 && squash(p.text(as.Lhs[0])) == name && p.text(as.Rhs[0]) == "true" {
							marker = name
						}
					}
				}
			}
		}
	}
	r.check(marker != "", "duplicate :status rejected", p.pos(store.Pos()), "if seen { reject }; seen = true; SetStatusCode", "the response reader stores every :status it meets: a header block with two :status fields is accepted and the caller gets the last one, where RFC 7540 s8.1.2.4 allows exactly one and calls anything else malformed")
	// presence: a rejecting test of the negated marker in the reader, readStream or dispatch
	present := false
	if marker != "" {
		for _, fn := range []string{"(*Conn).readHeader", "(*Conn).readStream", "(*Conn).dispatch"} {
			d := p.decl(fn)
			if d == nil {
				continue
			}
			ast.Inspect(d.Body, func(n ast.Node) bool {
				if ifs, ok := n.(*ast.IfStmt); ok {
					for _, a := range conjuncts(ifs.Cond, true) {
						if !a.Val && squash(p.text(a.Cond)) == marker && (isRejectingBody(p, ifs.Body) || strings.Contains(p.text(ifs.Body), "finish(")) {
							present = true
						}
					}
				}
				return true
			})
		}
	}
	r.check(present, ":status presence checked", p.pos(fd.Pos()), "if !seen { reject } at the end of the response's header block", "nothing fails a response whose header block carries no :status (an empty block, or regular fields only): the caller is handed fasthttp's default 200 for a response the server never gave a status, where RFC 7540 s8.1.2.4 makes it malformed")
}

func init() {
	register(&Rule{
		Name: "emitter-payloads", Props: []string{"C14", "C09", "C10", "C18", "C05"}, Engine: "AST", Floor: 12,
		Doc: "every function that emits a control frame fills the payload from its arguments, attaches it to the frame header and queues the header: WINDOW_UPDATE carries the increment it was asked for, RST_STREAM and GOAWAY their code (GOAWAY also the stream and message), a PING answer has ACK set and echoes the received data, a SETTINGS acknowledgement has ACK set",
		Run: ruleEmitterPayloads,
	})
	register(&Rule{
		Name: "client-response-shape", Props: []string{"C02", "C20", "C07", "C14"}, Engine: "FDE", Floor: 8,
		Doc: "the client's response path: DATA octets are appended to the response whenever the frame has any; the header reader walks the whole block, accepts :status exactly in 100..999 and stores it, marks regular fields as seen, stores content-length through its setter and every other field with AddBytesKV; a received SETTINGS frame is copied, and its INITIAL_WINDOW_SIZE (when present) is applied to the open streams",
		Run: ruleClientResponseShape,
	})
}

func ruleEmitterPayloads(p *Prog, r *Out) {
	type need struct{ callee, arg string }
	type em struct {
		fn    string
		needs []need
		queue string // callee that sends the header
	}
	ems := []em{
		{"(*serverConn).writeWindowUpdate", []need{{"(*WindowUpdate).SetIncrement", "inc"}, {"(*FrameHeader).SetBody", "wu"}}, "(*serverConn).write"},
		{"(*serverConn).writeReset", []need{{"(*RstStream).SetCode", "code"}, {"(*FrameHeader).SetBody", "r"}}, "(*serverConn).write"},
		{"(*serverConn).writeGoAway", []need{{"(*GoAway).SetStream", "last"}, {"(*GoAway).SetCode", "code"}, {"(*GoAway).SetData", "[]byte(message)"}, {"(*FrameHeader).SetBody", "ga"}}, "(*serverConn).write"},
		{"(*serverConn).handlePing", []need{{"(*Ping).SetAck", "true"}, {"(*Ping).SetData", "ping.Data()"}, {"(*FrameHeader).SetBody", "ack"}}, "(*serverConn).write"},
		{"(*serverConn).writePing", []need{{"(*FrameHeader).SetBody", "ping"}}, "(*serverConn).write"},
		{"(*Conn).updateWindow", []need{{"(*WindowUpdate).SetIncrement", "size"}, {"(*FrameHeader).SetBody", "wu"}}, "(*Conn).writeOut"},
		{"(*Conn).cancelStream", []need{{"(*RstStream).SetCode", "code"}, {"(*FrameHeader).SetBody", "fr"}}, "(*Conn).writeOut"},
		{"(*Conn).resetStreamNow", []need{{"(*RstStream).SetCode", "code"}, {"(*FrameHeader).SetBody", "fr"}}, "(*Conn).writeFrame"},
		{"(*Conn).handlePing", []need{{"(*Ping).SetAck", "true"}, {"(*Ping).SetData", "ping.Data()"}, {"(*FrameHeader).SetBody", "ack"}}, "(*Conn).writeOut"},
		{"(*Conn).handleSettings", []need{{"(*Settings).SetAck", "true"}, {"(*FrameHeader).SetBody", "stRes"}}, "(*Conn).writeOut"},
		{"(*Conn).writePing", []need{{"(*FrameHeader).SetBody", "ping"}}, "(*FrameHeader).WriteTo"},
	}
	for _, e := range ems {
		fd := p.decl(e.fn)
		if fd == nil {
			r.undecided(e.fn, "?", "no longer resolves")
			continue
		}
		r.fn(e.fn)
		got := map[string]bool{}
		queued := false
		// only statements at the top level of the function count: a conditional payload is not a payload
		for _, s := range fd.Body.List {
			var call *ast.CallExpr
			switch x := s.(type) {
			case *ast.ExprStmt:
				call, _ = x.X.(*ast.CallExpr)
			case *ast.AssignStmt:
				if len(x.Rhs) == 1 {
					call, _ = x.Rhs[0].(*ast.CallExpr)
				}
			case *ast.ReturnStmt:
				// `return c.writeFrame(h)`: the write is the function's result
				if len(x.Results) == 1 {
					call, _ = x.Results[0].(*ast.CallExpr)
				}
			}
			if call == nil {
				continue
			}
			name := p.calleeOf(call)
			if name == e.queue {
				queued = true
			}
			if len(call.Args) == 1 {
				got[name+"|"+squash(p.text(call.Args[0]))] = true
			}
		}
		var missing []string
		for _, n := range e.needs {
			if !got[n.callee+"|"+squash(n.arg)] {
				missing = append(missing, n.callee[strings.LastIndex(n.callee, ".")+1:]+"("+n.arg+")")
			}
		}
		r.check(len(missing) == 0 && queued, e.fn+" fills and queues its frame", p.pos(fd.Pos()), "payload set from the arguments, SetBody, queued", fmt.Sprintf("%s no longer performs %v (frame queued: %v): the frame goes out with a zero increment / code / without ACK / without its payload, or not at all", e.fn, missing, queued))
	}
	// server SETTINGS acknowledgement
	if fd := p.decl("(*serverConn).handleSettings"); fd != nil {
		ack := false
		inspectCalls(fd.Body, func(c *ast.CallExpr) {
			if p.calleeOf(c) == "(*Settings).SetAck" && p.text(c.Args[0]) == "true" {
				ack = true
			}
		})
		r.check(ack, "(*serverConn).handleSettings acknowledges with ACK set", p.pos(fd.Pos()), "SetAck(true)", "the server's reply to a SETTINGS frame no longer has ACK set: the peer reads it as a new, empty SETTINGS frame and acknowledges that instead")
	}
}

func ruleClientResponseShape(p *Prog, r *Out) {
	if fd := p.decl("(*Conn).readStream"); fd != nil {
		r.fn("(*Conn).readStream", "(*Conn).readHeader", "(*Conn).handleSettings")
		c := fdeCheck{p, r, p.pos(fd.Pos())}
		var dataClause *ast.CaseClause
		ast.Inspect(fd.Body, func(n ast.Node) bool {
			if cc, ok := n.(*ast.CaseClause); ok && len(cc.List) == 1 && p.text(cc.List[0]) == "FrameData" {
				dataClause = cc
			}
			return true
		})
		if dataClause == nil {
			r.bad("DATA octets reach the response", c.pos, "readStream has no DATA clause")
		} else {
			okApp := false
			for _, s := range dataClause.Body {
				switch x := s.(type) {
				case *ast.IfStmt:
					app := false
					inspectCalls(x.Body, func(cl *ast.CallExpr) {
						if strings.HasSuffix(p.calleeOf(cl), ".AppendBody") && squash(p.text(cl.Args[0])) == "data.Data()" {
							app = true
						}
					})
					if app {
						okApp = true
						c.expr("DATA appended whenever the frame has octets", x.Cond, fdeDomain{[]string{"data.Len()"}, [][]int64{seq(0, 3)}}, nil, func(e fdeEnv) int64 { return b2i(e["data.Len()"] != 0) }, "data.Len() != 0", "a one-octet DATA frame is body too")
					}
				case *ast.ExprStmt:
					if cl, ok := x.X.(*ast.CallExpr); ok && strings.HasSuffix(p.calleeOf(cl), ".AppendBody") && squash(p.text(cl.Args[0])) == "data.Data()" {
						okApp = true
						r.ok("DATA appended whenever the frame has octets", p.pos(x.Pos()), "unconditional append")
					}
				}
			}
			r.check(okApp, "DATA octets reach the response", p.pos(dataClause.Pos()), "res.AppendBody(data.Data())", "the DATA clause of the client's stream reader no longer appends the frame's octets to the response body")
		}
	} else {
		r.undecided("(*Conn).readStream", "?", "no longer resolves")
	}
	if fd := p.decl("(*Conn).readHeader"); fd != nil {
		c := fdeCheck{p, r, p.pos(fd.Pos())}
		var loop *ast.ForStmt
		for _, s := range fd.Body.List {
			if fs, ok := s.(*ast.ForStmt); ok {
				loop = fs
			}
		}
		if loop == nil || loop.Cond == nil {
			r.bad("header block is read to its end", c.pos, "readHeader has no decode loop")
			return
		}
		c.expr("header block is read to its end", loop.Cond, fdeDomain{[]string{"len(b)"}, [][]int64{seq(0, 3)}}, nil, func(e fdeEnv) int64 { return b2i(e["len(b)"] > 0) }, "len(b) > 0", "the last field of a block may be a single octet (an indexed field)")
		var statusIf *ast.IfStmt
		stored, regular, cl, other := false, false, false, false
		ast.Inspect(loop.Body, func(n ast.Node) bool {
			switch x := n.(type) {
			case *ast.IfStmt:
				if isRejectingBody(p, x.Body) && strings.Contains(p.text(x.Body), "errInvalidStatus") {
					statusIf = x
				}
			case *ast.CallExpr:
				switch {
				case strings.HasSuffix(p.calleeOf(x), ".SetStatusCode") && p.text(x.Args[0]) == "n":
					stored = true
				case strings.HasSuffix(p.calleeOf(x), ".SetContentLength") && p.text(x.Args[0]) == "n":
					cl = true
				case strings.HasSuffix(p.calleeOf(x), ".AddBytesKV") && squash(p.text(x.Args[0])) == "hf.KeyBytes()" && squash(p.text(x.Args[1])) == "hf.ValueBytes()":
					other = true
				}
			}
			return true
		})
		for _, s := range loop.Body.List {
			if as, ok := s.(*ast.AssignStmt); ok && (p.text(as.Lhs[0]) == "regularSeen" || squash(p.text(as.Lhs[0])) == "c.block.regularSeen") && p.text(as.Rhs[0]) == "true" {
				regular = true
			}
		}
		if statusIf != nil {
			c.expr("status accepted exactly in 100..999", statusIf.Cond, fdeDomain{[]string{"err!=nil", "n", "len(hf.ValueBytes())"}, [][]int64{{0, 1}, {0, 7, 99, 100, 101, 200, 999, 1000, 12345}, {0, 2, 3, 4, 6}}}, nil, func(e fdeEnv) int64 {
				return b2i(e["err!=nil"] != 0 || e["len(hf.ValueBytes())"] != 3 || e["n"] < 100 || e["n"] > 999)
			}, "err != nil || len(value) != 3 || n < 100 || n > 999", "a :status is three digits (\"0200\" is a number in range and not a status); anything else is malformed, and every three-digit value from 100 up is legal")
		} else {
			r.bad("status accepted exactly in 100..999", c.pos, "no rejecting status-range test in readHeader")
		}
		r.check(stored, "status reaches the response", c.pos, "res.SetStatusCode(n)", "the decoded :status is no longer stored in the response")
		r.check(regular, "regular fields are marked as seen", c.pos, "regularSeen = true at the top level of the loop", "a regular field no longer marks the block as past its pseudo-headers: a :status after a regular field is accepted")
		r.check(cl && other, "fields reach the response header", c.pos, "SetContentLength(n) / AddBytesKV(key, value)", "decoded fields no longer reach the response header (content-length through its setter, every other field through AddBytesKV)")
	} else {
		r.undecided("(*Conn).readHeader", "?", "no longer resolves")
	}
	if fd := p.decl("(*Conn).handleSettings"); fd != nil {
		cp, win := false, false
		for _, s := range fd.Body.List {
			switch x := s.(type) {
			case *ast.ExprStmt:
				if cl, ok := x.X.(*ast.CallExpr); ok && (p.calleeOf(cl) == "(*Settings).CopyTo" || p.calleeOf(cl) == "(*Settings).applyTo") && squash(p.text(cl.Args[0])) == "&c.serverS" {
					cp = true
				}
			case *ast.IfStmt:
				if squash(p.text(x.Cond)) == "st.hasWindowSize" {
					inspectCalls(x.Body, func(cl *ast.CallExpr) {
						if p.calleeOf(cl) == "(*Conn).applyInitialWindow" && squash(p.text(cl.Args[0])) == "int32(st.MaxWindowSize())" {
							win = true
						}
					})
				}
			}
		}
		r.check(cp, "client keeps the server's settings", p.pos(fd.Pos()), "st.CopyTo(&c.serverS)", "the client no longer copies a received SETTINGS frame into its record of the server's settings")
		r.check(win, "INITIAL_WINDOW_SIZE change reaches the open streams", p.pos(fd.Pos()), "if st.hasWindowSize { applyInitialWindow(new) }", "a received SETTINGS_INITIAL_WINDOW_SIZE is no longer applied to the streams that are open (RFC 7540 s6.9.2): their send windows keep the old size, so the client stalls or overruns the server's window")
	}
}

func init() {
	register(&Rule{
		Name: "ctx-ownership-protocol", Props: []string{"C12", "C19", "C02"}, Engine: "AST", Floor: 6,
		Doc: "the hand-over of a request context between its caller and the connection: acquire refuses (unlocking) once the caller took the context back; acquireFor refuses when it was taken back, belongs to another connection, or to another stream (a pure three-way disjunction); takeBack sets done under lck; markFinished sets finished under resLck; reusable is 'the timer was stopped (or never armed) and the connection has finished with it'",
		Run: ruleCtxOwnership,
	})
	register(&Rule{
		Name: "retry-predicate", Props: []string{"C11", "C12", "C07"}, Engine: "FDE", Floor: 6,
		Doc: "retryable(err) is false for nil and true exactly for the three errors that are produced before anything is written (connection closed at pick time, no stream available, stream ids exhausted); RoundTrip returns at once on success or on a non-retryable error, never reports retry=true for those, gives up once an attempt has consumed a streamed body, and bounds its attempts",
		Run: ruleRetryPredicate,
	})
}

func lockWindow(p *Prog, list []ast.Stmt, lockText string) (lo, hi int) {
	lo, hi = -1, -1
	for i, s := range list {
		if es, ok := s.(*ast.ExprStmt); ok {
			t := squash(p.text(es.X))
			if t == lockText+".Lock()" && lo < 0 {
				lo = i
			}
			// a method of the same receiver that returns with this mutex held
			if c, ok := es.X.(*ast.CallExpr); ok && lo < 0 {
				if m, ok := p.lockWrappers()[p.calleeOf(c)]; ok && strings.HasSuffix(lockText, "."+m[strings.Index(m, ".")+1:]) {
					lo = i
				}
			}
			if t == lockText+".Unlock()" {
				hi = i
			}
		}
	}
	return
}

func ruleCtxOwnership(p *Prog, r *Out) {
	refuses := func(ifs *ast.IfStmt) bool {
		if len(ifs.Body.List) != 2 {
			return false
		}
		es, ok := ifs.Body.List[0].(*ast.ExprStmt)
		res := retResults(ifs.Body.List[1])
		return ok && squash(p.text(es.X)) == "ctx.lck.Unlock()" && len(res) == 1 && p.text(res[0]) == "false"
	}
	for _, spec := range []struct {
		fn    string
		atoms []string
		why   string
	}{
		{"(*Ctx).acquire", []string{"ctx.done"}, "the connection goes on to use a Request and Response that were handed back to their caller"},
		{"(*Ctx).acquireFor", []string{"ctx.done", "ctx.conn.Load()!=c", "atomic.LoadUint32(&ctx.streamID)!=id"}, "a frame is applied to a context that was handed back, recycled for another connection, or belongs to another stream: the response lands in somebody else's request"},
	} {
		fd := p.decl(spec.fn)
		if fd == nil {
			r.undecided(spec.fn, "?", "no longer resolves")
			continue
		}
		r.fn(spec.fn)
		list := fd.Body.List
		ok := false
		if len(list) == 3 {
			l0, isL := list[0].(*ast.ExprStmt)
			ifs, isIf := list[1].(*ast.IfStmt)
			res := retResults(list[2])
			takes := false
			if isL {
				takes = squash(p.text(l0.X)) == "ctx.lck.Lock()"
				if c, ok := l0.X.(*ast.CallExpr); ok && p.lockWrappers()[p.calleeOf(c)] == "Ctx.lck" {
					takes = true
				}
			}
			if isL && isIf && takes && len(res) == 1 && p.text(res[0]) == "true" && refuses(ifs) {
				atoms, pure := pureJunction(ifs.Cond, false)
				want := map[string]bool{}
				for _, a := range spec.atoms {
					want[a] = true
				}
				good := pure && len(atoms) == len(spec.atoms)
				for _, a := range atoms {
					if a.Val || !want[squash(p.text(a.Cond))] {
						good = false
					}
				}
				ok = good
			}
		}
		r.check(ok, spec.fn+" refuses a context that is not the connection's", p.pos(fd.Pos()), "Lock; if "+strings.Join(spec.atoms, " || ")+" { Unlock; return false }; return true", spec.fn+" no longer is `lock; refuse (unlocking) when "+strings.Join(spec.atoms, " or ")+"; else return true holding the lock`: "+spec.why)
	}
	if fd := p.decl("(*Ctx).takeBack"); fd != nil {
		r.fn("(*Ctx).takeBack")
		lo, hi := lockWindow(p, fd.Body.List, "ctx.lck")
		set := -1
		for i, s := range fd.Body.List {
			if as, ok := s.(*ast.AssignStmt); ok && squash(p.text(as.Lhs[0])) == "ctx.done" && p.text(as.Rhs[0]) == "true" {
				set = i
			}
		}
		r.check(lo >= 0 && lo < set && set < hi, "takeBack marks done under lck", p.pos(fd.Pos()), "lck.Lock(); done = true; lck.Unlock()", "takeBack no longer sets done while holding lck: it returns while the connection is still inside the Request/Response, or never stops it from entering again")
	}
	if fd := p.decl("(*Ctx).markFinished"); fd != nil {
		r.fn("(*Ctx).markFinished")
		lo, hi := lockWindow(p, fd.Body.List, "ctx.resLck")
		set := -1
		for i, s := range fd.Body.List {
			if as, ok := s.(*ast.AssignStmt); ok && squash(p.text(as.Lhs[0])) == "ctx.finished" && p.text(as.Rhs[0]) == "true" {
				set = i
			}
		}
		r.check(lo >= 0 && lo < set && set < hi, "markFinished marks finished under resLck", p.pos(fd.Pos()), "resLck.Lock(); finished = true; resLck.Unlock()", "markFinished no longer sets finished under resLck: a context is never reusable (every request allocates), or reusable() reads it unsynchronised")
	}
	if fd := p.decl("(*Ctx).reusable"); fd != nil {
		r.fn("(*Ctx).reusable")
		initTrue, stopOK, retOK := false, false, false
		for _, s := range fd.Body.List {
			switch x := s.(type) {
			case *ast.AssignStmt:
				if p.text(x.Lhs[0]) == "stopped" && p.text(x.Rhs[0]) == "true" && x.Tok == token.DEFINE {
					initTrue = true
				}
			case *ast.IfStmt:
				if squash(p.text(x.Cond)) == "ctx.armed" {
					dis, st := false, false
					for _, b := range x.Body.List {
						if as, ok := b.(*ast.AssignStmt); ok {
							if squash(p.text(as.Lhs[0])) == "ctx.armed" && p.text(as.Rhs[0]) == "false" {
								dis = true
							}
							if p.text(as.Lhs[0]) == "stopped" && squash(p.text(as.Rhs[0])) == "ctx.timer.Stop()" {
								st = true
							}
						}
					}
					stopOK = dis && st
				}
			case *ast.ReturnStmt:
				if len(x.Results) == 1 && p.isConjunctionOf(x.Results[0], "stopped", "ctx.finished") {
					retOK = true
				}
			}
		}
		r.check(initTrue && stopOK && retOK, "reusable = timer stopped and connection finished", p.pos(fd.Pos()), "stopped := true; if armed { armed = false; stopped = timer.Stop() }; return stopped && finished", "reusable no longer means 'the cancel timer cannot fire any more and the connection dropped the stream': a context goes back to the pool while its timer or the read loop can still reach it, and the next request that draws it is cancelled or answered by a stranger")
	}
	if fd := p.decl("(*Client).roundTripOnce"); fd != nil {
		r.fn("(*Client).roundTripOnce")
		armOK := false
		for _, s := range fd.Body.List {
			if ifs, ok := s.(*ast.IfStmt); ok {
				if c, okc := p.canonCmp(ifs.Cond, nil); okc && c.Op == "le" && c.L.eq(Lin{T: map[string]int64{"cl.opts.MaxResponseTime": -1}, C: 1}) {
					a, rs := false, false
					for _, b := range ifs.Body.List {
						if as, ok := b.(*ast.AssignStmt); ok && squash(p.text(as.Lhs[0])) == "ctx.armed" && p.text(as.Rhs[0]) == "true" {
							a = true
						}
						if es, ok := b.(*ast.ExprStmt); ok && squash(p.text(es.X)) == "ctx.timer.Reset(cl.opts.MaxResponseTime)" {
							rs = true
						}
					}
					armOK = a && rs
				}
			}
		}
		r.check(armOK, "response timer armed and recorded together", p.pos(fd.Pos()), "if MaxResponseTime > 0 { armed = true; timer.Reset(MaxResponseTime) }", "the request's response timer is no longer armed, and marked armed, exactly when a response time is configured: the request has no timeout, or reusable() does not stop a timer that is running")
	}
}

func ruleRetryPredicate(p *Prog, r *Out) {
	if fd := p.decl("retryable"); fd != nil {
		r.fn("retryable")
		nilFalse := false
		if ifs, ok := fd.Body.List[0].(*ast.IfStmt); ok && squash(p.text(ifs.Cond)) == "err==nil" {
			if res := firstReturn(ifs.Body); len(res) == 1 && p.text(res[0]) == "false" {
				nilFalse = true
			}
		}
		r.check(nilFalse, "success is not retryable", p.pos(fd.Pos()), "if err == nil { return false }", "retryable no longer answers false for a nil error")
		last := retResults(fd.Body.List[len(fd.Body.List)-1])
		ok := false
		got := []string{}
		if len(last) == 1 {
			atoms, pure := pureJunction(last[0], false)
			want := map[string]bool{"errors.Is(err,ErrConnectionClosed)": true, "errors.Is(err,ErrNotAvailableStreams)": true, "errors.Is(err,ErrNoMoreStreamIDs)": true}
			ok = pure && len(atoms) == 3
			for _, a := range atoms {
				t := squash(p.text(a.Cond))
				got = append(got, t)
				if a.Val || !want[t] {
					ok = false
				}
			}
		}
		r.check(ok, "retryable is exactly the three pre-wire errors", p.pos(fd.Pos()), "Is(ErrConnectionClosed) || Is(ErrNotAvailableStreams) || Is(ErrNoMoreStreamIDs)", fmt.Sprintf("retryable's verdict is no longer the plain disjunction of the three errors that are only produced before a request is written (found %v): a request the server may have processed is sent again, or one it never saw is not", got))
	} else {
		r.undecided("retryable", "?", "no longer resolves")
	}
	if fd := p.decl("(*Client).RoundTrip"); fd != nil {
		r.fn("(*Client).RoundTrip")
		c := fdeCheck{p, r, p.pos(fd.Pos())}
		var loop *ast.ForStmt
		for _, s := range fd.Body.List {
			if fs, ok := s.(*ast.ForStmt); ok {
				loop = fs
			}
		}
		if loop == nil {
			r.bad("RoundTrip retry loop", c.pos, "RoundTrip has no retry loop")
			return
		}
		var stopIf, lastIf, spentIf *ast.IfStmt
		for _, s := range loop.Body.List {
			if ifs, ok := s.(*ast.IfStmt); ok {
				if strings.Contains(p.text(ifs.Cond), "retryable") {
					stopIf = ifs
				} else if mentionsIdent(ifs.Cond, "attempt") {
					lastIf = ifs
				} else if strings.Contains(p.text(ifs.Cond), "IsBodyStream") {
					spentIf = ifs
				}
			}
		}
		// a streamed body an attempt has started on cannot be replayed: the
		// connection closes the reader when it gives the request up
		wasStreamed := ""
		for _, s := range fd.Body.List {
			if as, ok := s.(*ast.AssignStmt); ok && len(as.Lhs) == 1 && len(as.Rhs) == 1 && s.Pos() < loop.Pos() {
				if cl, ok := as.Rhs[0].(*ast.CallExpr); ok && strings.HasSuffix(p.calleeOf(cl), ".IsBodyStream") && p.text(cl.Fun) == "req.IsBodyStream" {
					wasStreamed = p.text(as.Lhs[0])
				}
			}
		}
		if spentIf != nil && wasStreamed != "" {
			c.expr("a consumed body stream ends the attempts", spentIf.Cond, fdeDomain{[]string{wasStreamed, "req.IsBodyStream()"}, [][]int64{{0, 1}, {0, 1}}}, nil, func(e fdeEnv) int64 { return b2i(e[wasStreamed] != 0 && e["req.IsBodyStream()"] == 0) }, "streamed && !req.IsBodyStream()", "a request whose body stream an attempt has closed goes out again with no body at all and is reported as sent")
			res := firstReturn(spentIf.Body)
			before := lastIf == nil || spentIf.Pos() < lastIf.Pos()
			r.check(len(res) == 2 && p.text(res[0]) == "false" && p.text(res[1]) == "err" && before, "a consumed body stream is not handed to fasthttp's retry either", p.pos(spentIf.Pos()), "return false, err before the last-attempt test", "RoundTrip reports retry=true, or tries again itself, for a request whose body stream is gone")
		} else {
			r.bad("a consumed body stream ends the attempts", c.pos, "RoundTrip no longer compares the request's body stream before and after an attempt: a streamed body that a connection started on and closed (GOAWAY disclaiming the stream) is sent again empty, and Do reports success")
		}
		if stopIf != nil {
			c.expr("RoundTrip stops on success or a non-retryable error", stopIf.Cond, fdeDomain{[]string{"err==nil", "retryable(err)"}, [][]int64{{0, 1}, {0, 1}}}, nil, func(e fdeEnv) int64 { return b2i(e["err==nil"] != 0 || e["retryable(err)"] == 0) }, "err == nil || !retryable(err)", "anything else re-sends a request the server may have processed, or loops on a success")
			res := firstReturn(stopIf.Body)
			r.check(len(res) == 2 && p.text(res[0]) == "false" && p.text(res[1]) == "err", "no retry flag on success or a processed request", p.pos(stopIf.Pos()), "return false, err", "RoundTrip reports retry=true for a request that succeeded or that the server may have processed: fasthttp sends it again")
		} else {
			r.bad("RoundTrip stops on success or a non-retryable error", c.pos, "no stop test in the retry loop")
		}
		bounded := false
		if lastIf != nil {
			if cmp, ok := p.canonCmp(lastIf.Cond, nil); ok && cmp.Op == "eq" && len(cmp.L.T) == 1 {
				if res := firstReturn(lastIf.Body); len(res) == 2 && p.text(res[0]) == "true" {
					bounded = true
				}
			}
		}
		inc, _ := loop.Post.(*ast.IncDecStmt)
		initOK := false
		if as, ok := loop.Init.(*ast.AssignStmt); ok {
			if v, okv := p.intConst(as.Rhs[0]); okv && v == 0 {
				initOK = true
			}
		}
		n, _ := p.pkgConst("roundTripAttempts")
		r.check(bounded && inc != nil && inc.Tok == token.INC && initOK && n >= 1 && n <= 16, "RoundTrip bounds its attempts", p.pos(loop.Pos()), "for attempt := 0; ; attempt++ { ...; if attempt == N-1 { return true, err } }", "the retry loop no longer counts its attempts up from zero to a small bound: a connection that keeps turning the request away keeps it spinning")
	}
}

func init() {
	register(&Rule{
		Name: "send-loop-shape", Props: []string{"C06", "C01"}, Engine: "FDE", Floor: 4,
		Doc: "one iteration of the server's DATA loop: the chunk is cut, END_STREAM is 'the body has ended and nothing is left after this chunk', the frame is queued, both windows are debited by the chunk with no way out of the iteration in between, and an iteration that sent END_STREAM leaves the loop (nothing more is asked of the body and no second END_STREAM can follow)",
		Run: ruleSendLoopShape,
	})
}

func ruleSendLoopShape(p *Prog, r *Out) {
	fd := p.decl("(*serverConn).sendData")
	if fd == nil {
		r.undecided("(*serverConn).sendData", "?", "no longer resolves")
		return
	}
	r.fn("(*serverConn).sendData")
	var loop *ast.ForStmt
	for _, s := range fd.Body.List {
		if fs, ok := s.(*ast.ForStmt); ok && loop == nil {
			loop = fs
		}
	}
	if loop == nil {
		r.bad("DATA loop", p.pos(fd.Pos()), "sendData has no loop")
		return
	}
	list := loop.Body.List
	writeIdx, lastDebit, debits, endDef, exitIdx := -1, -1, 0, -1, -1
	var endExpr ast.Expr
	for i, s := range list {
		switch x := s.(type) {
		case *ast.ExprStmt:
			if c, ok := x.X.(*ast.CallExpr); ok && p.calleeOf(c) == "(*serverConn).write" {
				writeIdx = i
			}
		case *ast.AssignStmt:
			if x.Tok == token.SUB_ASSIGN && p.ubKey(x.Rhs[0]) == "step" {
				l := squash(p.text(x.Lhs[0]))
				if l == "strm.window" || l == "sc.clientWindow" {
					debits++
					lastDebit = i
				}
			}
			if x.Tok == token.DEFINE && len(x.Lhs) == 1 && p.text(x.Lhs[0]) == "end" {
				endDef, endExpr = i, x.Rhs[0]
			}
		case *ast.IfStmt:
			if p.text(x.Cond) == "end" && len(x.Body.List) >= 1 {
				switch b := x.Body.List[len(x.Body.List)-1].(type) {
				case *ast.BranchStmt:
					if b.Tok == token.BREAK {
						exitIdx = i
					}
				case *ast.ReturnStmt:
					exitIdx = i
				}
			}
		}
	}
	plain := writeIdx >= 0 && lastDebit > writeIdx
	if plain {
		for _, s := range list[writeIdx+1 : lastDebit+1] {
			switch s.(type) {
			case *ast.AssignStmt, *ast.ExprStmt, *ast.IncDecStmt:
			default:
				plain = false
			}
		}
	}
	r.check(debits == 2 && plain, "queued chunk is debited from both windows before anything can leave the iteration", p.pos(loop.Pos()), "sc.write(fr); strm.window -= step; sc.clientWindow -= step", "between queuing the DATA frame and debiting the stream and connection windows there is a way out of the iteration (or a debit is missing): the octets of that frame are sent but never charged, so the server goes on to send more than the peer granted")
	c := fdeCheck{p, r, p.pos(fd.Pos())}
	c.expr("END_STREAM iff the body has ended and this chunk is its last", endExpr, fdeDomain{[]string{"strm.pendingEnd", "len(strm.pendingData)"}, [][]int64{{0, 1}, seq(0, 3)}}, nil, func(e fdeEnv) int64 {
		return b2i(e["strm.pendingEnd"] != 0 && e["len(strm.pendingData)"] == 0)
	}, "pendingEnd && len(pendingData) == 0", "END_STREAM on a chunk that is not the last truncates the response; not setting it on the last leaves the peer waiting")
	// the chunk is cut before `end` is computed
	cut := false
	for _, s := range list[:max(endDef, 0)] {
		if as, ok := s.(*ast.AssignStmt); ok && squash(p.text(as.Lhs[0])) == "strm.pendingData" && squash(p.text(as.Rhs[0])) == "strm.pendingData[step:]" {
			cut = true
		}
	}
	flagged := false
	for _, s := range list {
		if es, ok := s.(*ast.ExprStmt); ok {
			if cl, ok := es.X.(*ast.CallExpr); ok && p.calleeOf(cl) == "(*Data).SetEndStream" && p.text(cl.Args[0]) == "end" {
				flagged = true
			}
		}
	}
	r.check(cut && flagged && endDef < writeIdx, "END_STREAM is computed after the cut and put on the frame", p.pos(loop.Pos()), "pendingData = pendingData[step:]; end := ...; data.SetEndStream(end)", "the END_STREAM decision is no longer taken after the chunk was cut from the pending data and stored on the frame that carries the chunk")
	r.check(exitIdx > lastDebit && lastDebit >= 0, "an iteration that sent END_STREAM leaves the loop", p.pos(loop.Pos()), "after the debits: if end { break }", "after a DATA frame with END_STREAM the loop goes round again: a streamed body is asked for more, answers (0, io.EOF), and a second, empty DATA frame with END_STREAM goes out on a stream that is already closed (STREAM_CLOSED at a strict peer)")
}

func init() {
	register(&Rule{
		Name: "no-phantom-field", Props: []string{"C01", "C02", "C03", "C20"}, Engine: "FDE", Floor: 2,
		Doc: "both header-block readers (server request, client response) recognise a decoder call that consumed the rest of the fragment without producing a field (a dynamic table size update at the end of a HEADERS/CONTINUATION fragment) and skip it, before anything reads the field: otherwise the untouched, empty field object is validated and delivered as a regular field, and the pseudo-headers in the next fragment are refused",
		Run: ruleNoPhantomField,
	})
}

func ruleNoPhantomField(p *Prog, r *Out) {
	for _, fn := range []string{"(*serverConn).handleHeaderFrame", "(*Conn).readHeader"} {
		fd := p.decl(fn)
		if fd == nil {
			r.undecided(fn, "?", "no longer resolves")
			continue
		}
		r.fn(fn)
		var loop *ast.ForStmt
		ast.Inspect(fd.Body, func(n ast.Node) bool {
			if fs, ok := n.(*ast.ForStmt); ok && loop == nil {
				dec := false
				inspectCalls(fs.Body, func(c *ast.CallExpr) {
					if nm := p.calleeOf(c); nm == "(*HPACK).nextField" || nm == "(*HPACK).Next" || nm == "(*Conn).nextField" {
						dec = true
					}
				})
				if dec {
					loop = fs
				}
			}
			return true
		})
		if loop == nil {
			r.bad(fn+" skips a call that decoded nothing", p.pos(fd.Pos()), "no decode loop found")
			continue
		}
		decIdx, guardIdx, useIdx := -1, -1, -1
		var guard *ast.IfStmt
		for i, s := range loop.Body.List {
			isDec := false
			inspectCalls(s, func(c *ast.CallExpr) {
				if nm := p.calleeOf(c); nm == "(*HPACK).nextField" || nm == "(*HPACK).Next" || nm == "(*Conn).nextField" {
					isDec = true
				}
			})
			if isDec && decIdx < 0 {
				decIdx = i
				continue
			}
			if decIdx < 0 {
				continue
			}
			if ifs, ok := s.(*ast.IfStmt); ok && guardIdx < 0 && (strings.Contains(p.text(ifs.Cond), "hf.Empty()") || strings.HasSuffix(squash(p.text(ifs.Cond)), ".fieldDecoded")) && len(ifs.Body.List) >= 1 {
				if b, ok := ifs.Body.List[len(ifs.Body.List)-1].(*ast.BranchStmt); ok && (b.Tok == token.BREAK || b.Tok == token.CONTINUE) {
					guardIdx, guard = i, ifs
					continue
				}
			}
			// first use of the decoded field
			if useIdx < 0 {
				if ifs, ok := s.(*ast.IfStmt); ok && squash(p.text(ifs.Cond)) == "err!=nil" {
					continue // the error check of the decode call
				}
				uses := false
				ast.Inspect(s, func(n ast.Node) bool {
					if id, ok := n.(*ast.Ident); ok && id.Name == "hf" {
						uses = true
					}
					return true
				})
				if uses {
					useIdx = i
				}
			}
		}
		key := fn + " skips a call that decoded nothing"
		if guard == nil || (useIdx >= 0 && useIdx < guardIdx) {
			r.bad(key, p.pos(loop.Pos()), fn+" uses the field object after every successful decoder call: a HEADERS or CONTINUATION fragment that ends in a dynamic table size update leaves the object empty, and that empty field is validated and delivered as a regular field (the pseudo-headers in the next fragment are then refused as 'after a regular field')")
			continue
		}
		r.check(isNoFieldTest(p, guard.Cond), key, p.pos(fd.Pos()), "if !dec.fieldDecoded { break }", fn+" no longer takes the decoder's word for whether its last step produced a field: judged by the look of the field object, a field with neither name nor value that ends a frame is taken for none, dropped and not counted")
	}
}

func init() {
	register(&Rule{
		Name: "chunk-storage-per-stream", Props: []string{"C01", "C02", "C19"}, Engine: "AST", Floor: 2,
		Doc: "the buffer a streamed body's pending chunk points into belongs to that stream (a field of the same object that holds the chunk): several streams can each have an unsent chunk while they wait for window, so storage shared across streams is overwritten by whichever refills next",
		Run: func(p *Prog, r *Out) {
			for _, s := range []struct{ fn, owner, chunk string }{
				{"(*serverConn).refillPending", "strm", "pendingData"},
				{"(*Conn).refillPending", "pb", "body"},
			} {
				fd := p.decl(s.fn)
				if fd == nil {
					r.undecided(s.fn, "?", "no longer resolves")
					continue
				}
				r.fn(s.fn)
				defs := singleDefs(fd.Body)
				ok, src := false, "?"
				ast.Inspect(fd.Body, func(n ast.Node) bool {
					as, isA := n.(*ast.AssignStmt)
					if !isA || len(as.Lhs) != 1 || squash(p.text(as.Lhs[0])) != s.owner+"."+s.chunk {
						return true
					}
					e := ast.Unparen(as.Rhs[0])
					// follow slices and single-definition locals down to the storage
					for i := 0; i < 6; i++ {
						switch x := e.(type) {
						case *ast.SliceExpr:
							e = ast.Unparen(x.X)
							continue
						case *ast.Ident:
							if d, okd := defs[x.Name]; okd {
								e = ast.Unparen(d)
								continue
							}
						}
						break
					}
					src = squash(p.text(e))
					if sel, isSel := e.(*ast.SelectorExpr); isSel && p.text(sel.X) == s.owner {
						ok = true
					}
					return true
				})
				r.check(ok, s.fn+" reads into the stream's own buffer", p.pos(fd.Pos()), s.owner+"."+s.chunk+" = "+s.owner+".<buffer>[:n]", fmt.Sprintf("%s points the stream's pending chunk into %s, which is not storage of that stream: while the chunk waits for flow-control window another stream's refill overwrites it, and the peer receives the other body's octets under this stream's id", s.fn, src))
			}
		},
	})
}

func init() {
	register(&Rule{
		Name: "server-teardown-bounded", Props: []string{"C10", "C17"}, Engine: "AST", Floor: 9,
		Doc: "Serve's teardown cannot be held open by the peer: the wait for the write loop to drain is a select with a timer arm of a positive constant duration; the reader channel is closed before that wait (which unwinds the stream loop, which stops the writer); the write loop's goroutine closes the socket when it leaves; the stream loop's goroutine closes writeStop after the loop; the write loop's goroutine closes writeGone when it leaves and sc.write gives up on either; a connection-error GOAWAY limits every socket write (the one in progress through a deadline, the later ones through the write loop) before it is queued",
		Run: func(p *Prog, r *Out) {
			fd := p.decl("(*serverConn).Serve")
			if fd == nil {
				r.undecided("(*serverConn).Serve", "?", "no longer resolves")
				return
			}
			r.fn("(*serverConn).Serve")
			pos := p.pos(fd.Pos())
			bounded, closesReader, order := false, false, false
			closesSock, closesStop := false, false
			ast.Inspect(fd.Body, func(n ast.Node) bool {
				switch x := n.(type) {
				case *ast.DeferStmt:
					lit, ok := x.Call.Fun.(*ast.FuncLit)
					if !ok {
						return true
					}
					closeAt, selAt := token.NoPos, token.NoPos
					ast.Inspect(lit.Body, func(m ast.Node) bool {
						switch y := m.(type) {
						case *ast.CallExpr:
							if p.calleeOf(y) == "builtin.close" && squash(p.text(y.Args[0])) == "sc.reader" {
								closesReader, closeAt = true, y.Pos()
							}
						case *ast.SelectStmt:
							done, timer := false, false
							for _, c := range y.Body.List {
								cc := c.(*ast.CommClause)
								if cc.Comm == nil {
									continue
								}
								t := squash(p.text(cc.Comm))
								if strings.Contains(t, "<-writeDone") {
									done = true
								}
								if strings.Contains(t, "<-time.After(") {
									ast.Inspect(cc.Comm, func(k ast.Node) bool {
										if cl, ok := k.(*ast.CallExpr); ok && p.calleeOf(cl) == "time.After" {
											if v := p.constOf(cl.Args[0]); v != nil {
												if d, ok := p.intConst(cl.Args[0]); ok && d > 0 && d <= int64(60*1e9) {
													timer = true
												}
											}
										}
										return true
									})
								}
							}
							if done && timer && len(y.Body.List) == 2 {
								bounded, selAt = true, y.Pos()
							}
						}
						return true
					})
					if closeAt.IsValid() && selAt.IsValid() && closeAt < selAt {
						order = true
					}
				case *ast.GoStmt:
					lit, ok := x.Call.Fun.(*ast.FuncLit)
					if !ok {
						return true
					}
					runsWrite, runsStreams := false, false
					inspectCalls(lit.Body, func(c *ast.CallExpr) {
						switch p.calleeOf(c) {
						case "(*serverConn).writeLoop":
							runsWrite = true
						case "(*serverConn).handleStreams":
							runsStreams = true
						}
					})
					if runsWrite {
						ast.Inspect(lit.Body, func(m ast.Node) bool {
							if d, ok := m.(*ast.DeferStmt); ok && strings.Contains(squash(p.text(d)), "sc.c.Close()") {
								closesSock = true
							}
							return true
						})
					}
					if runsStreams {
						after := false
						for _, s := range lit.Body.List {
							if es, ok := s.(*ast.ExprStmt); ok {
								if c, ok := es.X.(*ast.CallExpr); ok {
									if p.calleeOf(c) == "(*serverConn).handleStreams" {
										after = true
									}
									if after && p.calleeOf(c) == "builtin.close" && squash(p.text(c.Args[0])) == "sc.writeStop" {
										closesStop = true
									}
								}
							}
						}
					}
				}
				return true
			})
			r.check(bounded, "wait for the write loop is bounded", pos, "select { case <-writeDone: case <-time.After(constant): }", "Serve's teardown waits for the write loop without a timer arm (or with more arms): a peer that has stopped reading keeps the write loop in its last write, and Serve, and with it ServeConn, never returns")
			r.check(closesReader && order, "reader closed before the wait", pos, "close(sc.reader) then the bounded wait", "the teardown no longer closes the reader channel before it waits for the writer: the stream loop is what stops the writer, and it only leaves when its input is closed")
			r.check(closesSock, "write loop's goroutine closes the socket on its way out", pos, "defer sc.c.Close() around writeLoop", "the goroutine that runs the write loop no longer closes the socket when the loop leaves (also by panic): the read loop keeps waiting for a peer that gets no more answers")
			r.check(closesStop, "writer is stopped after the stream loop", pos, "handleStreams(); ...; close(sc.writeStop)", "writeStop is no longer closed after the stream loop has left: the write loop never drains and stops, and every later sc.write blocks")
			// the write loop announces its exit, and nothing waits to queue a frame after it
			announces := false
			ast.Inspect(fd.Body, func(n ast.Node) bool {
				g, ok := n.(*ast.GoStmt)
				if !ok {
					return true
				}
				lit, ok := g.Call.Fun.(*ast.FuncLit)
				if !ok {
					return true
				}
				runs := false
				inspectCalls(lit.Body, func(c *ast.CallExpr) {
					if p.calleeOf(c) == "(*serverConn).writeLoop" {
						runs = true
					}
				})
				if runs {
					for _, st := range lit.Body.List {
						if d, ok := st.(*ast.DeferStmt); ok && squash(p.text(d.Call)) == "close(sc.writeGone)" {
							announces = true
						}
					}
				}
				return true
			})
			made := false
			for _, st := range fd.Body.List {
				if squash(p.text(st)) == "sc.writeGone=make(chanstruct{})" {
					made = true
				}
			}
			r.check(announces && made, "the write loop's goroutine announces that it has left", pos, "sc.writeGone = make(chan struct{}); defer close(sc.writeGone) around writeLoop", "the goroutine that runs the write loop no longer closes writeGone when the loop leaves (also on a write error or a panic): the stream loop and the read loop stay parked trying to queue frames nobody takes, and Serve never returns")
			wf := p.decl("(*serverConn).enqueue")
			if wf == nil {
				wf = p.decl("(*serverConn).write")
			}
			if wf != nil {
				r.fn("(*serverConn).write")
				arms := map[string]bool{}
				nArms := 0
				ast.Inspect(wf.Body, func(n ast.Node) bool {
					if cc, ok := n.(*ast.CommClause); ok {
						nArms++
						if cc.Comm != nil {
							arms[squash(p.text(cc.Comm))] = true
						}
					}
					return true
				})
				r.check(arms["sc.writer<-fr"] && arms["<-sc.writeStop"] && arms["<-sc.writeGone"] && nArms == 3, "queueing a frame gives up when the writer is stopped or gone", p.pos(wf.Pos()), "select { writer <- fr; <-writeStop; <-writeGone }", "sc.write no longer gives up when the write loop has been stopped or has left (or blocks on something else as well): with the queue full it parks for good")
			}
			// a connection error bounds every later write, the one in progress included
			if ga := p.decl("(*serverConn).writeGoAway"); ga != nil {
				r.fn("(*serverConn).writeGoAway", "(*serverConn).limitWrites", "(*serverConn).writeLoop")
				limitAt, writeAt := token.NoPos, token.NoPos
				for _, st := range ga.Body.List {
					if ifs, ok := st.(*ast.IfStmt); ok && squash(p.text(ifs.Cond)) == "code!=NoError" && len(ifs.Body.List) == 1 && squash(p.text(ifs.Body.List[0])) == "sc.limitWrites(writeDrainTimeout)" {
						limitAt = ifs.Pos()
					}
					if squash(p.text(st)) == "sc.write(fr)" {
						writeAt = st.Pos()
					}
				}
				r.check(limitAt.IsValid() && writeAt.IsValid() && limitAt < writeAt, "a connection error bounds the writes before its GOAWAY is queued", p.pos(ga.Pos()), "if code != NoError { limitWrites(writeDrainTimeout) }; write(fr)", "writeGoAway no longer limits socket writes before it queues the GOAWAY of a connection error: with a peer that has stopped reading the queue is full, the write loop is parked in a write without a deadline, and the read loop parks here")
			}
			if lw := p.decl("(*serverConn).limitWrites"); lw != nil {
				stores, deadline := false, false
				ast.Inspect(lw.Body, func(n ast.Node) bool {
					if c, ok := n.(*ast.CallExpr); ok {
						t := squash(p.text(c))
						if t == "sc.writeLimit.Store(int64(d))" {
							stores = true
						}
						if t == "sc.c.SetWriteDeadline(time.Now().Add(d))" {
							deadline = true
						}
					}
					return true
				})
				r.check(stores && deadline, "the limit covers the write in progress and the later ones", p.pos(lw.Pos()), "writeLimit.Store(d); SetWriteDeadline(now + d)", "limitWrites no longer records the limit for the write loop and puts a deadline on the socket for the write that is already in progress")
			}
			if wl := p.decl("(*serverConn).writeLoop"); wl != nil {
				applied := false
				ast.Inspect(wl.Body, func(n ast.Node) bool {
					ifs, ok := n.(*ast.IfStmt)
					if !ok || ifs.Init == nil || squash(p.text(ifs.Init)) != "d:=sc.writeLimit.Load()" || squash(p.text(ifs.Cond)) != "d>0" {
						return true
					}
					inspectCalls(ifs.Body, func(c *ast.CallExpr) {
						if squash(p.text(c)) == "sc.c.SetWriteDeadline(time.Now().Add(time.Duration(d)))" {
							applied = true
						}
					})
					// before the frame is written
					pm := p.pmFor(wl)
					if blk, ok := pm[ifs].(*ast.BlockStmt); ok {
						for _, st := range blk.List {
							if st.Pos() < ifs.Pos() && strings.Contains(p.text(st), "WriteTo") {
								applied = false
							}
						}
					}
					return true
				})
				r.check(applied, "the write loop renews the limit before each frame", p.pos(wl.Pos()), "if d := writeLimit.Load(); d > 0 { SetWriteDeadline(now + d) } before WriteTo", "the write loop no longer puts the recorded limit on the socket before it writes a frame: only the write in progress when the error was found is bounded, the next one parks again")
			}
		},
	})
}

// ---------------------------------------------------------------- error polarity

func init() {
	register(&Rule{
		Name: "error-polarity", Props: []string{"C12", "C16", "C17", "C09", "C10", "C01", "C02"}, Engine: "AST", Floor: 150,
		Doc: "every test of an error value against nil has the polarity its branch needs: the branch that runs when the error is nil does not return it, hand it to an error sink or format it (it would report success, or a nil error, for a failure); the branch that runs when it is non-nil does not overwrite it with the result of another call; and an error assigned from a call is looked at before it is overwritten or the function ends",
		Run: ruleErrorPolarity,
	})
}

func ruleErrorPolarity(p *Prog, r *Out) {
	errType := types.Universe.Lookup("error").Type()
	isErr := func(e ast.Expr) bool {
		t := p.infoFor(e).TypeOf(e)
		return t != nil && types.Identical(t, errType)
	}
	sinks := map[string]bool{"(*serverConn).writeError": true, "(*Conn).setLastErr": true, "(*Ctx).resolve": true, "(*Conn).finish": true}
	mentions := func(n ast.Node, name string) bool { return mentionsIdent(n, name) }
	var names []string
	for n := range p.funcDecls {
		names = append(names, n)
	}
	sortStrings(names)
	tests := 0
	for _, fn := range names {
		fd := p.funcDecls[fn]
		if fd.Body == nil || strings.HasSuffix(p.Fset.Position(fd.Pos()).Filename, "_test.go") {
			continue
		}
		ord := map[string]int{}
		key := func(kind, v string) string {
			k := fn + " " + kind + " " + v
			ord[k]++
			if ord[k] > 1 {
				k += fmt.Sprintf("#%d", ord[k])
			}
			return k
		}
		ast.Inspect(fd.Body, func(n ast.Node) bool {
			ifs, ok := n.(*ast.IfStmt)
			if !ok {
				return true
			}
			for _, a := range conjuncts(ifs.Cond, true) {
				b, ok := ast.Unparen(a.Cond).(*ast.BinaryExpr)
				if !ok || (b.Op != token.EQL && b.Op != token.NEQ) || p.text(b.Y) != "nil" {
					continue
				}
				id, ok := ast.Unparen(b.X).(*ast.Ident)
				if !ok || !isErr(id) {
					continue
				}
				tests++
				nilBranch := (b.Op == token.EQL) == a.Val // the if-body runs when the error is nil
				if nilBranch {
					// the nil error is returned, sunk or formatted
					bad := ""
					ast.Inspect(ifs.Body, func(m ast.Node) bool {
						switch x := m.(type) {
						case *ast.ReturnStmt:
							for _, res := range x.Results {
								if rid, ok := ast.Unparen(res).(*ast.Ident); ok && rid.Name == id.Name {
									// `return err` directly under `err == nil`: fine only when that is the whole point (return nil); flag when other results are non-trivial
									if len(x.Results) > 1 || len(ifs.Body.List) > 1 {
										bad = "returns it"
									}
								}
							}
						case *ast.CallExpr:
							if sinks[p.calleeOf(x)] {
								for _, arg := range x.Args {
									if mentions(arg, id.Name) {
										bad = "hands it to " + p.calleeOf(x)
									}
								}
							}
							// the nil error handed to anything as the error it is (errors.Is/As, a constructor, a logger)
							for _, arg := range x.Args {
								if aid, ok := ast.Unparen(arg).(*ast.Ident); ok && aid.Name == id.Name {
									bad = "passes it to " + p.calleeOf(x)
								}
							}
							if sel, ok := x.Fun.(*ast.SelectorExpr); ok && sel.Sel.Name == "Error" && mentions(sel.X, id.Name) {
								bad = "calls its Error method"
							}
						case *ast.AssignStmt:
							// a fresh assignment to the variable ends its nil-ness (after its right-hand side was looked at)
							for _, l := range x.Lhs {
								if lid, ok := l.(*ast.Ident); ok && lid.Name == id.Name {
									for _, rhs := range x.Rhs {
										ast.Inspect(rhs, func(k ast.Node) bool {
											if c, ok := k.(*ast.CallExpr); ok {
												if sel, ok := c.Fun.(*ast.SelectorExpr); ok && sel.Sel.Name == "Error" && mentions(sel.X, id.Name) {
													bad = "calls its Error method"
												}
												for _, arg := range c.Args {
													if aid, ok := ast.Unparen(arg).(*ast.Ident); ok && aid.Name == id.Name {
														bad = "passes it to " + p.calleeOf(c)
													}
												}
											}
											return true
										})
									}
									return false
								}
							}
						}
						return bad == ""
					})
					r.check(bad == "", key("nil-branch of", id.Name), p.pos(ifs.Pos()), "the branch taken when the error is nil does not treat it as an error",
						fmt.Sprintf("in %s the branch of `%s` that runs when %s is nil %s: a failure goes unreported (the non-nil case falls through as success) or a nil error is reported as the failure", fn, p.text(ifs.Cond), id.Name, bad))
				} else {
					// the non-nil error is overwritten by another call's result
					bad := ""
					for _, s := range ifs.Body.List {
						if as, ok := s.(*ast.AssignStmt); ok && as.Tok == token.ASSIGN && len(as.Rhs) == 1 {
							if _, isCall := as.Rhs[0].(*ast.CallExpr); isCall {
								for _, l := range as.Lhs {
									if lid, ok := l.(*ast.Ident); ok && lid.Name == id.Name && !mentions(as.Rhs[0], id.Name) {
										bad = p.text(as)
									}
								}
							}
						}
					}
					r.check(bad == "", key("non-nil branch of", id.Name), p.pos(ifs.Pos()), "the branch taken when the error is set does not overwrite it",
						fmt.Sprintf("in %s the branch of `%s` that runs when %s is set overwrites it with `%s`: the first failure is lost and the follow-up step runs only after a failure", fn, p.text(ifs.Cond), id.Name, bad))
				}
			}
			return true
		})
		// an error assigned from a call is looked at before it is overwritten
		ast.Inspect(fd.Body, func(n ast.Node) bool {
			var list []ast.Stmt
			switch x := n.(type) {
			case *ast.BlockStmt:
				list = x.List
			case *ast.CaseClause:
				list = x.Body
			case *ast.CommClause:
				list = x.Body
			default:
				return true
			}
			for i, s := range list {
				as, ok := s.(*ast.AssignStmt)
				if !ok || len(as.Rhs) != 1 {
					continue
				}
				if _, isCall := as.Rhs[0].(*ast.CallExpr); !isCall {
					continue
				}
				for _, l := range as.Lhs {
					lid, ok := l.(*ast.Ident)
					if !ok || lid.Name == "_" || !isErr(lid) {
						continue
					}
					// named results and variables used later in an enclosing construct are fine: look for any later mention in the function
					used := false
					for _, t := range list[i+1:] {
						if mentions(t, lid.Name) {
							used = true
							break
						}
					}
					if !used {
						// a use after the enclosing block (loop condition, named result, return at the end)
						after := false
						ast.Inspect(fd, func(m ast.Node) bool {
							if mid, ok := m.(*ast.Ident); ok && mid.Name == lid.Name && mid.Pos() > as.End() {
								after = true
							}
							if fs, ok := m.(*ast.ForStmt); ok && fs.Cond != nil && mentions(fs.Cond, lid.Name) && fs.Pos() < as.Pos() && as.End() < fs.End() {
								after = true
							}
							return true
						})
						used = after
					}
					tests++
					r.check(used, key("result of", squash(p.text(as.Rhs[0]))), p.pos(as.Pos()), "the error is examined after the call",
						fmt.Sprintf("in %s the error assigned by `%s` is never looked at: the failure is dropped and the code carries on as if the call had succeeded", fn, p.text(as)))
				}
			}
			return true
		})
	}
	if tests < 100 {
		r.bad("error tests found", "?", fmt.Sprintf("only %d error tests found", tests))
	}
}

func init() {
	register(&Rule{
		Name: "late-and-graceful-frames", Props: []string{"C06", "C08", "C09", "C02", "C18", "C01"}, Engine: "AST", Floor: 5,
		Doc: "frames that arrive late, or say goodbye, are treated as the RFC asks: a received SETTINGS frame is applied and acknowledged on the stream loop, after the INITIAL_WINDOW_SIZE delta (the acknowledgement says the values are in force), never from the read loop; a GOAWAY(NO_ERROR) from the peer does not end the server's read loop; a WINDOW_UPDATE on an id below the highest accepted one that is no longer remembered is ignored, not a connection error; the client runs every header block it has no request for through its decoder before dropping it",
		Run: ruleLateAndGraceful,
	})
}

func ruleLateAndGraceful(p *Prog, r *Out) {
	hs, rl := p.decl("(*serverConn).handleStreams"), p.decl("(*serverConn).readLoop")
	if hs == nil || rl == nil {
		r.undecided("server loops", "?", "handleStreams/readLoop no longer resolve")
		return
	}
	r.fn("(*serverConn).handleStreams", "(*serverConn).readLoop", "(*Conn).dispatch", "(*Conn).skipHeaderBlock")
	// SETTINGS: applied and acknowledged on the stream loop, after the delta
	inRead := false
	inspectCalls(rl.Body, func(c *ast.CallExpr) {
		if p.calleeOf(c) == "(*serverConn).handleSettings" {
			inRead = true
		}
	})
	afterDelta := false
	ast.Inspect(hs.Body, func(n ast.Node) bool {
		cc, ok := n.(*ast.CaseClause)
		if !ok || len(cc.List) != 1 {
			return true
		}
		if v, okv := p.intConst(cc.List[0]); !okv || v != 4 {
			return true
		}
		deltaIdx, ackIdx, acks := -1, -1, 0
		for i, s := range cc.Body {
			if ifs, ok := s.(*ast.IfStmt); ok && squash(p.text(ifs.Cond)) == "st.hasWindowSize" {
				deltaIdx = i
			}
			inspectCalls(s, func(c *ast.CallExpr) {
				if p.calleeOf(c) == "(*serverConn).handleSettings" {
					acks++
					ackIdx = i
				}
			})
		}
		if deltaIdx >= 0 && ackIdx > deltaIdx && acks == 1 {
			afterDelta = true
		}
		return true
	})
	r.check(!inRead && afterDelta, "SETTINGS acknowledged after it is applied, by the loop that applies it", p.pos(hs.Pos()), "stream loop: delta to the open streams, then handleSettings (copy, encoder, ACK); nothing in the read loop", "a received SETTINGS frame is acknowledged (or its table size applied) from the read loop, or before the INITIAL_WINDOW_SIZE delta reaches the open streams: DATA sent after the acknowledgement still uses the old windows (RFC 7540 s6.5.3), and the encoder is touched by a goroutine that does not own it")
	// GOAWAY(NO_ERROR) from the peer
	graceful := false
	ast.Inspect(rl.Body, func(n ast.Node) bool {
		cc, ok := n.(*ast.CaseClause)
		if !ok || len(cc.List) != 1 {
			return true
		}
		if v, okv := p.intConst(cc.List[0]); !okv || v != 7 {
			return true
		}
		sets, guarded := 0, 0
		pm := p.pmFor(rl)
		ast.Inspect(cc, func(m ast.Node) bool {
			as, ok := m.(*ast.AssignStmt)
			if !ok || len(as.Lhs) != 1 || p.text(as.Lhs[0]) != "err" {
				return true
			}
			sets++
			for _, g := range p.knownFacts(pm, as) {
				if g.Val && squash(p.text(g.Cond)) == "ga.Code()!=NoError" {
					guarded++
				}
				if !g.Val && squash(p.text(g.Cond)) == "ga.Code()==NoError" {
					guarded++
				}
			}
			return true
		})
		graceful = sets == guarded
		return true
	})
	r.check(graceful, "a graceful GOAWAY from the peer does not end the connection", p.pos(rl.Pos()), "err is set only for a GOAWAY with an error code", "the server's read loop stops on a GOAWAY(NO_ERROR): the peer only announced that it opens no more streams, and the responses it is still waiting for are cut off")
	// late WINDOW_UPDATE below lastID
	lateWU := false
	ast.Inspect(hs.Body, func(n ast.Node) bool {
		ifs, ok := n.(*ast.IfStmt)
		if !ok {
			return true
		}
		c, okc := p.canonCmp(ifs.Cond, nil)
		if !okc || c.Op != "le" || !c.L.eq(Lin{T: map[string]int64{"fr.Stream()": 1, "highID": -1}, C: 0}) {
			return true
		}
		for i, s := range ifs.Body.List {
			in, ok := s.(*ast.IfStmt)
			if !ok || squash(p.text(in.Cond)) != "fr.Type()==FrameWindowUpdate" || len(in.Body.List) != 1 {
				continue
			}
			if b, ok := in.Body.List[0].(*ast.BranchStmt); ok && b.Tok == token.CONTINUE {
				// and it precedes the GOAWAY
				for _, t := range ifs.Body.List[i+1:] {
					if es, ok := t.(*ast.ExprStmt); ok {
						if cl, ok := es.X.(*ast.CallExpr); ok && p.calleeOf(cl) == "(*serverConn).writeGoAway" {
							lateWU = true
						}
					}
				}
			}
		}
		return true
	})
	r.check(lateWU, "a WINDOW_UPDATE on a forgotten closed stream is ignored", p.pos(hs.Pos()), "id < lastID: WINDOW_UPDATE -> continue; else GOAWAY", "a WINDOW_UPDATE on an id below the highest accepted one that has dropped out of the closed-stream memory is answered with GOAWAY(PROTOCOL_ERROR): RFC 7540 s5.1 lets it trail a closed stream, and a peer with many requests in flight sends such frames")
	// client: unknown-stream header blocks go through the decoder
	if dp := p.decl("(*Conn).dispatch"); dp != nil {
		early, skipping := 0, 0
		for _, s := range dp.Body.List {
			ifs, ok := s.(*ast.IfStmt)
			if !ok {
				continue
			}
			t := squash(p.text(ifs.Cond))
			if t != "!ok" && !strings.HasPrefix(t, "!r.acquireFor(") {
				continue
			}
			early++
			if res := firstReturn(ifs.Body); len(res) == 1 && squash(p.text(res[0])) == "c.skipHeaderBlock(fr)" {
				skipping++
			}
		}
		r.check(early == 2 && skipping == 2, "the client decodes header blocks it has no request for", p.pos(dp.Pos()), "return c.skipHeaderBlock(fr) on both early exits of dispatch", fmt.Sprintf("%d of the %d early exits of dispatch (no waiter / waiter gone) hand the frame to skipHeaderBlock: a response header block for a stream the client gave up on never reaches the HPACK decoder, the connection's dynamic table misses its insertions, and the next response is decoded against the wrong table (another response's values, with no error)", skipping, early))
	}
	if sk := p.decl("(*Conn).skipHeaderBlock"); sk != nil {
		loops := false
		ast.Inspect(sk.Body, func(n ast.Node) bool {
			if fs, ok := n.(*ast.ForStmt); ok {
				inspectCalls(fs.Body, func(c *ast.CallExpr) {
					if p.calleeOf(c) == "(*HPACK).Next" && strings.HasPrefix(p.text(c.Fun), "c.dec.") {
						loops = true
					}
				})
			}
			return true
		})
		// or through the connection's block state: skipFields is a loop over the
		// whole fragment (client-block-state)
		if okBlock, _ := p.clientBlockOK(); okBlock && hasStmt(p, sk.Body.List, "b:=c.block.open(fr)") && hasStmt(p, sk.Body.List, "err:=c.skipFields(fr,b,nil)") {
			loops = true
		}
		guard := false
		if len(sk.Body.List) > 0 {
			if ifs, ok := sk.Body.List[0].(*ast.IfStmt); ok && p.isConjunctionOf(ifs.Cond, "fr.Type()!=FrameHeaders", "fr.Type()!=FrameContinuation") {
				guard = true
			}
		}
		r.check(loops && guard, "skipHeaderBlock decodes the whole block with the connection's decoder", p.pos(sk.Pos()), "for len(b) > 0 { b, err = c.dec.Next(hf, b) } for HEADERS and CONTINUATION", "skipHeaderBlock no longer runs every HEADERS / CONTINUATION fragment through the connection's decoder")
	} else {
		r.bad("skipHeaderBlock decodes the whole block with the connection's decoder", "?", "(*Conn).skipHeaderBlock no longer exists")
	}
}
