package main

import (
	"go/ast"
	"strings"
)

// A header block larger than a frame is sent as HEADERS + CONTINUATION*. The
// two emitters (server response, client request) are small straight-line
// functions; the rule pins what makes the sequence legal: every byte of the
// block goes out once and in order, no frame exceeds the bound, END_HEADERS is
// on the last frame only, all frames carry the block's stream id, and nothing
// can be queued or written in between.

func init() {
	register(&Rule{
		Name: "header-block-emitters", Props: []string{"C01", "C02", "C05"}, Engine: "AST", Floor: 8,
		Doc: "both header block emitters send a block that fits the bound as one HEADERS frame with END_HEADERS; otherwise HEADERS without END_HEADERS carrying the first bound octets, then CONTINUATION frames of min(rest, bound) octets each on the same stream, END_HEADERS exactly on the frame after which nothing is left; the rest is copied before the HEADERS frame is handed over; the server puts all frames of a block on the queue under queueLck (which every queueing takes), the client writes them under bwLck",
		Run: ruleHeaderBlockEmitters,
	})
}

type hbSpec struct {
	fn, bound                 string
	sendShort, send, sendCont string
	lock                      string
}

func (p *Prog) headerBlockWriterOK(sp hbSpec) (bool, []string) {
	key := "hbw:" + sp.fn
	if v, ok := p.memo[key]; ok {
		x := v.([]interface{})
		return x[0].(bool), x[1].([]string)
	}
	var why []string
	fail := func(s string) { why = append(why, s) }
	fd := p.decl(sp.fn)
	if fd == nil {
		fail(sp.fn + " no longer resolves")
	} else {
		l := fd.Body.List
		texts := stmtTexts(p, l)
		has := func(t string) bool {
			for _, x := range texts {
				if x == squash(t) {
					return true
				}
			}
			return false
		}
		idx := func(t string) int {
			for i, x := range texts {
				if x == squash(t) {
					return i
				}
			}
			return -1
		}
		if !has("block := h.Headers()") {
			fail("the block is no longer taken from the HEADERS frame")
		}
		// the short path
		short := false
		for _, s := range l {
			ifs, ok := s.(*ast.IfStmt)
			if !ok || squash(p.text(ifs.Cond)) != squash("len(block) <= "+sp.bound) || ifs.Else != nil {
				continue
			}
			b := stmtTexts(p, ifs.Body.List)
			if len(b) >= 3 && b[0] == "h.SetEndHeaders(true)" && strings.HasPrefix(b[len(b)-1], "return") {
				for _, t := range b[1 : len(b)-1] {
					if strings.Contains(t, squash(sp.sendShort)) {
						short = true
					}
				}
				if strings.Contains(b[len(b)-1], squash(sp.sendShort)) {
					short = true
				}
			}
		}
		if !short {
			fail("a block that fits the bound is no longer sent as one HEADERS frame with END_HEADERS")
		}
		iRest, iCut, iNoEnd := idx("rest := append([]byte(nil), block["+sp.bound+":]...)"), idx("h.SetHeaders(block[:"+sp.bound+"])"), idx("h.SetEndHeaders(false)")
		if iRest < 0 || iCut < 0 || iNoEnd < 0 || iRest > iCut {
			fail("the first frame no longer carries exactly the first `bound` octets without END_HEADERS, with the rest copied aside before the frame's buffer is rewritten")
		}
		// first frame sent after the cut, before the loop
		var loop *ast.ForStmt
		iLoop := -1
		for i, s := range l {
			if fs, ok := s.(*ast.ForStmt); ok {
				loop, iLoop = fs, i
			}
		}
		iSend := -1
		for i, t := range texts {
			if i > iNoEnd && (iLoop < 0 || i < iLoop) && strings.Contains(t, squash(sp.send)) {
				iSend = i
			}
		}
		if iSend < 0 {
			fail("the HEADERS frame is no longer sent between the cut and the CONTINUATION loop")
		}
		if sp.lock != "" {
			iLock := idx(sp.lock + ".Lock()")
			if iLock < 0 || !has("defer "+sp.lock+".Unlock()") || iLock > iSend {
				fail("the frames of a block are no longer queued under " + sp.lock + ", taken before the first and released after the last")
			}
			// id read before the frame is handed over
			iID := idx("id := fr.Stream()")
			if iID < 0 || iID > iSend {
				fail("the stream id is no longer read off the HEADERS frame before that frame is handed to the write loop")
			}
		}
		if loop == nil || loop.Init != nil || loop.Post != nil || squash(p.text(loop.Cond)) != "len(rest)>0" {
			fail("no `for len(rest) > 0` loop over what is left of the block")
		} else {
			b := stmtTexts(p, loop.Body.List)
			want := []string{"n:=len(rest)", "", "SetHeader(rest[:n])", "rest=rest[n:]", "SetEndHeaders(len(rest)==0)"}
			pos := 0
			for _, t := range b {
				if pos < len(want) && want[pos] == "" {
					pos++
				}
				if pos < len(want) && strings.HasSuffix(t, want[pos]) {
					pos++
				}
			}
			clamp := false
			for _, s := range loop.Body.List {
				if ifs, ok := s.(*ast.IfStmt); ok && squash(p.text(ifs.Cond)) == squash("n > "+sp.bound) && len(ifs.Body.List) == 1 && squash(p.text(ifs.Body.List[0])) == squash("n = "+sp.bound) {
					clamp = true
				}
			}
			if pos != len(want) || !clamp {
				fail("the loop no longer sends min(rest, bound) octets per CONTINUATION, advances by exactly that, and sets END_HEADERS exactly when nothing is left (in that order)")
			}
			sent := false
			last := b[len(b)-1]
			if strings.Contains(last, squash(sp.sendCont)) {
				sent = true
			}
			if !sent {
				fail("the CONTINUATION frame is no longer sent at the end of each iteration")
			}
		}
		// stream id on the continuation frames
		okID := false
		ast.Inspect(fd.Body, func(n ast.Node) bool {
			if c, ok := n.(*ast.CallExpr); ok && p.calleeOf(c) == "(*FrameHeader).SetStream" && p.text(c.Fun.(*ast.SelectorExpr).X) == "cfr" {
				a := squash(p.text(c.Args[0]))
				okID = a == "id" || a == "fr.Stream()"
			}
			return true
		})
		bodyOK := false
		ast.Inspect(fd.Body, func(n ast.Node) bool {
			if c, ok := n.(*ast.CallExpr); ok && p.calleeOf(c) == "(*FrameHeader).SetBody" && p.text(c.Fun.(*ast.SelectorExpr).X) == "cfr" {
				bodyOK = true
			}
			return true
		})
		if !okID || !bodyOK {
			fail("the CONTINUATION frames no longer carry the block's stream id and a Continuation body")
		}
	}
	p.memo[key] = []interface{}{len(why) == 0, why}
	return len(why) == 0, why
}

var hbServer = hbSpec{fn: "(*serverConn).writeHeaderBlock", bound: "maxDataFrameSize", sendShort: "sc.write(fr)", send: "sc.enqueue(fr)", sendCont: "sc.enqueue(cfr)", lock: "sc.queueLck"}
var hbClient = hbSpec{fn: "(*Conn).writeHeaderBlock", bound: "step", sendShort: "fr.WriteTo(c.bw)", send: "fr.WriteTo(c.bw)", sendCont: "cfr.WriteTo(c.bw)"}

func ruleHeaderBlockEmitters(p *Prog, r *Out) {
	for _, sp := range []hbSpec{hbServer, hbClient} {
		r.fn(sp.fn)
		pos := "?"
		if fd := p.decl(sp.fn); fd != nil {
			pos = p.pos(fd.Pos())
		}
		okLong, whyLong := p.headerBlockWriterOK(sp)
		r.check(okLong, sp.fn+" cuts a block into legal frames", pos, "HEADERS [CONTINUATION*], END_HEADERS on the last, bound respected, every octet once", sp.fn+" no longer emits a header block as a legal frame sequence: "+strings.Join(whyLong, "; "))
	}
	// the client's bound
	if fd := p.decl("(*Conn).writeHeaderBlock"); fd != nil {
		l := fd.Body.List
		okStep := len(l) >= 2 && squash(p.text(l[0])) == "step:=int(atomic.LoadUint32(&c.maxFrameSize))"
		if okStep {
			ifs, ok := l[1].(*ast.IfStmt)
			okStep = ok && squash(p.text(ifs.Cond)) == "step<=0||step>int(maxFrameSize)" && len(ifs.Body.List) == 1 && squash(p.text(ifs.Body.List[0])) == "step=int(defaultDataFrameSize)"
		}
		r.check(okStep, "the client's frame bound is the server's MAX_FRAME_SIZE", p.pos(fd.Pos()), "step from c.maxFrameSize, falling back to 2^14 when out of range", "the bound the client cuts a request header block by is no longer the server's SETTINGS_MAX_FRAME_SIZE (2^14 when that is out of range)")
	}
	if v, ok := p.pkgConst("maxDataFrameSize"); ok {
		r.check(v == 1<<14, "the server's frame bound is what every peer accepts", "serverConn.go", "maxDataFrameSize = 2^14", "maxDataFrameSize is no longer 2^14, the frame size every peer has to accept without having been asked")
	}
	// callers
	if fd := p.decl("(*serverConn).finishRequest"); fd != nil {
		r.fn("(*serverConn).finishRequest")
		t := stmtTexts(p, fd.Body.List)
		iEnc, iSend, iBody := -1, -1, -1
		for i, x := range t {
			switch {
			case x == "fasthttpResponseHeaders(h,&sc.enc,&ctx.Response)":
				iEnc = i
			case x == "sc.writeHeaderBlock(fr,h)":
				iSend = i
			case x == "fr.SetBody(h)":
				iBody = i
			}
		}
		r.check(iEnc >= 0 && iBody >= 0 && iSend > iEnc && iSend > iBody, "the response header block is encoded, then emitted", p.pos(fd.Pos()), "fr.SetBody(h); fasthttpResponseHeaders(h, ...); writeHeaderBlock(fr, h)", "finishRequest no longer attaches the HEADERS body, encodes the response fields into it and hands the frame to writeHeaderBlock, in that order")
	}
	if fd := p.decl("(*Conn).writeRequest"); fd != nil {
		r.fn("(*Conn).writeRequest")
		locked := false
		t := stmtTexts(p, fd.Body.List)
		for i, x := range t {
			if x == "err:=c.writeHeaderBlock(fr,h)" {
				lo, hi := false, false
				for _, y := range t[:i] {
					if y == "c.bwLck.Lock()" || y == "c.lockWrites()" && p.lockWrappers()["(*Conn).lockWrites"] == "Conn.bwLck" {
						lo = true
					}
					if y == "c.bwLck.Unlock()" {
						lo = false
					}
				}
				for _, y := range t[i:] {
					if y == "c.bwLck.Unlock()" {
						hi = true
					}
				}
				locked = lo && hi
			}
		}
		r.check(locked, "the request header block is written under the write lock", p.pos(fd.Pos()), "bwLck.Lock(); writeHeaderBlock(fr, h); Flush; bwLck.Unlock()", "writeRequest no longer writes the frames of the request's header block while it holds bwLck: a frame of another request can land between HEADERS and CONTINUATION")
	}
	// every queueing takes the lock: enqueue is only called with it held
	if fd := p.decl("(*serverConn).write"); fd != nil {
		t := stmtTexts(p, fd.Body.List)
		r.check(len(t) == 3 && t[0] == "sc.queueLck.Lock()" && t[1] == "sc.enqueue(fr)" && t[2] == "sc.queueLck.Unlock()", "queueing one frame takes the queue lock", p.pos(fd.Pos()), "queueLck.Lock(); enqueue(fr); queueLck.Unlock()", "sc.write no longer queues its frame under queueLck: a frame from another goroutine can land inside a header block")
	}
	others := []string{}
	for _, f := range p.Files {
		pm := p.parentMaps()[f]
		inspectCalls(f, func(c *ast.CallExpr) {
			if p.calleeOf(c) == "(*serverConn).enqueue" {
				fn := enclosingFunc(pm, c)
				if fn != "(*serverConn).write" && fn != "(*serverConn).writeHeaderBlock" {
					others = append(others, fn)
				}
			}
			// nothing sends on the queue directly
		})
		ast.Inspect(f, func(n ast.Node) bool {
			if ss, ok := n.(*ast.SendStmt); ok && squash(p.text(ss.Chan)) == "sc.writer" {
				if fn := enclosingFunc(pm, ss); fn != "(*serverConn).enqueue" {
					others = append(others, fn+" (direct send)")
				}
			}
			return true
		})
	}
	r.check(len(others) == 0, "frames reach the queue only through write and writeHeaderBlock", "serverConn.go", "enqueue has two callers; no direct send on sc.writer", "frames are put on the queue outside the queue lock in "+strings.Join(others, ", "))
}
