package main

import (
	"bytes"
	"fmt"
	"go/ast"
	"go/constant"
	"go/printer"
	"go/token"
	"go/types"
	"sort"
	"strings"

	"golang.org/x/tools/go/ssa"
)

// ---------- AST helpers ----------

func (p *Prog) decl(name string) *ast.FuncDecl { return p.funcDecls[name] }

func (p *Prog) text(n ast.Node) string {
	if n == nil {
		return "<nil>"
	}
	var b bytes.Buffer
	_ = printer.Fprint(&b, p.Fset, n)
	s := b.String()
	s = strings.Join(strings.Fields(s), " ")
	if len(s) > 120 {
		s = s[:117] + "..."
	}
	return s
}

// fullText is text without the cut at 120 characters, for comparing whole
// statements.
func (p *Prog) fullText(n ast.Node) string {
	if n == nil {
		return "<nil>"
	}
	var b bytes.Buffer
	_ = printer.Fprint(&b, p.Fset, n)
	return strings.Join(strings.Fields(b.String()), " ")
}

// constOf returns the folded constant value of an expression, if any.
func (p *Prog) constOf(e ast.Expr) constant.Value {
	if tv, ok := p.infoFor(e).Types[e]; ok && tv.Value != nil {
		return tv.Value
	}
	return nil
}

func (p *Prog) intConst(e ast.Expr) (int64, bool) {
	v := p.constOf(e)
	if v == nil {
		return 0, false
	}
	if v.Kind() == constant.Int {
		if i, ok := constant.Int64Val(v); ok {
			return i, true
		}
		if u, ok := constant.Uint64Val(v); ok {
			return int64(u), true
		}
	}
	return 0, false
}

// pkgConst returns the value of a package-level constant of package http2.
func (p *Prog) pkgConst(name string) (int64, bool) {
	obj := p.Pkg.Scope().Lookup(name)
	c, ok := obj.(*types.Const)
	if !ok {
		return 0, false
	}
	if i, ok := constant.Int64Val(constant.ToInt(c.Val())); ok {
		return i, true
	}
	return 0, false
}

// calleeOf resolves the callee of an AST call through type information.
// Returns e.g. "(*serverConn).handleFrame", "http2utils.BytesToUint32",
// "bytes.Equal", "(*fasthttp.RequestHeader).AddBytesKV", or "" for dynamic.
func (p *Prog) calleeOf(call *ast.CallExpr) string {
	info := p.infoFor(call)
	var id *ast.Ident
	switch f := ast.Unparen(call.Fun).(type) {
	case *ast.Ident:
		id = f
	case *ast.SelectorExpr:
		id = f.Sel
	default:
		return ""
	}
	obj := info.Uses[id]
	switch o := obj.(type) {
	case *types.Func:
		return p.funcName(o)
	case *types.Builtin:
		return "builtin." + o.Name()
	case *types.TypeName:
		return "conv." + o.Name()
	case *types.Var:
		return "var." + o.Name()
	}
	return ""
}

func (p *Prog) funcName(o *types.Func) string {
	sig := o.Type().(*types.Signature)
	pk := ""
	if o.Pkg() != nil && o.Pkg() != p.Pkg {
		pk = o.Pkg().Name() + "."
	}
	if recv := sig.Recv(); recv != nil {
		t := recv.Type()
		star := ""
		if pt, ok := t.(*types.Pointer); ok {
			t = pt.Elem()
			star = "*"
		}
		if nt, ok := t.(*types.Named); ok {
			tn := nt.Obj().Name()
			if nt.Obj().Pkg() != nil && nt.Obj().Pkg() != p.Pkg {
				tn = nt.Obj().Pkg().Name() + "." + tn
			}
			return "(" + star + tn + ")." + o.Name()
		}
		return "(" + star + t.String() + ")." + o.Name()
	}
	return pk + o.Name()
}

// fieldOf resolves a selector to (owner type name, field name) when it
// selects a struct field of a type of package http2.
func (p *Prog) fieldOf(sel *ast.SelectorExpr) (string, string, bool) {
	info := p.infoFor(sel)
	s, ok := info.Selections[sel]
	if !ok || s.Kind() != types.FieldVal {
		return "", "", false
	}
	v, ok := s.Obj().(*types.Var)
	if !ok || !v.IsField() {
		return "", "", false
	}
	return ownerOfField(p, v), v.Name(), true
}

var fieldOwnerCache = map[*types.Var]string{}

func ownerOfField(p *Prog, v *types.Var) string {
	for _, pkg := range []*types.Package{p.Pkg, p.UPkg} {
		sc := pkg.Scope()
		for _, n := range sc.Names() {
			tn, ok := sc.Lookup(n).(*types.TypeName)
			if !ok {
				continue
			}
			st, ok := tn.Type().Underlying().(*types.Struct)
			if !ok {
				continue
			}
			for i := 0; i < st.NumFields(); i++ {
				if st.Field(i) == v {
					return tn.Name()
				}
			}
		}
	}
	return "?"
}

// isFieldSel reports whether e is a selector of field owner.name.
func (p *Prog) isFieldSel(e ast.Expr, owner, name string) bool {
	sel, ok := ast.Unparen(e).(*ast.SelectorExpr)
	if !ok {
		return false
	}
	o, n, ok := p.fieldOf(sel)
	return ok && o == owner && n == name
}

func inspectCalls(n ast.Node, f func(*ast.CallExpr)) {
	ast.Inspect(n, func(x ast.Node) bool {
		if c, ok := x.(*ast.CallExpr); ok {
			f(c)
		}
		return true
	})
}

// ---------- SSA helpers ----------

func (p *Prog) ssaFunc(name string) *ssa.Function {
	key := "ssafn:" + name
	if v, ok := p.memo[key]; ok {
		f, _ := v.(*ssa.Function)
		return f
	}
	var res *ssa.Function
	for _, f := range p.allFuncs() {
		if p.fname(f) == name {
			res = f
			break
		}
	}
	p.memo[key] = res
	return res
}

// fname renders an ssa.Function relative to package http2, matching declName.
func (p *Prog) fname(f *ssa.Function) string {
	if f == nil {
		return ""
	}
	if f.Pkg == p.SUPkg && f.Signature.Recv() == nil && f.Parent() == nil {
		return "http2utils." + f.Name()
	}
	if f.Pkg != p.SPkg && f.Parent() == nil {
		if o, ok := f.Object().(*types.Func); ok && o != nil {
			return p.funcName(o)
		}
	}
	return f.RelString(p.Pkg)
}

// allFuncs lists every function of the two packages including methods and
// anonymous functions, deterministically.
func (p *Prog) allFuncs() []*ssa.Function {
	if v, ok := p.memo["allfuncs"]; ok {
		return v.([]*ssa.Function)
	}
	seen := map[*ssa.Function]bool{}
	var out []*ssa.Function
	var add func(f *ssa.Function)
	add = func(f *ssa.Function) {
		if f == nil || seen[f] || f.Blocks == nil {
			return
		}
		seen[f] = true
		out = append(out, f)
		for _, a := range f.AnonFuncs {
			add(a)
		}
	}
	for _, sp := range []*ssa.Package{p.SPkg, p.SUPkg} {
		var names []string
		for n := range sp.Members {
			names = append(names, n)
		}
		sort.Strings(names)
		for _, n := range names {
			switch m := sp.Members[n].(type) {
			case *ssa.Function:
				add(m)
			case *ssa.Type:
				for _, t := range []types.Type{m.Type(), types.NewPointer(m.Type())} {
					ms := p.SSA.MethodSets.MethodSet(t)
					for i := 0; i < ms.Len(); i++ {
						fn := p.SSA.MethodValue(ms.At(i))
						if fn != nil && fn.Synthetic == "" {
							add(fn)
						}
					}
				}
			}
		}
	}
	p.memo["allfuncs"] = out
	return out
}

// calleeName names the static callee of a call instruction ("" if dynamic).
func (p *Prog) calleeName(c *ssa.CallCommon) string {
	if c.IsInvoke() {
		return "invoke." + c.Method.Name()
	}
	if f := c.StaticCallee(); f != nil {
		return p.fname(f)
	}
	if b, ok := c.Value.(*ssa.Builtin); ok {
		return "builtin." + b.Name()
	}
	return ""
}

type callSite struct {
	Instr  ssa.CallInstruction
	Common *ssa.CallCommon
	Fn     *ssa.Function
	Callee string
}

// callsIn lists call instructions (call, go, defer) in f.
func (p *Prog) callsIn(f *ssa.Function) []callSite {
	var out []callSite
	for _, b := range f.Blocks {
		for _, in := range b.Instrs {
			if ci, ok := in.(ssa.CallInstruction); ok {
				out = append(out, callSite{ci, ci.Common(), f, p.calleeName(ci.Common())})
			}
		}
	}
	return out
}

// callsTo lists every call to the named callee in the two packages.
func (p *Prog) callsTo(callee string) []callSite {
	var out []callSite
	for _, f := range p.allFuncs() {
		for _, cs := range p.callsIn(f) {
			if cs.Callee == callee {
				out = append(out, cs)
			}
		}
	}
	return out
}

// fieldAddr reports whether v is the address of field owner.name
// (FieldAddr on a pointer to struct owner).
func (p *Prog) fieldAddrIs(v ssa.Value, owner, name string) bool {
	fa, ok := v.(*ssa.FieldAddr)
	if !ok {
		return false
	}
	o, n := p.fieldAddrName(fa)
	return o == owner && n == name
}

func (p *Prog) fieldAddrName(fa *ssa.FieldAddr) (string, string) {
	pt, ok := fa.X.Type().Underlying().(*types.Pointer)
	if !ok {
		return "", ""
	}
	st, ok := pt.Elem().Underlying().(*types.Struct)
	if !ok {
		return "", ""
	}
	owner := ""
	if nt, ok := pt.Elem().(*types.Named); ok {
		owner = nt.Obj().Name()
	}
	return owner, st.Field(fa.Field).Name()
}

func (p *Prog) fieldValName(fv *ssa.Field) (string, string) {
	st, ok := fv.X.Type().Underlying().(*types.Struct)
	if !ok {
		return "", ""
	}
	owner := ""
	if nt, ok := fv.X.Type().(*types.Named); ok {
		owner = nt.Obj().Name()
	}
	return owner, st.Field(fv.Field).Name()
}

// loadOfField reports whether v is a load (*FieldAddr) of owner.name and
// returns the FieldAddr.
func (p *Prog) loadOfField(v ssa.Value) (*ssa.FieldAddr, string, string, bool) {
	u, ok := v.(*ssa.UnOp)
	if !ok || u.Op != token.MUL {
		return nil, "", "", false
	}
	fa, ok := u.X.(*ssa.FieldAddr)
	if !ok {
		return nil, "", "", false
	}
	o, n := p.fieldAddrName(fa)
	return fa, o, n, true
}

// stores lists every Store whose address is field owner.name, package-wide.
type storeSite struct {
	Fn    *ssa.Function
	Store *ssa.Store
	FA    *ssa.FieldAddr
}

func (p *Prog) storesTo(owner, name string) []storeSite {
	var out []storeSite
	for _, f := range p.allFuncs() {
		for _, b := range f.Blocks {
			for _, in := range b.Instrs {
				if st, ok := in.(*ssa.Store); ok {
					if fa, ok := st.Addr.(*ssa.FieldAddr); ok {
						o, n := p.fieldAddrName(fa)
						if o == owner && n == name {
							out = append(out, storeSite{f, st, fa})
						}
					}
				}
			}
		}
	}
	return out
}

func constInt(v ssa.Value) (int64, bool) {
	c, ok := v.(*ssa.Const)
	if !ok || c.Value == nil {
		return 0, false
	}
	if c.Value.Kind() != constant.Int {
		return 0, false
	}
	if i, ok := constant.Int64Val(c.Value); ok {
		return i, true
	}
	if u, ok := constant.Uint64Val(c.Value); ok {
		return int64(u), true
	}
	return 0, false
}

// stripConv removes value-preserving wrappers: Convert/ChangeType/MakeInterface.
func stripConv(v ssa.Value) ssa.Value {
	for {
		switch x := v.(type) {
		case *ssa.Convert:
			v = x.X
		case *ssa.ChangeType:
			v = x.X
		default:
			return v
		}
	}
}

// reachable blocks from b (inclusive of successors, not b itself unless on a
// cycle), optionally not expanding through blocks in stop.
func reachFrom(start []*ssa.BasicBlock, stop map[*ssa.BasicBlock]bool) map[*ssa.BasicBlock]bool {
	seen := map[*ssa.BasicBlock]bool{}
	work := append([]*ssa.BasicBlock{}, start...)
	for len(work) > 0 {
		b := work[len(work)-1]
		work = work[:len(work)-1]
		if seen[b] {
			continue
		}
		seen[b] = true
		if stop[b] {
			continue
		}
		work = append(work, b.Succs...)
	}
	return seen
}

func instrIndex(in ssa.Instruction) int {
	for i, x := range in.Block().Instrs {
		if x == in {
			return i
		}
	}
	return -1
}

// instrDominates: a executes before b on every path to b.
func instrDominates(a, b ssa.Instruction) bool {
	if a.Block() == b.Block() {
		return instrIndex(a) < instrIndex(b)
	}
	return a.Block().Dominates(b.Block())
}

func (p *Prog) ipos(in ssa.Instruction) string {
	if in == nil {
		return "?"
	}
	if in.Pos().IsValid() {
		return p.pos(in.Pos())
	}
	// fall back to the nearest positioned instruction in the block
	for _, x := range in.Block().Instrs {
		if x.Pos().IsValid() {
			return p.pos(x.Pos()) + "~"
		}
	}
	return p.pos(in.Parent().Pos()) + "~"
}

// anonByVar finds the function literal assigned to local variable name in
// the named enclosing function (e.g. "closeStream" in handleStreams).
func (p *Prog) anonByVar(encl, varName string) *ssa.Function {
	fd := p.decl(encl)
	sf := p.ssaFunc(encl)
	if fd == nil || sf == nil {
		return nil
	}
	var lit *ast.FuncLit
	ast.Inspect(fd, func(n ast.Node) bool {
		as, ok := n.(*ast.AssignStmt)
		if !ok {
			return true
		}
		for i, l := range as.Lhs {
			if id, ok := l.(*ast.Ident); ok && id.Name == varName && i < len(as.Rhs) {
				if fl, ok := as.Rhs[i].(*ast.FuncLit); ok && lit == nil {
					lit = fl
				}
			}
		}
		return true
	})
	if lit == nil {
		return nil
	}
	var find func(f *ssa.Function) *ssa.Function
	find = func(f *ssa.Function) *ssa.Function {
		for _, a := range f.AnonFuncs {
			if a.Syntax() == lit {
				return a
			}
			if r := find(a); r != nil {
				return r
			}
		}
		return nil
	}
	return find(sf)
}

func fmtBlock(b *ssa.BasicBlock) string { return fmt.Sprintf("b%d", b.Index) }
