package main

import (
	"fmt"
	"go/ast"
	"go/types"
	"sort"
	"strings"

	"golang.org/x/tools/go/ssa"
)

func init() {
	register(&Rule{
		Name: "access-discipline", Props: []string{"C19", "C18", "C07"}, Engine: "OWN", Floor: 150,
		Doc: "every access to a field of serverConn, Conn, Client, Ctx, pendingBody or Stream follows that field's discipline in the frozen table (owner goroutine, mutex, atomic, init-only, sync primitive): an access from another goroutine, or without the field's lock, is an unsynchronised concurrent access for some schedule",
		Run: ruleAccessDiscipline,
	})
}

// field discipline. Forms:
//
//	init-only            written only during init; read anywhere
//	owner:<root-prefix>  non-init accesses only from functions reached solely by roots with that prefix
//	mutex:<Owner.field>  non-init accesses hold that mutex
//	atomic               non-init accesses are atomic
//	sync                 synchronisation primitive (channel value, mutex, timer): operations are their own synchronisation
//	exempt:<reason>
var ownDiscipline = map[string]string{
	// serverConn
	"serverConn.c": "init-only", "serverConn.h": "init-only", "serverConn.maxWindow": "init-only", "serverConn.maxHeaderList": "init-only",
	"serverConn.maxRequestBodySize": "init-only", "serverConn.maxRequestTime": "init-only", "serverConn.pingInterval": "init-only",
	"serverConn.maxIdleTime": "init-only", "serverConn.st": "init-only", "serverConn.debug": "init-only", "serverConn.logger": "init-only",
	"serverConn.writer": "init-only", "serverConn.reader": "init-only", "serverConn.writeStop": "init-only", "serverConn.handlerDone": "init-only",
	"serverConn.handlerStop": "init-only", "serverConn.closer": "init-only", "serverConn.writeGone": "init-only", "serverConn.queueLck": "sync",
	"serverConn.pingTimer": "init-only", "serverConn.maxRequestTimer": "init-only", "serverConn.maxIdleTimer": "init-only",
	"serverConn.br": "owner:conn", "serverConn.clientS": "owner:go:(*serverConn).Serve$3",
	"serverConn.bw":            "owner:go:(*serverConn).Serve$2",
	"serverConn.enc":           "owner:go:(*serverConn).Serve$3",
	"serverConn.dec":           "owner:go:(*serverConn).Serve$3",
	"serverConn.clientWindow":  "owner:go:(*serverConn).Serve$3",
	"serverConn.currentWindow": "owner:go:(*serverConn).Serve$3",
	// written (atomically) by the stream loop only, which may also read it
	// plainly; any other goroutine reads it atomically (writeGoAway)
	"serverConn.lastID":  "published:go:(*serverConn).Serve$3",
	"serverConn.discard": "owner:go:(*serverConn).Serve$3",
	"serverConn.state":   "atomic", "serverConn.closeRef": "atomic", "serverConn.writeLimit": "atomic",
	// Conn
	"Conn.c": "init-only", "Conn.maxWindow": "init-only", "Conn.current": "init-only", "Conn.disableAcks": "init-only",
	"Conn.winCh": "init-only", "Conn.in": "init-only", "Conn.out": "init-only", "Conn.done": "init-only",
	"Conn.br": "owner:go:(*Conn).readLoop", "Conn.dec": "owner:go:(*Conn).readLoop", "Conn.block": "owner:go:(*Conn).readLoop", "Conn.currentWindow": "owner:go:(*Conn).readLoop",
	"Conn.serverS": "owner:go:(*Conn).readLoop", "Conn.state": "owner:go:(*Conn).readLoop", "Conn.closeRef": "owner:go:(*Conn).readLoop",
	"Conn.enc": "owner:go:(*Conn).writeLoop", "Conn.encTableSizeSeen": "owner:go:(*Conn).writeLoop", "Conn.pingInterval": "owner:go:(*Conn).writeLoop",
	"Conn.bw":         "mutex:Conn.bwLck",
	"Conn.connWindow": "mutex:Conn.sendLck", "Conn.pending": "mutex:Conn.sendLck", "Conn.streamWindow": "mutex:Conn.sendLck",
	"Conn.reqQueued": "mutex:Conn.reqLck",
	"Conn.lastErr":   "mutex:Conn.lastErrLck",
	"Conn.nextID":    "atomic", "Conn.openStreams": "atomic", "Conn.maxStreams": "atomic", "Conn.maxFrameSize": "atomic",
	"Conn.encTableSize": "atomic", "Conn.goAway": "atomic", "Conn.unacks": "atomic", "Conn.closed": "atomic", "Conn.writeBounded": "atomic", "Conn.encTableSizeLow": "atomic",
	"Conn.sendLck": "sync", "Conn.reqLck": "sync", "Conn.bwLck": "sync", "Conn.lastErrLck": "sync",
	"Conn.onDisconnect": "exempt:configuration callback set through SetOnDisconnect before the connection is used; not part of the interleavings the property quantifies over",
	// pendingBody
	"pendingBody.ctx":    "init-only",
	"pendingBody.window": "mutex:Conn.sendLck",
	"pendingBody.body":   "owner:go:(*Conn).writeLoop", "pendingBody.drained": "owner:go:(*Conn).writeLoop", "pendingBody.read": "owner:go:(*Conn).writeLoop",
	"pendingBody.buf": "owner:go:(*Conn).writeLoop", "pendingBody.size": "owner:go:(*Conn).writeLoop",
	// set while the body is built in writeRequest and never changed: the write
	// loop calls Read on it holding nothing, so nothing may clear it; that it
	// has been closed is kept in closed
	"pendingBody.stream": "init-only", "pendingBody.closed": "atomic",
	// Ctx
	"Ctx.Err": "init-only", "Ctx.streamID": "atomic", "Ctx.conn": "atomic", "Ctx.headersDone": "mutex:Ctx.lck",
	"Ctx.done":     "mutex:Ctx.lck",
	"Ctx.resolved": "mutex:Ctx.resLck", "Ctx.finished": "mutex:Ctx.resLck",
	"Ctx.timer": "owner:caller", "Ctx.armed": "owner:caller",
	"Ctx.Request": "mutex:Ctx.lck", "Ctx.Response": "mutex:Ctx.lck",
	"Ctx.lck": "sync", "Ctx.resLck": "sync",
	// Client
	"Client.d": "init-only", "Client.opts": "init-only",
	"Client.conns": "mutex:Client.lck", "Client.closed": "mutex:Client.lck", "Client.lck": "sync",
}

// functions whose callers hold a lock for them (each call site is re-checked).
var ownCallerHolds = map[string]string{
	"(*Conn).writeData":        "Conn.bwLck",
	"(*Conn).writeHeaderBlock": "Conn.bwLck",
	"(*Client).createConn":     "Client.lck",
	"(*Conn).closeBodyStream":  "Ctx.lck",
	"(*Conn).readStreamOwned":  "Ctx.lck",
	"(*pendingBody).hasMore":   "Conn.sendLck",
}

// reviewed single accesses: "field|function|kind" -> reason.
var ownReviewed = map[string]string{
	"serverConn.bw|(*serverConn).Handshake|read": "before the write loop exists",
	"Client.conns|ConfigureClient|write":         "set-up before the client is published",
	"Ctx.Request|(*Conn).writeRequest|read":      "under ctx.acquire(); released explicitly before sendPending",
	"Ctx.Err|(*Ctx).resolve|read":                "channel value read for a send; Err is never reassigned after the pool constructor",
	"Stream.ctx|(*serverConn).dropReported|read": "the stream came out of handlerDone after handlerStop was found closed: the loop that owned it is gone, its handler has returned, and the channel receive orders the access (call sites: rule request-ctx-handoff)",
}

func rootPrefixMatch(roots map[string]bool, want string) (bool, []string) {
	var bad []string
	for r := range roots {
		ok := false
		switch {
		case want == "caller":
			ok = strings.HasPrefix(r, "caller:")
		case want == "conn":
			ok = strings.HasPrefix(r, "conn:")
		default:
			ok = r == want
		}
		if !ok {
			bad = append(bad, r)
		}
	}
	sort.Strings(bad)
	return len(bad) == 0, bad
}

func ruleAccessDiscipline(p *Prog, r *Out) {
	o := p.own()
	// which closure of Serve is which loop: resolve Serve$N by the method it calls
	alias := map[string]string{}
	for name, f := range o.Roots {
		if !strings.HasPrefix(name, "go:(*serverConn).Serve$") {
			continue
		}
		for _, cs := range p.callsIn(f) {
			switch cs.Callee {
			case "(*serverConn).writeLoop":
				alias["go:(*serverConn).Serve$2"] = name
			case "(*serverConn).handleStreams":
				alias["go:(*serverConn).Serve$3"] = name
			}
		}
	}
	resolve := func(want string) string {
		if a, ok := alias[want]; ok {
			return a
		}
		return want
	}
	// caller-holds: verify at each call site, then credit the lock
	callerHeld := map[string]string{}
	for fn, lock := range ownCallerHolds {
		sites := p.callsTo(fn)
		allHold := len(sites) > 0
		var why []string
		for _, cs := range sites {
			acc := ownAccess{Instr: cs.Instr, Kind: "read"}
			dummy := &ssa.FieldAddr{}
			_ = dummy
			held := p.locksHeldAt(cs.Instr)
			cf := p.fname(cs.Fn)
			_ = acc
			if held[lock] {
				continue
			}
			// a caller that itself is caller-holds for the same lock
			if l2, ok := ownCallerHolds[cf]; ok && l2 == lock {
				continue
			}
			if _, ok := ownInitFuncs[cf]; ok {
				continue
			}
			allHold = false
			why = append(why, cf+" at "+p.ipos(cs.Instr))
		}
		key := fn + " callers hold " + lock
		if allHold {
			callerHeld[fn] = lock
			r.ok(key, "?", fmt.Sprintf("%d call sites", len(sites)))
		} else {
			r.bad(key, "?", fmt.Sprintf("%s relies on its callers holding %s, but these call sites do not: %s", fn, lock, strings.Join(why, "; ")))
			callerHeld[fn] = lock // its own accesses are judged as documented; the call site is the finding
		}
	}
	// every field of the six structs has a discipline
	for s := range ownStructs {
		tn, ok := p.Pkg.Scope().Lookup(s).(*types.TypeName)
		if !ok {
			r.undecided("struct "+s, "?", "type no longer resolves")
			continue
		}
		st := tn.Type().Underlying().(*types.Struct)
		for i := 0; i < st.NumFields(); i++ {
			f := s + "." + st.Field(i).Name()
			if s == "Stream" {
				continue // whole struct: owner stream loop, checked below
			}
			if _, ok := ownDiscipline[f]; !ok {
				r.bad("field "+f+" has a discipline", p.pos(st.Field(i).Pos()), "field "+f+" is not in the access-discipline table: a new piece of shared state whose synchronisation has not been reviewed")
			}
		}
	}
	type agg struct {
		ok   bool
		msg  string
		pos  string
		n    int
		kind string
	}
	results := map[string]*agg{}
	var order []string
	note := func(key string, ok bool, pos, msg string) {
		a, have := results[key]
		if !have {
			a = &agg{ok: true}
			results[key] = a
			order = append(order, key)
		}
		a.n++
		if !ok && a.ok {
			a.ok, a.msg, a.pos = false, msg, pos
		}
		if a.pos == "" {
			a.pos = pos
		}
	}
	streamLoop := resolve("go:(*serverConn).Serve$3")
	for _, acc := range o.Accesses {
		f := acc.Owner + "." + acc.Field
		fn := p.fname(acc.Fn)
		if acc.Fn.Parent() != nil {
			// closures are named after their position; report under the enclosing method
			fn = p.fname(acc.Fn)
		}
		disc := ownDiscipline[f]
		if acc.Owner == "Stream" {
			disc = "owner:" + streamLoop
		}
		if disc == "" {
			continue
		}
		if lk, ok := callerHeld[fn]; ok {
			if acc.Locks == nil {
				acc.Locks = map[string]bool{}
			}
			acc.Locks[lk] = true
			if acc.Prot == "plain" {
				acc.Prot = "locked:" + lk
			}
		}
		key := fmt.Sprintf("%s in %s (%s)", f, fn, acc.Kind)
		pos := p.ipos(acc.Instr)
		if why, ok := ownReviewed[f+"|"+fn+"|"+acc.Kind]; ok {
			note(key, true, pos, "reviewed: "+why)
			continue
		}
		roots := o.rootsAt(p, acc.Instr)
		var rl []string
		for x := range roots {
			rl = append(rl, x)
		}
		sort.Strings(rl)
		switch {
		case acc.Prot == "init" || acc.Kind == "sync" || disc == "sync" || strings.HasPrefix(disc, "exempt:"):
			note(key, true, pos, "")
		case disc == "init-only":
			note(key, acc.Kind == "read", pos, fmt.Sprintf("%s is written (%s) in %s after the goroutines of the connection exist; the field is read from several goroutines without synchronisation because it is meant to be fixed at set-up (reached from %v)", f, acc.Detail, fn, rl))
		case disc == "atomic":
			note(key, acc.Kind == "atomic", pos, fmt.Sprintf("%s is accessed with a plain %s in %s; every other access is atomic, so this one races with them (reached from %v)", f, acc.Kind, fn, rl))
		case strings.HasPrefix(disc, "mutex:"):
			m := strings.TrimPrefix(disc, "mutex:")
			note(key, acc.Locks[m], pos, fmt.Sprintf("%s is %s in %s without holding %s (protection here: %s); the field is guarded by that mutex everywhere else, so this access races with the goroutines that take it (reached from %v)", f, acc.Kind, fn, m, acc.Prot, rl))
		case strings.HasPrefix(disc, "published:"):
			want := resolve(strings.TrimPrefix(disc, "published:"))
			onOwner := false
			if len(roots) > 0 {
				onOwner, _ = rootPrefixMatch(roots, want)
			}
			isStore := strings.Contains(acc.Detail, "Store") || strings.Contains(acc.Detail, "Add") || strings.Contains(acc.Detail, "Swap")
			switch {
			case len(roots) == 0:
				note(key, true, pos, "unreachable from any root")
			case acc.Kind == "atomic" && !isStore:
				note(key, true, pos, "")
			case acc.Kind == "atomic" && isStore:
				note(key, onOwner, pos, fmt.Sprintf("%s is published by the goroutine %s alone, but %s stores to it and is also reached from %v: two writers", f, want, fn, rl))
			case acc.Kind == "read":
				note(key, onOwner, pos, fmt.Sprintf("%s is written atomically by the goroutine %s; a plain read of it in %s, which is also reached from %v, races with those writes (only the writer itself may read it plainly)", f, want, fn, rl))
			default:
				note(key, false, pos, fmt.Sprintf("%s is read atomically from other goroutines, so a plain %s of it in %s races with them: every write has to be atomic", f, acc.Kind, fn))
			}
		case strings.HasPrefix(disc, "owner:"):
			want := resolve(strings.TrimPrefix(disc, "owner:"))
			if len(roots) == 0 {
				note(key, true, pos, "unreachable from any root")
				continue
			}
			okk, bad := rootPrefixMatch(roots, want)
			note(key, okk, pos, fmt.Sprintf("%s belongs to the goroutine %s (plain accesses, no lock), but %s, which makes a %s access to it, is also reached from %v: two goroutines touch it without synchronisation", f, want, fn, acc.Kind, bad))
		}
	}
	sort.Strings(order)
	for _, k := range order {
		a := results[k]
		if a.ok {
			r.ok(k, a.pos, fmt.Sprintf("%d accesses conform", a.n))
		} else {
			r.bad(k, a.pos, a.msg)
		}
	}
}

// locksHeldAt computes the mutexes (and Ctx ownership) held at an instruction.
func (p *Prog) locksHeldAt(in ssa.Instruction) map[string]bool {
	acc := ownAccess{Instr: in, Kind: "read"}
	// protectionOf needs a FieldAddr only for the fresh-object test
	fa := &ssa.FieldAddr{}
	func() {
		defer func() { _ = recover() }()
		p.protectionOf(&acc, fa)
	}()
	if acc.Locks == nil {
		acc.Locks = map[string]bool{}
	}
	return acc.Locks
}

// ---------------------------------------------------------------- self-deadlock

func init() {
	register(&Rule{
		Name: "no-self-deadlock", Props: []string{"C12", "C17", "C19"}, Engine: "OWN", Floor: 20,
		Doc: "no function calls, while it holds one of the package's mutexes (directly, or through the Ctx acquire/acquireFor wrappers), a function that can acquire that same mutex again: sync.Mutex is not re-entrant, so the goroutine would wait for itself for ever (the read loop, and with it every request on the connection). Lock state at a call site is decided by dominance (a Lock that dominates the call with no dominating Unlock in between); what a callee may acquire is the transitive closure over the call graph",
		Run: ruleNoSelfDeadlock,
	})
}

func ruleNoSelfDeadlock(p *Prog, r *Out) {
	// direct acquisitions per function
	direct := map[*ssa.Function]map[string]bool{}
	callees := map[*ssa.Function][]*ssa.Function{}
	var fns []*ssa.Function
	for _, f := range p.allFuncs() {
		if f.Blocks == nil {
			continue
		}
		fns = append(fns, f)
		for _, b := range f.Blocks {
			for _, x := range b.Instrs {
				ci, ok := x.(ssa.CallInstruction)
				if !ok {
					continue
				}
				if _, isGo := x.(*ssa.Go); isGo {
					continue
				}
				name := p.calleeName(ci.Common())
				if name == "(*sync.Mutex).Lock" && len(ci.Common().Args) == 1 {
					if mfa, ok := ci.Common().Args[0].(*ssa.FieldAddr); ok {
						mo, mf := p.fieldAddrName(mfa)
						if direct[f] == nil {
							direct[f] = map[string]bool{}
						}
						direct[f][mo+"."+mf] = true
					}
					continue
				}
				if _, isDefer := x.(*ssa.Defer); isDefer {
					continue
				}
				if ci.Common().IsInvoke() {
					callees[f] = append(callees[f], p.implementersOf(ci.Common())...)
				} else {
					callees[f] = append(callees[f], p.calleesOf(ci)...)
				}
			}
		}
	}
	// transitive closure
	may := map[*ssa.Function]map[string]bool{}
	for _, f := range fns {
		may[f] = map[string]bool{}
		for l := range direct[f] {
			may[f][l] = true
		}
	}
	for changed := true; changed; {
		changed = false
		for _, f := range fns {
			for _, g := range callees[f] {
				for l := range may[g] {
					if !may[f][l] {
						may[f][l] = true
						changed = true
					}
				}
			}
		}
	}
	// a witness chain for the message
	var chain func(g *ssa.Function, l string, depth int) string
	chain = func(g *ssa.Function, l string, depth int) string {
		if direct[g][l] || depth > 6 {
			return p.fname(g)
		}
		for _, h := range callees[g] {
			if may[h][l] {
				return p.fname(g) + " -> " + chain(h, l, depth+1)
			}
		}
		return p.fname(g)
	}
	sites := 0
	for _, f := range fns {
		for _, b := range f.Blocks {
			for _, x := range b.Instrs {
				ci, ok := x.(ssa.CallInstruction)
				if !ok {
					continue
				}
				if _, isGo := x.(*ssa.Go); isGo {
					continue
				}
				if _, isDefer := x.(*ssa.Defer); isDefer {
					continue
				}
				name := p.calleeName(ci.Common())
				if strings.HasPrefix(name, "(*sync.") {
					continue
				}
				held := p.locksHeldAt(x)
				if len(held) == 0 {
					continue
				}
				cands := p.calleesOf(ci)
				if ci.Common().IsInvoke() {
					cands = p.implementersOf(ci.Common())
				}
				for _, g := range cands {
					if g.Blocks == nil {
						continue
					}
					sites++
					for l := range held {
						key := fmt.Sprintf("%s calls %s holding %s", p.fname(f), p.fname(g), l)
						r.check(!may[g][l], key, p.ipos(x), "callee does not take "+l,
							fmt.Sprintf("%s calls %s while holding %s, and that call can take %s again (%s): the goroutine waits for a mutex it holds itself, for ever; on the client's read loop that stops every response on the connection and the RoundTrip that waits to take its context back never returns", p.fname(f), p.fname(g), l, l, chain(g, l, 0)))
					}
				}
			}
		}
	}
	if sites == 0 {
		r.bad("calls under a lock", "?", "no call made while a mutex is held was found: the lock-state analysis has lost its anchors")
	}
}

// ---------------------------------------------------------------- lock order

func init() {
	register(&Rule{
		Name: "lock-order", Props: []string{"C12", "C17", "C19"}, Engine: "OWN", Floor: 3,
		Doc: "the 'held while acquiring' relation between the package's mutexes (lock state at each call site by dominance, acquisitions of the callee by transitive closure) has no cycle: two goroutines taking the same two mutexes in opposite orders can each end up waiting for the other",
		Run: ruleLockOrder,
	})
}

func ruleLockOrder(p *Prog, r *Out) {
	direct := map[*ssa.Function]map[string]bool{}
	callees := map[*ssa.Function][]*ssa.Function{}
	var fns []*ssa.Function
	type acqSite struct {
		in   ssa.Instruction
		lock string
	}
	var sites []acqSite
	for _, f := range p.allFuncs() {
		if f.Blocks == nil {
			continue
		}
		fns = append(fns, f)
		for _, b := range f.Blocks {
			for _, x := range b.Instrs {
				ci, ok := x.(ssa.CallInstruction)
				if !ok {
					continue
				}
				if _, isGo := x.(*ssa.Go); isGo {
					continue
				}
				if _, isDefer := x.(*ssa.Defer); isDefer {
					continue
				}
				name := p.calleeName(ci.Common())
				if name == "(*sync.Mutex).Lock" && len(ci.Common().Args) == 1 {
					if mfa, ok := ci.Common().Args[0].(*ssa.FieldAddr); ok {
						mo, mf := p.fieldAddrName(mfa)
						if direct[f] == nil {
							direct[f] = map[string]bool{}
						}
						direct[f][mo+"."+mf] = true
						sites = append(sites, acqSite{x, mo + "." + mf})
					}
					continue
				}
				if ci.Common().IsInvoke() {
					callees[f] = append(callees[f], p.implementersOf(ci.Common())...)
				} else {
					callees[f] = append(callees[f], p.calleesOf(ci)...)
				}
			}
		}
	}
	may := map[*ssa.Function]map[string]bool{}
	for _, f := range fns {
		may[f] = map[string]bool{}
		for l := range direct[f] {
			may[f][l] = true
		}
	}
	for changed := true; changed; {
		changed = false
		for _, f := range fns {
			for _, g := range callees[f] {
				for l := range may[g] {
					if !may[f][l] {
						may[f][l] = true
						changed = true
					}
				}
			}
		}
	}
	// edges held -> acquired, with one witness each
	edges := map[string]map[string]string{}
	add := func(h, a, w string) {
		if h == a {
			return
		}
		if edges[h] == nil {
			edges[h] = map[string]string{}
		}
		if _, ok := edges[h][a]; !ok {
			edges[h][a] = w
		}
	}
	for _, s := range sites {
		for h := range p.locksHeldAt(s.in) {
			add(h, s.lock, p.fname(s.in.Parent())+" at "+p.ipos(s.in))
		}
	}
	for _, f := range fns {
		for _, b := range f.Blocks {
			for _, x := range b.Instrs {
				ci, ok := x.(ssa.CallInstruction)
				if !ok {
					continue
				}
				if _, isGo := x.(*ssa.Go); isGo {
					continue
				}
				if _, isDefer := x.(*ssa.Defer); isDefer {
					continue
				}
				if strings.HasPrefix(p.calleeName(ci.Common()), "(*sync.") {
					continue
				}
				held := p.locksHeldAt(x)
				if len(held) == 0 {
					continue
				}
				cands := p.calleesOf(ci)
				if ci.Common().IsInvoke() {
					cands = p.implementersOf(ci.Common())
				}
				for _, g := range cands {
					for a := range may[g] {
						for h := range held {
							add(h, a, p.fname(f)+" calls "+p.fname(g)+" at "+p.ipos(x))
						}
					}
				}
			}
		}
	}
	var hs []string
	for h := range edges {
		hs = append(hs, h)
	}
	sortStrings(hs)
	n := 0
	for _, h := range hs {
		var as []string
		for a := range edges[h] {
			as = append(as, a)
		}
		sortStrings(as)
		for _, a := range as {
			n++
			// a cycle exists if h is reachable from a
			seen := map[string]bool{}
			var path []string
			var dfs func(x string) bool
			dfs = func(x string) bool {
				if x == h {
					return true
				}
				if seen[x] {
					return false
				}
				seen[x] = true
				for y := range edges[x] {
					if dfs(y) {
						path = append(path, x+" -> "+y+" ("+edges[x][y]+")")
						return true
					}
				}
				return false
			}
			cyc := dfs(a)
			r.check(!cyc, h+" held while taking "+a, "?", "no path back from "+a+" to "+h,
				fmt.Sprintf("%s is held while %s is taken (%s), and elsewhere the order is reversed: %s. Two goroutines on these paths can each hold one mutex and wait for the other", h, a, edges[h][a], strings.Join(path, "; ")))
		}
	}
	if n == 0 {
		r.bad("lock order edges", "?", "no 'held while acquiring' pair found: the lock-state analysis has lost its anchors")
	}
}

// ---------------------------------------------------------------- blocking under a request's lock

func init() {
	register(&Rule{
		Name: "no-blocking-under-ctx-lock", Props: []string{"C12"}, Engine: "OWN", Floor: 2,
		Doc: "while a connection goroutine holds a request's Ctx (acquire/acquireFor .. release) it performs no operation whose completion depends on the peer: no blocking channel send or select without default, no socket write or flush. RoundTrip takes the same mutex, without a bound, before it can return (takeBack), so anything the peer can stall under that mutex stalls the caller past its configured timeout",
		Run: ruleNoBlockingUnderCtx,
	})
}

// ctxWaitsBounded: every wait for a request's Ctx gives the socket write in
// progress a limited time first. That is what makes a socket write under the
// Ctx tolerable: whoever needs the Ctx makes the write fail rather than wait
// for the peer.
func (p *Prog) ctxWaitsBounded() (bool, []string) {
	if v, ok := p.memo["ctxWaitsBounded"]; ok {
		x := v.([]interface{})
		return x[0].(bool), x[1].([]string)
	}
	var why []string
	fail := func(s string) { why = append(why, s) }
	// (*Ctx).lock: TryLock -> return; conn != nil -> boundWrite; Lock
	if fd := p.decl("(*Ctx).lock"); fd == nil {
		fail("(*Ctx).lock no longer resolves")
	} else {
		l := fd.Body.List
		ok := len(l) == 3
		if ok {
			i0, ok0 := l[0].(*ast.IfStmt)
			i1, ok1 := l[1].(*ast.IfStmt)
			ok = ok0 && ok1 && squash(p.text(i0.Cond)) == "ctx.lck.TryLock()" && len(i0.Body.List) == 1 && squash(p.text(i0.Body.List[0])) == "return" &&
				i1.Init != nil && squash(p.text(i1.Init)) == "c:=ctx.conn.Load()" && squash(p.text(i1.Cond)) == "c!=nil" && len(i1.Body.List) == 1 && squash(p.text(i1.Body.List[0])) == "c.boundWrite()" && i1.Else == nil &&
				squash(p.text(l[2])) == "ctx.lck.Lock()"
		}
		if !ok {
			fail("(*Ctx).lock is no longer `if TryLock { return }; if c := conn; c != nil { c.boundWrite() }; Lock`: a wait for the Ctx no longer bounds the socket write its holder may be stuck in")
		}
	}
	// nothing else blocks on Ctx.lck
	for _, f := range p.allFuncs() {
		if f.Pkg != p.SPkg || f.Blocks == nil || p.fname(f) == "(*Ctx).lock" {
			continue
		}
		for _, b := range f.Blocks {
			for _, in := range b.Instrs {
				c, ok := in.(*ssa.Call)
				if !ok || p.calleeName(c.Common()) != "(*sync.Mutex).Lock" || len(c.Call.Args) != 1 {
					continue
				}
				if fa, ok := c.Call.Args[0].(*ssa.FieldAddr); ok {
					if o, fl := p.fieldAddrName(fa); o == "Ctx" && fl == "lck" {
						fail(p.fname(f) + " takes Ctx.lck directly at " + p.ipos(in) + ", without bounding the write its holder may be stuck in")
					}
				}
			}
		}
	}
	// boundWrite: a positive, bounded, constant grace on the socket
	if fd := p.decl("(*Conn).boundWrite"); fd == nil {
		fail("(*Conn).boundWrite no longer resolves")
	} else {
		dl, mark := -1, -1
		for i, s := range fd.Body.List {
			t := squash(p.text(s))
			if t == "_=c.c.SetWriteDeadline(time.Now().Add(writeGrace))" {
				dl = i
			}
			if t == "atomic.StoreInt32(&c.writeBounded,1)" {
				mark = i
			}
		}
		g, okg := p.pkgConst("writeGrace")
		if dl < 0 || !okg || g <= 0 || g > int64(60*1e9) {
			fail("boundWrite no longer puts a deadline of a positive constant (at most a minute) from now on the socket")
		}
		if mark < 0 || mark < dl {
			fail("boundWrite no longer sets the deadline before it marks it for clearing: a clearing can slip in between and the deadline stays on every later write")
		}
	}
	if fd := p.decl("(*Conn).lockWrites"); fd == nil {
		fail("(*Conn).lockWrites no longer resolves")
	} else {
		l := stmtTexts(p, fd.Body.List)
		if len(l) != 2 || l[0] != "c.bwLck.Lock()" || l[1] != "ifatomic.CompareAndSwapInt32(&c.writeBounded,1,0){_=c.c.SetWriteDeadline(time.Time{})}" {
			fail("lockWrites no longer takes the write lock and then clears a deadline that was meant for the previous write")
		}
	}
	p.memo["ctxWaitsBounded"] = []interface{}{len(why) == 0, why}
	return len(why) == 0, why
}

func ruleNoBlockingUnderCtx(p *Prog, r *Out) {
	// which functions may block on the peer, and through what
	why := map[*ssa.Function]string{}
	callees := map[*ssa.Function][]*ssa.Function{}
	var fns []*ssa.Function
	for _, f := range p.allFuncs() {
		if f.Blocks == nil {
			continue
		}
		fns = append(fns, f)
		for _, b := range f.Blocks {
			for _, x := range b.Instrs {
				switch v := x.(type) {
				case *ssa.Send:
					if why[f] == "" {
						why[f] = "channel send at " + p.ipos(x)
					}
				case *ssa.Select:
					if v.Blocking && why[f] == "" {
						hasSend := false
						for _, st := range v.States {
							if st.Dir == types.SendOnly {
								hasSend = true
							}
						}
						if hasSend {
							why[f] = "select with a send and no default at " + p.ipos(x)
						}
					}
				case ssa.CallInstruction:
					if _, isGo := x.(*ssa.Go); isGo {
						continue
					}
					if _, isDefer := x.(*ssa.Defer); isDefer {
						continue
					}
					name := p.calleeName(v.Common())
					switch name {
					case "(*bufio.Writer).Flush", "(*FrameHeader).WriteTo":
						if why[f] == "" {
							why[f] = "socket write (" + name + ") at " + p.ipos(x)
						}
					}
					if v.Common().IsInvoke() {
						callees[f] = append(callees[f], p.implementersOf(v.Common())...)
					} else {
						callees[f] = append(callees[f], p.calleesOf(v)...)
					}
				}
			}
		}
	}
	for changed := true; changed; {
		changed = false
		for _, f := range fns {
			if why[f] != "" {
				continue
			}
			for _, g := range callees[f] {
				if why[g] != "" {
					why[f] = p.fname(g) + " -> " + why[g]
					if len(why[f]) > 400 {
						why[f] = why[f][:400]
					}
					changed = true
					break
				}
			}
		}
	}
	sites := 0
	seen := map[string]bool{}
	for _, f := range fns {
		for _, b := range f.Blocks {
			for _, x := range b.Instrs {
				ci, ok := x.(ssa.CallInstruction)
				if !ok {
					continue
				}
				if _, isGo := x.(*ssa.Go); isGo {
					continue
				}
				if _, isDefer := x.(*ssa.Defer); isDefer {
					continue
				}
				if !p.locksHeldAt(x)["Ctx.lck"] {
					continue
				}
				cands := p.calleesOf(ci)
				if ci.Common().IsInvoke() {
					cands = p.implementersOf(ci.Common())
				}
				name := p.calleeName(ci.Common())
				direct := name == "(*bufio.Writer).Flush" || name == "(*FrameHeader).WriteTo"
				for _, g := range cands {
					if g.Blocks == nil {
						continue
					}
					sites++
					key := fmt.Sprintf("%s calls %s holding Ctx.lck", p.fname(f), p.fname(g))
					if seen[key] {
						continue
					}
					seen[key] = true
					if bounded, _ := p.ctxWaitsBounded(); bounded && why[g] != "" && strings.Contains(why[g], "socket write") && !strings.Contains(why[g], "channel send") && !strings.Contains(why[g], "select with a send") {
						r.ok(key, p.ipos(x), "socket write only, and every wait for the Ctx bounds it (Ctx.lock -> boundWrite)")
						continue
					}
					r.check(why[g] == "", key, p.ipos(x), "callee cannot be stalled by the peer",
						fmt.Sprintf("%s calls %s while it holds the request's Ctx, and that call can wait on the peer (%s): a server that stops reading (the write loop sticks in Flush and the outgoing queue fills) parks this goroutine with the Ctx locked, and the RoundTrip of that request, which must take the same mutex before it returns, hangs past MaxResponseTime", p.fname(f), p.fname(g), why[g]))
				}
				if direct {
					sites++
					key := fmt.Sprintf("%s writes to the socket holding Ctx.lck", p.fname(f))
					if bounded, _ := p.ctxWaitsBounded(); bounded && !seen[key] {
						seen[key] = true
						r.ok(key, p.ipos(x), "every wait for the Ctx bounds the write (Ctx.lock -> boundWrite)")
					}
					if !seen[key] {
						seen[key] = true
						r.bad(key, p.ipos(x), fmt.Sprintf("%s calls %s while it holds the request's Ctx: a server that stops reading blocks the write with the Ctx locked, and the RoundTrip of that request, which must take the same mutex before it returns, hangs past MaxResponseTime", p.fname(f), name))
					}
				}
			}
		}
	}
	if sites == 0 {
		r.bad("calls under Ctx.lck", "?", "no call made while a Ctx is held was found: the lock-state analysis has lost its anchors")
	}
	// Close must not queue behind a mutex that is held across socket writes
	ioLocks := map[string]string{}
	for _, f := range fns {
		for _, b := range f.Blocks {
			for _, x := range b.Instrs {
				ci, ok := x.(ssa.CallInstruction)
				if !ok {
					continue
				}
				name := p.calleeName(ci.Common())
				if name != "(*bufio.Writer).Flush" && name != "(*FrameHeader).WriteTo" {
					continue
				}
				for l := range p.locksHeldAt(x) {
					if l != "Ctx.lck" {
						if _, ok := ioLocks[l]; !ok {
							ioLocks[l] = p.fname(f) + " at " + p.ipos(x)
						}
					}
				}
			}
		}
	}
	cf := p.ssaFunc("(*Conn).shut")
	if cf == nil {
		cf = p.ssaFunc("(*Conn).Close")
	}
	if cf != nil {
		waits := ""
		bounded, _ := p.ctxWaitsBounded()
		for _, b := range cf.Blocks {
			for _, x := range b.Instrs {
				ci, ok := x.(ssa.CallInstruction)
				if !ok || p.calleeName(ci.Common()) != "(*sync.Mutex).Lock" || len(ci.Common().Args) != 1 {
					continue
				}
				if mfa, ok := ci.Common().Args[0].(*ssa.FieldAddr); ok {
					mo, mf := p.fieldAddrName(mfa)
					if w, ok := ioLocks[mo+"."+mf]; ok {
						// tolerable when the write that holds it has been given a deadline first
						pre := false
						for _, b2 := range cf.Blocks {
							for _, y := range b2.Instrs {
								if p.isCallTo(y, "(*Conn).boundWrite") && instrDominates(y, x) {
									pre = true
								}
							}
						}
						if !(bounded && pre) {
							waits = mo + "." + mf + " (held across a socket write in " + w + ")"
						}
					}
				}
			}
		}
		r.check(waits == "", "(*Conn).Close does not queue behind a socket write", p.pos(cf.Pos()), "Close takes no mutex that is held across a write to the peer", "(*Conn).Close takes "+waits+" before it closes the socket: when the peer has stopped reading, the write loop sits in that write with the mutex held, Close waits for it, and nothing ever closes the socket that would make the write fail; Client.Close hangs with it")
	}
}
