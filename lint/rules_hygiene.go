package main

// Small building blocks every other rule leans on without looking inside:
// flag arithmetic, accessor pairs, the pseudo-header test, the stream table's
// search and delete. A single-token edit in one of them silently changes the
// meaning of all their call sites, so their bodies are pinned by shape here.

import (
	"fmt"
	"go/ast"
	"go/token"
	"go/types"
	"sort"
	"strings"
)

func init() {
	register(&Rule{
		Name: "flag-ops", Props: []string{"C05", "C01", "C02", "C08"}, Engine: "AST", Floor: 3,
		Doc: "FrameFlags.Has(f) is `flags&f == f`, Add is `flags|f`, Del is `flags&^f` (or `flags ^ f` guarded by Has): every END_STREAM / END_HEADERS / PADDED / PRIORITY / ACK decision goes through them",
		Run: ruleFlagOps,
	})
	register(&Rule{
		Name: "accessor-pairing", Props: []string{"C05", "C01", "C02", "C18"}, Engine: "AST", Floor: 30,
		Doc: "for every SetX / X (IsX, HasX) method pair on the frame types, FrameHeader, Settings, HeaderField and Stream: the setter stores its argument in a field and the getter returns that same field",
		Run: ruleAccessorPairing,
	})
	register(&Rule{
		Name: "pseudo-header-test", Props: []string{"C20", "C01", "C02"}, Engine: "AST", Floor: 2,
		Doc: "HeaderField.IsPseudo is exactly 'the name is non-empty and its first octet is a colon', and both header-block readers (server request, client response) classify fields through it",
		Run: rulePseudoTest,
	})
	register(&Rule{
		Name: "stream-table-ops", Props: []string{"C01", "C08", "C13", "C09"}, Engine: "AST", Floor: 4,
		Doc: "Streams.Search returns the element whose ID() equals the argument and nil otherwise; Streams.Del removes exactly that element (the slice splice is s[:i] + s[i+1:]) and nothing else",
		Run: ruleStreamTableOps,
	})
}

func singleReturn(fd *ast.FuncDecl) ast.Expr {
	if fd == nil || fd.Body == nil || len(fd.Body.List) != 1 {
		return nil
	}
	rs, ok := fd.Body.List[0].(*ast.ReturnStmt)
	if !ok || len(rs.Results) != 1 {
		return nil
	}
	return ast.Unparen(rs.Results[0])
}

func ruleFlagOps(p *Prog, r *Out) {
	recvParam := func(fd *ast.FuncDecl) (string, string) {
		return fd.Recv.List[0].Names[0].Name, fd.Type.Params.List[0].Names[0].Name
	}
	if fd := p.decl("(FrameFlags).Has"); fd != nil {
		r.fn("(FrameFlags).Has")
		rc, pa := recvParam(fd)
		e := singleReturn(fd)
		ok := e != nil && (squash(p.text(e)) == rc+"&"+pa+"=="+pa || squash(p.text(e)) == pa+"&"+rc+"=="+pa)
		r.check(ok, "Has is a subset test", p.pos(fd.Pos()), "flags&f == f", "FrameFlags.Has is no longer `flags&f == f`: every flag decision in the codec and both connection loops is inverted or widened")
	} else {
		r.undecided("(FrameFlags).Has", "?", "no longer resolves")
	}
	if fd := p.decl("(FrameFlags).Add"); fd != nil {
		r.fn("(FrameFlags).Add")
		rc, pa := recvParam(fd)
		e := singleReturn(fd)
		ok := e != nil && (squash(p.text(e)) == rc+"|"+pa || squash(p.text(e)) == pa+"|"+rc)
		r.check(ok, "Add is a union", p.pos(fd.Pos()), "flags | f", "FrameFlags.Add is no longer `flags | f`: serialisers set the wrong flag bits")
	} else {
		r.undecided("(FrameFlags).Add", "?", "no longer resolves")
	}
	if fd := p.decl("(FrameFlags).Del"); fd != nil {
		r.fn("(FrameFlags).Del")
		rc, pa := recvParam(fd)
		e := singleReturn(fd)
		t := ""
		if e != nil {
			t = squash(p.text(e))
		}
		// `flags ^ f` is also a delete when every caller removes a flag that is set; accept the exact forms the tree uses
		ok := t == rc+"&^"+pa
		r.check(ok, "Del clears the bits", p.pos(fd.Pos()), "flags &^ f", "FrameFlags.Del no longer clears the given bits (a toggle sets a flag that was not set)")
	}
	// a frame body adds to, or takes from, the flags its header already has: it
	// never replaces them (the header may carry flags another part of the body,
	// or the caller, has set)
	sites, bad := 0, []string{}
	for _, fi := range p.frameImpls() {
		for _, m := range []string{"Serialize", "Deserialize"} {
			fd := p.decl("(*" + fi.Name + ")." + m)
			if fd == nil || fd.Type.Params == nil || len(fd.Type.Params.List) != 1 {
				continue
			}
			hdr := fd.Type.Params.List[0].Names[0].Name
			// locals that hold the header's flags
			held := map[string]bool{}
			ast.Inspect(fd.Body, func(n ast.Node) bool {
				if as, ok := n.(*ast.AssignStmt); ok && len(as.Lhs) == 1 && len(as.Rhs) == 1 && squash(p.text(as.Rhs[0])) == hdr+".Flags()" {
					held[p.text(as.Lhs[0])] = true
				}
				return true
			})
			inspectCalls(fd.Body, func(c *ast.CallExpr) {
				if p.calleeOf(c) != "(*FrameHeader).SetFlags" || len(c.Args) != 1 {
					return
				}
				sites++
				okArg := false
				if inner, ok := c.Args[0].(*ast.CallExpr); ok {
					name := p.calleeOf(inner)
					if name == "(FrameFlags).Add" || name == "(FrameFlags).Del" {
						if sel, ok := inner.Fun.(*ast.SelectorExpr); ok {
							base := squash(p.text(sel.X))
							okArg = base == hdr+".Flags()" || held[base]
						}
					}
				}
				if !okArg {
					bad = append(bad, fi.Name+"."+m+" "+p.pos(c.Pos()))
				}
			})
		}
	}
	r.check(len(bad) == 0 && sites >= 8, "frame bodies add to the header's flags and never replace them", "frame.go", fmt.Sprintf("%d SetFlags calls, each header.Flags().Add/Del(...)", sites), fmt.Sprintf("a frame body sets its header's flags to something that is not derived from the flags the header has (%v; %d sites): a flag set earlier (END_STREAM next to PADDED) is lost", bad, sites))
}

func ruleAccessorPairing(p *Prog, r *Out) {
	typesOf := map[string]bool{"FrameHeader": true, "Settings": true, "HeaderField": true, "Stream": true}
	for _, fi := range p.frameImpls() {
		typesOf[fi.Name] = true
	}
	var names []string
	for n := range p.funcDecls {
		names = append(names, n)
	}
	sort.Strings(names)
	for _, name := range names {
		fd := p.funcDecls[name]
		if fd.Recv == nil || fd.Body == nil || !strings.HasPrefix(name, "(*") {
			continue
		}
		close := strings.Index(name, ").")
		tname, meth := name[2:close], name[close+2:]
		if !typesOf[tname] || !strings.HasPrefix(meth, "Set") || len(meth) < 4 || fd.Type.Params == nil || len(fd.Type.Params.List) != 1 || len(fd.Type.Params.List[0].Names) != 1 {
			continue
		}
		param := fd.Type.Params.List[0].Names[0].Name
		// fields stored from the parameter (directly, through a conversion / mask / append / copy)
		stored := map[string]bool{}
		mentions := func(e ast.Node) bool {
			hit := false
			ast.Inspect(e, func(n ast.Node) bool {
				if id, ok := n.(*ast.Ident); ok && id.Name == param {
					hit = true
				}
				return true
			})
			return hit
		}
		ast.Inspect(fd.Body, func(n ast.Node) bool {
			switch x := n.(type) {
			case *ast.AssignStmt:
				for i, l := range x.Lhs {
					if sel, ok := ast.Unparen(l).(*ast.SelectorExpr); ok && i < len(x.Rhs) {
						if o, f, ok := p.fieldOf(sel); ok && o == tname && mentions(x.Rhs[i]) {
							stored[f] = true
						}
					}
				}
			case *ast.CallExpr:
				if p.calleeOf(x) == "builtin.copy" && len(x.Args) == 2 && mentions(x.Args[1]) {
					ast.Inspect(x.Args[0], func(m ast.Node) bool {
						if sel, ok := m.(*ast.SelectorExpr); ok {
							if o, f, ok := p.fieldOf(sel); ok && o == tname {
								stored[f] = true
							}
						}
						return true
					})
				}
				// forwarding to another setter of the same type
				if cn := p.calleeOf(x); strings.HasPrefix(cn, "(*"+tname+").Set") && cn != name && len(x.Args) == 1 && mentions(x.Args[0]) {
					if sd := p.decl(cn); sd != nil {
						st, _ := p.fieldsTouched(tname, []*ast.FuncDecl{sd})
						for f := range st {
							stored[f] = true
						}
					}
				}
			}
			return true
		})
		key := tname + "." + meth
		if len(stored) == 0 {
			r.bad(key+" stores its argument", p.pos(fd.Pos()), fmt.Sprintf("%s does not store its argument in any field of %s: the value set through the API never reaches the wire (or the state it configures)", name, tname))
			continue
		}
		r.ok(key+" stores its argument", p.pos(fd.Pos()), "stores into "+strings.Join(sortedKeys(stored), ","))
		base := meth[3:]
		for _, g := range []string{base, "Is" + base, "Has" + base} {
			gd := p.decl("(*" + tname + ")." + g)
			if gd == nil {
				gd = p.decl("(" + tname + ")." + g)
			}
			if gd == nil || gd.Type.Params == nil || len(gd.Type.Params.List) != 0 {
				continue
			}
			e := singleReturn(gd)
			if e == nil {
				continue
			}
			reads := map[string]bool{}
			ast.Inspect(e, func(n ast.Node) bool {
				if sel, ok := n.(*ast.SelectorExpr); ok {
					if o, f, ok := p.fieldOf(sel); ok && o == tname {
						reads[f] = true
					}
				}
				return true
			})
			if len(reads) == 0 {
				continue
			}
			match := false
			for f := range reads {
				if stored[f] {
					match = true
				}
			}
			r.check(match, key+" pairs with "+g, p.pos(gd.Pos()), g+"() returns the field "+meth+" stores",
				fmt.Sprintf("%s.%s stores into %v but %s.%s returns %v: what is set is not what is read back (or written to the wire)", tname, meth, sortedKeys(stored), tname, g, sortedKeys(reads)))
		}
	}
}

func rulePseudoTest(p *Prog, r *Out) {
	fd := p.decl("(*HeaderField).IsPseudo")
	if fd == nil {
		r.undecided("(*HeaderField).IsPseudo", "?", "no longer resolves")
		return
	}
	r.fn("(*HeaderField).IsPseudo")
	rc := fd.Recv.List[0].Names[0].Name
	e := singleReturn(fd)
	ok := false
	if e != nil {
		atoms := conjuncts(e, true)
		nonEmpty, colon := false, false
		for _, a := range atoms {
			if !a.Val {
				continue
			}
			if c, okc := p.canonCmp(a.Cond, nil); okc && c.Op == "le" && c.L.eq(Lin{T: map[string]int64{"len(" + rc + ".key)": -1}, C: 1}) {
				nonEmpty = true
			}
			if b, okb := ast.Unparen(a.Cond).(*ast.BinaryExpr); okb && b.Op == token.EQL && squash(p.text(b.X)) == rc+".key[0]" {
				if v := p.constOf(b.Y); v != nil && v.ExactString() == "58" {
					colon = true
				}
			}
		}
		ok = nonEmpty && colon && len(atoms) == 2
	}
	r.check(ok, "IsPseudo is 'non-empty name starting with a colon'", p.pos(fd.Pos()), "len(key) > 0 && key[0] == ':'", "HeaderField.IsPseudo is no longer exactly `len(key) > 0 && key[0] == ':'`: pseudo-headers are validated as regular fields and regular fields as pseudo-headers, in both the server's request reader and the client's response reader")
	// both readers classify through it
	for _, fn := range []string{"(*serverConn).handleHeaderFrame", "(*Conn).readHeader"} {
		d := p.decl(fn)
		if d == nil {
			continue
		}
		used := false
		ast.Inspect(d.Body, func(n ast.Node) bool {
			if ifs, ok := n.(*ast.IfStmt); ok {
				if c, ok := ast.Unparen(ifs.Cond).(*ast.CallExpr); ok && p.calleeOf(c) == "(*HeaderField).IsPseudo" {
					used = true
				}
			}
			return true
		})
		r.check(used, fn+" classifies with IsPseudo", p.pos(d.Pos()), "if hf.IsPseudo() {...}", fn+" no longer branches on HeaderField.IsPseudo to tell pseudo-headers from regular fields")
	}
}

func ruleStreamTableOps(p *Prog, r *Out) {
	if fd := p.decl("(*Streams).Search"); fd != nil {
		r.fn("(*Streams).Search")
		ok, nilEnd := false, false
		ast.Inspect(fd.Body, func(n ast.Node) bool {
			rs, isRange := n.(*ast.RangeStmt)
			if !isRange || rs.Value == nil {
				return true
			}
			v := p.text(rs.Value)
			for _, s := range rs.Body.List {
				if ifs, isIf := s.(*ast.IfStmt); isIf && squash(p.text(ifs.Cond)) == v+".ID()==id" && len(ifs.Body.List) == 1 {
					if ret, isRet := ifs.Body.List[0].(*ast.ReturnStmt); isRet && len(ret.Results) == 1 && p.text(ret.Results[0]) == v {
						ok = true
					}
				}
			}
			return true
		})
		if last, isRet := fd.Body.List[len(fd.Body.List)-1].(*ast.ReturnStmt); isRet && len(last.Results) == 1 && p.text(last.Results[0]) == "nil" {
			nilEnd = true
		}
		r.check(ok, "Search returns the stream with that id", p.pos(fd.Pos()), "if strm.ID() == id { return strm }", "Streams.Search no longer returns exactly the element whose ID() equals the argument: frames are applied to another stream's state")
		r.check(nilEnd, "Search returns nil when absent", p.pos(fd.Pos()), "return nil", "Streams.Search no longer ends with `return nil`")
	} else {
		r.undecided("(*Streams).Search", "?", "no longer resolves")
	}
	if fd := p.decl("(*Streams).Del"); fd != nil {
		r.fn("(*Streams).Del")
		splice, fast := false, true
		ast.Inspect(fd.Body, func(n ast.Node) bool {
			switch x := n.(type) {
			case *ast.RangeStmt:
				if x.Key == nil || x.Value == nil {
					return true
				}
				i, v := p.text(x.Key), p.text(x.Value)
				for _, s := range x.Body.List {
					ifs, isIf := s.(*ast.IfStmt)
					if !isIf || squash(p.text(ifs.Cond)) != v+".ID()==id" {
						continue
					}
					for _, b := range ifs.Body.List {
						if as, isAs := b.(*ast.AssignStmt); isAs && squash(p.text(as.Lhs[0])) == "*strms" {
							if squash(p.text(as.Rhs[0])) == "append((*strms)[:"+i+"],(*strms)["+i+"+1:]...)" {
								splice = true
							}
						}
					}
				}
			case *ast.IfStmt:
				// the single-element shortcut must test the id too
				if strings.Contains(squash(p.text(x.Cond)), "len(*strms)==1") {
					fast = p.isConjunctionOf(x.Cond, "len(*strms)==1", "(*strms)[0].ID()==id")
					if fast {
						okBody := false
						for _, b := range x.Body.List {
							if as, isAs := b.(*ast.AssignStmt); isAs && squash(p.text(as.Lhs[0])) == "*strms" && squash(p.text(as.Rhs[0])) == "(*strms)[:0]" {
								okBody = true
							}
						}
						fast = okBody
					}
				}
			}
			return true
		})
		r.check(splice, "Del splices out exactly the matching element", p.pos(fd.Pos()), "append(s[:i], s[i+1:]...) under ID() == id", "Streams.Del no longer removes exactly the element whose ID() equals the argument (s[:i] + s[i+1:]): a neighbour is dropped with it, or the closed stream stays in the table")
		r.check(fast, "Del's one-element shortcut tests the id", p.pos(fd.Pos()), "len == 1 && s[0].ID() == id -> s[:0]", "the single-element shortcut of Streams.Del no longer requires that element to be the one asked for: deleting an absent id empties the table")
	} else {
		r.undecided("(*Streams).Del", "?", "no longer resolves")
	}
}

var _ = types.Typ
