package main

import (
	"fmt"
	"go/ast"
	"go/token"
	"strings"

	"golang.org/x/tools/go/ssa"
)

func init() {
	register(&Rule{
		Name: "cli-stream-id", Props: []string{"C02"}, Engine: "SSA", Floor: 6,
		Doc: "the client takes a request's stream id from nextID, stores nextID = id + 2 (odd, increasing), and uses that same SSA value for the HEADERS frame, the Ctx and the waiter table; nextID is stored nowhere else but NewConn (1); ids above 2^31-1 are refused before use",
		Run: ruleCliStreamID,
	})
	register(&Rule{
		Name: "cli-register-before-write", Props: []string{"C02", "C12"}, Engine: "DOM", Floor: 3,
		Doc: "in writeRequest the waiter is registered (queueReq, ctx.streamID, ctx.conn) before the HEADERS frame is written: a response that arrives immediately must find its waiter",
		Run: ruleCliRegisterBeforeWrite,
	})
	register(&Rule{
		Name: "cli-response-key", Props: []string{"C02"}, Engine: "SSA", Floor: 4,
		Doc: "the read loop looks the waiter up by the frame's own stream id, writes only into that waiter's Response, and finishes the stream under the same id",
		Run: ruleCliResponseKey,
	})
	register(&Rule{
		Name: "no-stream-after-goaway", Props: []string{"C11", "C18"}, Engine: "DOM", Floor: 4,
		Doc: "the client allocates a stream id only after CanOpenStream() said yes; CanOpenStream refuses once the GOAWAY flag is set, when ids are exhausted, and at the peer's MAX_CONCURRENT_STREAMS; receiving GOAWAY sets the flag on every path",
		Run: ruleNoStreamAfterGoAway,
	})
	register(&Rule{
		Name: "retryable-pre-wire", Props: []string{"C11"}, Engine: "DOM", Floor: 5,
		Doc: "each error the client classifies as retryable is produced only at points where the request cannot have been written: before the HEADERS write in writeRequest, or as the alternative to handing the Ctx to the write loop; the one post-hand-over site is accepted under machine-checked side conditions (see evidence)",
		Run: ruleRetryablePreWire,
	})
	register(&Rule{
		Name: "goaway-resolves-above-last", Props: []string{"C11"}, Engine: "CALLGRAPH", Floor: 1,
		Doc: "on GOAWAY with a non-zero last-stream-id some code reachable from the receipt resolves the requests on streams above it (promptly, with an error that marks them unprocessed); without it they hang until the connection dies and then fail as if they might have been processed",
		Run: ruleGoAwayResolves,
	})
	register(&Rule{
		Name: "removal-implies-resolve", Props: []string{"C12"}, Engine: "DOM", Floor: 7,
		Doc: "every site that takes a request out of the waiter table or off the input queue leads to resolve: in the same function, or in the caller recorded in the reviewed table (each entry's condition is re-checked on the tree)",
		Run: ruleRemovalImpliesResolve,
	})
	register(&Rule{
		Name: "resolve-protocol", Props: []string{"C12", "C19"}, Engine: "AST", Floor: 5,
		Doc: "resolve delivers at most once without blocking: the send on Err is a select arm with default, under resLck, guarded by !resolved; takeBack sets resolved under the same lock; the write loop closes the connection before draining its queues so that a concurrent Write resolves itself",
		Run: ruleResolveProtocol,
	})
}

// findCall lists the ordinary calls of callee in f. Deferred and go calls are
// left out: they do not execute where they stand, so they must not count in
// ordering rules.
func (p *Prog) findCall(f *ssa.Function, callee string) []ssa.CallInstruction {
	var out []ssa.CallInstruction
	for _, cs := range p.callsIn(f) {
		if cs.Callee == callee {
			if _, ok := cs.Instr.(*ssa.Call); ok {
				out = append(out, cs.Instr)
			}
		}
	}
	return out
}

func ruleCliStreamID(p *Prog, r *Out) {
	f := p.ssaFunc("(*Conn).writeRequest")
	if f == nil {
		r.undecided("writeRequest", "?", "(*Conn).writeRequest no longer resolves")
		return
	}
	r.fn("(*Conn).writeRequest")
	var idv ssa.Value
	for _, ci := range p.findCall(f, "atomic.LoadUint32") {
		if p.fieldAddrIs(ci.Common().Args[0], "Conn", "nextID") {
			idv = ci.Value()
		}
	}
	if idv == nil {
		r.bad("id source", p.pos(f.Pos()), "writeRequest no longer loads the stream id from Conn.nextID")
		return
	}
	r.ok("id source", p.ipos(idv.(ssa.Instruction)), "id := atomic load of nextID")
	adv := false
	for _, ci := range p.findCall(f, "atomic.StoreUint32") {
		a := ci.Common().Args
		if p.fieldAddrIs(a[0], "Conn", "nextID") {
			if b, ok := a[1].(*ssa.BinOp); ok && b.Op == token.ADD && b.X == idv {
				if v, ok := constInt(b.Y); ok && v == 2 {
					adv = true
				}
			}
			r.check(adv, "nextID = id + 2", p.ipos(ci), "advance by 2 from the loaded value", "Conn.nextID is stored as "+p.vdescN(a[1], 3)+", not (the id just taken) + 2: ids repeat, turn even, or skip (RFC 7540 s5.1.1)")
		}
	}
	if !adv {
		r.bad("nextID = id + 2 present", p.pos(f.Pos()), "writeRequest never advances Conn.nextID by 2")
	}
	use := func(name, callee string, argIdx int) {
		okk := false
		n := 0
		for _, ci := range p.findCall(f, callee) {
			a := ci.Common().Args
			if argIdx < len(a) {
				n++
				if a[argIdx] == idv {
					okk = true
				}
			}
		}
		r.check(okk, name, p.pos(f.Pos()), "uses the id just taken", fmt.Sprintf("%s does not use the stream id taken from nextID (%d calls of %s examined): the frame, the Ctx and the waiter table disagree on the stream", name, n, callee))
	}
	use("frame stream id", "(*FrameHeader).SetStream", 1)
	use("waiter table key", "(*Conn).queueReq", 1)
	ctxID := false
	for _, ci := range p.findCall(f, "atomic.StoreUint32") {
		a := ci.Common().Args
		if p.fieldAddrIs(a[0], "Ctx", "streamID") && a[1] == idv {
			ctxID = true
		}
	}
	r.check(ctxID, "ctx.streamID", p.pos(f.Pos()), "ctx.streamID = id", "ctx.streamID is not set to the id just taken: cancel resets the wrong stream")
	// exhaustion guard dominates the store
	guard := false
	for _, ci := range p.findCall(f, "atomic.StoreUint32") {
		if p.fieldAddrIs(ci.Common().Args[0], "Conn", "nextID") {
			for _, ft := range p.factsAt(ci) {
				d := p.vdescN(ft.Cond, 3)
				if !ft.Val && strings.Contains(d, "> 2147483647") {
					guard = true
				}
			}
		}
	}
	r.check(guard, "id <= 2^31-1", p.pos(f.Pos()), "ids above 2^31-1 refused first", "a stream id above 2^31-1 is no longer refused before it is used")
	// other stores
	for _, st := range p.storesTo("Conn", "nextID") {
		fn := p.fname(st.Fn)
		v, isC := constInt(st.Store.Val)
		r.check(fn == "NewConn" && isC && v == 1, fn+" plain store nextID", p.ipos(st.Store), "initialised to 1", fn+" stores Conn.nextID outside the audited sites (NewConn: 1, writeRequest: id+2)")
	}
	for _, cs := range p.callsTo("atomic.StoreUint32") {
		if p.fieldAddrIs(cs.Common.Args[0], "Conn", "nextID") && p.fname(cs.Fn) != "(*Conn).writeRequest" {
			r.bad(p.fname(cs.Fn)+" atomic store nextID", p.ipos(cs.Instr), p.fname(cs.Fn)+" stores Conn.nextID; only writeRequest (the write loop) may advance it")
		}
	}
}

func ruleCliRegisterBeforeWrite(p *Prog, r *Out) {
	f := p.ssaFunc("(*Conn).writeRequest")
	if f == nil {
		r.undecided("writeRequest", "?", "no longer resolves")
		return
	}
	r.fn("(*Conn).writeRequest")
	writes := p.findCall(f, "(*FrameHeader).WriteTo")
	if len(writes) == 0 {
		// the HEADERS frame (and its CONTINUATIONs) are written by writeHeaderBlock
		writes = p.findCall(f, "(*Conn).writeHeaderBlock")
	}
	if len(writes) == 0 {
		r.bad("write", p.pos(f.Pos()), "writeRequest never writes the HEADERS frame")
		return
	}
	w := writes[0]
	chk := func(name string, cands []ssa.CallInstruction, filter func(ssa.CallInstruction) bool) {
		okk := false
		for _, c := range cands {
			if (filter == nil || filter(c)) && instrDominates(c, w) {
				okk = true
			}
		}
		r.check(okk, name+" before write", p.ipos(w), name+" dominates the frame write", name+" does not happen on every path before the HEADERS frame is written: a response (or RST_STREAM) that arrives at once finds no waiter and is dropped, and the request waits for its timeout")
	}
	chk("queueReq", p.findCall(f, "(*Conn).queueReq"), nil)
	chk("ctx.streamID store", p.findCall(f, "atomic.StoreUint32"), func(c ssa.CallInstruction) bool {
		return p.fieldAddrIs(c.Common().Args[0], "Ctx", "streamID")
	})
	// pending body registered before the write too (a WINDOW_UPDATE can race it)
	pend := false
	for _, b := range f.Blocks {
		for _, in := range b.Instrs {
			if mu, ok := in.(*ssa.MapUpdate); ok && strings.Contains(p.vdescN(mu.Map, 2), "Conn.pending") {
				// conditional on hasBody; must not be after the write
				if !reachAvoiding(w, mu, nil) {
					pend = true
				}
			}
		}
	}
	r.check(pend, "pending body registered before write", p.ipos(w), "c.pending[id] set before the write", "the pending body is registered after the HEADERS write: a WINDOW_UPDATE for the new stream can arrive before the entry exists and its credit is lost")
}

func ruleCliResponseKey(p *Prog, r *Out) {
	f := p.ssaFunc("(*Conn).dispatch")
	if f == nil {
		r.undecided("dispatch", "?", "(*Conn).dispatch no longer resolves")
		return
	}
	r.fn("(*Conn).dispatch")
	isFrStream := func(v ssa.Value) bool {
		c, ok := v.(*ssa.Call)
		return ok && p.calleeName(c.Common()) == "(*FrameHeader).Stream" && c.Call.Args[0] == ssa.Value(f.Params[1])
	}
	var rv ssa.Value
	for _, ci := range p.findCall(f, "(*Conn).loadReq") {
		r.check(isFrStream(ci.Common().Args[1]), "waiter looked up by fr.Stream()", p.ipos(ci), "loadReq(fr.Stream())", "the waiter is looked up by "+p.vdescN(ci.Common().Args[1], 3)+" rather than the frame's stream id: a response is delivered to another request")
		for _, ref := range *ci.Value().Referrers() {
			if ex, ok := ref.(*ssa.Extract); ok && ex.Index == 0 {
				rv = ex
			}
		}
	}
	if rv == nil {
		r.bad("waiter", p.pos(f.Pos()), "dispatch no longer obtains the waiter from loadReq")
		return
	}
	sinks := 0
	for _, ci := range p.findCall(f, "(*Conn).readStream") {
		sinks++
		a := ci.Common().Args
		d := p.vdescN(a[2], 3)
		okk := false
		if ld, o, n, ok := p.loadOfField(a[2]); ok && o == "Ctx" && n == "Response" && ld.X == rv {
			okk = true
		}
		r.check(okk, "response sink is the waiter's", p.ipos(ci), "readStream(fr, r.Response)", "readStream is given "+d+" instead of the looked-up waiter's Response")
		r.check(a[1] == ssa.Value(f.Params[1]), "readStream gets the same frame", p.ipos(ci), "same fr", "readStream is given another frame")
	}
	// or through a forwarding helper that is handed the frame and the waiter
	for _, b := range f.Blocks {
		for _, in := range b.Instrs {
			ci, ok := in.(ssa.CallInstruction)
			if !ok || !p.forwardsTo(in, "(*Conn).readStream") {
				continue
			}
			g := ci.Common().StaticCallee()
			a := ci.Common().Args
			// which of the helper's parameters receive the frame and the waiter
			var gFr, gCtx ssa.Value
			for i, pa := range g.Params {
				if i < len(a) && a[i] == ssa.Value(f.Params[1]) {
					gFr = pa
				}
				if i < len(a) && a[i] == rv {
					gCtx = pa
				}
			}
			for _, c2 := range p.findCall(g, "(*Conn).readStream") {
				sinks++
				a2 := c2.Common().Args
				okk := false
				if ld, o, n, ok := p.loadOfField(a2[2]); ok && o == "Ctx" && n == "Response" && gCtx != nil && ld.X == gCtx {
					okk = true
				}
				r.check(okk, "response sink is the waiter's", p.ipos(c2), "readStream(fr, r.Response) with r the waiter dispatch looked up", "readStream is given "+p.vdescN(a2[2], 3)+" instead of the Response of the waiter dispatch handed to "+p.fname(g))
				r.check(gFr != nil && a2[1] == gFr, "readStream gets the same frame", p.ipos(c2), "same fr", "readStream is given another frame than the one dispatch received")
			}
		}
	}
	if sinks == 0 {
		r.bad("response sink is the waiter's", p.pos(f.Pos()), "dispatch no longer hands the frame to readStream (directly or through a forwarding helper)")
	}
	for _, ci := range p.findCall(f, "(*Conn).finish") {
		a := ci.Common().Args
		r.check(a[1] == rv && isFrStream(a[2]), "finish keyed by the same waiter and id", p.ipos(ci), "finish(r, fr.Stream(), ...)", "finish is called with "+p.vdescN(a[1], 2)+", "+p.vdescN(a[2], 3)+": another stream is closed or another request resolved")
	}
	// acquireFor checks conn and stream id
	for _, ci := range p.findCall(f, "(*Ctx).acquireFor") {
		a := ci.Common().Args
		r.check(a[0] == rv && isFrStream(a[2]), "ownership taken for this stream", p.ipos(ci), "r.acquireFor(c, fr.Stream())", "the Ctx is acquired for a different stream id than the frame's")
	}
}

func ruleNoStreamAfterGoAway(p *Prog, r *Out) {
	f := p.ssaFunc("(*Conn).writeRequest")
	if f == nil {
		r.undecided("writeRequest", "?", "no longer resolves")
		return
	}
	r.fn("(*Conn).writeRequest", "(*Conn).CanOpenStream", "(*Conn).readNext")
	gated := false
	for _, ci := range p.findCall(f, "atomic.LoadUint32") {
		if p.fieldAddrIs(ci.Common().Args[0], "Conn", "nextID") {
			for _, ft := range p.factsAt(ci) {
				if ft.Val && strings.HasPrefix(p.vdescN(ft.Cond, 2), "(*Conn).CanOpenStream(") {
					gated = true
				}
			}
		}
	}
	r.check(gated, "id allocation gated by CanOpenStream", p.pos(f.Pos()), "CanOpenStream() == true dominates", "a stream id is allocated without CanOpenStream() having said yes: streams are opened after GOAWAY or beyond the peer's MAX_CONCURRENT_STREAMS")
	// CanOpenStream body
	fd := p.decl("(*Conn).CanOpenStream")
	if fd == nil {
		r.undecided("CanOpenStream", "?", "no longer resolves")
	} else {
		goaway, ids, conc, wide := false, false, false, false
		for _, s := range fd.Body.List {
			switch x := s.(type) {
			case *ast.IfStmt:
				t := p.text(x.Cond)
				retFalse := false
				for _, b := range x.Body.List {
					if rs, ok := b.(*ast.ReturnStmt); ok && len(rs.Results) == 1 && p.text(rs.Results[0]) == "false" {
						retFalse = true
					}
				}
				if retFalse && strings.Contains(t, "c.goAway") && strings.Contains(t, "!= 0") {
					goaway = true
				}
				if retFalse && strings.Contains(t, "c.nextID") && strings.Contains(t, "> maxStreamID") {
					ids = true
				}
			case *ast.ReturnStmt:
				if len(x.Results) == 1 {
					if b, ok := x.Results[0].(*ast.BinaryExpr); ok && b.Op == token.LSS && strings.Contains(p.text(b.X), "c.openStreams") && strings.Contains(p.text(b.Y), "c.maxStreams") {
						conc = true
						// both sides widened before they meet: the limit is any uint32, and as int32 a big one is negative
						lx, okx := ast.Unparen(b.X).(*ast.CallExpr)
						ly, oky := ast.Unparen(b.Y).(*ast.CallExpr)
						if okx && oky && p.isConversion(lx) && p.isConversion(ly) && p.text(lx.Fun) == "int64" && (p.text(ly.Fun) == "int64" || p.text(ly.Fun) == "uint64") {
							wide = true
						}
					}
				}
			}
		}
		r.check(wide, "the stream limit is compared in 64 bits", p.pos(fd.Pos()), "int64(openStreams) < int64(maxStreams)", "CanOpenStream compares the open-stream count with SETTINGS_MAX_CONCURRENT_STREAMS in 32 bits: a limit of 2^31 or more, which a server may well advertise, comes out negative and every request is refused with ErrNotAvailableStreams")
		r.check(goaway, "CanOpenStream refuses after GOAWAY", p.pos(fd.Pos()), "goAway != 0 -> false", "CanOpenStream no longer refuses once the GOAWAY flag is set")
		r.check(ids, "CanOpenStream refuses exhausted ids", p.pos(fd.Pos()), "nextID > 2^31-1 -> false", "CanOpenStream no longer refuses when the stream ids are used up")
		r.check(conc, "CanOpenStream honours MAX_CONCURRENT_STREAMS", p.pos(fd.Pos()), "openStreams < maxStreams", "CanOpenStream no longer compares the open-stream count with the peer's SETTINGS_MAX_CONCURRENT_STREAMS strictly (<)")
	}
	// GOAWAY receipt sets the flag unconditionally
	nd := p.decl("(*Conn).readNext")
	if nd == nil {
		r.undecided("readNext", "?", "no longer resolves")
		return
	}
	set := false
	ast.Inspect(nd.Body, func(n ast.Node) bool {
		cc, ok := n.(*ast.CaseClause)
		if !ok {
			return true
		}
		isGA := false
		for _, e := range cc.List {
			if v, ok := p.intConst(e); ok && v == 7 {
				isGA = true
			}
		}
		if !isGA {
			return true
		}
		for _, s := range cc.Body {
			if es, ok := s.(*ast.ExprStmt); ok {
				if c, ok := es.X.(*ast.CallExpr); ok && p.calleeOf(c) == "atomic.StoreUint32" && strings.Contains(p.text(c.Args[0]), "c.goAway") {
					if v, ok := p.intConst(c.Args[1]); ok && v != 0 {
						set = true
					}
				}
			}
		}
		return true
	})
	r.check(set, "GOAWAY sets the flag", p.pos(nd.Pos()), "goAway = 1 at the top of the GOAWAY case", "receiving GOAWAY no longer sets the no-new-streams flag unconditionally")
	// openStreams accounting: +1 after a successful write, -1 exactly where takeReq said true
	for _, cs := range p.callsTo("atomic.AddInt32") {
		if !p.fieldAddrIs(cs.Common.Args[0], "Conn", "openStreams") {
			continue
		}
		fn := p.fname(cs.Fn)
		v, _ := constInt(cs.Common.Args[1])
		key := fmt.Sprintf("%s openStreams %+d", fn, v)
		if v < 0 {
			guard := false
			for _, ft := range p.factsAt(cs.Instr) {
				if ft.Val && strings.HasPrefix(p.vdescN(ft.Cond, 2), "(*Conn).takeReq(") {
					guard = true
				}
			}
			r.check(guard, key, p.ipos(cs.Instr), "decrement only when takeReq removed the stream", fn+" decrements openStreams without takeReq having removed the stream: a stream is counted closed twice and the client exceeds MAX_CONCURRENT_STREAMS")
		} else {
			r.check(fn == "(*Conn).writeRequest", key, p.ipos(cs.Instr), "increment in writeRequest", fn+" increments openStreams outside writeRequest")
		}
	}
}

func ruleRetryablePreWire(p *Prog, r *Out) {
	// which sentinels does retryable accept?
	fd := p.decl("retryable")
	if fd == nil {
		r.undecided("retryable", "?", "no longer resolves")
		return
	}
	r.fn("retryable", "(*Conn).writeRequest", "(*Conn).Write", "(*Client).Close", "(*Client).pickConn")
	var sentinels []string
	inspectCalls(fd.Body, func(c *ast.CallExpr) {
		if p.calleeOf(c) == "errors.Is" && len(c.Args) == 2 {
			sentinels = append(sentinels, p.text(c.Args[1]))
		}
	})
	known := map[string]bool{"ErrConnectionClosed": true, "ErrNotAvailableStreams": true, "ErrNoMoreStreamIDs": true}
	for _, s := range sentinels {
		r.check(known[s], "retryable accepts "+s, p.pos(fd.Pos()), "audited sentinel", "retryable now accepts "+s+", whose production sites have not been audited as pre-wire")
	}
	// writeRequest: returns of the sentinels are not reachable after the frame write
	f := p.ssaFunc("(*Conn).writeRequest")
	if f != nil {
		writes := p.findCall(f, "(*FrameHeader).WriteTo")
		for _, b := range f.Blocks {
			for _, in := range b.Instrs {
				ret, ok := in.(*ssa.Return)
				if !ok || len(ret.Results) == 0 {
					continue
				}
				v := p.resolveSpill(ret, len(ret.Results)-1)
				d := p.vdescN(v, 2)
				for _, s := range []string{"ErrNotAvailableStreams", "ErrNoMoreStreamIDs", "ErrConnectionClosed"} {
					if d == "*global:"+s {
						after := false
						for _, w := range writes {
							if reachAvoiding(w, ret, nil) {
								after = true
							}
						}
						r.check(!after, "writeRequest returns "+s, p.ipos(ret), "not reachable after the frame write", "writeRequest can return "+s+" after the HEADERS frame was written: the request is reported retryable although the server may process it")
					}
				}
			}
		}
		// the frame write is the only way bytes of this request leave: no other WriteTo before those returns
	}
	// who may produce the retryable "connection closed" sentinel: closeErr (and
	// through it only Conn.Write, whose two sites are judged below); any other
	// user could hand it to a request that is already on the wire
	for _, f := range p.Files {
		pm := p.parentMaps()[f]
		ast.Inspect(f, func(n ast.Node) bool {
			switch x := n.(type) {
			case *ast.CallExpr:
				if p.calleeOf(x) == "(*Conn).closeErr" {
					fn := enclosingFunc(pm, x)
					r.check(fn == "(*Conn).Write", fn+" uses closeErr", p.pos(x.Pos()), "closeErr() is used only by Conn.Write",
						fn+" obtains its error from closeErr(), which yields the retryable ErrConnectionClosed when no error was recorded: if that error resolves requests whose HEADERS are already on the wire (the write loop's teardown does), a request the server may have processed is reported retryable and sent again")
				}
			case *ast.Ident:
				if x.Name == "ErrConnectionClosed" {
					if _, isDecl := pm[x].(*ast.ValueSpec); isDecl {
						return true
					}
					fn := enclosingFunc(pm, x)
					r.check(fn == "(*Conn).closeErr" || fn == "retryable" || p.isDisclaimedResolver(fn), fn+" names ErrConnectionClosed", p.pos(x.Pos()), "only closeErr, retryable and the resolver of GOAWAY-disclaimed streams name the sentinel",
						fn+" uses ErrConnectionClosed directly; the sentinel means 'the server cannot have processed this request' and its production sites are audited one by one (before anything is written, or for streams above a received GOAWAY's last-stream-id)")
				}
			}
			return true
		})
	}
	// Conn.Write: resolve(closeErr()) sites
	wd := p.decl("(*Conn).Write")
	if wd == nil {
		r.undecided("Conn.Write", "?", "no longer resolves")
		return
	}
	pm := p.pmFor(wd)
	n := 0
	inspectCalls(wd.Body, func(c *ast.CallExpr) {
		if p.calleeOf(c) != "(*Ctx).resolve" {
			return
		}
		n++
		// is it in the done-arm of the select that also has the hand-over send?
		alt := false
		for cur := pm[c]; cur != nil; cur = pm[cur] {
			if cc, ok := cur.(*ast.CommClause); ok {
				if sel, ok := pm[pm[cc]].(*ast.SelectStmt); ok {
					for _, o := range sel.Body.List {
						if ss, ok := o.(*ast.CommClause).Comm.(*ast.SendStmt); ok && p.isFieldSel(ss.Chan, "Conn", "in") {
							alt = true
						}
					}
				}
				break
			}
		}
		if alt {
			r.ok("Write resolves instead of handing over", p.pos(c.Pos()), "alternative to c.in <- r: never handed to the write loop")
			return
		}
		// post-hand-over site: side conditions
		okClose, okPick := false, false
		if cd := p.decl("(*Client).Close"); cd != nil {
			setIdx, closeIdx := -1, -1
			for i, s := range cd.Body.List {
				if as, ok := s.(*ast.AssignStmt); ok && len(as.Lhs) == 1 && p.isFieldSel(as.Lhs[0], "Client", "closed") && p.text(as.Rhs[0]) == "true" {
					setIdx = i
				}
				inspectCalls(s, func(cc *ast.CallExpr) {
					if p.calleeOf(cc) == "(*Conn).Close" && closeIdx < 0 {
						closeIdx = i
					}
				})
			}
			okClose = setIdx >= 0 && closeIdx > setIdx
		}
		if pd := p.decl("(*Client).pickConn"); pd != nil {
			for _, s := range pd.Body.List {
				if ifs, ok := s.(*ast.IfStmt); ok && p.isFieldSel(ifs.Cond, "Client", "closed") && isRejectingBody(p, ifs.Body) {
					okPick = true
				}
			}
		}
		r.check(okClose && okPick, "Write resolves after hand-over", p.pos(c.Pos()), "accepted: ErrConnectionClosed arises only when Close came from outside the loops (both loops record an error first), i.e. Client.Close, which sets closed before closing connections; pickConn then refuses, so the retry cannot re-send",
			fmt.Sprintf("Conn.Write resolves a request with closeErr() after it was handed to the write loop, and the side conditions that make this harmless no longer hold (Client.Close sets closed before closing connections: %v; pickConn refuses a closed client: %v): a request already on the wire can be reported retryable and sent again", okClose, okPick))
	})
	if n < 2 {
		r.bad("Write resolve sites", p.pos(wd.Pos()), fmt.Sprintf("Conn.Write has %d resolve sites; a request racing Close must be resolved both when the hand-over loses to done and when the loop has already drained", n))
	}
	// the write loop's fallback error, which resolves everything still in flight
	if ld := p.decl("(*Conn).writeLoop"); ld != nil {
		for _, st := range ld.Body.List {
			if ifs, ok := st.(*ast.IfStmt); ok && squash(p.text(ifs.Cond)) == "lastErr==nil" {
				okk := false
				for _, b := range ifs.Body.List {
					if as, ok := b.(*ast.AssignStmt); ok && p.text(as.Lhs[0]) == "lastErr" && p.text(as.Rhs[0]) == "io.ErrUnexpectedEOF" {
						okk = true
					}
				}
				r.check(okk, "write loop fallback error is not retryable", p.pos(ifs.Pos()), "lastErr = io.ErrUnexpectedEOF", "the write loop's fallback error, used to resolve the requests still in flight when the loop was told to stop, is no longer the non-retryable io.ErrUnexpectedEOF")
			}
		}
	}
	// both loops record an error before closing
	for _, name := range []string{"(*Conn).writeLoop"} {
		ld := p.decl(name)
		if ld == nil {
			continue
		}
		si, ci := -1, -1
		for i, s := range ld.Body.List {
			inspectCalls(s, func(c *ast.CallExpr) {
				if p.calleeOf(c) == "(*Conn).setLastErr" && si < 0 {
					si = i
				}
				if (p.calleeOf(c) == "(*Conn).Close" || p.calleeOf(c) == "(*Conn).shut") && ci < 0 {
					ci = i
				}
			})
		}
		r.check(si >= 0 && si < ci, name+" records an error before Close", p.pos(ld.Pos()), "setLastErr precedes Close", name+" closes the connection before recording why: requests resolved meanwhile are classified retryable although they were on the wire")
	}
}

func ruleGoAwayResolves(p *Prog, r *Out) {
	nd := p.decl("(*Conn).readNext")
	if nd == nil {
		r.undecided("readNext", "?", "no longer resolves")
		return
	}
	r.fn("(*Conn).readNext", "(*Conn).dispatch", "(*Conn).readLoop")
	// calls made in the GOAWAY case (any branch) and in dispatch's stop test
	var calls []string
	var gaPos token.Pos
	ast.Inspect(nd.Body, func(n ast.Node) bool {
		cc, ok := n.(*ast.CaseClause)
		if !ok {
			return true
		}
		for _, e := range cc.List {
			if v, ok := p.intConst(e); ok && v == 7 {
				gaPos = cc.Pos()
				inspectCalls(cc, func(c *ast.CallExpr) { calls = append(calls, p.calleeOf(c)) })
			}
		}
		return true
	})
	if !gaPos.IsValid() {
		r.bad("GOAWAY case", p.pos(nd.Pos()), "readNext has no GOAWAY case")
		return
	}
	// static reachability to (*Ctx).resolve
	reach := map[string]bool{}
	var visit func(name string, depth int)
	visit = func(name string, depth int) {
		if reach[name] || depth > 6 {
			return
		}
		reach[name] = true
		if f := p.ssaFunc(name); f != nil {
			for _, cs := range p.callsIn(f) {
				if cs.Callee != "" {
					visit(cs.Callee, depth+1)
				}
			}
		}
	}
	for _, c := range calls {
		visit(c, 0)
	}
	// also: any function that compares a stream id with closeRef and resolves
	cmpSites := 0
	for _, f := range p.Files {
		ast.Inspect(f, func(n ast.Node) bool {
			if b, ok := n.(*ast.BinaryExpr); ok && (b.Op == token.GTR || b.Op == token.LSS || b.Op == token.GEQ || b.Op == token.LEQ) {
				if strings.Contains(p.text(b), "c.closeRef") {
					cmpSites++
				}
			}
			return true
		})
	}
	r.check(reach["(*Ctx).resolve"] || cmpSites > 0, "requests above last-stream-id are resolved", p.pos(gaPos), "a resolver is reachable from the GOAWAY receipt",
		"nothing reachable from the GOAWAY receipt resolves the requests on streams above last-stream-id, and no code compares a stream id against closeRef with an ordering: such requests are neither failed promptly nor marked unprocessed; they end with the connection's generic error (not retryable) although the server disclaimed them (RFC 7540 s6.8)")
}

func ruleRemovalImpliesResolve(p *Prog, r *Out) {
	removers := []string{"(*Conn).takeReq", "(*Conn).dequeueReq", "(*Conn).takeAllReqs"}
	resolveAfter := func(fd *ast.FuncDecl, c *ast.CallExpr) bool {
		found := false
		inspectCalls(fd.Body, func(x *ast.CallExpr) {
			if p.calleeOf(x) == "(*Ctx).resolve" && x.Pos() > c.Pos() {
				found = true
			}
		})
		return found
	}
	for _, f := range p.Files {
		pm := p.parentMaps()[f]
		inspectCalls(f, func(c *ast.CallExpr) {
			callee := p.calleeOf(c)
			isRem := false
			for _, rm := range removers {
				if callee == rm {
					isRem = true
				}
			}
			if !isRem {
				return
			}
			fn := enclosingFunc(pm, c)
			fd := p.decl(fn)
			r.fn(fn)
			key := fn + " removes via " + callee[strings.LastIndex(callee, ".")+1:]
			switch fn {
			case "(*Conn).finish", "(*Conn).writeLoop", "(*Conn).readLoop":
				r.check(resolveAfter(fd, c), key, p.pos(c.Pos()), "resolve follows in the same function", fn+" removes a request from the waiter table and does not resolve it afterwards: the caller waits for its timeout")
			case "(*Conn).cancel":
				// callers: fireTimeout resolves first; Conn.Cancel is caller-managed
				okk := true
				why := ""
				for _, cs := range p.callsTo("(*Conn).cancel") {
					cf := p.fname(cs.Fn)
					switch cf {
					case "(*Ctx).fireTimeout":
						pre := false
						for _, rc := range p.findCall(cs.Fn, "(*Ctx).resolve") {
							if instrDominates(rc, cs.Instr) {
								pre = true
							}
						}
						if !pre {
							okk, why = false, "fireTimeout no longer resolves before cancelling"
						}
					case "(*Conn).Cancel":
						// exported: the caller holds the Ctx and reads Err itself
					default:
						okk, why = false, cf+" calls cancel and is not in the reviewed caller table"
					}
				}
				r.check(okk, key, p.pos(c.Pos()), "callers resolve: fireTimeout (before), Conn.Cancel (public, caller-managed)", "cancel removes the request without resolving it and "+why)
			case "(*Conn).dispatch":
				g := false
				for _, k := range p.knownFacts(pm, c) {
					if cc, ok := k.Cond.(*ast.CallExpr); ok && p.calleeOf(cc) == "(*Ctx).acquireFor" && !k.Val {
						g = true
					}
				}
				r.check(g, key, p.pos(c.Pos()), "only when acquireFor failed: the Ctx was taken back (resolved) or belongs to another stream", "dispatch drops a waiter although its Ctx could still be acquired: the request is never resolved")
			case "(*Conn).writeRequest":
				// error path: caller resolves
				okk := false
				if rl := p.decl("(*Conn).runWriteLoop"); rl != nil {
					ast.Inspect(rl.Body, func(n ast.Node) bool {
						ifs, ok := n.(*ast.IfStmt)
						if ok && p.text(ifs.Cond) == "err != nil" {
							hasRes := false
							inspectCalls(ifs.Body, func(x *ast.CallExpr) {
								if p.calleeOf(x) == "(*Ctx).resolve" {
									hasRes = true
								}
							})
							if hasRes {
								okk = true
							}
						}
						return true
					})
				}
				// and the removal is on a path that returns a non-nil error
				retErr := false
				if blk, ok := pm[pm[c]].(*ast.BlockStmt); ok {
					for _, s := range blk.List {
						if rs, ok := s.(*ast.ReturnStmt); ok && s.Pos() > c.Pos() && len(rs.Results) == 1 && p.text(rs.Results[0]) != "nil" {
							retErr = true
						}
					}
				}
				r.check(okk && retErr, key, p.pos(c.Pos()), "error path: returns the error, the write loop resolves", "writeRequest removes the waiter on a path where neither it nor the write loop resolves the request")
			default:
				r.bad(key, p.pos(c.Pos()), fn+" removes a request from the waiter table and is not in the reviewed table of removal sites")
			}
		})
	}
	// receives from c.in
	for _, f := range p.Files {
		pm := p.parentMaps()[f]
		ast.Inspect(f, func(n ast.Node) bool {
			u, ok := n.(*ast.UnaryExpr)
			if !ok || u.Op != token.ARROW || !p.isFieldSel(u.X, "Conn", "in") {
				return true
			}
			fn := enclosingFunc(pm, u)
			var cc *ast.CommClause
			for cur := pm[u]; cur != nil; cur = pm[cur] {
				if x, ok := cur.(*ast.CommClause); ok {
					cc = x
					break
				}
			}
			okk := false
			if cc != nil {
				inspectCalls(cc, func(x *ast.CallExpr) {
					switch p.calleeOf(x) {
					case "(*Ctx).resolve":
						okk = true
					case "(*Conn).writeRequest":
						// must resolve on error in the same clause
						inspectCalls(cc, func(y *ast.CallExpr) {
							if p.calleeOf(y) == "(*Ctx).resolve" {
								okk = true
							}
						})
					}
				})
			}
			r.check(okk, fn+" receives from c.in", p.pos(u.Pos()), "the received Ctx is written or resolved in the clause", fn+" takes a request off the input queue and neither writes nor resolves it")
			return true
		})
	}
}

func ruleResolveProtocol(p *Prog, r *Out) {
	fd := p.decl("(*Ctx).resolve")
	if fd == nil {
		r.undecided("resolve", "?", "(*Ctx).resolve no longer resolves")
		return
	}
	r.fn("(*Ctx).resolve", "(*Ctx).takeBack", "(*Conn).writeLoop")
	pm := p.pmFor(fd)
	lock, unlock, sendOK := -1, -1, false
	for i, s := range fd.Body.List {
		if es, ok := s.(*ast.ExprStmt); ok {
			if c, ok := es.X.(*ast.CallExpr); ok {
				if p.text(c.Fun) == "ctx.resLck.Lock" {
					lock = i
				}
				if p.text(c.Fun) == "ctx.resLck.Unlock" {
					unlock = i
				}
			}
		}
	}
	sendIdx := -1
	ast.Inspect(fd.Body, func(n ast.Node) bool {
		ss, ok := n.(*ast.SendStmt)
		if !ok || !p.isFieldSel(ss.Chan, "Ctx", "Err") {
			return true
		}
		sendIdx = stmtIndexIn(fd.Body.List, ss)
		guarded := false
		for _, g := range p.knownFacts(pm, ss) {
			if !g.Val && p.isFieldSel(g.Cond, "Ctx", "resolved") {
				guarded = true
			}
		}
		hasDefault := false
		if cc, ok := pm[ss].(*ast.CommClause); ok {
			if blk, ok := pm[cc].(*ast.BlockStmt); ok {
				for _, o := range blk.List {
					if o.(*ast.CommClause).Comm == nil {
						hasDefault = true
					}
				}
			}
		}
		sendOK = guarded && hasDefault
		return true
	})
	r.check(sendOK, "resolve sends once, non-blocking", p.pos(fd.Pos()), "select{Err<-err; default} under !resolved", "resolve no longer sends on Err as a select arm with default guarded by !ctx.resolved: a second resolve blocks its goroutine (a loop, or the timer) for ever, or a taken-back Ctx receives a stale error")
	r.check(lock >= 0 && sendIdx > lock && unlock > sendIdx, "resolve under resLck", p.pos(fd.Pos()), "Lock < send < Unlock", "resolve does not hold resLck around the resolved test and the send")
	if tb := p.decl("(*Ctx).takeBack"); tb != nil {
		l, s, u := -1, -1, -1
		for i, st := range tb.Body.List {
			if es, ok := st.(*ast.ExprStmt); ok {
				if c, ok := es.X.(*ast.CallExpr); ok {
					if p.text(c.Fun) == "ctx.resLck.Lock" {
						l = i
					}
					if p.text(c.Fun) == "ctx.resLck.Unlock" {
						u = i
					}
				}
			}
			if as, ok := st.(*ast.AssignStmt); ok && len(as.Lhs) == 1 && p.isFieldSel(as.Lhs[0], "Ctx", "resolved") && p.text(as.Rhs[0]) == "true" {
				s = i
			}
		}
		r.check(l >= 0 && l < s && s < u, "takeBack marks resolved under resLck", p.pos(tb.Pos()), "Lock < resolved=true < Unlock", "takeBack no longer sets resolved under resLck: a late resolve can land in the Err buffer of a Ctx that has been handed to the next request")
		dl, ds, du := -1, -1, -1
		for i, st := range tb.Body.List {
			if es, ok := st.(*ast.ExprStmt); ok {
				if c, ok := es.X.(*ast.CallExpr); ok {
					if p.text(c.Fun) == "ctx.lck.Lock" || p.lockWrappers()[p.calleeOf(c)] == "Ctx.lck" {
						dl = i
					}
					if p.text(c.Fun) == "ctx.lck.Unlock" {
						du = i
					}
				}
			}
			if as, ok := st.(*ast.AssignStmt); ok && len(as.Lhs) == 1 && p.isFieldSel(as.Lhs[0], "Ctx", "done") && p.text(as.Rhs[0]) == "true" {
				ds = i
			}
		}
		r.check(dl >= 0 && dl < ds && ds < du, "takeBack marks done under lck", p.pos(tb.Pos()), "Lock < done=true < Unlock", "takeBack no longer sets done under lck: the loops can keep using Request/Response after RoundTrip returned them to the caller")
	} else {
		r.undecided("takeBack", "?", "(*Ctx).takeBack no longer resolves")
	}
	// close before drain
	wl := p.decl("(*Conn).writeLoop")
	if wl == nil {
		r.undecided("writeLoop", "?", "(*Conn).writeLoop no longer resolves")
		return
	}
	closeIdx, takeIdx, drainIdx := -1, -1, -1
	for i, s := range wl.Body.List {
		inspectCalls(s, func(c *ast.CallExpr) {
			switch p.calleeOf(c) {
			case "(*Conn).Close", "(*Conn).shut":
				if closeIdx < 0 {
					closeIdx = i
				}
			case "(*Conn).drainQueues":
				drainIdx = i
			case "(*Conn).takeAllReqs":
				takeIdx = i
			}
		})
		if fs, ok := s.(*ast.ForStmt); ok {
			if strings.Contains(p.text(fs), "<-c.in") {
				drainIdx = i
			}
		}
	}
	// the disconnect callback is somebody else's code (the Client dials in it):
	// it runs after the requests in flight have their answer, so the loop shuts
	// the connection itself instead of calling Close, which runs the callback
	cbIdx, viaClose := -1, false
	for i, s := range wl.Body.List {
		ast.Inspect(s, func(n ast.Node) bool {
			if c, ok := n.(*ast.CallExpr); ok {
				if squash(p.text(c)) == "c.onDisconnect(c)" {
					cbIdx = i
				}
				if p.calleeOf(c) == "(*Conn).Close" {
					viaClose = true
				}
			}
			return true
		})
	}
	if p.decl("(*Conn).shut") != nil {
		r.check(!viaClose && cbIdx > takeIdx && cbIdx > drainIdx && takeIdx >= 0, "the disconnect callback runs after the requests are answered", p.pos(wl.Pos()), "shut; resolve in-flight requests; drain; onDisconnect", "the write loop runs the disconnect callback (directly, or through Close) before it has resolved the requests that were in flight: the Client dials a replacement in that callback, and a server that says nothing strands them")
	}
	r.check(closeIdx >= 0 && closeIdx < takeIdx && closeIdx < drainIdx && drainIdx >= 0, "close before drain", p.pos(wl.Pos()), "Close < takeAllReqs, drain loop", "the write loop drains its queues before closing the connection: a Write that lands in the queue after the drain is never resolved")
}

// isDisclaimedResolver recognises the one post-wire producer of the retryable
// sentinel that RFC 7540 s6.8 allows: a function that resolves exactly the
// requests whose stream id is above its parameter, called only with the
// last-stream-id of a received GOAWAY.
func (p *Prog) isDisclaimedResolver(fn string) bool {
	fd := p.decl(fn)
	if fd == nil || fd.Type.Params == nil || len(fd.Type.Params.List) != 1 || len(fd.Type.Params.List[0].Names) != 1 {
		return false
	}
	last := fd.Type.Params.List[0].Names[0].Name
	// ids are collected only under `id > last`
	guarded, collected := false, ""
	ast.Inspect(fd.Body, func(n ast.Node) bool {
		rs, ok := n.(*ast.RangeStmt)
		if !ok || !strings.HasSuffix(squash(p.text(rs.X)), ".reqQueued") || rs.Key == nil || len(rs.Body.List) != 1 {
			return true
		}
		ifs, ok := rs.Body.List[0].(*ast.IfStmt)
		if !ok || ifs.Else != nil {
			return true
		}
		c, ok := p.canonCmp(ifs.Cond, nil)
		if !ok || c.Op != "le" || !c.L.eq(Lin{T: map[string]int64{last: 1, p.text(rs.Key): -1}, C: 1}) {
			return true
		}
		if len(ifs.Body.List) == 1 {
			if as, ok := ifs.Body.List[0].(*ast.AssignStmt); ok {
				if cl, ok := as.Rhs[0].(*ast.CallExpr); ok && p.calleeOf(cl) == "builtin.append" && p.text(cl.Args[1]) == p.text(rs.Key) {
					guarded, collected = true, p.text(as.Lhs[0])
				}
			}
		}
		return true
	})
	if !guarded {
		return false
	}
	// the sentinel is used only to finish the collected ids
	okUse := false
	ast.Inspect(fd.Body, func(n ast.Node) bool {
		rs, ok := n.(*ast.RangeStmt)
		if !ok || p.text(rs.X) != collected || rs.Value == nil {
			return true
		}
		inspectCalls(rs.Body, func(cl *ast.CallExpr) {
			if p.calleeOf(cl) == "(*Conn).finish" && len(cl.Args) == 3 && p.text(cl.Args[1]) == p.text(rs.Value) && p.text(cl.Args[2]) == "ErrConnectionClosed" {
				okUse = true
			}
		})
		return true
	})
	if !okUse {
		return false
	}
	// every call passes the GOAWAY frame's last-stream-id, inside the GOAWAY clause
	calls, good := 0, 0
	for _, f := range p.Files {
		pm := p.parentMaps()[f]
		inspectCalls(f, func(cl *ast.CallExpr) {
			if p.calleeOf(cl) != fn {
				return
			}
			calls++
			inGoAway := false
			for cur := pm[cl]; cur != nil; cur = pm[cur] {
				if cc, ok := cur.(*ast.CaseClause); ok && len(cc.List) == 1 && p.text(cc.List[0]) == "FrameGoAway" {
					inGoAway = true
				}
			}
			if inGoAway && len(cl.Args) == 1 && squash(p.text(cl.Args[0])) == "ga.stream" {
				good++
			} else if inGoAway && len(cl.Args) == 1 {
				// the same value spelled as the constant the enclosing branch has just compared it with
				if k, isK := p.intConst(cl.Args[0]); isK {
					for _, g := range p.enclosingGuards(pm, cl) {
						if g.Val && squash(p.text(g.Cond)) == fmt.Sprintf("ga.stream==%d", k) {
							good++
							break
						}
					}
				}
			}
		})
	}
	return calls >= 1 && calls == good
}

func init() {
	register(&Rule{
		Name: "client-goaway-drain", Props: []string{"C11", "C12"}, Engine: "AST", Floor: 3,
		Doc: "after a GOAWAY that names a last stream the client keeps reading until no request at or below that stream is left in its table (the decision looks at the table, not at which stream the current frame belongs to), and the requests above it are resolved at once with the retryable error",
		Run: ruleClientGoAwayDrain,
	})
}

func ruleClientGoAwayDrain(p *Prog, r *Out) {
	rl := p.decl("(*Conn).readLoop")
	dp := p.decl("(*Conn).dispatch")
	if rl == nil || dp == nil {
		r.undecided("anchors", "?", "readLoop/dispatch no longer resolve")
		return
	}
	r.fn("(*Conn).readLoop", "(*Conn).dispatch", "(*Conn).readNext")
	// no stop decision on the identity of the frame's stream
	byFrame := ""
	for _, fd := range []*ast.FuncDecl{rl, dp} {
		ast.Inspect(fd.Body, func(n ast.Node) bool {
			if b, ok := n.(*ast.BinaryExpr); ok && (b.Op == token.EQL || b.Op == token.NEQ) {
				x, y := squash(p.text(b.X)), squash(p.text(b.Y))
				if (strings.HasSuffix(x, ".closeRef") && strings.HasSuffix(y, ".Stream()")) || (strings.HasSuffix(y, ".closeRef") && strings.HasSuffix(x, ".Stream()")) {
					byFrame = p.pos(b.Pos())
				}
			}
			return true
		})
	}
	r.check(byFrame == "", "the read loop does not stop on the identity of a frame's stream", p.pos(dp.Pos()), "no `fr.Stream() == closeRef` test", "after GOAWAY the read loop decides to stop by comparing the current frame's stream with last-stream-id ("+byFrame+"): it leaves at the first frame on that stream, so a response that is HEADERS followed by DATA is cut off after its HEADERS, and requests on lower streams that are still open are abandoned (RFC 7540 s6.8: streams at or below last-stream-id complete normally)")
	// every GOAWAY is taken at its word: a server shutting down gracefully sends
	// GOAWAY(2^31-1) and then GOAWAY(N), and the second one is what disclaims
	// the streams above N (RFC 7540 s6.8)
	if rn := p.decl("(*Conn).readNext"); rn != nil {
		okEvery, okZero := false, false
		ast.Inspect(rn.Body, func(n ast.Node) bool {
			cc, ok := n.(*ast.CaseClause)
			if !ok || len(cc.List) != 1 || p.text(cc.List[0]) != "FrameGoAway" {
				return true
			}
			for _, s := range cc.Body {
				ifs, ok := s.(*ast.IfStmt)
				if !ok || squash(p.text(ifs.Cond)) != "ga.stream==0" {
					continue
				}
				eb, ok := ifs.Else.(*ast.BlockStmt) // a plain else: no further condition
				if !ok {
					continue
				}
				okEvery = hasStmt(p, eb.List, "c.closeRef=ga.stream") && hasStmt(p, eb.List, "c.state=connStateClosed") && hasStmt(p, eb.List, "c.failAbove(ga.stream)")
				// last-stream-id 0 disclaims everything: answered by the read loop, before it closes the socket
				zt := stmtTexts(p, ifs.Body.List)
				fa, cl := -1, -1
				for i, x := range zt {
					if x == "c.failAbove(0)" || x == "c.failAbove(ga.stream)" {
						fa = i
					}
					if x == "_=c.c.Close()" {
						cl = i
					}
				}
				okZero = fa >= 0 && cl > fa
			}
			return true
		})
		r.check(okZero, "a GOAWAY that names no stream disclaims every request, answered by the read loop", p.pos(rn.Pos()), "if ga.stream == 0 { failAbove(0); close; err = ga }", "a GOAWAY with last-stream-id 0 no longer has the read loop fail every request before it closes the socket: they are left to the write loop, which may be inside the caller's Read on a streamed body, and when it gets to them it fails them with an error the client does not retry although the server processed none")
		r.check(okEvery, "every GOAWAY that names a stream moves the reference and disclaims what is above it", p.pos(rn.Pos()), "if ga.stream == 0 {...} else { closeRef = ga.stream; state = closed; failAbove(ga.stream) }", "a GOAWAY with a last-stream-id is no longer applied unconditionally (reference moved, requests above it failed): the second frame of a graceful shutdown, which lowers the id, is ignored and the requests it disclaims wait for their timeout instead of being retried")
	}
	// the loop's stop test consults a table scan
	var drainFn *ast.FuncDecl
	ast.Inspect(rl.Body, func(n ast.Node) bool {
		ifs, ok := n.(*ast.IfStmt)
		if !ok {
			return true
		}
		brk := false
		for _, s := range ifs.Body.List {
			if b, ok := s.(*ast.BranchStmt); ok && b.Tok == token.BREAK {
				brk = true
			}
		}
		if !brk {
			return true
		}
		inspectCalls(ifs.Cond, func(cl *ast.CallExpr) {
			if d := p.decl(p.calleeOf(cl)); d != nil && d.Body != nil {
				scan := false
				ast.Inspect(d.Body, func(m ast.Node) bool {
					if rs, ok := m.(*ast.RangeStmt); ok && strings.HasSuffix(squash(p.text(rs.X)), ".reqQueued") {
						scan = true
					}
					return true
				})
				if scan {
					drainFn = d
				}
			}
		})
		return true
	})
	if drainFn == nil {
		r.bad("read loop leaves when no promised request remains", p.pos(rl.Pos()), "the read loop has no stop test that looks at the table of outstanding requests: after GOAWAY it either never leaves while the server keeps the connection open, or leaves while promised requests are unanswered")
		return
	}
	closing, scanOK := false, false
	ast.Inspect(drainFn.Body, func(n ast.Node) bool {
		switch x := n.(type) {
		case *ast.IfStmt:
			if squash(p.text(x.Cond)) == "c.state!=connStateClosed" {
				if res := firstReturn(x.Body); len(res) == 1 && p.text(res[0]) == "false" {
					closing = true
				}
			}
		case *ast.RangeStmt:
			if x.Key != nil && len(x.Body.List) == 1 {
				if ifs, ok := x.Body.List[0].(*ast.IfStmt); ok {
					if c, ok := p.canonCmp(ifs.Cond, nil); ok && c.Op == "le" && c.L.eq(Lin{T: map[string]int64{p.text(x.Key): 1, "c.closeRef": -1}}) {
						if res := firstReturn(ifs.Body); len(res) == 1 && p.text(res[0]) == "false" {
							scanOK = true
						}
					}
				}
			}
		}
		return true
	})
	last := retResults(drainFn.Body.List[len(drainFn.Body.List)-1])
	r.check(closing && scanOK && len(last) == 1 && p.text(last[0]) == "true", "read loop leaves when no promised request remains", p.pos(drainFn.Pos()), "not closing -> false; any id <= closeRef in the table -> false; else true", "the drained test is no longer 'a GOAWAY was received and no request with an id at or below its last-stream-id is outstanding'")
	// GOAWAY receipt resolves the disclaimed streams
	rn := p.decl("(*Conn).readNext")
	resolved := false
	if rn != nil {
		ast.Inspect(rn.Body, func(n ast.Node) bool {
			if cc, ok := n.(*ast.CaseClause); ok && len(cc.List) == 1 && p.text(cc.List[0]) == "FrameGoAway" {
				inspectCalls(cc, func(cl *ast.CallExpr) {
					if p.isDisclaimedResolver(p.calleeOf(cl)) {
						resolved = true
					}
				})
			}
			return true
		})
	}
	r.check(resolved, "GOAWAY receipt resolves the streams it disclaims", p.pos(dp.Pos()), "failAbove(ga.stream) in the GOAWAY clause", "receiving GOAWAY no longer resolves the requests above last-stream-id: they wait for a response the server has said it will not send")
}
