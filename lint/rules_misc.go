package main

import (
	"fmt"
	"go/ast"
	"go/token"
	"go/types"
	"sort"
	"strings"
)

func init() {
	register(&Rule{
		Name: "no-bare-send", Props: []string{"C10", "C12", "C17"}, Engine: "AST", Floor: 6,
		Doc: "every channel send in the library is an arm of a select that also has a stop-channel receive or a default: once the receiving loop has gone, a bare send blocks its goroutine (ServeConn, a caller, a timer) for ever",
		Run: ruleNoBareSend,
	})
	register(&Rule{
		Name: "window-limit-strict", Props: []string{"C08", "C06", "C14"}, Engine: "CODEC", Floor: 4,
		Doc: "every comparison of a flow-control window against 2^31-1 rejects only values strictly above it: a window of exactly 2^31-1 is legal (RFC 7540 s6.9.1)",
		Run: ruleWindowLimit,
	})
	register(&Rule{
		Name: "name-fold-guard", Props: []string{"C01", "C02"}, Engine: "AST", Floor: 1,
		Doc: "an in-place case fold of a header name (b[i] |= 0x20 or += 32) is applied only to octets tested to be 'A'..'Z'; applied to every octet it rewrites '_', '@', '[' ... into other characters",
		Run: ruleNameFold,
	})
	register(&Rule{
		Name: "decimal-accumulate-guarded", Props: []string{"C20", "C02"}, Engine: "AST", Floor: 1,
		Doc: "a loop accumulating a decimal number (n = n*10 + d) tests for overflow in the same iteration; otherwise a long digit string wraps to a small value that passes later range checks",
		Run: ruleDecimalGuard,
	})
	register(&Rule{
		Name: "parse-error-rejects", Props: []string{"C20"}, Engine: "AST", Floor: 3,
		Doc: "the error result of every parseUint call leads to a rejecting return: a content-length or :status that is not a number must fail the message, not be skipped",
		Run: ruleParseErrorRejects,
	})
	register(&Rule{
		Name: "settings-codec-table", Props: []string{"C18", "C05", "C06", "C07"}, Engine: "CODEC", Floor: 18,
		Doc: "Settings.Read maps identifier k to the field Settings.Encode writes under identifier k (six parameters), identifiers are read from octets 0-1 and values from octets 2-5 big-endian, entries are 6 octets, and unknown identifiers are ignored (RFC 7540 s6.5.1-6.5.2)",
		Run: ruleSettingsCodec,
	})
	register(&Rule{
		Name: "settings-validate", Props: []string{"C18"}, Engine: "CODEC", Floor: 3,
		Doc: "Settings.Read rejects ENABLE_PUSH outside {0,1} with PROTOCOL_ERROR, INITIAL_WINDOW_SIZE above 2^31-1 with FLOW_CONTROL_ERROR and MAX_FRAME_SIZE outside [2^14, 2^24-1] with PROTOCOL_ERROR, each as a connection error (RFC 7540 s6.5.2)",
		Run: ruleSettingsValidate,
	})
	register(&Rule{
		Name: "settings-encode-defaults", Props: []string{"C18", "C05"}, Engine: "CODEC", Floor: 6,
		Doc: "a parameter Settings.Encode leaves out for some value must have that value as its RFC 7540 s6.5.2 initial value, otherwise the peer keeps assuming the initial value although the endpoint configured another",
		Run: ruleSettingsEncodeDefaults,
	})
	register(&Rule{
		Name: "settings-ack-once", Props: []string{"C18"}, Engine: "AST", Floor: 4,
		Doc: "each role's handleSettings queues exactly one SETTINGS frame with ACK set on its straight-line path and is called only from the SETTINGS-without-ACK branch of the frame dispatch",
		Run: ruleSettingsAck,
	})
	register(&Rule{
		Name: "settings-presence-guard", Props: []string{"C18"}, Engine: "AST", Floor: 4,
		Doc: "a value taken from a received SETTINGS frame is applied to live state only under a presence marker for that parameter: the frame object is reset to defaults before parsing, so an absent parameter otherwise overwrites the peer's earlier value with the default",
		Run: ruleSettingsPresence,
	})
	register(&Rule{
		Name: "limit-source", Props: []string{"C18", "C16"}, Engine: "AST", Floor: 2,
		Doc: "the size bound given to the frame reader is the endpoint's own advertised SETTINGS_MAX_FRAME_SIZE (or the protocol default), never the peer's setting, and never zero (no limit)",
		Run: ruleLimitSource,
	})
	register(&Rule{
		Name: "continuation-emitter-exists", Props: []string{"C18"}, Engine: "WHO", Floor: 2,
		Doc: "each role that sends header blocks has a site that acquires a CONTINUATION frame for sending; without one a header block larger than the peer's SETTINGS_MAX_FRAME_SIZE can only go out as one oversized HEADERS frame",
		Run: ruleContinuationEmitter,
	})
	register(&Rule{
		Name: "data-emitters", Props: []string{"C06", "C07", "C18"}, Engine: "WHO", Floor: 2,
		Doc: "the only functions that acquire a DATA frame for sending are the audited, window-checked ones ((*serverConn).sendData, (*Conn).writeData); a new site is unaudited",
		Run: ruleDataEmitters,
	})
}

// ---------------------------------------------------------------- sends

func ruleNoBareSend(p *Prog, r *Out) {
	for _, f := range p.Files {
		pm := p.parentMaps()[f]
		ast.Inspect(f, func(n ast.Node) bool {
			ss, ok := n.(*ast.SendStmt)
			if !ok {
				return true
			}
			fn := enclosingFunc(pm, ss)
			ch := p.text(ss.Chan)
			if sel, ok := ss.Chan.(*ast.SelectorExpr); ok {
				if o, fld, ok := p.fieldOf(sel); ok {
					ch = o + "." + fld
				}
			}
			key := fn + " send on " + ch
			cc, ok := pm[ss].(*ast.CommClause)
			guarded := false
			if ok {
				if body, ok := pm[cc].(*ast.BlockStmt); ok {
					if _, ok := pm[body].(*ast.SelectStmt); ok {
						for _, c := range body.List {
							oc := c.(*ast.CommClause)
							if oc == cc {
								continue
							}
							if oc.Comm == nil {
								guarded = true // default
							} else {
								// a receive arm
								isRecv := false
								ast.Inspect(oc.Comm, func(m ast.Node) bool {
									if u, ok := m.(*ast.UnaryExpr); ok && u.Op == token.ARROW {
										isRecv = true
									}
									return true
								})
								if isRecv {
									guarded = true
								}
							}
						}
					}
				}
			}
			r.check(guarded, key, p.pos(ss.Pos()), "send is a select arm with an alternative",
				fmt.Sprintf("%s sends on %s with no alternative: when the goroutine receiving from it has exited (stream loop after a connection error, write loop after Close) and the buffer fills, this goroutine blocks for ever", fn, ch))
			return true
		})
	}
}

// ---------------------------------------------------------------- window limit

func ruleWindowLimit(p *Prog, r *Out) {
	for _, f := range p.Files {
		pm := p.parentMaps()[f]
		ast.Inspect(f, func(n ast.Node) bool {
			b, ok := n.(*ast.BinaryExpr)
			if !ok {
				return true
			}
			switch b.Op {
			case token.GTR, token.GEQ, token.LSS, token.LEQ:
			default:
				return true
			}
			lv, lok := p.intConst(b.X)
			rv, rok := p.intConst(b.Y)
			if !(lok && lv == 1<<31-1) && !(rok && rv == 1<<31-1) {
				return true
			}
			if lok && rok {
				return true
			}
			fn := enclosingFunc(pm, b)
			other := b.X
			if lok {
				other = b.Y
			}
			key := fn + " compares " + p.text(other)
			// not a window: stream-id space
			if strings.Contains(p.text(other), "nextID") || strings.Contains(p.text(other), "id") && !strings.Contains(p.text(other), "indow") {
				r.ok(key, p.pos(b.Pos()), "stream-id comparison, not a window")
				return true
			}
			c, _ := p.canonCmp(b, nil)
			// rejecting form must be  w > MAX  <=>  MAX - w + 1 <= 0 : constant term 2^31
			// (the window may be spelled as a sum: what is left plus the change)
			allNeg := len(c.L.T) >= 1
			for _, co := range c.L.T {
				if co != -1 {
					allNeg = false
				}
			}
			strict := allNeg && c.L.C == 1<<31
			r.check(strict, key, p.pos(b.Pos()), "rejects only values above 2^31-1",
				fmt.Sprintf("%s tests `%s`, which also rejects a window of exactly 2^31-1; RFC 7540 s6.9.1 makes only a window above 2^31-1 an error, so a legal WINDOW_UPDATE is answered with FLOW_CONTROL_ERROR", fn, p.text(b)))
			return true
		})
	}
}

// ---------------------------------------------------------------- name fold

func ruleNameFold(p *Prog, r *Out) {
	for _, f := range append(append([]*ast.File{}, p.Files...), p.UFiles...) {
		pm := p.parentMaps()[f]
		ast.Inspect(f, func(n ast.Node) bool {
			as, ok := n.(*ast.AssignStmt)
			if !ok || len(as.Lhs) != 1 || len(as.Rhs) != 1 {
				return true
			}
			ix, ok := as.Lhs[0].(*ast.IndexExpr)
			if !ok {
				return true
			}
			v, ok := p.intConst(as.Rhs[0])
			if !ok || v != 32 || (as.Tok != token.OR_ASSIGN && as.Tok != token.ADD_ASSIGN) {
				return true
			}
			fn := enclosingFunc(pm, as)
			elem := p.text(ix)
			lo, hi := false, false
			for _, g := range p.knownFacts(pm, as) {
				if !g.Val {
					continue
				}
				if c, ok := p.canonCmp(g.Cond, nil); ok && c.Op == "le" && len(c.L.T) == 1 {
					// elem >= 'A' => 65 - elem <= 0 ; elem <= 'Z' => elem - 90 <= 0
					if c.L.T[elem] == -1 && c.L.C == 65 {
						lo = true
					}
					if c.L.T[elem] == 1 && c.L.C == -90 {
						hi = true
					}
				}
			}
			r.check(lo && hi, fn+" folds "+elem, p.pos(as.Pos()), "fold guarded by 'A' <= c <= 'Z'",
				fmt.Sprintf("%s folds case with `%s` on every octet: octets outside 'A'..'Z' whose bit 0x20 is clear are rewritten ('_' 0x5f -> 0x7f, '@' -> '`', '[' -> '{'), so a header name such as x_custom reaches the peer or the handler as another name", fn, p.text(as)))
			return true
		})
	}
}

// ---------------------------------------------------------------- decimal

func ruleDecimalGuard(p *Prog, r *Out) {
	for _, f := range p.Files {
		pm := p.parentMaps()[f]
		ast.Inspect(f, func(n ast.Node) bool {
			as, ok := n.(*ast.AssignStmt)
			if !ok || len(as.Lhs) != 1 || len(as.Rhs) != 1 {
				return true
			}
			id, ok := as.Lhs[0].(*ast.Ident)
			if !ok {
				return true
			}
			l := p.linOf(as.Rhs[0], nil)
			if l.T[id.Name] != 10 {
				return true
			}
			// enclosing loop
			var loop ast.Node
			for cur := pm[as]; cur != nil; cur = pm[cur] {
				if _, ok := cur.(*ast.ForStmt); ok {
					loop = cur
					break
				}
				if _, ok := cur.(*ast.RangeStmt); ok {
					loop = cur
					break
				}
			}
			if loop == nil {
				return true
			}
			fn := enclosingFunc(pm, as)
			guarded := false
			ast.Inspect(loop, func(m ast.Node) bool {
				ifs, ok := m.(*ast.IfStmt)
				if !ok {
					return true
				}
				// a rejecting test that mentions the accumulator in a comparison
				mentions := false
				ast.Inspect(ifs.Cond, func(k ast.Node) bool {
					if b, ok := k.(*ast.BinaryExpr); ok {
						switch b.Op {
						case token.GTR, token.GEQ, token.LSS, token.LEQ:
							if strings.Contains(p.text(b), id.Name) {
								ast.Inspect(b, func(q ast.Node) bool {
									if qi, ok := q.(*ast.Ident); ok && qi.Name == id.Name {
										mentions = true
									}
									return true
								})
							}
						}
					}
					return true
				})
				if mentions && len(ifs.Body.List) > 0 && exits(ifs.Body.List[len(ifs.Body.List)-1]) {
					guarded = true
				}
				return true
			})
			r.check(guarded, fn+" accumulates "+id.Name, p.pos(as.Pos()), "overflow tested in the loop",
				fmt.Sprintf("%s accumulates `%s` with no overflow test in the loop: a digit string longer than the integer (e.g. 18446744073709551621) wraps to a small number that is then accepted as content-length or status", fn, p.text(as)))
			return true
		})
	}
}

// ---------------------------------------------------------------- parseUint errors

func ruleParseErrorRejects(p *Prog, r *Out) {
	for _, f := range p.Files {
		pm := p.parentMaps()[f]
		ast.Inspect(f, func(n ast.Node) bool {
			c, ok := n.(*ast.CallExpr)
			if !ok || p.calleeOf(c) != "parseUint" {
				return true
			}
			fn := enclosingFunc(pm, c)
			as, ok := pm[c].(*ast.AssignStmt)
			if !ok || len(as.Lhs) != 2 {
				r.bad(fn+" parseUint result", p.pos(c.Pos()), "the error result of parseUint is not bound to a variable")
				return true
			}
			errName := p.text(as.Lhs[1])
			what := ""
			if len(c.Args) == 1 {
				what = p.text(c.Args[0])
			}
			key := fn + " parseUint(" + what + ")"
			if errName == "_" {
				r.bad(key, p.pos(c.Pos()), "the error result of parseUint is discarded")
				return true
			}
			// find the if that tests errName: either the statement holding the
			// assignment as Init, or the next statement in the list.
			var test *ast.IfStmt
			if ifs, ok := pm[as].(*ast.IfStmt); ok && ifs.Init == ast.Stmt(as) {
				test = ifs
			} else {
				// sibling following the assignment
				var list []ast.Stmt
				switch b := pm[as].(type) {
				case *ast.BlockStmt:
					list = b.List
				case *ast.CaseClause:
					list = b.Body
				}
				i := stmtIndexIn(list, as)
				for j := i + 1; j >= 1 && j < len(list); j++ {
					if ifs, ok := list[j].(*ast.IfStmt); ok && strings.Contains(p.text(ifs.Cond), errName) {
						test = ifs
						break
					}
				}
			}
			if test == nil {
				r.bad(key, p.pos(c.Pos()), fmt.Sprintf("%s never tests the error of parseUint(%s)", fn, what))
				return true
			}
			// which branch is the error branch?
			rejects := false
			for _, a := range conjuncts(test.Cond, true) {
				// cond true implies err != nil ?
				if b, ok := a.Cond.(*ast.BinaryExpr); ok && p.text(b.X) == errName && p.text(b.Y) == "nil" {
					if (b.Op == token.NEQ) == a.Val {
						rejects = isRejectingBody(p, test.Body)
					}
				}
			}
			if !rejects {
				// `if err != nil || ...` : disjunction where err != nil alone enters the body
				var disj func(e ast.Expr) bool
				disj = func(e ast.Expr) bool {
					e = ast.Unparen(e)
					if b, ok := e.(*ast.BinaryExpr); ok {
						if b.Op == token.LOR {
							return disj(b.X) || disj(b.Y)
						}
						if b.Op == token.NEQ && p.text(b.X) == errName && p.text(b.Y) == "nil" {
							return true
						}
					}
					return false
				}
				if disj(test.Cond) && isRejectingBody(p, test.Body) {
					rejects = true
				}
			}
			if !rejects {
				// `if err == nil { use }` with an else that rejects
				if b, ok := ast.Unparen(test.Cond).(*ast.BinaryExpr); ok && b.Op == token.EQL && p.text(b.X) == errName && test.Else != nil {
					if eb, ok := test.Else.(*ast.BlockStmt); ok && isRejectingBody(p, eb) {
						rejects = true
					}
				}
			}
			r.check(rejects, key, p.pos(c.Pos()), "a parse error rejects the message",
				fmt.Sprintf("%s parses %s with parseUint but a parse error does not reject the message: the value is merely skipped (`%s`), so a malformed number is accepted (RFC 7540 s8.1.2.6: malformed)", fn, what, p.text(test.Cond)))
			return true
		})
	}
}

// ---------------------------------------------------------------- settings

var settingsIDs = map[int64]string{1: "HEADER_TABLE_SIZE", 2: "ENABLE_PUSH", 3: "MAX_CONCURRENT_STREAMS", 4: "INITIAL_WINDOW_SIZE", 5: "MAX_FRAME_SIZE", 6: "MAX_HEADER_LIST_SIZE"}
var settingsFieldOfID = map[int64]string{1: "tableSize", 2: "enablePush", 3: "maxStreams", 4: "windowSize", 5: "frameSize", 6: "headerSize"}

// settingsReadMap extracts id -> field from the switch in Settings.Read.
func (p *Prog) settingsReadMap() (map[int64]string, map[int64]*ast.CaseClause, *ast.FuncDecl) {
	fd := p.decl("(*Settings).Read")
	if fd == nil {
		return nil, nil, nil
	}
	m := map[int64]string{}
	cl := map[int64]*ast.CaseClause{}
	ast.Inspect(fd.Body, func(n ast.Node) bool {
		sw, ok := n.(*ast.SwitchStmt)
		if !ok || sw.Tag == nil {
			return true
		}
		for _, c := range sw.Body.List {
			cc := c.(*ast.CaseClause)
			for _, e := range cc.List {
				id, ok := p.intConst(e)
				if !ok {
					continue
				}
				cl[id] = cc
				for _, s := range cc.Body {
					ast.Inspect(s, func(k ast.Node) bool {
						if as, ok := k.(*ast.AssignStmt); ok {
							for _, l := range as.Lhs {
								if sel, ok := l.(*ast.SelectorExpr); ok {
									if o, f, ok := p.fieldOf(sel); ok && o == "Settings" && !strings.HasPrefix(f, "has") {
										m[id] = f
									}
								}
							}
						}
						return true
					})
				}
			}
		}
		return true
	})
	return m, cl, fd
}

// settingsEncodeMap extracts field -> (id, omitted-when) from Settings.Encode.
type encEntry struct {
	id      int64
	omitAt  string // "0" / "false" / "" (never omitted)
	shifts  []int64
	ifs     *ast.IfStmt
	idBytes bool
}

func (p *Prog) settingsEncodeMap() (map[string]encEntry, *ast.FuncDecl) {
	fd := p.decl("(*Settings).Encode")
	if fd == nil {
		return nil, nil
	}
	m := map[string]encEntry{}
	handle := func(body ast.Node, omit string, ifs *ast.IfStmt, condField string) {
		inspectCalls(body, func(c *ast.CallExpr) {
			if p.calleeOf(c) != "builtin.append" || len(c.Args) != 7 {
				return
			}
			e := encEntry{omitAt: omit, ifs: ifs}
			// id bytes: byte(ID>>8), byte(ID)
			hi, ok1 := p.intConst(c.Args[1])
			lo, ok2 := p.intConst(c.Args[2])
			if ok1 && ok2 {
				e.id = hi<<8 | lo
				e.idBytes = true
			}
			field := condField
			for _, a := range c.Args[3:] {
				if id, ok := a.(*ast.Ident); ok && p.constOf(a) == nil {
					// a local octet that is 0 unless a boolean field is set:
					// `var x byte; if st.f { x = 1 }`
					if f, ok := p.boolOctetOf(fd, id.Name); ok {
						e.shifts = append(e.shifts, -200)
						field = f
					}
				} else if s, ok := p.shiftOf(a); ok {
					e.shifts = append(e.shifts, s)
				} else if v, ok := p.intConst(a); ok {
					e.shifts = append(e.shifts, -100-v)
				}
				ast.Inspect(a, func(k ast.Node) bool {
					if sel, ok := k.(*ast.SelectorExpr); ok {
						if o, f, ok := p.fieldOf(sel); ok && o == "Settings" {
							field = f
						}
					}
					return true
				})
			}
			if field != "" {
				m[field] = e
			}
		})
	}
	for _, s := range fd.Body.List {
		ifs, ok := s.(*ast.IfStmt)
		if !ok {
			handle(s, "", nil, "")
			continue
		}
		omit, cf := "?", ""
		if b, ok := ast.Unparen(ifs.Cond).(*ast.BinaryExpr); ok && b.Op == token.NEQ {
			if v, ok := p.intConst(b.Y); ok {
				omit = fmt.Sprint(v)
			}
			if sel, ok := b.X.(*ast.SelectorExpr); ok {
				if _, f, ok := p.fieldOf(sel); ok {
					cf = f
				}
			}
		} else if sel, ok := ast.Unparen(ifs.Cond).(*ast.SelectorExpr); ok {
			if _, f, ok := p.fieldOf(sel); ok {
				cf = f
				omit = "false"
			}
		}
		handle(ifs.Body, omit, ifs, cf)
	}
	return m, fd
}

// boolOctetOf: is name a local of fd declared `var name byte` whose only
// assignment is `name = 1` as the whole body of `if st.<field>`? It answers the
// field.
func (p *Prog) boolOctetOf(fd *ast.FuncDecl, name string) (string, bool) {
	declared, field, assigns := false, "", 0
	ast.Inspect(fd.Body, func(n ast.Node) bool {
		switch x := n.(type) {
		case *ast.ValueSpec:
			if len(x.Names) == 1 && x.Names[0].Name == name && len(x.Values) == 0 && p.text(x.Type) == "byte" {
				declared = true
			}
		case *ast.AssignStmt:
			for _, l := range x.Lhs {
				if p.text(l) == name {
					assigns++
				}
			}
		case *ast.IfStmt:
			if sel, ok := ast.Unparen(x.Cond).(*ast.SelectorExpr); ok && x.Else == nil && len(x.Body.List) == 1 && squash(p.text(x.Body.List[0])) == name+"=1" {
				if o, f, ok := p.fieldOf(sel); ok && o == "Settings" {
					field = f
				}
			}
		}
		return true
	})
	return field, declared && field != "" && assigns == 1
}

func ruleSettingsCodec(p *Prog, r *Out) {
	rd, _, rfd := p.settingsReadMap()
	enc, efd := p.settingsEncodeMap()
	if rfd == nil || efd == nil {
		r.undecided("anchors", "?", "Settings.Read / Settings.Encode no longer resolve")
		return
	}
	r.fn("(*Settings).Read", "(*Settings).Encode")
	for id := int64(1); id <= 6; id++ {
		want := settingsFieldOfID[id]
		got, ok := rd[id]
		r.check(ok && got == want, fmt.Sprintf("Read id %d", id), p.pos(rfd.Pos()), fmt.Sprintf("%s -> %s", settingsIDs[id], got),
			fmt.Sprintf("Settings.Read stores identifier %d (%s) into field %q; expected %q", id, settingsIDs[id], got, want))
		e, ok := enc[want]
		r.check(ok && e.id == id, fmt.Sprintf("Encode %s", want), p.pos(efd.Pos()), fmt.Sprintf("%s written under id %d", want, id),
			fmt.Sprintf("Settings.Encode writes field %s under identifier %d (found=%v); Read stores identifier %d there, so the two ends disagree on what the value means", want, e.id, ok, id))
		if ok && want == "enablePush" {
			// 0,0,0,1 under `if enablePush`, or 0,0,0,x with x = 1 exactly when enablePush
			good := len(e.shifts) == 4 && e.shifts[0] == -100 && e.shifts[1] == -100 && e.shifts[2] == -100 && (e.shifts[3] == -101 || e.shifts[3] == -200)
			r.check(good, "Encode enablePush value bytes", p.pos(efd.Pos()), "0,0,0,1 when set (0,0,0,0 otherwise, if written at all)", "Settings.Encode no longer writes ENABLE_PUSH as the octets 0,0,0,1 when push is enabled (and 0,0,0,0 when it is not)")
		}
		if ok && want != "enablePush" {
			good := len(e.shifts) == 4 && e.shifts[0] == 24 && e.shifts[1] == 16 && e.shifts[2] == 8 && e.shifts[3] == 0
			r.check(good, fmt.Sprintf("Encode %s value bytes", want), p.pos(efd.Pos()), "big-endian 32-bit value", fmt.Sprintf("Settings.Encode writes %s with shifts %v, not big-endian 24,16,8,0", want, e.shifts))
		}
	}
	// every case stores the received value (and its presence marker) unconditionally:
	// only a rejecting validation may precede the store
	_, clauses, _ := p.settingsReadMap()
	for id := int64(1); id <= 6; id++ {
		cc := clauses[id]
		if cc == nil {
			continue
		}
		want := settingsFieldOfID[id]
		stored, marker := false, id != 4
		for _, s := range cc.Body {
			as, ok := s.(*ast.AssignStmt)
			if !ok || len(as.Lhs) != 1 {
				continue
			}
			if p.isFieldSel(as.Lhs[0], "Settings", want) && strings.Contains(p.text(as.Rhs[0]), "value") {
				stored = true
			}
			if p.isFieldSel(as.Lhs[0], "Settings", "hasWindowSize") && p.text(as.Rhs[0]) == "true" {
				marker = true
			}
		}
		r.check(stored && marker, fmt.Sprintf("Read id %d stores unconditionally", id), p.pos(cc.Pos()), "value (and presence marker) stored at the top level of the case",
			fmt.Sprintf("Settings.Read case %s stores the received value or its presence marker only conditionally: the frame object was reset to defaults before parsing, so a condition on the old field value compares against the default, not the peer's previous setting; a SETTINGS frame carrying exactly the default (e.g. INITIAL_WINDOW_SIZE=65535 after another value) is then treated as absent", settingsIDs[id]))
	}
	// Read's entry layout: key from b[0],b[1]; value from b[2..5]; stride 6
	keyOK, valOK, strideOK := false, false, false
	ast.Inspect(rfd.Body, func(n ast.Node) bool {
		switch x := n.(type) {
		case *ast.AssignStmt:
			if len(x.Lhs) == 1 && len(x.Rhs) == 1 {
				pairs := map[int64]int64{}
				p.collectShiftTerms(x.Rhs[0], pairs)
				switch p.text(x.Lhs[0]) {
				case "key":
					keyOK = pairsAre(pairs, map[int64]int64{0: 8, 1: 0})
				case "value":
					valOK = pairsAre(pairs, map[int64]int64{2: 24, 3: 16, 4: 8, 5: 0})
				case "i":
					if x.Tok == token.ADD_ASSIGN {
						if v, ok := p.intConst(x.Rhs[0]); ok && v == 6 {
							strideOK = true
						}
					}
				}
			}
		}
		return true
	})
	// loop: first entry is d[0:6], the loop runs while a whole entry is left, and the next entry starts where this one ended
	loopOK := false
	ast.Inspect(rfd.Body, func(n ast.Node) bool {
		fs, ok := n.(*ast.ForStmt)
		if !ok || fs.Cond == nil {
			return true
		}
		c, ok := p.canonCmp(fs.Cond, nil)
		if !ok || c.Op != "le" || !c.L.eq(Lin{T: map[string]int64{"i": 1, "n": -1}}) {
			return true
		}
		slice, adv := false, false
		for _, s := range fs.Body.List {
			if as, ok := s.(*ast.AssignStmt); ok && len(as.Lhs) == 1 {
				if p.text(as.Lhs[0]) == "b" && squash(p.text(as.Rhs[0])) == "d[last:i]" {
					slice = true
				}
				if p.text(as.Lhs[0]) == "last" && p.text(as.Rhs[0]) == "i" {
					adv = true
				}
			}
		}
		loopOK = slice && adv
		return true
	})
	initOK := false
	ast.Inspect(rfd.Body, func(n ast.Node) bool {
		if as, ok := n.(*ast.AssignStmt); ok && as.Tok == token.DEFINE && len(as.Lhs) == 3 && len(as.Rhs) == 3 {
			a, ok1 := p.intConst(as.Rhs[0])
			b, ok2 := p.intConst(as.Rhs[1])
			if ok1 && ok2 && a == 0 && b == 6 && p.text(as.Lhs[0]) == "last" && p.text(as.Lhs[1]) == "i" && squash(p.text(as.Rhs[2])) == "len(d)" {
				initOK = true
			}
		}
		return true
	})
	r.check(loopOK && initOK, "Read entry window", p.pos(rfd.Pos()), "last,i = 0,6; for i <= len(d) { b = d[last:i]; ...; last = i; i += 6 }", "Settings.Read no longer walks the payload as consecutive 6-octet entries starting at octet 0 and including the last whole entry: the first or last parameter of a SETTINGS frame is skipped or read from the wrong octets")
	r.check(keyOK, "Read identifier bytes", p.pos(rfd.Pos()), "identifier = b[0]<<8|b[1]", "Settings.Read no longer takes the identifier from octets 0-1 big-endian")
	r.check(valOK, "Read value bytes", p.pos(rfd.Pos()), "value = b[2..5] big-endian", "Settings.Read no longer takes the value from octets 2-5 big-endian")
	r.check(strideOK, "Read stride", p.pos(rfd.Pos()), "entries are 6 octets", "Settings.Read no longer advances 6 octets per entry")
	// unknown identifiers ignored: the switch has no default that rejects
	rejDefault := false
	ast.Inspect(rfd.Body, func(n ast.Node) bool {
		if cc, ok := n.(*ast.CaseClause); ok && cc.List == nil {
			for _, s := range cc.Body {
				if rs, ok := s.(*ast.ReturnStmt); ok && len(rs.Results) == 1 && p.text(rs.Results[0]) != "nil" {
					rejDefault = true
				}
			}
		}
		return true
	})
	r.check(!rejDefault, "unknown identifiers ignored", p.pos(rfd.Pos()), "no rejecting default", "Settings.Read rejects unknown identifiers; RFC 7540 s6.5.2 requires them to be ignored")
}

// errorCall recognises NewGoAwayError(Code, ...) / NewResetStreamError / NewError.
func (p *Prog) errorCall(e ast.Expr) (class string, code int64, ok bool) {
	c, isCall := ast.Unparen(e).(*ast.CallExpr)
	if !isCall {
		return "", 0, false
	}
	switch p.calleeOf(c) {
	case "(*serverConn).rejectBlock":
		// hands back the error it was given once the rest of the fragment has
		// been decoded (rule reject-drains-the-block), or a connection error
		if len(c.Args) == 4 {
			return p.errorCall(c.Args[3])
		}
		return "", 0, false
	case "(*serverConn).rejectBlockFrom":
		if len(c.Args) == 5 {
			return p.errorCall(c.Args[4])
		}
		return "", 0, false
	case "NewGoAwayError":
		class = "GoAway"
	case "NewResetStreamError", "NewError":
		class = "Reset"
	default:
		return "", 0, false
	}
	if len(c.Args) >= 1 {
		if v, ok := p.intConst(c.Args[0]); ok {
			return class, v, true
		}
	}
	return class, -1, true
}

func ruleSettingsValidate(p *Prog, r *Out) {
	_, cls, fd := p.settingsReadMap()
	if fd == nil {
		r.undecided("Settings.Read", "?", "no longer resolves")
		return
	}
	type want struct {
		id    int64
		code  int64
		conds []Cmp // the rejecting condition is exactly their conjunction (conj) or disjunction
		conj  bool
		desc  string
	}
	v := func(c int64) Lin { return Lin{T: map[string]int64{"value": 1}, C: c} }
	nv := func(c int64) Lin { return Lin{T: map[string]int64{"value": -1}, C: c} }
	wants := []want{
		{2, 1, []Cmp{{v(0), "ne"}, {v(-1), "ne"}}, true, "ENABLE_PUSH other than 0/1 -> PROTOCOL_ERROR"},
		{4, 3, []Cmp{{nv(1 << 31), "le"}}, true, "INITIAL_WINDOW_SIZE > 2^31-1 -> FLOW_CONTROL_ERROR"},
		{5, 1, []Cmp{{v(-(1 << 14) + 1), "le"}, {nv(1 << 24), "le"}}, false, "MAX_FRAME_SIZE outside [2^14, 2^24-1] -> PROTOCOL_ERROR"},
	}
	for _, w := range wants {
		cc := cls[w.id]
		key := settingsIDs[w.id] + " validation"
		if cc == nil {
			r.bad(key, p.pos(fd.Pos()), "Settings.Read has no case for "+settingsIDs[w.id])
			continue
		}
		found := map[string]bool{}
		class, code := "", int64(-2)
		for _, s := range cc.Body {
			ifs, ok := s.(*ast.IfStmt)
			if !ok || !isRejectingBody(p, ifs.Body) {
				continue
			}
			// the rejected set is the conjunction (ENABLE_PUSH: neither 0 nor 1) or the
			// disjunction (MAX_FRAME_SIZE: below or above) of the wanted comparisons
			atoms := conjuncts(ifs.Cond, w.conj)
			for _, a := range atoms {
				if a.Val != w.conj {
					continue
				}
				if c, ok := p.canonCmp(a.Cond, nil); ok {
					found[c.String()] = true
				}
			}
			if len(atoms) != len(w.conds) {
				found["(wrong connective or extra terms)"] = true
			}
			for _, b := range ifs.Body.List {
				if rs, ok := b.(*ast.ReturnStmt); ok && len(rs.Results) == 1 {
					if cl, cd, ok := p.errorCall(rs.Results[0]); ok {
						class, code = cl, cd
					}
				}
			}
		}
		all := true
		for _, c := range w.conds {
			if !found[c.String()] {
				all = false
			}
		}
		r.check(all && len(found) == len(w.conds) && class == "GoAway" && code == w.code, key, p.pos(cc.Pos()), w.desc,
			fmt.Sprintf("Settings.Read case %s: rejecting comparisons found %v with %s error code %d; RFC 7540 s6.5.2 requires %s as a connection error", settingsIDs[w.id], sortedKeys(found), class, code, w.desc))
	}
}

func ruleSettingsEncodeDefaults(p *Prog, r *Out) {
	enc, fd := p.settingsEncodeMap()
	if fd == nil {
		r.undecided("Settings.Encode", "?", "no longer resolves")
		return
	}
	r.fn("(*Settings).Encode")
	// RFC 7540 s6.5.2 initial values; "" = no value (unlimited)
	initial := map[string]string{"tableSize": "4096", "enablePush": "true", "maxStreams": "", "windowSize": "65535", "frameSize": "16384", "headerSize": ""}
	exempt := map[string]string{
		"frameSize":  "0 is not a legal SETTINGS_MAX_FRAME_SIZE (minimum 2^14), so it can only mean 'not configured'",
		"headerSize": "SETTINGS_MAX_HEADER_LIST_SIZE is advisory and its initial value is unlimited; 0 is used as 'not configured'",
	}
	for id := int64(1); id <= 6; id++ {
		f := settingsFieldOfID[id]
		e, ok := enc[f]
		key := "Encode omits " + settingsIDs[id]
		if !ok {
			r.bad(key, p.pos(fd.Pos()), fmt.Sprintf("Settings.Encode never writes %s", settingsIDs[id]))
			continue
		}
		pos := p.pos(fd.Pos())
		if e.ifs != nil {
			pos = p.pos(e.ifs.Pos())
		}
		if e.omitAt == "" {
			r.ok(key, pos, "always written")
			continue
		}
		if e.omitAt == "?" {
			r.bad(key+" under an unreadable condition", pos, fmt.Sprintf("Settings.Encode writes %s under the condition `%s`, which is not of the form 'field differs from a constant': the parameter is sent for the wrong values of the field", settingsIDs[id], p.text(e.ifs.Cond)))
			continue
		}
		key += " when " + e.omitAt
		if why, ok := exempt[f]; ok && e.omitAt == "0" {
			r.ok(key, pos, "exempt: "+why)
			continue
		}
		r.check(e.omitAt == initial[f], key, pos, "omitted only at the RFC initial value",
			fmt.Sprintf("Settings.Encode leaves %s out when the field is %s, but the peer then assumes the RFC 7540 s6.5.2 initial value (%s): an endpoint configured with %s=%s never tells its peer", settingsIDs[id], e.omitAt, orUnlimited(initial[f]), settingsIDs[id], e.omitAt))
	}
}

func pairsAre(got, want map[int64]int64) bool {
	if len(got) != len(want) {
		return false
	}
	for k, v := range want {
		if g, ok := got[k]; !ok || g != v {
			return false
		}
	}
	return true
}

func orUnlimited(s string) string {
	if s == "" {
		return "unlimited"
	}
	return s
}

func ruleSettingsAck(p *Prog, r *Out) {
	for _, name := range []string{"(*serverConn).handleSettings", "(*Conn).handleSettings"} {
		fd := p.decl(name)
		if fd == nil {
			r.undecided(name, "?", "no longer resolves")
			continue
		}
		r.fn(name)
		// straight-line statements at top level: count SetAck(true) and write/writeOut calls
		acks, writes, acquires := 0, 0, 0
		nested := false
		for _, s := range fd.Body.List {
			top := true
			if _, ok := s.(*ast.IfStmt); ok {
				top = false
			}
			inspectCalls(s, func(c *ast.CallExpr) {
				switch p.calleeOf(c) {
				case "(*Settings).SetAck":
					if len(c.Args) == 1 && p.text(c.Args[0]) == "true" {
						acks++
						if !top {
							nested = true
						}
					}
				case "(*serverConn).write", "(*Conn).writeOut":
					writes++
					if !top {
						nested = true
					}
				case "AcquireFrame":
					if len(c.Args) == 1 {
						if v, ok := p.intConst(c.Args[0]); ok && v == 4 {
							acquires++
						}
					}
				}
			})
		}
		r.check(acks == 1 && writes == 1 && acquires == 1 && !nested, name+" queues one ACK", p.pos(fd.Pos()), "one SETTINGS ACK on the unconditional path",
			fmt.Sprintf("%s sets ACK %d times on %d SETTINGS frames and queues %d frames (conditional=%v); exactly one unconditional ACK per SETTINGS frame is required (RFC 7540 s6.5.3)", name, acks, acquires, writes, nested))
		// call sites: under FrameSettings case and !IsAck
		sites := 0
		for _, f := range p.Files {
			pm := p.parentMaps()[f]
			inspectCalls(f, func(c *ast.CallExpr) {
				if p.calleeOf(c) != name {
					return
				}
				sites++
				inCase, notAck := false, false
				for cur := pm[c]; cur != nil; cur = pm[cur] {
					if cc, ok := cur.(*ast.CaseClause); ok {
						for _, e := range cc.List {
							if v, ok := p.intConst(e); ok && v == 4 {
								inCase = true
							}
						}
					}
				}
				for _, g := range p.knownFacts(pm, c) {
					if cc, ok := g.Cond.(*ast.CallExpr); ok && p.calleeOf(cc) == "(*Settings).IsAck" && !g.Val {
						notAck = true
					}
				}
				// or: the frame came through the hand-over channel, and the only SETTINGS frames handed over are non-ACK ones
				if !notAck && inCase {
					notAck = p.settingsForwardedOnlyWithoutAck(enclosingFunc(pm, c))
				}
				r.check(inCase && notAck, name+" call in "+enclosingFunc(pm, c), p.pos(c.Pos()), "called for SETTINGS without ACK only",
					fmt.Sprintf("%s is called outside the `case FrameSettings` / `!IsAck()` branch (inCase=%v notAck=%v): an ACK would be acknowledged, or another frame type acknowledged as SETTINGS", name, inCase, notAck))
			})
		}
		if sites == 0 {
			r.bad(name+" call", p.pos(fd.Pos()), name+" is never called: received SETTINGS are not acknowledged")
		}
	}
}

// settingsMergeOK: Read records which parameter ids a frame carried, and
// applyTo changes in its destination exactly the parameters recorded.
func (p *Prog) settingsMergeOK() (bool, []string) {
	if v, ok := p.memo["settingsMergeOK"]; ok {
		x := v.([]interface{})
		return x[0].(bool), x[1].([]string)
	}
	var why []string
	fail := func(s string) { why = append(why, s) }
	idName := map[string]int64{"HeaderTableSize": 1, "EnablePush": 2, "MaxConcurrentStreams": 3, "MaxWindowSize": 4, "MaxFrameSize": 5, "MaxHeaderListSize": 6}
	if fd := p.decl("(*Settings).applyTo"); fd == nil {
		fail("(*Settings).applyTo no longer resolves")
	} else {
		seen := map[int64]bool{}
		for _, s := range fd.Body.List {
			ifs, ok := s.(*ast.IfStmt)
			if !ok || ifs.Else != nil || len(ifs.Body.List) != 1 {
				fail("applyTo has a statement that is not `if st.has(ID) { dst.f = st.f }`")
				continue
			}
			c, ok := ast.Unparen(ifs.Cond).(*ast.CallExpr)
			if !ok || p.calleeOf(c) != "(*Settings).has" || len(c.Args) != 1 || p.text(c.Fun.(*ast.SelectorExpr).X) != "st" {
				fail("applyTo copies a parameter under something other than its presence bit")
				continue
			}
			id, ok := idName[p.text(c.Args[0])]
			if !ok {
				fail("applyTo tests an unknown parameter id")
				continue
			}
			f := settingsFieldOfID[id]
			if squash(p.text(ifs.Body.List[0])) != "dst."+f+"=st."+f {
				fail(fmt.Sprintf("under the presence bit of %s applyTo no longer copies field %s", settingsIDs[id], f))
			}
			seen[id] = true
		}
		for id := int64(1); id <= 6; id++ {
			if !seen[id] {
				fail(fmt.Sprintf("applyTo no longer applies %s", settingsIDs[id]))
			}
		}
	}
	if fd := p.decl("(*Settings).has"); fd == nil {
		fail("(*Settings).has no longer resolves")
	} else if res := singleReturn(fd); res == nil || squash(p.text(res)) != "st.present&(1<<id)!=0" {
		fail("has no longer tests bit id of present")
	}
	if fd := p.decl("(*Settings).Read"); fd == nil {
		fail("(*Settings).Read no longer resolves")
	} else {
		okMark := false
		ast.Inspect(fd.Body, func(n ast.Node) bool {
			fs, ok := n.(*ast.ForStmt)
			if !ok {
				return true
			}
			for _, s := range fs.Body.List {
				ifs, ok := s.(*ast.IfStmt)
				if ok && p.isConjunctionOf(ifs.Cond, "key>=HeaderTableSize", "key<=MaxHeaderListSize") && len(ifs.Body.List) == 1 && squash(p.text(ifs.Body.List[0])) == "st.present|=1<<key" {
					okMark = true
				}
			}
			return true
		})
		if !okMark {
			fail("Read no longer records, for every parameter of a known id and at the top level of its loop, that the id was present")
		}
	}
	if fd := p.decl("(*Settings).Reset"); fd == nil || !hasStmt(p, fd.Body.List, "st.present=0") {
		fail("Reset no longer clears the presence bits: a pooled Settings carries those of the previous frame")
	}
	p.memo["settingsMergeOK"] = []interface{}{len(why) == 0, why}
	return len(why) == 0, why
}

func ruleSettingsPresence(p *Prog, r *Out) {
	// getters of received values; the presence marker field for each
	getter := map[string]string{
		"(*Settings).HeaderTableSize": "tableSize", "(*Settings).MaxConcurrentStreams": "maxStreams",
		"(*Settings).MaxWindowSize": "windowSize", "(*Settings).MaxFrameSize": "frameSize",
		"(*Settings).MaxHeaderListSize": "headerSize", "(*Settings).Push": "enablePush",
	}
	marker := func(f string) string {
		return "has" + strings.ToUpper(f[:1]) + f[1:]
	}
	st, _ := p.Pkg.Scope().Lookup("Settings").(*types.TypeName)
	hasMarker := map[string]bool{}
	if st != nil {
		if s, ok := st.Type().Underlying().(*types.Struct); ok {
			for i := 0; i < s.NumFields(); i++ {
				hasMarker[s.Field(i).Name()] = true
			}
		}
	}
	type site struct {
		fn, field, pos string
		guarded        bool
	}
	var sites []site
	scan := func(fnName string, recvExprs func(e ast.Expr) bool) {
		fd := p.decl(fnName)
		if fd == nil {
			r.undecided(fnName, "?", "no longer resolves")
			return
		}
		r.fn(fnName)
		pm := p.pmFor(fd)
		ast.Inspect(fd.Body, func(n ast.Node) bool {
			field := ""
			var at ast.Node
			switch x := n.(type) {
			case *ast.CallExpr:
				if f, ok := getter[p.calleeOf(x)]; ok {
					if sel, ok := x.Fun.(*ast.SelectorExpr); ok && recvExprs(sel.X) {
						field, at = f, x
					}
				}
			case *ast.SelectorExpr:
				if o, f, ok := p.fieldOf(x); ok && o == "Settings" && recvExprs(x.X) {
					for _, gf := range getter {
						if gf == f {
							field, at = f, x
						}
					}
				}
			}
			if field == "" {
				return true
			}
			m := marker(field)
			if field == "windowSize" {
				m = "hasWindowSize"
			}
			guarded := false
			for _, g := range p.knownFacts(pm, at) {
				if g.Val {
					if sel, ok := g.Cond.(*ast.SelectorExpr); ok {
						if o, f, ok := p.fieldOf(sel); ok && o == "Settings" && f == m {
							guarded = true
						}
					}
				}
			}
			guarded = guarded && hasMarker[m]
			// a value read from the endpoint's record of the peer's settings is
			// what the peer last sent for that parameter when the record is
			// filled by applyTo (present parameters only) and by nothing else
			if sel, ok := at.(*ast.CallExpr); ok {
				if fs, ok := sel.Fun.(*ast.SelectorExpr); ok && p.text(fs.X) != "st" {
					rec := p.text(fs.X)
					merged, copied := false, false
					inspectCalls(fd.Body, func(c *ast.CallExpr) {
						if len(c.Args) == 1 && squash(p.text(c.Args[0])) == "&"+rec {
							switch p.calleeOf(c) {
							case "(*Settings).applyTo":
								merged = true
							case "(*Settings).CopyTo":
								copied = true
							}
						}
					})
					if okm, _ := p.settingsMergeOK(); okm && merged && !copied {
						guarded = true
					}
				}
			}
			sites = append(sites, site{fnName, field, p.pos(at.Pos()), guarded})
			return true
		})
	}
	// server: handleSettings copies the frame into sc.clientS and then reads it
	isRecv := func(names ...string) func(ast.Expr) bool {
		return func(e ast.Expr) bool {
			t := p.text(e)
			t = strings.TrimPrefix(t, "&")
			for _, n := range names {
				if t == n {
					return true
				}
			}
			return false
		}
	}
	scan("(*serverConn).handleSettings", isRecv("st", "sc.clientS"))
	scan("(*Conn).handleSettings", isRecv("st", "c.serverS"))
	// the stream loop's SETTINGS case
	if fd := p.decl("(*serverConn).handleStreams"); fd != nil {
		pm := p.pmFor(fd)
		ast.Inspect(fd.Body, func(n ast.Node) bool {
			if sel, ok := n.(*ast.SelectorExpr); ok {
				if o, f, ok := p.fieldOf(sel); ok && o == "Settings" && f == "windowSize" && p.text(sel.X) == "st" {
					guarded := false
					for _, g := range p.knownFacts(pm, sel) {
						if g.Val && p.isFieldSel(g.Cond, "Settings", "hasWindowSize") {
							guarded = true
						}
					}
					sites = append(sites, site{"(*serverConn).handleStreams", "windowSize", p.pos(sel.Pos()), guarded})
				}
			}
			return true
		})
	}
	// a received value reaches live state unconditionally or under its presence
	// marker, never under a condition on the value itself
	for _, fnn := range []string{"(*serverConn).handleSettings", "(*Conn).handleSettings"} {
		fd := p.decl(fnn)
		if fd == nil {
			continue
		}
		pm := p.pmFor(fd)
		inspectCalls(fd.Body, func(c *ast.CallExpr) {
			name := p.calleeOf(c)
			target := ""
			switch {
			case strings.HasPrefix(name, "atomic.Store") && len(c.Args) == 2:
				target = strings.TrimPrefix(p.text(c.Args[0]), "&")
			case name == "(*HPACK).SetMaxTableSize":
				target = "encoder table size"
			case name == "(*Conn).applyInitialWindow":
				target = "initial window"
			default:
				return
			}
			bad := ""
			for _, g := range p.enclosingGuards(pm, c) {
				t := p.text(g.Cond)
				if sel, ok := g.Cond.(*ast.SelectorExpr); ok {
					if _, f, ok := p.fieldOf(sel); ok && strings.HasPrefix(f, "has") {
						continue
					}
				}
				// st.has(ID): the presence bit of a parameter (settingsMergeOK pins has)
				if cc, ok := ast.Unparen(g.Cond).(*ast.CallExpr); ok && p.calleeOf(cc) == "(*Settings).has" && g.Val {
					if okm, _ := p.settingsMergeOK(); okm {
						continue
					}
				}
				// a compare-and-swap loop's own exit test is not a condition on the value received
				if strings.Contains(t, "CompareAndSwap") {
					continue
				}
				bad = t
			}
			r.check(bad == "", fnn+" stores "+target+" without a value condition", p.pos(c.Pos()), "unconditional, or under the parameter's presence marker only",
				fmt.Sprintf("%s applies the received %s only under the condition `%s`: a condition on the value itself cannot tell 'absent' from 'explicitly set to that value' (the frame object is reset to defaults before parsing), so a SETTINGS frame that sets the parameter back to exactly that value is acknowledged but never applied", fnn, target, bad))
		})
	}
	seen := map[string]bool{}
	for _, s := range sites {
		key := s.fn + " applies " + s.field
		if seen[key] {
			if s.guarded {
				continue
			}
		}
		seen[key] = true
		r.check(s.guarded, key, s.pos, "applied under its presence marker",
			fmt.Sprintf("%s applies the received frame's %s without a presence marker: the frame object is reset to defaults before parsing, so a SETTINGS frame that does not mention this parameter overwrites the value the peer set earlier with the default (RFC 7540 s6.5.3: unmentioned parameters keep their value)", s.fn, s.field))
	}
}

func ruleLimitSource(p *Prog, r *Out) {
	n := 0
	for _, f := range p.Files {
		pm := p.parentMaps()[f]
		inspectCalls(f, func(c *ast.CallExpr) {
			callee := p.calleeOf(c)
			if callee != "ReadFrameFromWithSize" && callee != "ReadFrameFrom" {
				return
			}
			fn := enclosingFunc(pm, c)
			n++
			if callee == "ReadFrameFrom" {
				r.ok(fn+" reads with the default bound", p.pos(c.Pos()), "AcquireFrameHeader installs defaultMaxLen (2^14), the value this endpoint advertises")
				return
			}
			arg := c.Args[1]
			key := fn + " read bound " + p.text(arg)
			// acceptable: own settings (sc.st.*, c.current.*) or a constant >= 2^14
			t := p.text(arg)
			if v, ok := p.intConst(arg); ok {
				r.check(v >= 1<<14 && v <= 1<<24-1, key, p.pos(c.Pos()), "constant bound", fmt.Sprintf("constant read bound %d is outside [2^14, 2^24-1]", v))
				return
			}
			own := strings.HasPrefix(t, "sc.st.") || strings.HasPrefix(t, "c.current.")
			r.check(own, key, p.pos(c.Pos()), "bound is the endpoint's own setting",
				fmt.Sprintf("%s bounds incoming frames by `%s`, the PEER's SETTINGS_MAX_FRAME_SIZE (what the peer is willing to receive), not this endpoint's own; until the peer's first SETTINGS it is 0, which the reader treats as 'no limit', so any frame up to 16 MiB is buffered (RFC 7540 s4.2: FRAME_SIZE_ERROR above the receiver's own setting)", fn, t))
		})
	}
	// checkLen: zero must not mean unlimited silently? recorded as instance of the reader
	if fd := p.decl("(*FrameHeader).checkLen"); fd != nil {
		r.fn("(*FrameHeader).checkLen")
		has := false
		ast.Inspect(fd.Body, func(n ast.Node) bool {
			if ifs, ok := n.(*ast.IfStmt); ok && isRejectingBody(p, ifs.Body) {
				for _, a := range conjuncts(ifs.Cond, true) {
					if c, ok := p.canonCmp(a.Cond, nil); ok && c.Op == "le" {
						// length > maxLen => maxLen - length + 1 <= 0
						if c.L.eq(Lin{T: map[string]int64{"f.maxLen": 1, "f.length": -1}, C: 1}) {
							has = true
						}
					}
				}
			}
			return true
		})
		r.check(has, "checkLen rejects length > maxLen", p.pos(fd.Pos()), "length > maxLen rejected", "checkLen no longer rejects a payload longer than the bound")
	} else {
		r.undecided("checkLen", "?", "(*FrameHeader).checkLen no longer resolves")
	}
}

// acquiresOf lists the functions that call AcquireFrame with constant kind k.
func (p *Prog) acquiresOf(k int64) map[string]string {
	out := map[string]string{}
	for _, f := range p.Files {
		pm := p.parentMaps()[f]
		inspectCalls(f, func(c *ast.CallExpr) {
			if p.calleeOf(c) == "AcquireFrame" && len(c.Args) == 1 {
				if v, ok := p.intConst(c.Args[0]); ok && v == k {
					out[enclosingFunc(pm, c)] = p.pos(c.Pos())
				}
			}
		})
	}
	return out
}

func ruleContinuationEmitter(p *Prog, r *Out) {
	sites := p.acquiresOf(9)
	role := func(fn string) string {
		if strings.HasPrefix(fn, "(*serverConn)") || fn == "fasthttpResponseHeaders" {
			return "server"
		}
		if strings.HasPrefix(fn, "(*Conn)") {
			return "client"
		}
		return ""
	}
	have := map[string]string{}
	for fn, pos := range sites {
		if ro := role(fn); ro != "" {
			have[ro] = fn + " at " + pos
		}
	}
	hdr := p.acquiresOf(1)
	for _, ro := range []string{"server", "client"} {
		sender := ""
		for fn := range hdr {
			if role(fn) == ro {
				sender = fn
			}
		}
		if sender == "" {
			r.undecided(ro+" header sender", "?", "no function of this role acquires a HEADERS frame")
			continue
		}
		_, ok := have[ro]
		r.check(ok, ro+" can continue a header block", hdr[sender], "a CONTINUATION emitter exists: "+have[ro],
			fmt.Sprintf("the %s sends header blocks (%s) but no %s-side function ever acquires a CONTINUATION frame: a header block larger than the peer's SETTINGS_MAX_FRAME_SIZE is written as one oversized HEADERS frame (RFC 7540 s4.2, s6.2)", ro, sender, ro))
	}
}

func ruleDataEmitters(p *Prog, r *Out) {
	audited := map[string]string{
		"(*serverConn).sendData": "server: chunk bounded by both windows and maxDataFrameSize (rule srv-chunk-bound)",
		"(*Conn).writeData":      "client: frames cut by maxFrameSize from a slice already debited from both windows (rule cli-chunk-bound)",
	}
	sites := p.acquiresOf(0)
	var fns []string
	for fn := range sites {
		fns = append(fns, fn)
	}
	sort.Strings(fns)
	for _, fn := range fns {
		why, ok := audited[fn]
		r.check(ok, fn+" emits DATA", sites[fn], why, fmt.Sprintf("%s acquires a DATA frame for sending but is not one of the audited, window-checked emitters: bytes sent from it are not accounted against the peer's flow-control windows", fn))
	}
	for fn := range audited {
		if _, ok := sites[fn]; !ok {
			r.bad(fn+" emits DATA", "?", fn+" no longer acquires a DATA frame: the audited emitter has moved and the window rules are anchored on it")
		}
	}
}

// settingsForwardedOnlyWithoutAck: fn receives its frames from serverConn.reader,
// and every forward() of a SETTINGS frame in the read loop sits under !IsAck().
func (p *Prog) settingsForwardedOnlyWithoutAck(fn string) bool {
	if fn != "(*serverConn).handleStreams" {
		return false
	}
	rl := p.decl("(*serverConn).readLoop")
	if rl == nil {
		return false
	}
	pm := p.pmFor(rl)
	n, good := 0, 0
	ast.Inspect(rl.Body, func(nd ast.Node) bool {
		cc, ok := nd.(*ast.CaseClause)
		if !ok || len(cc.List) != 1 {
			return true
		}
		if v, okv := p.intConst(cc.List[0]); !okv || v != 4 {
			return true
		}
		inspectCalls(cc, func(c *ast.CallExpr) {
			if p.calleeOf(c) != "(*serverConn).forward" {
				return
			}
			n++
			for _, g := range p.knownFacts(pm, c) {
				if k, ok := g.Cond.(*ast.CallExpr); ok && p.calleeOf(k) == "(*Settings).IsAck" && !g.Val {
					good++
				}
			}
		})
		return true
	})
	return n >= 1 && n == good
}
