package main

// RFC 7541 s5 primitives and the decoder's per-representation effects,
// compared with their reference definitions expression by expression (FDE:
// every condition / value expression is constant-folded over the whole of a
// small domain and must agree with the RFC's definition on all of it).

import (
	"fmt"
	"go/ast"
	"go/token"
	"strings"
)

func init() {
	register(&Rule{
		Name: "hpack-primitives", Props: []string{"C03", "C04", "C16", "C01", "C02"}, Engine: "FDE", Floor: 24,
		Doc: "readInt, readString, appendInt and appendString compute RFC 7541 s5.1/s5.2: prefix mask 2^N-1 for N=4..7, the short form exactly when the prefix bits are not all ones (value = prefix bits, cursor +1), continuation octets from index 1 at shift 7(i-1) with 7 payload bits each, stop at a clear top bit (value = mask + sum, cursor just past it), ErrUnexpectedSize on empty or exhausted input; strings: H bit = top bit of the first octet, 7-bit length prefix, exactly `length` octets consumed, ErrUnexpectedSize when fewer are present; the encoder's prefix octet is the last octet of dst and starts as a fresh zero octet for strings, H bit set iff Huffman",
		Run: ruleHpackPrimitives,
	})
	register(&Rule{
		Name: "dec-effects", Props: []string{"C03", "C01", "C02", "C16"}, Engine: "FDE", Floor: 14,
		Doc: "inside each representation clause of the field decoder: the name is taken from the table exactly when the index bits of the first octet are non-zero (folded over every octet of the clause), an indexed field is copied out of the table, an indexed name is copied from the table entry, literal names and values are stored only when their string decoded without error and are decoded into an empty buffer, a table miss is a decoding error, a size update is accepted exactly at the start of a block before any field, the block loop stops cleanly on empty input, and Next starts a block",
		Run: ruleDecEffects,
	})
	register(&Rule{
		Name: "hpack-table-accounting", Props: []string{"C03", "C04"}, Engine: "AST", Floor: 8,
		Doc: "the dynamic table's size accounting is RFC 7541 s4.1-s4.4: an entry counts name+value+32, the table size is the sum over all entries, eviction walks from the oldest entry subtracting each evicted entry's size while entries remain and the size exceeds the maximum, exactly the walked entries are released and dropped, a full match needs name and value equal, a name-only match keeps the first static entry, SetMaxTableSize stores the new limit for both the table and the size-update check, schedules the announcement and evicts",
		Run: ruleTableAccounting,
	})
}

type fdeCheck struct {
	p   *Prog
	r   *Out
	pos string
}

func (c fdeCheck) expr(key string, e ast.Expr, d fdeDomain, derive func(fdeEnv), ref func(fdeEnv) int64, want, why string) {
	if e == nil {
		c.r.bad(key, c.pos, "the expression in this role was not found: "+why)
		return
	}
	ok, cex, got, folded := c.p.equivOver(e, d, derive, ref)
	switch {
	case ok:
		c.r.ok(key, c.p.pos(e.Pos()), "`"+c.p.text(e)+"` agrees with "+want+" on the whole domain")
	case !folded:
		c.r.undecided(key, c.p.pos(e.Pos()), fmt.Sprintf("`%s` cannot be folded (at %v)", c.p.text(e), cex))
	default:
		c.r.bad(key, c.p.pos(e.Pos()), fmt.Sprintf("`%s` is %d where %s gives %d (at %v): %s", c.p.text(e), got, want, ref(cex), cex, why))
	}
}

func mentionsIdent(e ast.Node, name string) bool {
	hit := false
	ast.Inspect(e, func(n ast.Node) bool {
		if id, ok := n.(*ast.Ident); ok && id.Name == name {
			hit = true
		}
		return true
	})
	return hit
}

func b2i(b bool) int64 {
	if b {
		return 1
	}
	return 0
}

func retResults(s ast.Stmt) []ast.Expr {
	if rs, ok := s.(*ast.ReturnStmt); ok {
		return rs.Results
	}
	return nil
}

// firstReturn finds the first return statement directly in a block.
func firstReturn(b *ast.BlockStmt) []ast.Expr {
	if b == nil {
		return nil
	}
	for _, s := range b.List {
		if r := retResults(s); r != nil {
			return r
		}
	}
	return nil
}

func ruleHpackPrimitives(p *Prog, r *Out) {
	// ------------------------------------------------------------ readInt
	if fd := p.decl("readInt"); fd != nil && len(fd.Body.List) > 0 {
		r.fn("readInt")
		c := fdeCheck{p, r, p.pos(fd.Pos())}
		nName := fd.Type.Params.List[0].Names[0].Name
		bName := fd.Type.Params.List[1].Names[0].Name
		b0s, blen := bName+"[0]", "len("+bName+")"
		// empty guard
		var guard *ast.IfStmt
		if ifs, ok := fd.Body.List[0].(*ast.IfStmt); ok {
			guard = ifs
		}
		if guard != nil {
			c.expr("readInt empty-input test", guard.Cond, fdeDomain{[]string{blen}, [][]int64{seq(0, 4)}}, nil, func(e fdeEnv) int64 { return b2i(e[blen] == 0) }, "len(b) == 0", "readInt indexes b[0] next; anything but an exact emptiness test either panics on empty input or rejects a one-octet integer")
			res := firstReturn(guard.Body)
			r.check(len(res) == 3 && p.text(res[0]) == bName && p.text(res[2]) == "ErrUnexpectedSize", "readInt empty input is 'more to come'", p.pos(guard.Pos()), "return b, 0, ErrUnexpectedSize", "readInt no longer reports empty input as ErrUnexpectedSize with the cursor unchanged: a header block cut in front of an integer is not carried over to the next frame")
		} else {
			r.bad("readInt empty-input test", c.pos, "readInt no longer starts with an emptiness test")
		}
		// mask
		var maskVar string
		var maskExpr ast.Expr
		maskAt := -1
		for i, s := range fd.Body.List {
			if as, ok := s.(*ast.AssignStmt); ok && as.Tok == token.DEFINE && len(as.Lhs) == 1 && strings.Contains(p.text(as.Rhs[0]), "<<") && maskVar == "" {
				maskVar, maskExpr, maskAt = p.text(as.Lhs[0]), as.Rhs[0], i
			}
		}
		dn := fdeDomain{[]string{nName}, [][]int64{seq(1, 8)}}
		c.expr("readInt prefix mask", maskExpr, dn, nil, func(e fdeEnv) int64 { return (1<<uint(e[nName]) - 1) & 0xff }, "2^N-1", "the prefix mask selects the N low bits of the first octet (RFC 7541 s5.1)")
		dx := fdeDomain{[]string{nName, b0s}, [][]int64{seq(4, 7), seq(0, 255)}}
		deriveMask := func(e fdeEnv) { e[maskVar] = 1<<uint(e[nName]) - 1 }
		// short form
		var short *ast.IfStmt
		for _, s := range fd.Body.List[maskAt+1:] {
			if ifs, ok := s.(*ast.IfStmt); ok && short == nil {
				if res := firstReturn(ifs.Body); len(res) == 3 && p.text(res[2]) == "nil" {
					short = ifs
				}
			}
		}
		if short != nil && maskVar != "" {
			c.expr("readInt short-form test", short.Cond, dx, deriveMask, func(e fdeEnv) int64 { return b2i(e[b0s]&e[maskVar] != e[maskVar]) }, "prefix bits not all ones", "the integer ends in its first octet exactly when the prefix bits are not all ones")
			res := firstReturn(short.Body)
			c.expr("readInt short-form value", res[1], dx, deriveMask, func(e fdeEnv) int64 { return e[b0s] & e[maskVar] }, "first octet & mask", "the short form's value is the prefix bits")
			base, lo, hi, ok := p.sliceBounds(res[0])
			r.check(ok && base == bName && lo == 1 && hi == -1, "readInt short-form cursor", p.pos(res[0].Pos()), "b[1:]", "after a one-octet integer the cursor no longer stands exactly one octet further")
		} else {
			r.bad("readInt short-form test", c.pos, "no `if <prefix not all ones> { return ..., nil }` after the mask definition")
		}
		// loop
		var loop *ast.ForStmt
		for _, s := range fd.Body.List {
			if fs, ok := s.(*ast.ForStmt); ok {
				loop = fs
			}
		}
		if loop == nil {
			r.bad("readInt continuation loop", c.pos, "readInt has no continuation loop")
		} else {
			iName := ""
			if as, ok := loop.Init.(*ast.AssignStmt); ok && len(as.Lhs) == 1 {
				iName = p.text(as.Lhs[0])
				c.expr("readInt first continuation octet", as.Rhs[0], fdeDomain{[]string{"_"}, [][]int64{{0}}}, nil, func(fdeEnv) int64 { return 1 }, "index 1", "continuation octets start right after the prefix octet")
			} else {
				r.bad("readInt first continuation octet", p.pos(loop.Pos()), "the continuation loop has no `i := 1` initialiser")
			}
			c.expr("readInt loop bound", loop.Cond, fdeDomain{[]string{iName, blen}, [][]int64{seq(0, 5), seq(0, 5)}}, nil, func(e fdeEnv) int64 { return b2i(e[iName] < e[blen]) }, "i < len(b)", "the loop must visit every remaining octet and none beyond the input")
			inc, _ := loop.Post.(*ast.IncDecStmt)
			r.check(inc != nil && inc.Tok == token.INC && p.text(inc.X) == iName, "readInt loop step", p.pos(loop.Pos()), "i++", "the continuation loop no longer advances one octet at a time")
			bi := bName + "[" + iName + "]"
			var shiftExpr ast.Expr
			shiftVar := ""
			var accRHS ast.Expr
			accVar := ""
			var stop *ast.IfStmt
			ast.Inspect(loop.Body, func(n ast.Node) bool {
				switch x := n.(type) {
				case *ast.AssignStmt:
					if x.Tok == token.DEFINE && len(x.Lhs) == 1 && strings.Contains(p.text(x.Rhs[0]), iName) && shiftExpr == nil {
						shiftVar, shiftExpr = p.text(x.Lhs[0]), x.Rhs[0]
					}
					if (x.Tok == token.OR_ASSIGN || x.Tok == token.ADD_ASSIGN) && len(x.Lhs) == 1 {
						accVar, accRHS = p.text(x.Lhs[0]), x.Rhs[0]
					}
				case *ast.IfStmt:
					if res := firstReturn(x.Body); len(res) == 3 && p.text(res[2]) == "nil" {
						stop = x
					}
				}
				return true
			})
			c.expr("readInt continuation shift", shiftExpr, fdeDomain{[]string{iName}, [][]int64{seq(1, 12)}}, nil, func(e fdeEnv) int64 { return 7 * (e[iName] - 1) }, "7*(i-1)", "the i-th continuation octet contributes at bit 7(i-1) (RFC 7541 s5.1)")
			c.expr("readInt continuation payload", accRHS, fdeDomain{[]string{bi, shiftVar}, [][]int64{seq(0, 255), {0, 7, 14, 49}}}, nil, func(e fdeEnv) int64 { return (e[bi] & 127) << uint(e[shiftVar]) }, "(octet & 127) << shift", "each continuation octet carries 7 value bits")
			// accumulator starts at zero
			accInit := false
			for _, s := range fd.Body.List {
				if as, ok := s.(*ast.AssignStmt); ok && as.Tok == token.DEFINE && len(as.Lhs) == 1 && p.text(as.Lhs[0]) == accVar {
					if v, ok := p.fold(as.Rhs[0], fdeEnv{}); ok && v == 0 {
						accInit = true
					}
				}
			}
			r.check(accInit, "readInt accumulator starts at zero", c.pos, accVar+" := 0", "the continuation sum no longer starts at zero")
			if stop != nil {
				c.expr("readInt stop test", stop.Cond, fdeDomain{[]string{bi}, [][]int64{seq(0, 255)}}, nil, func(e fdeEnv) int64 { return b2i(e[bi]&128 == 0) }, "top bit clear", "the integer ends at the first continuation octet whose top bit is clear")
				res := firstReturn(stop.Body)
				c.expr("readInt multi-octet value", res[1], fdeDomain{[]string{accVar, maskVar}, [][]int64{{0, 1, 127, 5000}, {15, 31, 63, 127}}}, nil, func(e fdeEnv) int64 { return e[accVar] + e[maskVar] }, "sum + (2^N-1)", "the value of the multi-octet form is the prefix maximum plus the continuation sum")
				okc := false
				if se, ok := ast.Unparen(res[0]).(*ast.SliceExpr); ok && p.text(se.X) == bName && se.High == nil && se.Low != nil {
					okc = p.linOf(se.Low, nil).eq(Lin{T: map[string]int64{iName: 1}, C: 1})
				}
				r.check(okc, "readInt multi-octet cursor", p.pos(res[0].Pos()), "b[i+1:]", "after a multi-octet integer the cursor no longer stands just past its last octet")
			} else {
				r.bad("readInt stop test", p.pos(loop.Pos()), "no terminating `if <top bit clear> { return ..., nil }` in the continuation loop")
			}
		}
		last := retResults(fd.Body.List[len(fd.Body.List)-1])
		r.check(len(last) == 3 && p.text(last[0]) == bName && p.text(last[2]) == "ErrUnexpectedSize", "readInt exhausted input is 'more to come'", c.pos, "return b, 0, ErrUnexpectedSize", "an integer whose continuation runs past the input is no longer reported as ErrUnexpectedSize with the cursor unchanged")
	} else {
		r.undecided("readInt", "?", "readInt no longer resolves")
	}
	// ------------------------------------------------------------ appendInt
	if fd := p.decl("appendInt"); fd != nil {
		r.fn("appendInt")
		c := fdeCheck{p, r, p.pos(fd.Pos())}
		dst := fd.Type.Params.List[0].Names[0].Name
		bits := fd.Type.Params.List[1].Names[0].Name
		dlen := "len(" + dst + ")"
		if ifs, ok := fd.Body.List[0].(*ast.IfStmt); ok {
			c.expr("appendInt empty-destination test", ifs.Cond, fdeDomain{[]string{dlen}, [][]int64{seq(0, 4)}}, nil, func(e fdeEnv) int64 { return b2i(e[dlen] == 0) }, "len(dst) == 0", "the prefix octet is the last octet of dst; a fresh one is needed exactly when there is none")
			okz := false
			if len(ifs.Body.List) == 1 {
				if as, ok := ifs.Body.List[0].(*ast.AssignStmt); ok {
					if cl, ok := as.Rhs[0].(*ast.CallExpr); ok && p.calleeOf(cl) == "builtin.append" && len(cl.Args) == 2 {
						if v, ok := p.intConst(cl.Args[1]); ok && v == 0 {
							okz = true
						}
					}
				}
			}
			r.check(okz, "appendInt fresh prefix octet is zero", p.pos(ifs.Pos()), "append(dst, 0)", "the fresh prefix octet is no longer zero: its pattern bits are garbage")
		} else {
			r.bad("appendInt empty-destination test", c.pos, "appendInt no longer starts with the empty-destination test")
		}
		var maskExpr ast.Expr
		ors := 0
		ast.Inspect(fd.Body, func(n ast.Node) bool {
			if as, ok := n.(*ast.AssignStmt); ok && len(as.Lhs) == 1 {
				if as.Tok == token.DEFINE && strings.Contains(p.text(as.Rhs[0]), "<<") && maskExpr == nil {
					maskExpr = as.Rhs[0]
				}
				if as.Tok == token.OR_ASSIGN {
					if ix, ok := as.Lhs[0].(*ast.IndexExpr); ok && p.text(ix.X) == dst {
						ors++
						r.check(p.linOf(ix.Index, nil).eq(Lin{T: map[string]int64{dlen: 1}, C: -1}), fmt.Sprintf("appendInt prefix bits go into the last octet (%d)", ors), p.pos(as.Pos()), "dst[len(dst)-1] |= ...", "the prefix bits are no longer OR-ed into the last octet of dst (the one carrying the representation's pattern bits)")
					}
				}
			}
			return true
		})
		c.expr("appendInt prefix mask", maskExpr, fdeDomain{[]string{bits}, [][]int64{seq(1, 8)}}, nil, func(e fdeEnv) int64 { return 1<<uint(e[bits]) - 1 }, "2^N-1", "the prefix maximum is 2^N-1 (RFC 7541 s5.1)")
		if ors < 2 {
			r.bad("appendInt prefix bits go into the last octet", c.pos, fmt.Sprintf("only %d `dst[...] |=` statements found (short and long form expected)", ors))
		}
	} else {
		r.undecided("appendInt", "?", "appendInt no longer resolves")
	}
	// ------------------------------------------------------------ readString
	if fd := p.decl("readString"); fd != nil {
		r.fn("readString")
		c := fdeCheck{p, r, p.pos(fd.Pos())}
		var bName string
		for _, f := range fd.Type.Params.List {
			bName = f.Names[len(f.Names)-1].Name
		}
		b0s, blen := bName+"[0]", "len("+bName+")"
		var guard, lenGuard *ast.IfStmt
		var hExpr ast.Expr
		hVar, nVar := "", ""
		intOK, consume := false, false
		var srcs []string
		for _, s := range fd.Body.List {
			switch x := s.(type) {
			case *ast.IfStmt:
				if guard == nil && strings.Contains(p.text(x.Cond), blen) && !strings.Contains(p.text(x.Cond), "uint64") && nVar == "" {
					guard = x
				} else if nVar != "" && mentionsIdent(x.Cond, nVar) && lenGuard == nil {
					lenGuard = x
				}
			case *ast.AssignStmt:
				if len(x.Rhs) == 1 {
					if cl, ok := x.Rhs[0].(*ast.CallExpr); ok && p.calleeOf(cl) == "readInt" {
						if v, ok := p.intConst(cl.Args[0]); ok && v == 7 && p.text(cl.Args[1]) == bName && len(x.Lhs) == 3 && p.text(x.Lhs[0]) == bName {
							intOK = true
							nVar = p.text(x.Lhs[1])
						}
						continue
					}
					if x.Tok == token.DEFINE && len(x.Lhs) == 1 && strings.Contains(p.text(x.Rhs[0]), b0s) {
						hVar, hExpr = p.text(x.Lhs[0]), x.Rhs[0]
					}
					if len(x.Lhs) == 1 && p.text(x.Lhs[0]) == bName {
						if se, ok := ast.Unparen(x.Rhs[0]).(*ast.SliceExpr); ok && p.text(se.X) == bName && se.High == nil && se.Low != nil && p.text(se.Low) == nVar {
							consume = true
						}
					}
				}
			}
		}
		ast.Inspect(fd.Body, func(n ast.Node) bool {
			if se, ok := n.(*ast.SliceExpr); ok && p.text(se.X) == bName && se.Low == nil && se.High != nil {
				srcs = append(srcs, p.text(se.High))
			}
			return true
		})
		if guard != nil {
			c.expr("readString empty-input test", guard.Cond, fdeDomain{[]string{blen}, [][]int64{seq(0, 4)}}, nil, func(e fdeEnv) int64 { return b2i(e[blen] == 0) }, "len(b) == 0", "readString reads b[0] next")
			res := firstReturn(guard.Body)
			r.check(len(res) == 3 && p.text(res[0]) == bName && p.text(res[2]) == "ErrUnexpectedSize", "readString empty input is 'more to come'", p.pos(guard.Pos()), "return b, dst, ErrUnexpectedSize", "a block cut right in front of a string is no longer reported as ErrUnexpectedSize with the cursor unchanged")
		} else {
			r.bad("readString empty-input test", c.pos, "readString no longer starts with an emptiness test")
		}
		c.expr("readString Huffman flag", hExpr, fdeDomain{[]string{b0s}, [][]int64{seq(0, 255)}}, nil, func(e fdeEnv) int64 { return e[b0s] >> 7 }, "top bit of the first octet", "the H bit is the top bit of the length octet (RFC 7541 s5.2)")
		r.check(intOK, "readString length is a 7-bit-prefix integer", c.pos, "b, n, err = readInt(7, b)", "the string length is no longer read as a 7-bit-prefix integer advancing the cursor")
		if lenGuard != nil {
			c.expr("readString short-input test", lenGuard.Cond, fdeDomain{[]string{blen, nVar}, [][]int64{seq(0, 5), seq(0, 5)}}, nil, func(e fdeEnv) int64 { return b2i(e[blen] < e[nVar]) }, "len(b) < length", "a string is complete exactly when at least `length` octets are present")
			res := firstReturn(lenGuard.Body)
			r.check(len(res) == 3 && p.text(res[2]) == "ErrUnexpectedSize", "readString short input is 'more to come'", p.pos(lenGuard.Pos()), "ErrUnexpectedSize", "a string whose octets have not all arrived is no longer reported as ErrUnexpectedSize")
		} else {
			r.bad("readString short-input test", c.pos, "no test of the remaining input against the decoded length")
		}
		allN := len(srcs) >= 2
		for _, s := range srcs {
			if s != nVar {
				allN = false
			}
		}
		r.check(allN && consume, "readString takes exactly `length` octets", c.pos, "b[:n] decoded, b = b[n:]", fmt.Sprintf("readString no longer decodes exactly b[:length] (upper bounds %v) and advances by length", srcs))
		// the Huffman branch is selected by the flag
		sel := false
		ast.Inspect(fd.Body, func(n ast.Node) bool {
			if ifs, ok := n.(*ast.IfStmt); ok && p.text(ifs.Cond) == hVar && ifs.Else != nil {
				h, raw := false, false
				inspectCalls(ifs.Body, func(cl *ast.CallExpr) {
					if p.calleeOf(cl) == "HuffmanDecode" {
						h = true
					}
				})
				inspectCalls(ifs.Else, func(cl *ast.CallExpr) {
					if p.calleeOf(cl) == "builtin.append" {
						raw = true
					}
				})
				sel = h && raw
			}
			return true
		})
		props := 0
		for _, st := range fd.Body.List {
			if ifs, ok := st.(*ast.IfStmt); ok && squash(p.text(ifs.Cond)) == "err!=nil" {
				if res := firstReturn(ifs.Body); len(res) == 3 && p.text(res[2]) == "err" {
					props++
				}
			}
		}
		r.check(props == 2, "readString returns the errors of its length and its decoding", c.pos, "if err != nil { return ..., err } after readInt and after decoding", fmt.Sprintf("readString propagates %d of its 2 error results (length integer, Huffman decoding): a bad length or bad Huffman data is accepted, or every string is refused", props))
		r.check(sel, "readString decodes Huffman iff the flag is set", c.pos, "if H { HuffmanDecode } else { append }", "the H flag no longer selects between Huffman decoding and a raw copy")
	} else {
		r.undecided("readString", "?", "readString no longer resolves")
	}
	// ------------------------------------------------------------ appendString
	if fd := p.decl("appendString"); fd != nil {
		r.fn("appendString")
		pos := p.pos(fd.Pos())
		fresh, mark, lenInt, hbit := -1, -1, -1, false
		markVar := ""
		for i, s := range fd.Body.List {
			switch x := s.(type) {
			case *ast.AssignStmt:
				if len(x.Rhs) != 1 {
					continue
				}
				if cl, ok := x.Rhs[0].(*ast.CallExpr); ok {
					switch p.calleeOf(cl) {
					case "builtin.append":
						if len(cl.Args) == 2 && !cl.Ellipsis.IsValid() && p.text(cl.Args[0]) == "dst" {
							if v, ok := p.intConst(cl.Args[1]); ok && v == 0 && fresh < 0 {
								fresh = i
							}
						}
					case "appendInt":
						if v, ok := p.intConst(cl.Args[1]); ok && v == 7 && p.text(cl.Args[0]) == "dst" {
							lenInt = i
						}
					}
				}
				if x.Tok == token.DEFINE && p.linOf(x.Rhs[0], nil).eq(Lin{T: map[string]int64{"len(dst)": 1}, C: -1}) {
					mark, markVar = i, p.text(x.Lhs[0])
				}
			case *ast.IfStmt:
				if p.text(x.Cond) == "encode" {
					ast.Inspect(x.Body, func(n ast.Node) bool {
						if as, ok := n.(*ast.AssignStmt); ok && as.Tok == token.OR_ASSIGN && squash(p.text(as.Lhs[0])) == "dst["+markVar+"]" {
							if v, ok := p.intConst(as.Rhs[0]); ok && v == 128 {
								hbit = true
							}
						}
						return true
					})
				}
			}
		}
		r.check(fresh >= 0 && mark == fresh+1 && lenInt > mark, "appendString length prefix starts a fresh octet", pos, "dst = append(dst, 0); nn := len(dst)-1; appendInt(dst, 7, n)", "the string's length prefix no longer starts in a fresh zero octet whose position is remembered")
		cleanScratch := false
		inspectCalls(fd.Body, func(cl *ast.CallExpr) {
			if p.calleeOf(cl) == "HuffmanEncode" {
				if _, _, hi, ok := p.sliceBounds(cl.Args[0]); ok && hi == 0 {
					cleanScratch = true
				}
			}
		})
		r.check(cleanScratch, "appendString Huffman-encodes into an empty buffer", pos, "HuffmanEncode(scratch[:0], src)", "the Huffman encoding is appended to a non-empty scratch buffer: stale octets are sent as part of the string")
		r.check(hbit, "appendString sets H iff Huffman", pos, "if encode { dst[nn] |= 128 }", "the H bit is no longer set on the length octet exactly when the string was Huffman-encoded")
	} else {
		r.undecided("appendString", "?", "appendString no longer resolves")
	}
}

func init() {
	register(&Rule{
		Name: "enc-entry-points", Props: []string{"C04", "C01", "C02"}, Engine: "AST", Floor: 2,
		Doc: "HPACK.AppendHeaderField stores what AppendHeader returns into the HEADERS frame's block, and the size update AppendHeader emits is the 001 pattern with a 5-bit prefix carrying the current table limit",
		Run: func(p *Prog, r *Out) {
			if fd := p.decl("(*HPACK).AppendHeaderField"); fd != nil {
				r.fn("(*HPACK).AppendHeaderField")
				ok := false
				for _, s := range fd.Body.List {
					if as, isA := s.(*ast.AssignStmt); isA && len(as.Lhs) == 1 && p.isFieldSel(as.Lhs[0], "Headers", "rawHeaders") {
						if cl, isC := as.Rhs[0].(*ast.CallExpr); isC && p.calleeOf(cl) == "(*HPACK).AppendHeader" && p.isFieldSel(cl.Args[0], "Headers", "rawHeaders") {
							ok = true
						}
					}
				}
				r.check(ok, "AppendHeaderField extends the frame's header block", p.pos(fd.Pos()), "h.rawHeaders = hp.AppendHeader(h.rawHeaders, hf, store)", "AppendHeaderField no longer stores the encoded field into the HEADERS frame: the field is dropped from the block (and, if it was inserted into the encoder's table, the peer's table no longer matches)")
			} else {
				r.undecided("(*HPACK).AppendHeaderField", "?", "no longer resolves")
			}
			if fd := p.decl("(*HPACK).AppendHeader"); fd != nil {
				r.fn("(*HPACK).AppendHeader")
				ok := false
				inspectCalls(fd.Body, func(cl *ast.CallExpr) {
					if p.calleeOf(cl) != "appendInt" || len(cl.Args) != 3 {
						return
					}
					if in, isC := cl.Args[0].(*ast.CallExpr); isC && p.calleeOf(in) == "builtin.append" && len(in.Args) == 2 {
						pat, ok1 := p.intConst(in.Args[1])
						bits, ok2 := p.intConst(cl.Args[1])
						if ok1 && ok2 && pat == 0x20 && bits == 5 && strings.Contains(p.text(cl.Args[2]), "hp.maxTableSize") {
							ok = true
						}
					}
				})
				r.check(ok, "size update is 001 + 5-bit-prefix limit", p.pos(fd.Pos()), "appendInt(append(dst, 0x20), 5, maxTableSize)", "the dynamic table size update is no longer emitted as pattern 001 with a 5-bit-prefix integer carrying the table limit (RFC 7541 s6.3)")
			}
		},
	})
}

// ---------------------------------------------------------------- decoder effects

func ruleDecEffects(p *Prog, r *Out) {
	cls, fd := p.decoderClauses(r)
	if cls == nil {
		return
	}
	hfName := fd.Type.Params.List[0].Names[0].Name
	cursor := ""
	for _, f := range fd.Type.Params.List {
		if at, ok := f.Type.(*ast.ArrayType); ok && at.Len == nil && len(f.Names) > 0 {
			cursor = f.Names[len(f.Names)-1].Name
		}
	}
	c := fdeCheck{p, r, p.pos(fd.Pos())}
	// block loop: empty input ends the block cleanly, right before the first octet is read
	var lab *ast.LabeledStmt
	ast.Inspect(fd.Body, func(n ast.Node) bool {
		if l, ok := n.(*ast.LabeledStmt); ok && lab == nil {
			lab = l
		}
		return true
	})
	if lab != nil {
		if ifs, ok := lab.Stmt.(*ast.IfStmt); ok {
			blen := "len(" + cursor + ")"
			c.expr("block ends on empty input", ifs.Cond, fdeDomain{[]string{blen}, [][]int64{seq(0, 4)}}, nil, func(e fdeEnv) int64 { return b2i(e[blen] == 0) }, "len(b) == 0", "the decoder reads b[0] next; after a size update at the very end of a block the input is empty")
			res := firstReturn(ifs.Body)
			r.check(len(res) == 2 && p.text(res[0]) == cursor && p.text(res[1]) == "nil", "empty input is not an error", p.pos(ifs.Pos()), "return b, nil", "running out of input between fields is no longer a clean end of the block")
		} else {
			r.bad("block ends on empty input", p.pos(lab.Pos()), "the block loop no longer starts with an emptiness test")
		}
	} else {
		r.bad("block ends on empty input", c.pos, "nextField has no loop label")
	}
	// the dispatch octet is the first octet of the input
	firstOctet := false
	ast.Inspect(fd.Body, func(n ast.Node) bool {
		if as, ok := n.(*ast.AssignStmt); ok && len(as.Lhs) == 1 && p.text(as.Lhs[0]) == "c" && squash(p.text(as.Rhs[0])) == cursor+"[0]" {
			firstOctet = true
		}
		return true
	})
	r.check(firstOctet, "representation is chosen by the first octet", c.pos, "c = b[0]", "the octet the decoder dispatches on is no longer the first octet of the remaining input")
	// every integer read propagates its error, and every 'cut short' test is an exact emptiness test
	ints, intsOK, cuts := 0, 0, 0
	ast.Inspect(fd.Body, func(n ast.Node) bool {
		ifs, ok := n.(*ast.IfStmt)
		if !ok {
			return true
		}
		if as, ok := ifs.Init.(*ast.AssignStmt); ok && len(as.Rhs) == 1 {
			if cl, ok := as.Rhs[0].(*ast.CallExpr); ok && p.calleeOf(cl) == "readInt" {
				ints++
				res := firstReturn(ifs.Body)
				if squash(p.text(ifs.Cond)) == "err!=nil" && len(res) == 2 && p.text(res[1]) == "err" {
					intsOK++
				} else {
					r.bad("integer read error is returned ("+p.text(cl.Args[0])+"-bit prefix)", p.pos(ifs.Pos()), "the decoder no longer returns the error of `"+p.text(as)+"` (condition `"+p.text(ifs.Cond)+"`): a truncated or overflowing integer is decoded as a value, or every well-formed one is refused")
				}
			}
		}
		if ifs.Init == nil {
			if res := firstReturn(ifs.Body); len(res) == 2 && p.text(res[1]) == "ErrUnexpectedSize" && mentionsIdent(ifs.Cond, cursor) {
				blen := "len(" + cursor + ")"
				cuts++
				c.expr(fmt.Sprintf("field cut short test %d", cuts), ifs.Cond, fdeDomain{[]string{blen}, [][]int64{seq(0, 4)}}, nil, func(e fdeEnv) int64 { return b2i(e[blen] == 0) }, "len(b) == 0", "'the value has not arrived yet' holds exactly when no input is left; any other test refuses complete fields or lets an empty input through")
			}
		}
		return true
	})
	r.check(ints >= 4 && ints == intsOK, "every integer read propagates its error", c.pos, "if b, n, err = readInt(N, b); err != nil { return b, err }", fmt.Sprintf("%d of %d integer reads in the decoder return their error", intsOK, ints))
	for ci, cl := range cls {
		if !cl.ok {
			continue
		}
		cname := fmt.Sprintf("clause c&%#x==%#x", cl.mask, cl.val)
		body := cl.cc.Body
		if len(body) == 0 {
			continue
		}
		var octets []int64
		for o := int64(0); o < 256; o++ {
			if o&cl.mask == cl.val {
				// earlier clauses win
				first := true
				for _, e := range cls[:ci] {
					if e.ok && o&e.mask == e.val {
						first = false
					}
				}
				if first {
					octets = append(octets, o)
				}
			}
		}
		// fallthrough clauses only mark; their octets are judged in the clause that does the work
		if cl.ft && ci+1 < len(cls) {
			continue
		}
		if ci > 0 && cls[ci-1].ft {
			prev := cls[ci-1]
			for o := int64(0); o < 256; o++ {
				if o&prev.mask == prev.val {
					octets = append(octets, o)
				}
			}
		}
		switch {
		case cl.mask == 0x80: // indexed
			peekOK, missOK, copyOK := false, false, false
			for _, s := range body {
				switch x := s.(type) {
				case *ast.AssignStmt:
					if cc, ok := x.Rhs[0].(*ast.CallExpr); ok && p.calleeOf(cc) == "(*HPACK).peek" && p.text(cc.Args[0]) == "n" {
						peekOK = true
					}
				case *ast.IfStmt:
					if squash(p.text(x.Cond)) == "hf2==nil" && isRejectingBody(p, x.Body) {
						missOK = true
					}
				case *ast.ExprStmt:
					if cc, ok := x.X.(*ast.CallExpr); ok && p.calleeOf(cc) == "(*HeaderField).CopyTo" && p.text(cc.Args[0]) == hfName && strings.HasPrefix(p.text(cc.Fun), "hf2.") {
						copyOK = true
					}
				}
			}
			r.check(peekOK && missOK && copyOK, cname+": indexed field is copied out of the table", p.pos(cl.cc.Pos()), "hf2 := peek(n); nil -> error; hf2.CopyTo(hf)", "an indexed representation no longer yields the table entry it names (lookup, miss = decoding error, copy into the output field)")
		case cl.mask == 0x40 || cl.mask == 0xf0:
			nbits := int64(6)
			if cl.mask == 0xf0 {
				nbits = 4
			}
			var nameIf *ast.IfStmt
			for _, s := range body {
				if ifs, ok := s.(*ast.IfStmt); ok && nameIf == nil && ifs.Else != nil {
					nameIf = ifs
				}
			}
			if nameIf == nil {
				r.bad(cname+": name mode", p.pos(cl.cc.Pos()), "no if/else choosing between an indexed and a literal name")
				continue
			}
			indexedInThen := false
			inspectCalls(nameIf.Body, func(cc *ast.CallExpr) {
				if p.calleeOf(cc) == "readInt" {
					indexedInThen = true
				}
			})
			cv := "c"
			c.expr(cname+": name is indexed iff the index bits are non-zero", nameIf.Cond, fdeDomain{[]string{cv}, [][]int64{octets}}, nil, func(e fdeEnv) int64 {
				return b2i((e[cv]&(1<<uint(nbits)-1) != 0) == indexedInThen)
			}, fmt.Sprintf("(c & %d) != 0", 1<<uint(nbits)-1), "RFC 7541 s6.2: a zero index means the name follows as a string literal; anything else names a table entry")
			idxBlock := nameIf.Body
			var litBlock *ast.BlockStmt
			if b, ok := nameIf.Else.(*ast.BlockStmt); ok {
				litBlock = b
			}
			if !indexedInThen && litBlock != nil {
				idxBlock, litBlock = litBlock, nameIf.Body
			}
			// indexed name: key copied from the entry
			keyFromEntry, miss := false, false
			ast.Inspect(idxBlock, func(n ast.Node) bool {
				switch x := n.(type) {
				case *ast.CallExpr:
					if p.calleeOf(x) == "(*HeaderField).SetKeyBytes" && strings.HasPrefix(p.text(x.Fun), hfName+".") {
						a := squash(p.text(x.Args[0]))
						if a == "hf2.key" || a == "hf2.KeyBytes()" {
							keyFromEntry = true
						}
					}
				case *ast.IfStmt:
					if squash(p.text(x.Cond)) == "hf2==nil" && isRejectingBody(p, x.Body) {
						miss = true
					}
				}
				return true
			})
			r.check(keyFromEntry && miss, cname+": indexed name comes from the table entry", p.pos(idxBlock.Pos()), "hf2 := peek(n); nil -> error; hf.SetKeyBytes(hf2.key)", "a literal with an indexed name no longer takes its name from the table entry (or a table miss is no longer a decoding error)")
			// literal name and value: stored under err == nil, decoded into an empty buffer
			checkString := func(blk ast.Node, setter, what string) {
				fresh, stored := false, false
				ast.Inspect(blk, func(n ast.Node) bool {
					switch x := n.(type) {
					case *ast.CallExpr:
						if p.calleeOf(x) == "readString" {
							if _, _, hi, ok := p.sliceBounds(x.Args[0]); ok && hi == 0 {
								fresh = true
							}
						}
					case *ast.IfStmt:
						if squash(p.text(x.Cond)) == "err==nil" {
							for _, s := range x.Body.List {
								if es, ok := s.(*ast.ExprStmt); ok {
									if cc, ok := es.X.(*ast.CallExpr); ok && p.calleeOf(cc) == "(*HeaderField)."+setter && p.text(cc.Args[0]) == "dst" {
										stored = true
									}
								}
							}
						}
					}
					return true
				})
				r.check(fresh && stored, cname+": literal "+what+" is what the string decoded to", p.pos(blk.Pos()), "readString(dst[:0], b); if err == nil { hf."+setter+"(dst) }", "the literal "+what+" is no longer decoded into an empty buffer and stored exactly when decoding succeeded: stale octets are prepended, or the "+what+" is dropped")
			}
			if litBlock != nil {
				checkString(litBlock, "SetKeyBytes", "name")
			}
			// the value part: the statement after the name if/else
			for _, s := range body {
				if ifs, ok := s.(*ast.IfStmt); ok && ifs != nameIf && squash(p.text(ifs.Cond)) == "err==nil" {
					checkString(ifs.Body, "SetValueBytes", "value")
				}
			}
		case cl.mask == 0x20 || cl.mask == 0xe0: // size update
			for _, s := range body {
				ifs, ok := s.(*ast.IfStmt)
				if !ok || !strings.Contains(p.text(ifs.Cond), "blockStart") {
					continue
				}
				c.expr(cname+": size update only at the start of a block", ifs.Cond, fdeDomain{[]string{"blockStart", "fieldsProcessed"}, [][]int64{{0, 1}, seq(0, 3)}}, nil, func(e fdeEnv) int64 {
					return b2i(e["blockStart"] == 0 || e["fieldsProcessed"] > 0)
				}, "!blockStart || fieldsProcessed > 0", "RFC 7541 s4.2: a size update is legal only before the first field of a block; rejecting it there as well breaks every peer that changes its table size")
				r.check(isRejectingBody(p, ifs.Body), cname+": misplaced size update is rejected", p.pos(ifs.Pos()), "return ErrDynamicUpdate", "a size update after a field is no longer a decoding error")
			}
		}
	}
	// Next starts a block with nothing processed
	if nd := p.decl("(*HPACK).Next"); nd != nil {
		r.fn("(*HPACK).Next")
		ok := false
		inspectCalls(nd.Body, func(cc *ast.CallExpr) {
			if p.calleeOf(cc) == "(*HPACK).nextField" && len(cc.Args) == 4 {
				a, ok1 := p.fold(cc.Args[1], fdeEnv{})
				b, ok2 := p.fold(cc.Args[2], fdeEnv{})
				ok = ok1 && ok2 && a == 1 && b == 0
			}
		})
		r.check(ok, "Next decodes as the start of a block", p.pos(nd.Pos()), "nextField(hf, true, 0, b)", "HPACK.Next no longer decodes its input as the start of a block with no field processed: a leading size update is refused")
	}
}

// ---------------------------------------------------------------- table accounting

func ruleTableAccounting(p *Prog, r *Out) {
	if fd := p.decl("(*HeaderField).Size"); fd != nil {
		r.fn("(*HeaderField).Size")
		e := singleReturn(fd)
		ok := e != nil && p.linOf(e, nil).eq(Lin{T: map[string]int64{"len(hf.key)": 1, "len(hf.value)": 1}, C: 32})
		r.check(ok, "entry size is name + value + 32", p.pos(fd.Pos()), "len(key)+len(value)+32", "HeaderField.Size is no longer len(name)+len(value)+32 (RFC 7541 s4.1): the two ends evict at different moments and their tables diverge")
	} else {
		r.undecided("(*HeaderField).Size", "?", "no longer resolves")
	}
	if fd := p.decl("(*HPACK).DynamicSize"); fd != nil {
		r.fn("(*HPACK).DynamicSize")
		ok := false
		ast.Inspect(fd.Body, func(n ast.Node) bool {
			if rs, isR := n.(*ast.RangeStmt); isR && squash(p.text(rs.X)) == "hp.dynamic" && rs.Value != nil && len(rs.Body.List) == 1 {
				if as, isA := rs.Body.List[0].(*ast.AssignStmt); isA && as.Tok == token.ADD_ASSIGN && squash(p.text(as.Rhs[0])) == p.text(rs.Value)+".Size()" {
					ok = true
				}
			}
			return true
		})
		r.check(ok, "table size is the sum of its entries", p.pos(fd.Pos()), "for hf in dynamic: n += hf.Size()", "DynamicSize is no longer the sum of the sizes of all entries")
	}
	if fd := p.decl("(*HPACK).shrink"); fd != nil {
		r.fn("(*HPACK).shrink")
		var loop *ast.ForStmt
		sized := false
		for _, s := range fd.Body.List {
			if fs, ok := s.(*ast.ForStmt); ok && loop == nil {
				loop = fs
			}
			if as, ok := s.(*ast.AssignStmt); ok && len(as.Rhs) == 1 && squash(p.text(as.Rhs[0])) == "hp.DynamicSize()" {
				sized = true
			}
		}
		okLoop := false
		if loop != nil && loop.Init != nil && loop.Post != nil && loop.Cond != nil {
			initOK := false
			if as, ok := loop.Init.(*ast.AssignStmt); ok && p.text(as.Lhs[0]) == "n" {
				if v, ok := p.intConst(as.Rhs[0]); ok && v == 0 {
					initOK = true
				}
			}
			inc, _ := loop.Post.(*ast.IncDecStmt)
			stepOK := inc != nil && inc.Tok == token.INC && p.text(inc.X) == "n"
			bodyOK := false
			if len(loop.Body.List) == 1 {
				if as, ok := loop.Body.List[0].(*ast.AssignStmt); ok && as.Tok == token.SUB_ASSIGN && p.text(as.Lhs[0]) == "tableSize" && squash(p.text(as.Rhs[0])) == "hp.dynamic[n].Size()" {
					bodyOK = true
				}
			}
			// cond: n < len(dynamic) && tableSize > max
			atoms, pure := pureJunction(loop.Cond, true)
			in, over := false, false
			for _, a := range atoms {
				if c, ok := p.canonCmp(a.Cond, nil); ok && a.Val && c.Op == "le" {
					if c.L.eq(Lin{T: map[string]int64{"n": 1, "len(hp.dynamic)": -1}, C: 1}) {
						in = true
					}
					if c.L.eq(Lin{T: map[string]int64{"hp.maxTableSize": 1, "tableSize": -1}, C: 1}) {
						over = true
					}
				}
			}
			okLoop = initOK && stepOK && bodyOK && pure && in && over && len(atoms) == 2
		}
		r.check(sized && okLoop, "eviction walk", p.pos(fd.Pos()), "size := DynamicSize(); for n = 0; n < len && size > max; n++ { size -= dynamic[n].Size() }", "shrink no longer walks from the oldest entry, subtracting each entry's size, exactly while entries remain and the size exceeds the maximum (RFC 7541 s4.4)")
		// release and drop exactly n
		rel, drop := false, false
		ast.Inspect(fd.Body, func(n ast.Node) bool {
			switch x := n.(type) {
			case *ast.ForStmt:
				if x == loop || x.Cond == nil {
					return true
				}
				if c, ok := p.canonCmp(x.Cond, nil); ok && c.Op == "le" && c.L.eq(Lin{T: map[string]int64{"i": 1, "n": -1}, C: 1}) {
					if as, ok := x.Init.(*ast.AssignStmt); ok {
						if v, ok := p.intConst(as.Rhs[0]); ok && v == 0 {
							inspectCalls(x.Body, func(cl *ast.CallExpr) {
								if p.calleeOf(cl) == "ReleaseHeaderField" && squash(p.text(cl.Args[0])) == "hp.dynamic[i]" {
									rel = true
								}
							})
						}
					}
				}
			case *ast.AssignStmt:
				if len(x.Lhs) == 1 && squash(p.text(x.Lhs[0])) == "hp.dynamic" && squash(p.text(x.Rhs[0])) == "append(hp.dynamic[:0],hp.dynamic[n:]...)" {
					drop = true
				}
			}
			return true
		})
		r.check(rel && drop, "evicted entries are released and dropped, no others", p.pos(fd.Pos()), "release dynamic[0..n); dynamic = dynamic[n:]", "shrink no longer releases and drops exactly the n entries it walked over")
	} else {
		r.undecided("(*HPACK).shrink", "?", "no longer resolves")
	}
	if fd := p.decl("(*HPACK).addDynamic"); fd != nil {
		r.fn("(*HPACK).addDynamic")
		straight := true
		ast.Inspect(fd.Body, func(n ast.Node) bool {
			switch n.(type) {
			case *ast.IfStmt, *ast.ReturnStmt, *ast.SwitchStmt, *ast.ForStmt, *ast.RangeStmt:
				straight = false
			}
			return true
		})
		r.check(straight, "every insertion goes through insert-then-evict", p.pos(fd.Pos()), "addDynamic is straight-line: copy, append, shrink", "addDynamic no longer inserts unconditionally and lets the eviction decide: RFC 7541 s4.4 makes the attempt to add an entry larger than the table empty the table, so skipping the insert leaves entries in this table that the peer has dropped (an index then resolves to a stale field, or the encoder refers to an entry the decoder no longer has)")
	}
	if fd := p.decl("(*HPACK).search"); fd != nil {
		r.fn("(*HPACK).search")
		full, firstName, staticWhenNone := false, false, false
		ast.Inspect(fd.Body, func(n ast.Node) bool {
			ifs, ok := n.(*ast.IfStmt)
			if !ok {
				return true
			}
			if as, ok := ifs.Init.(*ast.AssignStmt); ok && p.text(as.Lhs[0]) == "fullMatch" {
				if p.isConjunctionOf(as.Rhs[0], "bytes.Equal(hf.key,hf2.key)", "bytes.Equal(hf.value,hf2.value)") {
					full = true
				}
			}
			if squash(p.text(ifs.Cond)) == "n==0" {
				// either the guard of the static search, or the first-name-match store
				for _, s := range ifs.Body.List {
					if as, ok := s.(*ast.AssignStmt); ok && p.text(as.Lhs[0]) == "n" {
						firstName = true
					}
					if rs, ok := s.(*ast.RangeStmt); ok && squash(p.text(rs.X)) == "staticTable" {
						staticWhenNone = true
					}
				}
			}
			return true
		})
		r.check(full, "dynamic full match needs name and value", p.pos(fd.Pos()), "Equal(key) && Equal(value)", "a dynamic-table entry is no longer a full match exactly when both name and value are equal: an indexed representation is emitted for a different field")
		r.check(firstName && staticWhenNone, "static search keeps the first name match", p.pos(fd.Pos()), "if n == 0 { static search; if n == 0 { n = i+1 } }", "the static-table search no longer runs only when the dynamic table had no match, keeping the first entry whose name matches")
	}
	if fd := p.decl("(*HPACK).SetMaxTableSize"); fd != nil {
		r.fn("(*HPACK).SetMaxTableSize")
		param := fd.Type.Params.List[0].Names[0].Name
		st := map[string]string{}
		shr := false
		for _, s := range fd.Body.List {
			if as, ok := s.(*ast.AssignStmt); ok && len(as.Lhs) == 1 {
				st[squash(p.text(as.Lhs[0]))] = p.text(as.Rhs[0])
			}
			if es, ok := s.(*ast.ExprStmt); ok {
				if cl, ok := es.X.(*ast.CallExpr); ok && p.calleeOf(cl) == "(*HPACK).shrink" {
					shr = true
				}
			}
		}
		r.check(st["hp.maxTableSize"] == param && st["hp.maxTableSizeSettings"] == param && st["hp.pendingSizeUpdate"] == "true" && shr, "new table limit is stored, announced and applied", p.pos(fd.Pos()), "maxTableSize = maxTableSizeSettings = size; pendingSizeUpdate = true; shrink()", "SetMaxTableSize no longer stores the limit for both the table and the size-update check, schedules the size update and evicts down to the new limit")
	}
}

// ---------------------------------------------------------------- text primitives

func init() {
	register(&Rule{
		Name: "text-primitives", Props: []string{"C20", "C01", "C02"}, Engine: "FDE", Floor: 8,
		Doc: "the octet-level helpers of message validation agree with their definitions on every octet: hasUpperCase flags exactly 'A'..'Z'; parseUint rejects empty input and exactly the non-digits, accumulates n*10+digit, and refuses a digit that would overflow; statusBytes passes exactly 100..999 through and the table holds the decimal form of each",
		Run: ruleTextPrimitives,
	})
}

func ruleTextPrimitives(p *Prog, r *Out) {
	octets := fdeDomain{[]string{"c"}, [][]int64{seq(0, 255)}}
	if fd := p.decl("hasUpperCase"); fd != nil {
		r.fn("hasUpperCase")
		c := fdeCheck{p, r, p.pos(fd.Pos())}
		var cond ast.Expr
		retTrue := false
		ast.Inspect(fd.Body, func(n ast.Node) bool {
			if ifs, ok := n.(*ast.IfStmt); ok && cond == nil {
				cond = ifs.Cond
				if res := firstReturn(ifs.Body); len(res) == 1 && p.text(res[0]) == "true" {
					retTrue = true
				}
			}
			return true
		})
		c.expr("upper-case test", cond, octets, nil, func(e fdeEnv) int64 { return b2i(e["c"] >= 'A' && e["c"] <= 'Z') }, "'A' <= c <= 'Z'", "header field names with an upper-case letter are malformed (RFC 7540 s8.1.2); any other range refuses legal names or lets 'A' or 'Z' through")
		last := retResults(fd.Body.List[len(fd.Body.List)-1])
		r.check(retTrue && len(last) == 1 && p.text(last[0]) == "false", "upper-case verdicts", c.pos, "true on a hit, false at the end", "hasUpperCase's verdicts are inverted or constant")
	} else {
		r.undecided("hasUpperCase", "?", "no longer resolves")
	}
	if fd := p.decl("parseUint"); fd != nil {
		r.fn("parseUint")
		c := fdeCheck{p, r, p.pos(fd.Pos())}
		bName := fd.Type.Params.List[0].Names[0].Name
		blen := "len(" + bName + ")"
		if ifs, ok := fd.Body.List[0].(*ast.IfStmt); ok {
			c.expr("parseUint empty-input test", ifs.Cond, fdeDomain{[]string{blen}, [][]int64{seq(0, 3)}}, nil, func(e fdeEnv) int64 { return b2i(e[blen] == 0) }, "len(b) == 0", "an empty content-length is not a number")
			r.check(isRejectingBody(p, ifs.Body), "parseUint rejects empty input", p.pos(ifs.Pos()), "return 0, errInvalidUint", "empty input is no longer an error")
		} else {
			r.bad("parseUint empty-input test", c.pos, "parseUint no longer starts with an emptiness test")
		}
		var loop *ast.RangeStmt
		ast.Inspect(fd.Body, func(n ast.Node) bool {
			if rs, ok := n.(*ast.RangeStmt); ok && loop == nil {
				loop = rs
			}
			return true
		})
		if loop == nil || loop.Value == nil || p.text(loop.X) != bName {
			r.bad("parseUint digit loop", c.pos, "parseUint no longer ranges over every octet of its input")
		} else {
			cv := p.text(loop.Value)
			dom := fdeDomain{[]string{cv}, [][]int64{seq(0, 255)}}
			var digitIf, ovfIf *ast.IfStmt
			var acc *ast.AssignStmt
			for _, s := range loop.Body.List {
				switch x := s.(type) {
				case *ast.IfStmt:
					if !mentionsIdent(x.Cond, "n") && digitIf == nil {
						digitIf = x
					} else if mentionsIdent(x.Cond, "n") {
						ovfIf = x
					}
				case *ast.AssignStmt:
					if p.text(x.Lhs[0]) == "n" {
						acc = x
					}
				}
			}
			if digitIf != nil {
				c.expr("parseUint digit test", digitIf.Cond, dom, nil, func(e fdeEnv) int64 { return b2i(e[cv] < '0' || e[cv] > '9') }, "c < '0' || c > '9'", "a content-length is 1*DIGIT; any other test lets a non-digit be read as a digit or refuses one")
				r.check(isRejectingBody(p, digitIf.Body), "parseUint rejects non-digits", p.pos(digitIf.Pos()), "return 0, errInvalidUint", "a non-digit is no longer an error")
			} else {
				r.bad("parseUint digit test", c.pos, "no digit test in the loop")
			}
			if acc != nil {
				c.expr("parseUint accumulation", acc.Rhs[0], fdeDomain{[]string{"n", cv}, [][]int64{{0, 1, 12, 99999}, seq('0', '9')}}, nil, func(e fdeEnv) int64 { return e["n"]*10 + e[cv] - '0' }, "n*10 + digit", "the value is the base-10 reading of the digits")
			} else {
				r.bad("parseUint accumulation", c.pos, "no accumulation statement in the loop")
			}
			if ovfIf != nil {
				const M = int64(^uint64(0) >> 1)
				c.expr("parseUint overflow test", ovfIf.Cond, fdeDomain{[]string{"n", cv}, [][]int64{{0, 1, M/10 - 1, M / 10, M/10 + 1, M}, seq('0', '9')}}, nil, func(e fdeEnv) int64 {
					d := e[cv] - '0'
					// n*10 + d > M without overflowing: n > (M-d)/10
					return b2i(e["n"] > (M-d)/10)
				}, "n*10+digit > maxInt", "a content-length that does not fit wraps to a small number that passes every later check")
				r.check(isRejectingBody(p, ovfIf.Body), "parseUint rejects overflow", p.pos(ovfIf.Pos()), "return 0, errInvalidUint", "an overflowing number is no longer an error")
				order := acc != nil && ovfIf.Pos() < acc.Pos() && digitIf != nil && digitIf.Pos() < ovfIf.Pos()
				r.check(order, "parseUint tests before it accumulates", p.pos(loop.Pos()), "digit test, overflow test, then n = n*10+d", "the digit and overflow tests no longer precede the accumulation they protect")
			} else {
				r.bad("parseUint overflow test", c.pos, "no overflow test in the loop")
			}
		}
		if v, ok := p.pkgConst("maxInt"); ok {
			r.check(v == int64(^uint64(0)>>1), "maxInt is the largest int", c.pos, "2^63-1", "maxInt is no longer the largest value of int: the overflow test compares against the wrong bound")
		}
	} else {
		r.undecided("parseUint", "?", "no longer resolves")
	}
	if fd := p.decl("statusBytes"); fd != nil {
		r.fn("statusBytes")
		c := fdeCheck{p, r, p.pos(fd.Pos())}
		if ifs, ok := fd.Body.List[0].(*ast.IfStmt); ok {
			c.expr("status range test", ifs.Cond, fdeDomain{[]string{"code"}, [][]int64{{-1, 0, 99, 100, 101, 200, 998, 999, 1000, 5000}}}, nil, func(e fdeEnv) int64 { return b2i(e["code"] < 100 || e["code"] > 999) }, "code < 100 || code > 999", "every three-digit status the handler sets must reach the peer unchanged, and nothing else may index the table")
		} else {
			r.bad("status range test", c.pos, "statusBytes no longer starts with its range test")
		}
		last := retResults(fd.Body.List[len(fd.Body.List)-1])
		r.check(len(last) == 1 && squash(p.text(last[0])) == "statusCodes[code]", "status text comes from the table entry of that code", c.pos, "return statusCodes[code]", "statusBytes no longer returns the table entry of the code it was given")
	}
	// the table: codes[i] = Itoa(i) for i in 100..999
	if init, id := p.findVarInit("statusCodes"); init != nil {
		okLoop, okFill := false, false
		ast.Inspect(init, func(n ast.Node) bool {
			fs, ok := n.(*ast.ForStmt)
			if !ok {
				return true
			}
			as, ok1 := fs.Init.(*ast.AssignStmt)
			inc, ok2 := fs.Post.(*ast.IncDecStmt)
			if ok1 && ok2 && inc.Tok == token.INC {
				lo, okl := p.intConst(as.Rhs[0])
				if cmp, okc := p.canonCmp(fs.Cond, nil); okc && okl && lo == 100 && cmp.Op == "le" && cmp.L.eq(Lin{T: map[string]int64{"i": 1}, C: -999}) {
					okLoop = true
				}
			}
			for _, s := range fs.Body.List {
				if a, ok := s.(*ast.AssignStmt); ok && squash(p.text(a.Lhs[0])) == "codes[i]" && squash(p.text(a.Rhs[0])) == "[]byte(strconv.Itoa(i))" {
					okFill = true
				}
			}
			return true
		})
		r.check(okLoop && okFill, "status table holds the decimal form of 100..999", p.pos(id.Pos()), "for i := 100; i < 1000; i++ { codes[i] = Itoa(i) }", "the status table no longer holds, for every code from 100 to 999, that code's decimal form: a status is sent as another status or as an empty :status")
	} else {
		r.undecided("statusCodes", "?", "the status table no longer resolves")
	}
}

// ---------------------------------------------------------------- client request and send shape

func init() {
	register(&Rule{
		Name: "client-request-shape", Props: []string{"C02", "C07", "C18", "C12"}, Engine: "FDE", Floor: 23,
		Doc: "the client's request writer emits :authority, :method, :path, :scheme (each taken from the request and appended right after it is set), then every regular field lower-cased and minus connection-specific ones; END_STREAM is on HEADERS exactly when there is no body (a stream, or at least one octet); stream ids come from nextID and advance by 2; a pending body is registered with the server's stream window; a stream slot is taken after a successful write and given back exactly when the request leaves the table; the send loop refills only when nothing is buffered, sends min(body, stream window, connection window) floored at 0, stops without sending only when nothing may go out and the body is not finished; a streamed chunk keeps every octet read, and the body is finished by EOF or by reaching its declared length; the handshake grants maxWindow-65535 connection credit, applies the server's first SETTINGS and acknowledges it once",
		Run: ruleClientRequestShape,
	})
}

func ruleClientRequestShape(p *Prog, r *Out) {
	wr := p.decl("(*Conn).writeRequest")
	if wr == nil {
		r.undecided("(*Conn).writeRequest", "?", "no longer resolves")
		return
	}
	r.fn("(*Conn).writeRequest", "(*Conn).sendPending", "(*Conn).refillPending", "(*pendingBody).hasMore", "(*Conn).finish", "(*Conn).doHandshake", "NewConn")
	c := fdeCheck{p, r, p.pos(wr.Pos())}
	// 1. pseudo-headers: SetBytes(StringX, src) immediately followed by AppendHeaderField(h, hf, true)
	want := map[string]string{"StringAuthority": "req.URI().Host()", "StringMethod": "req.Header.Method()", "StringPath": "req.URI().RequestURI()", "StringScheme": "req.URI().Scheme()"}
	seen := map[string]bool{}
	list := wr.Body.List
	for i, s := range list {
		es, ok := s.(*ast.ExprStmt)
		if !ok {
			continue
		}
		cl, ok := es.X.(*ast.CallExpr)
		if !ok || p.calleeOf(cl) != "(*HeaderField).SetBytes" || len(cl.Args) != 2 {
			continue
		}
		name := p.text(cl.Args[0])
		src, isPseudo := want[name]
		if !isPseudo {
			continue
		}
		emitted := false
		if i+1 < len(list) {
			if es2, ok := list[i+1].(*ast.ExprStmt); ok {
				if c2, ok := es2.X.(*ast.CallExpr); ok && p.calleeOf(c2) == "(*HPACK).AppendHeaderField" && len(c2.Args) == 3 && p.text(c2.Args[0]) == "h" && p.text(c2.Args[1]) == "hf" {
					emitted = true
				}
			}
		}
		seen[name] = true
		r.check(squash(p.text(cl.Args[1])) == src && emitted, "request carries "+name, p.pos(cl.Pos()), "hf.SetBytes("+name+", "+src+"); enc.AppendHeaderField(h, hf, true)", fmt.Sprintf("the request's %s is taken from `%s` (expected %s) or is not appended to the header block right after it is set: the server sees a request without it, or with another value", name, p.text(cl.Args[1]), src))
	}
	for name := range want {
		if !seen[name] {
			r.bad("request carries "+name, c.pos, "writeRequest never sets "+name)
		}
	}
	// 2. regular fields
	var loop *ast.RangeStmt
	for _, s := range list {
		if rs, ok := s.(*ast.RangeStmt); ok && strings.Contains(p.text(rs.X), "req.Header.All()") {
			loop = rs
		}
	}
	if loop != nil {
		order := []string{}
		for _, s := range loop.Body.List {
			switch x := s.(type) {
			case *ast.ExprStmt:
				if cl, ok := x.X.(*ast.CallExpr); ok {
					switch p.calleeOf(cl) {
					case "(*HeaderField).SetBytes":
						if p.text(cl.Args[0]) == p.text(loop.Key) && p.text(cl.Args[1]) == p.text(loop.Value) {
							order = append(order, "set")
						}
					case "ToLower":
						if squash(p.text(cl.Args[0])) == "hf.key" {
							order = append(order, "lower")
						}
					case "(*HPACK).AppendHeaderField":
						if p.text(cl.Args[0]) == "h" && p.text(cl.Args[1]) == "hf" {
							order = append(order, "emit")
						}
					}
				}
			case *ast.IfStmt:
				if cl, ok := ast.Unparen(x.Cond).(*ast.CallExpr); ok && p.calleeOf(cl) == "isConnectionSpecific" && squash(p.text(cl.Args[0])) == "hf.key" {
					if len(x.Body.List) == 1 {
						if b, ok := x.Body.List[0].(*ast.BranchStmt); ok && b.Tok == token.CONTINUE {
							order = append(order, "filter")
						}
					}
				}
			}
		}
		r.check(strings.Join(order, ",") == "set,lower,filter,emit", "regular fields: copied, lower-cased, filtered, appended", p.pos(loop.Pos()), "SetBytes(k,v); ToLower(hf.key); skip connection-specific; AppendHeaderField", "the per-field steps of the request writer are "+strings.Join(order, ",")+": a field is dropped, sent with an upper-case name, or a connection-specific field goes out (RFC 7540 s8.1.2)")
	} else {
		r.bad("regular fields: copied, lower-cased, filtered, appended", c.pos, "writeRequest no longer ranges over the request's header fields")
	}
	// 3./4. hasBody and flags
	var hasBody ast.Expr
	endStream, endHeaders := false, false
	nextOK, limitOK := false, false
	slotIdx, writeErrIdx := -1, -1
	for i, s := range list {
		switch x := s.(type) {
		case *ast.AssignStmt:
			if len(x.Lhs) == 1 && p.text(x.Lhs[0]) == "hasBody" {
				hasBody = x.Rhs[0]
			}
		case *ast.ExprStmt:
			if cl, ok := x.X.(*ast.CallExpr); ok {
				switch p.calleeOf(cl) {
				case "(*Headers).SetEndStream":
					endStream = squash(p.text(cl.Args[0])) == "!hasBody"
				case "(*Headers).SetEndHeaders":
					endHeaders = p.text(cl.Args[0]) == "true"
				case "(*Conn).writeHeaderBlock":
					// END_HEADERS is set by the emitter, on the last frame of the block (header-block-emitters)
					if ok, _ := p.headerBlockWriterOK(hbClient); ok {
						endHeaders = true
					}
				case "atomic.StoreUint32":
					if squash(p.text(cl.Args[0])) == "&c.nextID" && p.linOf(cl.Args[1], nil).eq(Lin{T: map[string]int64{"id": 1}, C: 2}) {
						nextOK = true
					}
				case "atomic.AddInt32":
					if squash(p.text(cl.Args[0])) == "&c.openStreams" {
						if v, ok := p.intConst(cl.Args[1]); ok && v == 1 {
							slotIdx = i
						}
					}
				}
			}
		case *ast.IfStmt:
			if cmp, ok := p.canonCmp(x.Cond, nil); ok && cmp.Op == "le" && len(cmp.L.T) == 1 && cmp.L.T["id"] == -1 {
				if mx, ok := p.pkgConst("maxStreamID"); ok && cmp.L.C == mx+1 && isRejectingBody(p, x.Body) {
					limitOK = true
				}
			}
			if squash(p.text(x.Cond)) == "err!=nil" && isRejectingBody(p, x.Body) {
				writeErrIdx = i
			}
		}
	}
	c.expr("request has a body iff streamed or non-empty", hasBody, fdeDomain{[]string{"bodyStream", "len(req.Body())"}, [][]int64{{0, 1}, seq(0, 3)}}, nil, func(e fdeEnv) int64 { return b2i(e["bodyStream"] != 0 || e["len(req.Body())"] != 0) }, "bodyStream || len(body) != 0", "a one-octet body must be sent, and an empty one must end the stream on HEADERS")
	inspectCalls(wr.Body, func(cl *ast.CallExpr) {
		if p.calleeOf(cl) == "(*Conn).writeHeaderBlock" {
			if ok, _ := p.headerBlockWriterOK(hbClient); ok {
				endHeaders = true
			}
		}
	})
	r.check(endStream && endHeaders, "HEADERS ends the stream iff there is no body", c.pos, "SetEndStream(!hasBody); SetEndHeaders(true)", "the request's HEADERS frame no longer carries END_STREAM exactly when there is no body (and END_HEADERS always)")
	r.check(nextOK && limitOK, "stream ids advance by two and stop at 2^31-1", c.pos, "id > maxStreamID -> error; nextID = id+2", "the client no longer takes stream ids from nextID in steps of two, refusing to go past 2^31-1")
	r.check(slotIdx > writeErrIdx && writeErrIdx >= 0, "stream slot taken only after the request was written", c.pos, "if err != nil { ... return err }; openStreams++", "the client counts a stream as open before (or without) knowing that its HEADERS were written: a failed write leaks a slot")
	// 6. pending body registration
	pbWin, drained, bodyBuf, stored := false, false, false, false
	ast.Inspect(wr.Body, func(n ast.Node) bool {
		switch x := n.(type) {
		case *ast.KeyValueExpr:
			if p.text(x.Key) == "window" && squash(p.text(x.Value)) == "c.streamWindow" {
				pbWin = true
			}
		case *ast.AssignStmt:
			if len(x.Lhs) != 1 {
				return true
			}
			l := squash(p.text(x.Lhs[0]))
			if l == "pb.drained" {
				ok, _, _, folded := p.equivOver(x.Rhs[0], fdeDomain{[]string{"pb.size"}, [][]int64{{-1, 0, 1, 5}}}, nil, func(e fdeEnv) int64 { return b2i(e["pb.size"] == 0) })
				drained = ok && folded
			}
			if l == "pb.window" && squash(p.text(x.Rhs[0])) == "c.streamWindow" {
				pbWin = true
			}
			if l == "pb.body" && squash(p.text(x.Rhs[0])) == "req.Body()" {
				bodyBuf = true
			}
			if l == "c.pending[id]" && p.text(x.Rhs[0]) == "pb" {
				stored = true
			}
		}
		return true
	})
	r.check(pbWin && drained && bodyBuf && stored, "pending body registered with the server's stream window", c.pos, "pendingBody{window: c.streamWindow}; drained = size == 0; body = req.Body(); c.pending[id] = pb", "the request body is no longer registered for sending with the server's initial stream window, its buffered octets (or its stream, finished only when declared empty)")
	// 7. slot returned when the request leaves the table
	if fd := p.decl("(*Conn).finish"); fd != nil {
		ok := false
		for _, s := range fd.Body.List {
			if ifs, isIf := s.(*ast.IfStmt); isIf {
				if cl, isC := ast.Unparen(ifs.Cond).(*ast.CallExpr); isC && p.calleeOf(cl) == "(*Conn).takeReq" {
					inspectCalls(ifs.Body, func(c2 *ast.CallExpr) {
						if p.calleeOf(c2) == "atomic.AddInt32" && squash(p.text(c2.Args[0])) == "&c.openStreams" {
							if v, okv := p.intConst(c2.Args[1]); okv && v == -1 {
								ok = true
							}
						}
					})
				}
			}
		}
		r.check(ok, "stream slot returned when the request is resolved", p.pos(fd.Pos()), "if c.takeReq(stream) { openStreams-- }", "finish no longer gives the stream slot back exactly when it removed the request from the table: the connection runs out of streams after MAX_CONCURRENT_STREAMS requests, or counts below zero")
		// 7b. a body abandoned on a stream that ended cleanly resets the stream
		var dropIf *ast.IfStmt
		for _, s := range fd.Body.List {
			if ifs, isIf := s.(*ast.IfStmt); isIf && strings.Contains(p.text(ifs.Cond), "deletePending") {
				dropIf = ifs
			}
		}
		if dropIf != nil {
			atoms, pure := pureJunction(dropIf.Cond, true)
			shape := pure && len(atoms) == 2
			first := ""
			for i, a := range atoms {
				t := squash(p.text(a.Cond))
				if i == 0 {
					first = t
				}
				if !a.Val || (t != "c.deletePending(stream)" && t != "err==nil") {
					shape = false
				}
			}
			// the pending body is dropped whatever the error, so the call has to come first
			shape = shape && first == "c.deletePending(stream)"
			reset := false
			inspectCalls(dropIf.Body, func(c2 *ast.CallExpr) {
				if p.calleeOf(c2) == "(*Conn).cancelStream" && len(c2.Args) == 2 && p.text(c2.Args[0]) == "stream" {
					if v, okv := p.intConst(c2.Args[1]); okv && (v == 8 || v == 0) {
						reset = true
					}
				}
			})
			r.check(shape && reset && dropIf.Else == nil, "a body abandoned by a complete response resets the stream", p.pos(dropIf.Pos()), "if c.deletePending(stream) && err == nil { c.cancelStream(stream, CANCEL) }", "finish no longer drops the pending body on every resolution and resets the stream exactly when a body was still owed and the stream ended without error: the server keeps a half-closed stream for the life of the connection (or a reset stream is reset again)")
		} else {
			r.bad("a body abandoned by a complete response resets the stream", p.pos(fd.Pos()), "finish no longer tests whether a body was still pending when the stream ended")
		}
	}
	// 7c. deletePending answers whether a body was pending and closes a streamed one
	if fd := p.decl("(*Conn).deletePending"); fd != nil {
		r.fn("(*Conn).deletePending")
		nilFalse, othersTrue, closes, nRet := false, true, false, 0
		ast.Inspect(fd.Body, func(n ast.Node) bool {
			switch x := n.(type) {
			case *ast.IfStmt:
				if squash(p.text(x.Cond)) == "pb==nil" {
					if res := firstReturn(x.Body); len(res) == 1 && p.text(res[0]) == "false" {
						nilFalse = true
					}
					return false
				}
			case *ast.ReturnStmt:
				nRet++
				if len(x.Results) != 1 || p.text(x.Results[0]) != "true" {
					othersTrue = false
				}
			case *ast.CallExpr:
				if p.calleeOf(x) == "(*Conn).closeBodyStream" {
					closes = true
				}
			}
			return true
		})
		r.check(nilFalse && othersTrue && nRet >= 1, "deletePending reports whether a body was pending", p.pos(fd.Pos()), "pb == nil -> false; otherwise true", "deletePending no longer answers false exactly when no body was pending: finish resets streams that were complete, or leaves open the ones it abandoned")
		closed := false
		if cb := p.decl("(*Conn).closeBodyStream"); cb != nil {
			inspectCalls(cb.Body, func(c2 *ast.CallExpr) {
				if strings.HasSuffix(p.calleeOf(c2), ".CloseBodyStream") {
					closed = true
				}
			})
		}
		r.check(closes && closed, "an abandoned streamed body is closed on the Request", p.pos(fd.Pos()), "deletePending -> closeBodyStream -> Request.CloseBodyStream", "a streamed body the connection gives up is no longer closed and detached from the Request, which is what tells RoundTrip that it cannot be replayed (and what releases the file or pipe behind it)")
	}
	// 8. hasMore
	if fd := p.decl("(*pendingBody).hasMore"); fd != nil {
		e := singleReturn(fd)
		c.expr("body owes octets iff buffered or stream not drained", e, fdeDomain{[]string{"len(pb.body)", "pb.stream!=nil", "pb.drained"}, [][]int64{seq(0, 2), {0, 1}, {0, 1}}}, nil, func(e fdeEnv) int64 {
			return b2i(e["len(pb.body)"] > 0 || (e["pb.stream!=nil"] != 0 && e["pb.drained"] == 0))
		}, "len(body) > 0 || (stream != nil && !drained)", "END_STREAM goes out with the chunk after which this is false; a one-octet remainder must still count")
	}
	// 9. send loop
	if fd := p.decl("(*Conn).sendPending"); fd != nil {
		cs := fdeCheck{p, r, p.pos(fd.Pos())}
		var refillIf, idleIf *ast.IfStmt
		mins := 0
		floor := false
		debit := 0
		ast.Inspect(fd.Body, func(n ast.Node) bool {
			switch x := n.(type) {
			case *ast.IfStmt:
				hasRefill := false
				inspectCalls(x.Body, func(cl *ast.CallExpr) {
					if p.calleeOf(cl) == "(*Conn).refillPending" {
						hasRefill = true
					}
				})
				if hasRefill && refillIf == nil && strings.Contains(p.text(x.Cond), "pb.body") {
					refillIf = x
				}
				if mentionsIdent(x.Cond, "end") && mentionsIdent(x.Cond, "n") {
					idleIf = x
				}
				// min idiom: if int(W) < n { n = int(W) }
				if cmp, ok := p.canonCmp(x.Cond, nil); ok && cmp.Op == "le" && len(x.Body.List) == 1 {
					if as, ok := x.Body.List[0].(*ast.AssignStmt); ok && p.text(as.Lhs[0]) == "n" {
						w := p.ubKey(as.Rhs[0])
						if (w == "pb.window" || w == "c.connWindow") && cmp.L.T["n"] == -1 {
							mins++
						}
						if v, ok := p.intConst(as.Rhs[0]); ok && v == 0 && cmp.L.eq(Lin{T: map[string]int64{"n": 1}, C: 1}) {
							floor = true
						}
					}
				}
			case *ast.AssignStmt:
				if x.Tok == token.SUB_ASSIGN && p.ubKey(x.Rhs[0]) == "n" {
					l := squash(p.text(x.Lhs[0]))
					if l == "pb.window" || l == "c.connWindow" {
						debit++
					}
				}
			}
			return true
		})
		if refillIf != nil {
			cs.expr("refill only when nothing is buffered and the stream has more", refillIf.Cond, fdeDomain{[]string{"len(pb.body)", "pb.stream!=nil", "pb.drained"}, [][]int64{seq(0, 2), {0, 1}, {0, 1}}}, nil, func(e fdeEnv) int64 {
				return b2i(e["len(pb.body)"] == 0 && e["pb.stream!=nil"] != 0 && e["pb.drained"] == 0)
			}, "len(body) == 0 && stream != nil && !drained", "reading the next chunk while octets are still buffered overwrites them; not reading when empty stalls the body")
			// inside the branch nothing stands between its entry and the Read
			straight := false
			for _, st := range refillIf.Body.List {
				has := false
				inspectCalls(st, func(cl *ast.CallExpr) {
					if p.calleeOf(cl) == "(*Conn).refillPending" {
						has = true
					}
				})
				if has {
					straight = true
					break
				}
				if _, plain := st.(*ast.ExprStmt); !plain {
					if as, isAs := st.(*ast.AssignStmt); !isAs || as == nil {
						break
					}
				}
			}
			r.check(straight, "an empty buffer is always refilled", p.pos(refillIf.Pos()), "nothing but plain statements before refillPending in the refill branch", "the refill branch can be left before the next chunk is read (for example when a window is shut): the end of a body of unknown length is only discovered by that read, so a body that exactly spends the window never gets its END_STREAM and the request hangs")
		} else {
			r.bad("refill only when nothing is buffered and the stream has more", cs.pos, "no refill step in sendPending")
		}
		r.check(mins == 2 && floor && debit == 2, "chunk is min(body, stream window, connection window), floored at 0, debited from both", cs.pos, "two min steps, n<0 -> 0, window -= n twice", fmt.Sprintf("the send loop's chunk size is no longer bounded by both windows (min steps %d), floored at zero (%v) and debited from both (%d): more DATA goes out than the server granted, or the windows drift", mins, floor, debit))
		if idleIf != nil {
			cs.expr("stop without sending only when nothing may go out and the body is unfinished", idleIf.Cond, fdeDomain{[]string{"n", "end"}, [][]int64{seq(0, 3), {0, 1}}}, nil, func(e fdeEnv) int64 { return b2i(e["n"] == 0 && e["end"] == 0) }, "n == 0 && !end", "a one-octet chunk must go out, and an empty last chunk must still carry END_STREAM")
		} else {
			r.bad("stop without sending only when nothing may go out and the body is unfinished", cs.pos, "no idle test in sendPending")
		}
	}
	// 10. refill
	if fd := p.decl("(*Conn).refillPending"); fd != nil {
		cs := fdeCheck{p, r, p.pos(fd.Pos())}
		var keepIf, sizeIf *ast.IfStmt
		eofDrains := false
		ast.Inspect(fd.Body, func(n ast.Node) bool {
			switch x := n.(type) {
			case *ast.IfStmt:
				if mentionsIdent(x.Cond, "n") && keepIf == nil && !strings.Contains(p.text(x.Cond), "cap(") {
					keepIf = x
				}
				if strings.Contains(p.text(x.Cond), "pb.size") {
					sizeIf = x
				}
			case *ast.CaseClause:
				if len(x.List) == 1 && squash(p.text(x.List[0])) == "errors.Is(err,io.EOF)" {
					for _, s := range x.Body {
						if as, ok := s.(*ast.AssignStmt); ok && squash(p.text(as.Lhs[0])) == "pb.drained" && p.text(as.Rhs[0]) == "true" {
							eofDrains = true
						}
					}
				}
			}
			return true
		})
		if keepIf != nil {
			cs.expr("a chunk is kept whenever octets were read", keepIf.Cond, fdeDomain{[]string{"n"}, [][]int64{seq(0, 3)}}, nil, func(e fdeEnv) int64 { return b2i(e["n"] > 0) }, "n > 0", "a Read that returns one octet returned body data")
			kept, counted := false, false
			for _, s := range keepIf.Body.List {
				if as, ok := s.(*ast.AssignStmt); ok {
					if squash(p.text(as.Lhs[0])) == "pb.body" && squash(p.text(as.Rhs[0])) == "buf[:n]" {
						kept = true
					}
					if squash(p.text(as.Lhs[0])) == "pb.read" && as.Tok == token.ADD_ASSIGN && p.ubKey(as.Rhs[0]) == "n" {
						counted = true
					}
				}
			}
			r.check(kept && counted, "the chunk is exactly the octets read, and they are counted", p.pos(keepIf.Pos()), "pb.body = buf[:n]; pb.read += n", "refillPending no longer keeps exactly the n octets the Read returned and adds them to the running total")
		} else {
			r.bad("a chunk is kept whenever octets were read", cs.pos, "no `if n > 0` in refillPending")
		}
		if sizeIf != nil {
			cs.expr("declared length reached ends the body", sizeIf.Cond, fdeDomain{[]string{"pb.size", "pb.read"}, [][]int64{{-1, 0, 1, 5}, {0, 1, 4, 5, 6}}}, nil, func(e fdeEnv) int64 { return b2i(e["pb.size"] >= 0 && e["pb.read"] >= e["pb.size"]) }, "size >= 0 && read >= size", "with a declared length the body is over when that many octets were read, EOF or not; an unknown length (-1) never ends it this way")
		} else {
			r.bad("declared length reached ends the body", cs.pos, "no test of the running total against the declared length")
		}
		r.check(eofDrains, "EOF ends the body", cs.pos, "case errors.Is(err, io.EOF): drained = true", "an EOF from the reader no longer marks the body finished: END_STREAM is never sent")
	}
	// 11. handshake
	if fd := p.decl("(*Conn).doHandshake"); fd != nil {
		credit := false
		stores := map[string]string{}
		acks, writes := 0, 0
		inspectCalls(fd.Body, func(cl *ast.CallExpr) {
			switch p.calleeOf(cl) {
			case "Handshake":
				if len(cl.Args) == 4 && p.linOf(cl.Args[3], nil).eq(Lin{T: map[string]int64{"c.maxWindow": 1}, C: -65535}) && squash(p.text(cl.Args[2])) == "&c.current" {
					credit = true
				}
			case "(*Settings).SetAck":
				if p.text(cl.Args[0]) == "true" {
					acks++
				}
			case "(*FrameHeader).WriteTo":
				writes++
			}
		})
		ast.Inspect(fd.Body, func(n ast.Node) bool {
			if as, ok := n.(*ast.AssignStmt); ok && len(as.Lhs) == 1 {
				stores[squash(p.text(as.Lhs[0]))] = squash(p.text(as.Rhs[0]))
			}
			return true
		})
		r.check(credit, "handshake grants maxWindow - 65535 connection credit", p.pos(fd.Pos()), "Handshake(true, bw, &c.current, c.maxWindow-65535)", "the client's initial connection WINDOW_UPDATE is no longer maxWindow-65535: the window the server may use and the one the client accounts (starting at maxWindow) differ")
		r.check(stores["c.streamWindow"] == "int32(c.serverS.MaxWindowSize())" && stores["c.maxStreams"] == "c.serverS.MaxConcurrentStreams()" && stores["c.maxFrameSize"] == "c.serverS.MaxFrameSize()", "server's first SETTINGS is applied", p.pos(fd.Pos()), "streamWindow, maxStreams, maxFrameSize from serverS", "the values of the server's first SETTINGS frame no longer reach the fields that enforce them (stream send window, stream limit, frame size)")
		r.check(acks == 1 && writes == 1, "server's first SETTINGS is acknowledged once", p.pos(fd.Pos()), "one SETTINGS frame with ACK written", fmt.Sprintf("the handshake builds %d ACKs and writes %d frames in reply to the server's SETTINGS (one each expected)", acks, writes))
	}
	if fd := p.decl("NewConn"); fd != nil {
		vals := map[string]int64{}
		ast.Inspect(fd.Body, func(n ast.Node) bool {
			switch x := n.(type) {
			case *ast.KeyValueExpr:
				k := p.text(x.Key)
				if k == "maxWindow" || k == "currentWindow" {
					if v, ok := p.intConst(x.Value); ok {
						vals[k] = v
					}
				}
			case *ast.CallExpr:
				if p.calleeOf(x) == "(*Settings).SetMaxWindowSize" {
					if v, ok := p.intConst(x.Args[0]); ok {
						vals["advertised"] = v
					}
				}
			}
			return true
		})
		r.check(len(vals) == 3 && vals["maxWindow"] == vals["currentWindow"] && vals["maxWindow"] == vals["advertised"], "client advertises the window it accounts", p.pos(fd.Pos()), "maxWindow == currentWindow == SETTINGS_INITIAL_WINDOW_SIZE", fmt.Sprintf("the client's receive-window constants disagree (%v): what it advertises per stream and what its accounting starts from differ", vals))
	}
}

func init() {
	register(&Rule{
		Name: "huffman-tree-build", Props: []string{"C15", "C03"}, Engine: "FDE", Floor: 4,
		Doc: "the decode tree is built by descending one table per whole octet of the code beyond the last (creating a table exactly where none exists yet, indexed by the next 8 code bits) and filling, in the last table, every 8-bit index that starts with the remaining bits: 2^(8-len) slots from (code << (8-len)) & 0xff",
		Run: func(p *Prog, r *Out) {
			fd := p.decl("(*huffmanNode).add")
			if fd == nil {
				r.undecided("(*huffmanNode).add", "?", "no longer resolves")
				return
			}
			r.fn("(*huffmanNode).add")
			c := fdeCheck{p, r, p.pos(fd.Pos())}
			var loop *ast.ForStmt
			for _, s := range fd.Body.List {
				if fs, ok := s.(*ast.ForStmt); ok && loop == nil {
					loop = fs
				}
			}
			if loop == nil || loop.Cond == nil {
				r.bad("descent loop", c.pos, "add has no descent loop")
				return
			}
			c.expr("descend while more than one octet of code is left", loop.Cond, fdeDomain{[]string{"length"}, [][]int64{seq(0, 30)}}, nil, func(e fdeEnv) int64 { return b2i(e["length"] > 8) }, "length > 8", "a code of at most 8 remaining bits is resolved in the current table")
			var idx ast.Expr
			created, descends, step := false, false, false
			for _, s := range loop.Body.List {
				switch x := s.(type) {
				case *ast.AssignStmt:
					if x.Tok == token.SUB_ASSIGN && p.text(x.Lhs[0]) == "length" {
						if v, ok := p.intConst(x.Rhs[0]); ok && v == 8 {
							step = true
						}
					}
					if x.Tok == token.DEFINE && p.text(x.Lhs[0]) == "i" {
						idx = x.Rhs[0]
					}
					if p.text(x.Lhs[0]) == "node" && squash(p.text(x.Rhs[0])) == "node.sub[i]" {
						descends = true
					}
				case *ast.IfStmt:
					if squash(p.text(x.Cond)) == "node.sub[i]==nil" {
						for _, b := range x.Body.List {
							if as, ok := b.(*ast.AssignStmt); ok && squash(p.text(as.Lhs[0])) == "node.sub[i]" {
								created = true
							}
						}
					}
				}
			}
			c.expr("table index is the next 8 code bits", idx, fdeDomain{[]string{"code", "length"}, [][]int64{{0x1ff8, 0x7fffd8, 0xfffffe2, 0x3ffffffc, 0x14}, {0, 5, 8, 15, 20}}}, nil, func(e fdeEnv) int64 { return (e["code"] >> uint(e["length"])) & 0xff }, "uint8(code >> length)", "each level of the tree consumes 8 bits of the code, most significant first")
			r.check(step && created && descends, "one table per octet, created where missing", p.pos(loop.Pos()), "length -= 8; if sub[i] == nil { sub[i] = new table }; node = sub[i]", "the descent no longer consumes 8 bits per level, creating a sub-table exactly where none exists and moving into it")
			// the fill
			var startE, endE ast.Expr
			ast.Inspect(fd.Body, func(n ast.Node) bool {
				if as, ok := n.(*ast.AssignStmt); ok && as.Tok == token.DEFINE && len(as.Lhs) == 2 && p.text(as.Lhs[0]) == "start" && len(as.Rhs) == 2 {
					startE, endE = as.Rhs[0], as.Rhs[1]
				}
				return true
			})
			dom := fdeDomain{[]string{"code", "n"}, [][]int64{{0, 1, 0x14, 0x1f, 0xfe}, seq(0, 8)}}
			c.expr("fill starts at the code left-aligned in 8 bits", startE, dom, nil, func(e fdeEnv) int64 { return (e["code"] << uint(e["n"])) & 0xff }, "(code << n) & 0xff", "every 8-bit index whose leading bits are the code must resolve to the symbol")
			c.expr("fill covers 2^n slots", endE, dom, nil, func(e fdeEnv) int64 { return 1 << uint(e["n"]) }, "1 << n", "the n bits after the code are don't-care")
		},
	})
}

// ---------------------------------------------------------------- client loops: remaining shape clauses

func init() {
	register(&Rule{
		Name: "client-loop-shape", Props: []string{"C02", "C07", "C11", "C12", "C18"}, Engine: "FDE", Floor: 17,
		Doc: "glue of the client's loops that no other rule pins: the handshake sends the caller's SETTINGS (copied) and a connection WINDOW_UPDATE carrying the given credit, each attached to its frame and written; WINDOW_UPDATE frames are applied to the stream they name and, on stream 0, to the connection; a frame is routed to the connection-level switch exactly when its stream id is 0; dispatch resolves the request with nil when END_STREAM arrived without error and with the error otherwise; the read loop leaves on `stop || drained`; the request context learns its connection and stream before the request is queued; the body cut advances the pending body; each DATA frame carries END_STREAM iff it is the last of a final run; the release closure marks itself before unlocking; closeErr never yields nil; a GOAWAY with a last stream records it and marks the connection closing",
		Run: ruleClientLoopShape,
	})
}

func ruleClientLoopShape(p *Prog, r *Out) {
	// ---- Handshake
	if fd := p.decl("Handshake"); fd != nil {
		r.fn("Handshake")
		pos := p.pos(fd.Pos())
		got := map[string]bool{}
		writes := 0
		prefaceOK := false
		ast.Inspect(fd.Body, func(n ast.Node) bool {
			switch x := n.(type) {
			case *ast.CallExpr:
				name := p.calleeOf(x)
				switch {
				case name == "(*Settings).CopyTo" && squash(p.text(x.Fun)) == "st.CopyTo" && len(x.Args) == 1:
					got["copy:"+squash(p.text(x.Args[0]))] = true
				case name == "(*FrameHeader).SetBody" && len(x.Args) == 1:
					got["body:"+squash(p.text(x.Args[0]))] = true
				case name == "(*WindowUpdate).SetIncrement" && len(x.Args) == 1 && p.ubKey(x.Args[0]) == "maxWin":
					got["inc"] = true
				case name == "(*FrameHeader).WriteTo":
					writes++
				case name == "(*bufio.Writer).Flush":
					got["flush"] = true
				}
			case *ast.IfStmt:
				if p.text(x.Cond) == "preface" {
					inspectCalls(x.Body, func(c *ast.CallExpr) {
						if p.calleeOf(c) == "WritePreface" {
							prefaceOK = true
						}
					})
				}
			}
			return true
		})
		r.check(got["copy:st2"] && got["body:st2"] && writes == 2, "handshake sends the caller's SETTINGS", pos, "st.CopyTo(st2); fr.SetBody(st2); fr.WriteTo(bw)", "the handshake no longer sends a copy of the SETTINGS it was given: the peer is told the library defaults while this endpoint enforces its configured values")
		r.check(got["inc"] && got["body:wu"] && got["flush"], "handshake grants the given connection credit", pos, "wu.SetIncrement(maxWin); fr.SetBody(wu); WriteTo; Flush", "the handshake's connection WINDOW_UPDATE no longer carries the credit it was given (or is not written and flushed): the peer's connection window and this endpoint's accounting start apart")
		r.check(prefaceOK, "client preface written when asked", pos, "if preface { WritePreface(bw) }", "the handshake no longer writes the client connection preface when it is asked to")
	} else {
		r.undecided("Handshake", "?", "no longer resolves")
	}
	// ---- WINDOW_UPDATE application and routing
	rl, rn, dp := p.decl("(*Conn).readLoop"), p.decl("(*Conn).readNext"), p.decl("(*Conn).dispatch")
	if rl == nil || rn == nil || dp == nil {
		r.undecided("client loops", "?", "readLoop/readNext/dispatch no longer resolve")
		return
	}
	r.fn("(*Conn).readLoop", "(*Conn).readNext", "(*Conn).dispatch", "(*Conn).writeRequest", "(*Conn).sendPending", "(*Conn).writeData", "(*Conn).closeErr")
	streamWU, connWU := false, false
	ast.Inspect(rl.Body, func(n ast.Node) bool {
		if ifs, ok := n.(*ast.IfStmt); ok && squash(p.text(ifs.Cond)) == "fr.Type()==FrameWindowUpdate" {
			inspectCalls(ifs.Body, func(c *ast.CallExpr) {
				if p.calleeOf(c) == "(*Conn).addWindow" && squash(p.text(c.Args[0])) == "fr.Stream()" && strings.Contains(p.text(c.Args[1]), "Increment()") {
					streamWU = true
				}
			})
		}
		return true
	})
	ast.Inspect(rn.Body, func(n ast.Node) bool {
		if cc, ok := n.(*ast.CaseClause); ok && len(cc.List) == 1 && p.text(cc.List[0]) == "FrameWindowUpdate" {
			inspectCalls(cc, func(c *ast.CallExpr) {
				if p.calleeOf(c) == "(*Conn).addWindow" && strings.Contains(p.text(c.Args[1]), "Increment()") {
					if v, ok := p.intConst(c.Args[0]); ok && v == 0 {
						connWU = true
					}
				}
			})
		}
		return true
	})
	// ... and goes no further: dispatch takes the request's Ctx, which the write loop holds while it writes the body the credit is for
	wuDone := false
	ast.Inspect(rl.Body, func(n ast.Node) bool {
		ifs, ok := n.(*ast.IfStmt)
		if !ok || squash(p.text(ifs.Cond)) != "fr.Type()==FrameWindowUpdate" {
			return true
		}
		t := stmtTexts(p, ifs.Body.List)
		if len(t) == 3 && strings.HasPrefix(t[0], "c.addWindow(fr.Stream(),") && t[1] == "ReleaseFrameHeader(fr)" && t[2] == "continue" {
			wuDone = true
		}
		return true
	})
	r.check(wuDone, "a stream WINDOW_UPDATE is not handed to the request", p.pos(rl.Pos()), "if WINDOW_UPDATE { addWindow; ReleaseFrameHeader(fr); continue } ahead of dispatch", "the read loop dispatches a stream's WINDOW_UPDATE after applying it: dispatch waits for the request's Ctx, the write loop holds it while writing the body, the wait limits the write in progress to writeGrace, and a server that reads an upload slowly while granting credit loses the connection")
	r.check(streamWU, "stream WINDOW_UPDATE is applied to its stream", p.pos(rl.Pos()), "addWindow(fr.Stream(), increment)", "a stream-level WINDOW_UPDATE no longer reaches the pending body of the stream it names: the body waits for credit the server has already given")
	r.check(connWU, "connection WINDOW_UPDATE is applied to the connection", p.pos(rn.Pos()), "addWindow(0, increment)", "a WINDOW_UPDATE on stream 0 no longer credits the connection send window")
	// routing: connection-level switch exactly for stream 0
	var routeIf *ast.IfStmt
	ast.Inspect(rn.Body, func(n ast.Node) bool {
		if ifs, ok := n.(*ast.IfStmt); ok && routeIf == nil && strings.Contains(p.text(ifs.Cond), "fr.Stream()") && len(ifs.Body.List) >= 1 {
			// the branch ends by leaving the reader's loop, whatever it does first
			if b, ok := ifs.Body.List[len(ifs.Body.List)-1].(*ast.BranchStmt); ok && b.Tok == token.BREAK {
				routeIf = ifs
			}
		}
		return true
	})
	c := fdeCheck{p, r, p.pos(rn.Pos())}
	if routeIf != nil {
		c.expr("frames on a stream leave the connection-level reader", routeIf.Cond, fdeDomain{[]string{"fr.Stream()"}, [][]int64{{0, 1, 2, 3, 1 << 30}}}, nil, func(e fdeEnv) int64 { return b2i(e["fr.Stream()"] != 0) }, "fr.Stream() != 0", "SETTINGS, PING, GOAWAY and connection WINDOW_UPDATE live on stream 0 and everything else belongs to a request")
		// a frame that belongs to the other side of that line is a connection error
		wrongOn, wrongOff := false, false
		for _, st := range routeIf.Body.List {
			if in, ok := st.(*ast.IfStmt); ok && in.Init != nil && squash(p.text(in.Init)) == "t:=fr.Type()" {
				got := map[string]bool{}
				for _, d := range disjuncts(in.Cond) {
					got[squash(p.text(d))] = true
				}
				okErr := false
				for _, b := range in.Body.List {
					if as, ok := b.(*ast.AssignStmt); ok && len(as.Lhs) == 1 && p.text(as.Lhs[0]) == "err" {
						if cl, code, okE := p.errorCall(as.Rhs[0]); okE && cl == "GoAway" && code == 1 {
							okErr = true
						}
					}
				}
				wrongOn = okErr && len(got) == 3 && got["t==FrameSettings"] && got["t==FramePing"] && got["t==FrameGoAway"]
			}
		}
		ast.Inspect(rn.Body, func(n ast.Node) bool {
			cc, ok := n.(*ast.CaseClause)
			if !ok || len(cc.List) != 6 {
				return true
			}
			got := map[string]bool{}
			for _, e := range cc.List {
				got[p.text(e)] = true
			}
			if !(got["FrameData"] && got["FrameHeaders"] && got["FramePriority"] && got["FrameResetStream"] && got["FramePushPromise"] && got["FrameContinuation"]) {
				return true
			}
			for _, b := range cc.Body {
				if as, ok := b.(*ast.AssignStmt); ok && len(as.Lhs) == 1 && p.text(as.Lhs[0]) == "err" {
					if cl, code, okE := p.errorCall(as.Rhs[0]); okE && cl == "GoAway" && code == 1 {
						wrongOff = true
					}
				}
			}
			return true
		})
		r.check(wrongOn, "SETTINGS, PING or GOAWAY with a stream identifier ends the connection", p.pos(routeIf.Pos()), "stream != 0 and type in {SETTINGS, PING, GOAWAY} -> PROTOCOL_ERROR connection error", "readNext hands a SETTINGS, PING or GOAWAY frame that carries a stream identifier to the stream reader, which drops it: a SETTINGS frame is then neither applied, nor acknowledged, nor the end of the connection (RFC 7540 s6.5, 6.7, 6.8)")
		r.check(wrongOff, "a stream frame on stream 0 ends the connection", p.pos(rn.Pos()), "stream 0 and type in {DATA, HEADERS, PRIORITY, RST_STREAM, PUSH_PROMISE, CONTINUATION} -> PROTOCOL_ERROR connection error", "readNext ignores DATA, HEADERS, PRIORITY, RST_STREAM, PUSH_PROMISE or CONTINUATION on stream 0 instead of ending the connection: a PUSH_PROMISE there gets past the refusal of pushes")
	} else {
		r.bad("frames on a stream leave the connection-level reader", c.pos, "readNext no longer hands frames with a stream id to its caller")
	}
	// GOAWAY with a last stream records it
	recorded := false
	ast.Inspect(rn.Body, func(n ast.Node) bool {
		if cc, ok := n.(*ast.CaseClause); ok && len(cc.List) == 1 && p.text(cc.List[0]) == "FrameGoAway" {
			ref, st := false, false
			ast.Inspect(cc, func(m ast.Node) bool {
				if as, ok := m.(*ast.AssignStmt); ok && len(as.Lhs) == 1 {
					if squash(p.text(as.Lhs[0])) == "c.closeRef" && squash(p.text(as.Rhs[0])) == "ga.stream" {
						ref = true
					}
					if squash(p.text(as.Lhs[0])) == "c.state" && p.text(as.Rhs[0]) == "connStateClosed" {
						st = true
					}
				}
				return true
			})
			recorded = ref && st
		}
		return true
	})
	r.check(recorded, "GOAWAY with a last stream is recorded", p.pos(rn.Pos()), "closeRef = ga.stream; state = connStateClosed", "receiving GOAWAY no longer records its last-stream-id and the closing state: the read loop never learns that it may leave once the promised streams are answered")
	// read loop leaves on stop || drained
	leave := false
	ast.Inspect(rl.Body, func(n ast.Node) bool {
		if ifs, ok := n.(*ast.IfStmt); ok {
			if atoms, pure := pureJunction(ifs.Cond, false); pure && len(atoms) == 2 {
				a0, a1 := squash(p.text(atoms[0].Cond)), squash(p.text(atoms[1].Cond))
				if !atoms[0].Val && !atoms[1].Val && ((a0 == "stop" && a1 == "c.drained()") || (a1 == "stop" && a0 == "c.drained()")) {
					leave = true
				}
			}
		}
		return true
	})
	r.check(leave, "read loop leaves on stop or drained", p.pos(rl.Pos()), "if stop || c.drained() { break }", "the read loop's exit test is no longer the plain disjunction of 'dispatch said stop' and 'every promised request is answered'")
	// dispatch resolves
	okNil, okErr := false, false
	var endIf *ast.IfStmt
	ast.Inspect(dp.Body, func(n ast.Node) bool {
		ifs, ok := n.(*ast.IfStmt)
		if !ok || squash(p.text(ifs.Cond)) != "err==nil" {
			return true
		}
		for _, s := range ifs.Body.List {
			if in, ok := s.(*ast.IfStmt); ok {
				inspectCalls(in.Body, func(cl *ast.CallExpr) {
					if p.calleeOf(cl) == "(*Conn).finish" && len(cl.Args) == 3 && p.text(cl.Args[2]) == "nil" {
						okNil, endIf = true, in
					}
				})
			}
		}
		// the other side: the else branch, or, when the success branch returns, what follows it
		var other ast.Node = ifs.Else
		if ifs.Else == nil && len(ifs.Body.List) > 0 {
			if _, isRet := ifs.Body.List[len(ifs.Body.List)-1].(*ast.ReturnStmt); isRet {
				pm := p.pmFor(ifs)
				if blk, isBlk := pm[ifs].(*ast.BlockStmt); isBlk {
					rest := &ast.BlockStmt{}
					for _, s := range blk.List {
						if s.Pos() > ifs.End() {
							rest.List = append(rest.List, s)
						}
					}
					other = rest
				}
			}
		}
		if other != nil {
			inspectCalls(other, func(cl *ast.CallExpr) {
				if p.calleeOf(cl) == "(*Conn).finish" && len(cl.Args) == 3 && p.text(cl.Args[2]) == "err" {
					okErr = true
				}
			})
		}
		return true
	})
	r.check(okNil && okErr, "dispatch resolves the request", p.pos(dp.Pos()), "err == nil: END_STREAM -> finish(r, id, nil); else finish(r, id, err)", "dispatch no longer resolves the waiting request with nil when its response ended and with the error when reading the frame failed: the caller waits until its timeout, or is told of success for a failed response")
	if endIf != nil && squash(p.text(endIf.Cond)) == "c.endsStream(fr)" {
		// the decision moved into endsStream when END_STREAM on HEADERS came
		// to mean 'with the block': that function is pinned by client-block-state
		var okEnds bool
		if fd := p.decl("(*Conn).endsStream"); fd != nil {
			okEnds = true
			// END_STREAM must not be consulted for any frame kind but DATA and HEADERS
			ast.Inspect(fd.Body, func(n ast.Node) bool {
				if cc, ok := n.(*ast.CaseClause); ok {
					for _, e := range cc.List {
						if t := p.text(e); t != "FrameData" && t != "FrameHeaders" && t != "FrameContinuation" {
							okEnds = false
						}
					}
					if cc.List == nil {
						okEnds = false
					}
				}
				return true
			})
		}
		r.check(okEnds, "response ends on END_STREAM of DATA or HEADERS", p.pos(dp.Pos()), "endsStream(fr): cases for DATA and for HEADERS/CONTINUATION only", "the end-of-stream test looks at frame kinds for which the END_STREAM bit is undefined")
	} else if endIf != nil {
		cd := fdeCheck{p, r, p.pos(dp.Pos())}
		cd.expr("response ends on END_STREAM of DATA or HEADERS", endIf.Cond, fdeDomain{[]string{"fr.Type()", "fr.Flags().Has(FlagEndStream)"}, [][]int64{seq(0, 9), {0, 1}}}, nil, func(e fdeEnv) int64 {
			t := e["fr.Type()"]
			return b2i((t == 0 || t == 1) && e["fr.Flags().Has(FlagEndStream)"] != 0)
		}, "(DATA || HEADERS) && END_STREAM", "the flag is defined for those two frame types only")
	}
	// writeRequest: ctx learns its connection and stream before it is queued
	if wr := p.decl("(*Conn).writeRequest"); wr != nil {
		idx := map[string]int{}
		for i, s := range wr.Body.List {
			if es, ok := s.(*ast.ExprStmt); ok {
				t := squash(p.text(es.X))
				switch {
				case t == "ctx.conn.Store(c)":
					idx["conn"] = i + 1
				case t == "atomic.StoreUint32(&ctx.streamID,id)":
					idx["id"] = i + 1
				case t == "c.queueReq(id,ctx)":
					idx["queue"] = i + 1
				case t == "fr.SetBody(h)":
					idx["body"] = i + 1
				}
			}
		}
		r.check(idx["conn"] > 0 && idx["id"] > 0 && idx["queue"] > idx["conn"] && idx["queue"] > idx["id"] && idx["body"] > 0, "request context is bound to its connection and stream before it is queued", p.pos(wr.Pos()), "ctx.conn.Store(c); streamID = id; queueReq(id, ctx)", "writeRequest no longer stores the connection and the stream id in the Ctx before it queues the request: the read loop's acquireFor refuses the response frames (they are dropped) or applies them to whatever the Ctx was bound to before")
		// the release closure
		relOK := false
		ast.Inspect(wr.Body, func(n ast.Node) bool {
			lit, ok := n.(*ast.FuncLit)
			if !ok {
				return true
			}
			for _, s := range lit.Body.List {
				ifs, ok := s.(*ast.IfStmt)
				if !ok || squash(p.text(ifs.Cond)) != "!released" || len(ifs.Body.List) != 2 {
					continue
				}
				as, ok1 := ifs.Body.List[0].(*ast.AssignStmt)
				es, ok2 := ifs.Body.List[1].(*ast.ExprStmt)
				if ok1 && ok2 && p.text(as.Lhs[0]) == "released" && p.text(as.Rhs[0]) == "true" && squash(p.text(es.X)) == "ctx.release()" {
					relOK = true
				}
			}
			return true
		})
		r.check(relOK, "release closure runs once", p.pos(wr.Pos()), "if !released { released = true; ctx.release() }", "the release closure of writeRequest no longer marks itself before it unlocks: the deferred second call unlocks an unlocked mutex, which is a fatal error for the whole process")
		// the body is handed to sendPending after the release
		sendOK := false
		for _, s := range wr.Body.List {
			if ifs, ok := s.(*ast.IfStmt); ok && p.text(ifs.Cond) == "hasBody" && len(ifs.Body.List) == 2 {
				es, ok1 := ifs.Body.List[0].(*ast.ExprStmt)
				rs, ok2 := ifs.Body.List[1].(*ast.ReturnStmt)
				if ok1 && ok2 && squash(p.text(es.X)) == "release()" && len(rs.Results) == 1 && squash(p.text(rs.Results[0])) == "c.sendPending(id)" {
					sendOK = true
				}
			}
		}
		r.check(sendOK, "a request body starts going out right after its HEADERS", p.pos(wr.Pos()), "if hasBody { release(); return c.sendPending(id) }", "writeRequest no longer starts sending the body (after giving the Ctx back, which sendPending takes again): the body waits for an unrelated WINDOW_UPDATE to wake the write loop, or the Ctx is taken twice")
		stream := false
		ast.Inspect(wr.Body, func(n ast.Node) bool {
			if as, ok := n.(*ast.AssignStmt); ok && len(as.Lhs) == 1 && squash(p.text(as.Lhs[0])) == "pb.stream" && squash(p.text(as.Rhs[0])) == "req.BodyStream()" {
				stream = true
			}
			return true
		})
		r.check(stream, "a streamed body is registered as a stream", p.pos(wr.Pos()), "pb.stream = req.BodyStream()", "a streamed request body is no longer handed to the pending-body record: nothing of it is ever read or sent")
	}
	// sendPending: the cut advances the body
	if sp := p.decl("(*Conn).sendPending"); sp != nil {
		cut, adv := -1, -1
		ast.Inspect(sp.Body, func(n ast.Node) bool {
			b, ok := n.(*ast.BlockStmt)
			if !ok {
				return true
			}
			for i, s := range b.List {
				as, ok := s.(*ast.AssignStmt)
				if !ok || len(as.Lhs) != 1 {
					continue
				}
				if p.text(as.Lhs[0]) == "body" && squash(p.text(as.Rhs[0])) == "pb.body[:n]" {
					cut = i
				}
				if squash(p.text(as.Lhs[0])) == "pb.body" && squash(p.text(as.Rhs[0])) == "pb.body[n:]" && cut >= 0 && i > cut {
					adv = i
				}
			}
			return true
		})
		r.check(cut >= 0 && adv > cut, "the chunk cut advances the pending body", p.pos(sp.Pos()), "body := pb.body[:n]; pb.body = pb.body[n:]", "sendPending no longer advances the pending body past the chunk it cut: the same octets are sent again on the next round")
	}
	// writeData: END_STREAM on the last frame of a final run only
	if wd := p.decl("(*Conn).writeData"); wd != nil {
		cw := fdeCheck{p, r, p.pos(wd.Pos())}
		var loop *ast.ForStmt
		for _, s := range wd.Body.List {
			if fs, ok := s.(*ast.ForStmt); ok {
				loop = fs
			}
		}
		if loop == nil {
			r.bad("DATA frame loop", cw.pos, "writeData has no frame loop")
		} else {
			var es ast.Expr
			inspectCalls(loop.Body, func(cl *ast.CallExpr) {
				if p.calleeOf(cl) == "(*Data).SetEndStream" {
					es = cl.Args[0]
				}
			})
			dom := fdeDomain{[]string{"end", "i", "step", "len(body)"}, [][]int64{{0, 1}, {0, 2, 4}, {1, 2}, {2, 4, 6}}}
			cw.expr("END_STREAM only on the last frame of a final run", es, dom, nil, func(e fdeEnv) int64 { return b2i(e["end"] != 0 && e["i"]+e["step"] == e["len(body)"]) }, "end && i+step == len(body)", "END_STREAM on an earlier frame truncates the request body at the server; not on the last one leaves the request open")
			if loop.Cond != nil {
				cw.expr("frame loop runs while no error and octets remain", loop.Cond, fdeDomain{[]string{"err==nil", "i", "len(body)"}, [][]int64{{0, 1}, seq(0, 3), seq(0, 3)}}, nil, func(e fdeEnv) int64 { return b2i(e["err==nil"] != 0 && e["i"] < e["len(body)"]) }, "err == nil && i < len(body)", "")
			}
			initOK, postOK := false, false
			if as, ok := loop.Init.(*ast.AssignStmt); ok {
				if v, okv := p.intConst(as.Rhs[0]); okv && v == 0 {
					initOK = true
				}
			}
			if as, ok := loop.Post.(*ast.AssignStmt); ok && as.Tok == token.ADD_ASSIGN && p.text(as.Lhs[0]) == "i" && p.text(as.Rhs[0]) == "step" {
				postOK = true
			}
			r.check(initOK && postOK, "frame loop walks the body from 0 in steps", p.pos(loop.Pos()), "for i := 0; ...; i += step", "the DATA frame loop no longer starts at the first octet and advances by the frame size: octets are skipped or sent twice")
		}
		// empty final chunk still carries END_STREAM
		emptyOK := false
		for _, s := range wd.Body.List {
			ifs, ok := s.(*ast.IfStmt)
			if !ok {
				continue
			}
			if cmp, ok := p.canonCmp(ifs.Cond, nil); ok && cmp.Op == "eq" && cmp.L.eq(Lin{T: map[string]int64{"len(body)": 1}}) {
				guard, flag := false, false
				for _, b := range ifs.Body.List {
					if in, ok := b.(*ast.IfStmt); ok && squash(p.text(in.Cond)) == "!end" {
						if res := firstReturn(in.Body); len(res) == 1 && p.text(res[0]) == "nil" {
							guard = true
						}
					}
					if es, ok := b.(*ast.ExprStmt); ok && squash(p.text(es.X)) == "data.SetEndStream(true)" {
						flag = true
					}
				}
				emptyOK = guard && flag
			}
		}
		r.check(emptyOK, "an empty final chunk still ends the stream", p.pos(wd.Pos()), "if len(body) == 0 { if !end { return nil }; SetEndStream(true); write }", "writeData no longer sends an empty DATA frame with END_STREAM when the body ends without further octets (and nothing when it has not ended)")
	}
	// closeErr never yields nil
	if ce := p.decl("(*Conn).closeErr"); ce != nil {
		okc := false
		if len(ce.Body.List) == 2 {
			ifs, ok1 := ce.Body.List[0].(*ast.IfStmt)
			last := retResults(ce.Body.List[1])
			if ok1 && squash(p.text(ifs.Cond)) == "err!=nil" && len(last) == 1 && p.text(last[0]) == "ErrConnectionClosed" {
				if res := firstReturn(ifs.Body); len(res) == 1 && p.text(res[0]) == "err" {
					okc = true
				}
			}
		}
		r.check(okc, "closeErr never yields nil", p.pos(ce.Pos()), "if err := LastErr(); err != nil { return err }; return ErrConnectionClosed", "closeErr can return nil: a request that was never sent is resolved with a nil error, i.e. reported to its caller as a successful (empty) response")
	}
	if sl := p.decl("(*Conn).setLastErr"); sl != nil {
		first := false
		ast.Inspect(sl.Body, func(n ast.Node) bool {
			if ifs, ok := n.(*ast.IfStmt); ok && squash(p.text(ifs.Cond)) == "c.lastErr==nil" {
				for _, s := range ifs.Body.List {
					if as, ok := s.(*ast.AssignStmt); ok && squash(p.text(as.Lhs[0])) == "c.lastErr" && p.text(as.Rhs[0]) == "err" {
						first = true
					}
				}
			}
			return true
		})
		r.check(first, "the first error of the connection is the recorded one", p.pos(sl.Pos()), "if c.lastErr == nil { c.lastErr = err }", "setLastErr no longer keeps the first error: requests are resolved with a later, derived error (or none)")
	}
}

// ---------------------------------------------------------------- server loops: remaining shape clauses

func init() {
	register(&Rule{
		Name: "server-loop-shape", Props: []string{"C01", "C08", "C09", "C10", "C13", "C14", "C20"}, Engine: "FDE", Floor: 16,
		Doc: "glue of the server's stream loop that no other rule pins: a refused stream is answered with RST_STREAM(REFUSED_STREAM); accepting HEADERS on a new id takes the slot and records the id as the highest accepted, together; both closing tests are 'closing and every promised stream has finished'; a content-length mismatch at dispatch time is 'declared and different' and resets the stream with PROTOCOL_ERROR; a GOAWAY that names a stream records the highest accepted id as the connection's reference; writeError emits the frame of the error's class with the error's code; END_HEADERS completes the block only when nothing is carried over, and the mandatory pseudo-headers are then required (each of :method, :scheme, :path); a WINDOW_UPDATE of 0 is refused; the declared content length is recorded with its marker; TE is refused unless it is exactly 'trailers'; the response HEADERS frame has END_HEADERS, is attached and queued, and the body (stream or buffer) is registered before sending starts",
		Run: ruleServerLoopShape,
	})
}

func ruleServerLoopShape(p *Prog, r *Out) {
	hs := p.decl("(*serverConn).handleStreams")
	hf := p.decl("(*serverConn).handleFrame")
	hh := p.decl("(*serverConn).handleHeaderFrame")
	we := p.decl("(*serverConn).writeError")
	fr := p.decl("(*serverConn).finishRequest")
	if hs == nil || hf == nil || hh == nil || we == nil || fr == nil {
		r.undecided("server loops", "?", "handleStreams/handleFrame/handleHeaderFrame/writeError/finishRequest no longer all resolve")
		return
	}
	r.fn("(*serverConn).handleStreams", "(*serverConn).handleFrame", "(*serverConn).handleHeaderFrame", "(*serverConn).writeError", "(*serverConn).finishRequest", "(*serverConn).writeGoAway", "validateRequestPseudoHeaders")
	pos := p.pos(hs.Pos())
	c := fdeCheck{p, r, pos}
	// refusal
	refuse, take, ordered := false, false, false
	closings := 0
	var mismatch *ast.IfStmt
	ast.Inspect(hs.Body, func(n ast.Node) bool {
		ifs, ok := n.(*ast.IfStmt)
		if !ok {
			return true
		}
		ct := squash(p.text(ifs.Cond))
		switch {
		case strings.Contains(ct, "openStreams>=int(sc.st.maxStreams)"):
			for _, s := range ifs.Body.List {
				if es, ok := s.(*ast.ExprStmt); ok {
					if cl, ok := es.X.(*ast.CallExpr); ok && p.calleeOf(cl) == "(*serverConn).writeReset" && squash(p.text(cl.Args[0])) == "fr.Stream()" && p.text(cl.Args[1]) == "RefusedStreamError" {
						refuse = true
					}
				}
			}
		case ct == "fr.Type()==FrameHeaders":
			inc, last, high := false, false, false
			for _, s := range ifs.Body.List {
				if squash(p.text(s)) == "highID=fr.Stream()" {
					high = true
				}
				if ids, ok := s.(*ast.IncDecStmt); ok && p.text(ids.X) == "openStreams" && ids.Tok == token.INC {
					inc = true
				}
				if as, ok := s.(*ast.AssignStmt); ok && squash(p.text(as.Lhs[0])) == "sc.lastID" && squash(p.text(as.Rhs[0])) == "fr.Stream()" {
					last = true
				}
				if squash(p.text(s)) == "atomic.StoreUint32(&sc.lastID,fr.Stream())" {
					last = true
				}
			}
			if inc || last {
				take = inc && last
				ordered = high
			}
		case strings.Contains(ct, "canCloseAfterGoAway()"):
			if p.isConjunctionOf(ifs.Cond, "isClosing()", "canCloseAfterGoAway()") || p.isConjunctionOf(ifs.Cond, "wasClosing", "canCloseAfterGoAway()") {
				for _, s := range ifs.Body.List {
					if b, ok := s.(*ast.BranchStmt); ok && b.Tok == token.BREAK && b.Label != nil {
						closings++
					}
				}
			}
		case strings.Contains(ct, "strm.hasContentLength"):
			mismatch = ifs
		}
		return true
	})
	r.check(refuse, "a refused stream is told so", pos, "writeReset(fr.Stream(), RefusedStreamError)", "a stream that is refused (limit reached, or the connection is closing) no longer gets RST_STREAM(REFUSED_STREAM): the client waits for a response that never comes, and cannot know the request is safe to retry")
	r.check(ordered, "an accepted request moves the mark later ids are compared with", pos, "if HEADERS { ...; highID = fr.Stream() }", "accepting HEADERS on a new stream no longer records its id as the highest a request has named: a later request on a lower id, which RFC 7540 s5.1.1 makes a connection error, is accepted and run")
	r.check(take, "accepting a request stream takes its slot and records its id", pos, "if HEADERS { openStreams++; sc.lastID = fr.Stream() }", "accepting HEADERS on a new stream no longer increments the open-stream count and records the id as the highest accepted, together: the concurrency limit drifts, or GOAWAY and the id-ordering tests work from a stale id")
	// ... and one stands wherever a stream can leave the table: after a handler's report (abandoned or answered), at the end of the request-timeout arm, after the connection-level frames that release blocked responses, after a stream frame
	perArm := map[string]int{}
	ast.Inspect(hs.Body, func(n ast.Node) bool {
		cc, ok := n.(*ast.CommClause)
		if !ok || cc.Comm == nil {
			return true
		}
		arm := squash(p.text(cc.Comm))
		ast.Inspect(cc, func(x ast.Node) bool {
			if ifs, ok := x.(*ast.IfStmt); ok && (p.isConjunctionOf(ifs.Cond, "isClosing()", "canCloseAfterGoAway()") || p.isConjunctionOf(ifs.Cond, "wasClosing", "canCloseAfterGoAway()")) {
				perArm[arm]++
			}
			return true
		})
		return true
	})
	r.check(perArm["strm:=<-sc.handlerDone"] >= 2 && perArm["<-sc.maxRequestTimer.C"] >= 1 && perArm["fr,ok:=<-sc.reader"] >= 2, "the graceful-close test stands wherever a stream can leave the table", pos, "handlerDone arm: abandoned and answered; timer arm; reader arm: stream-0 frames and stream frames", fmt.Sprintf("the stream loop no longer asks 'closing and every promised stream finished?' after each way a stream leaves the table (found per arm: %v): when the last promised stream leaves that way nothing asks again and Serve stays for as long as the peer keeps the socket open", perArm))
	// the one after the connection-level frames follows the whole switch over their types: SETTINGS (a larger initial window) releases blocked responses just as WINDOW_UPDATE does
	afterSwitch := false
	ast.Inspect(hs.Body, func(n ast.Node) bool {
		ifs, ok := n.(*ast.IfStmt)
		if !ok || squash(p.text(ifs.Cond)) != "fr.Stream()==0" {
			return true
		}
		l := ifs.Body.List
		for i := 0; i+2 < len(l); i++ {
			_, isSw := l[i].(*ast.SwitchStmt)
			chk, isIf := l[i+1].(*ast.IfStmt)
			br, isBr := l[i+2].(*ast.BranchStmt)
			if isSw && isIf && isBr && br.Tok == token.CONTINUE && p.isConjunctionOf(chk.Cond, "isClosing()", "canCloseAfterGoAway()") {
				afterSwitch = true
			}
		}
		return true
	})
	r.check(afterSwitch, "the graceful-close test follows every connection-level frame, whatever its type", pos, "if fr.Stream() == 0 { switch fr.Type() {...}; if isClosing() && canCloseAfterGoAway() { break loop }; continue }", "the test that ends the connection once a GOAWAY's promised streams are done no longer stands after the whole switch over connection-level frame types: a SETTINGS frame that raises the initial window lets the last promised response out and nothing asks again, so Serve stays for as long as the peer keeps the socket open")
	r.check(closings == 5, "the loop leaves only when closing and every promised stream has finished", pos, "closing && canCloseAfterGoAway() -> break loop (after a handler report and after a frame)", fmt.Sprintf("%d of the 5 graceful-close tests are the conjunction of 'a GOAWAY was sent' and 'every stream it promised has finished' followed by leaving the loop: with anything weaker the connection is cut under running requests, with anything stronger Serve never returns", closings))
	if mismatch != nil {
		c.expr("content-length disagreement is 'declared and different'", mismatch.Cond, fdeDomain{[]string{"strm.hasContentLength", "strm.recvBody", "strm.contentLength"}, [][]int64{{0, 1}, {0, 3, 5}, {0, 3, 5}}}, nil, func(e fdeEnv) int64 {
			return b2i(e["strm.hasContentLength"] != 0 && e["strm.recvBody"] != e["strm.contentLength"])
		}, "hasContentLength && recvBody != contentLength", "RFC 7540 s8.1.2.6: a request whose DATA does not add up to its content-length is malformed; one without a content-length is not")
		rst := false
		inspectCalls(mismatch.Body, func(cl *ast.CallExpr) {
			if id, code, _, ok := p.resetCall(cl); ok && id == "strm.ID()" && p.text(code) == "ProtocolError" {
				rst = true
			}
		})
		r.check(rst, "content-length disagreement resets the stream", p.pos(mismatch.Pos()), "writeReset(strm.ID(), ProtocolError)", "a request whose body length disagrees with its content-length is no longer answered with RST_STREAM(PROTOCOL_ERROR)")
	} else {
		r.bad("content-length disagreement is 'declared and different'", pos, "no content-length test at dispatch")
	}
	// writeGoAway records the reference
	if wg := p.decl("(*serverConn).writeGoAway"); wg != nil {
		ok := false
		for _, s := range wg.Body.List {
			if ifs, isIf := s.(*ast.IfStmt); isIf {
				if cmp, okc := p.canonCmp(ifs.Cond, nil); okc && cmp.Op == "ne" && cmp.L.eq(Lin{T: map[string]int64{"strm": 1}}) {
					inspectCalls(ifs.Body, func(cl *ast.CallExpr) {
						if p.calleeOf(cl) == "atomic.StoreUint32" && squash(p.text(cl.Args[0])) == "&sc.closeRef" && (squash(p.text(cl.Args[1])) == "sc.lastID" || (squash(p.text(cl.Args[1])) == "last" && hasStmt(p, wg.Body.List, "last:=atomic.LoadUint32(&sc.lastID)"))) {
							ok = true
						}
					})
				}
			}
		}
		r.check(ok, "a GOAWAY that names a stream sets the drain reference", p.pos(wg.Pos()), "if strm != 0 { closeRef = lastID }", "writeGoAway no longer records the highest accepted stream id as the reference the graceful-close test waits for, exactly when the GOAWAY names a stream: the connection either never closes after the error or closes under the requests it promised")
	}
	// writeError emissions
	{
		ga, rs, fallbackGA, fallbackRS := 0, 0, false, false
		ast.Inspect(we.Body, func(n ast.Node) bool {
			switch x := n.(type) {
			case *ast.CaseClause:
				if len(x.List) != 1 {
					return true
				}
				switch p.text(x.List[0]) {
				case "FrameGoAway":
					inspectCalls(x, func(cl *ast.CallExpr) {
						if p.calleeOf(cl) == "(*serverConn).writeGoAway" && squash(p.text(cl.Args[1])) == "streamErr.Code()" {
							ga++
						}
					})
				case "FrameResetStream":
					inspectCalls(x, func(cl *ast.CallExpr) {
						if id, code, _, ok := p.resetCall(cl); ok && id == "strm.ID()" && squash(p.text(code)) == "streamErr.Code()" {
							rs++
						}
					})
				}
			case *ast.IfStmt:
				if squash(p.text(x.Cond)) == "!errors.As(err,&streamErr)" {
					inspectCalls(x.Body, func(cl *ast.CallExpr) {
						if p.calleeOf(cl) == "(*serverConn).writeGoAway" && p.text(cl.Args[1]) == "InternalError" {
							fallbackGA = true
						}
						if id, code, _, ok := p.resetCall(cl); ok && id == "strm.ID()" && p.text(code) == "InternalError" {
							fallbackRS = true
						}
					})
				}
			}
			return true
		})
		r.check(ga == 2 && rs == 1, "writeError emits the error's frame with the error's code", p.pos(we.Pos()), "GoAway class -> writeGoAway(.., Code()); Reset class -> writeReset(strm.ID(), Code())", fmt.Sprintf("writeError no longer answers a connection-class error with GOAWAY (found %d of 2 sites) and a stream-class error with RST_STREAM on its stream (found %d of 1), each carrying the error's own code", ga, rs))
		r.check(fallbackGA && fallbackRS, "a foreign error is answered with INTERNAL_ERROR", p.pos(we.Pos()), "no stream: GOAWAY(INTERNAL_ERROR); stream: RST_STREAM(INTERNAL_ERROR)", "an error that is not one of the library's own is no longer answered at all (GOAWAY without a stream, RST_STREAM with one, INTERNAL_ERROR)")
	}
	// handleFrame: END_HEADERS completes the block
	{
		var fin ast.Expr
		var incomplete *ast.IfStmt
		validated := false
		zeroInc := false
		ast.Inspect(hf.Body, func(n ast.Node) bool {
			switch x := n.(type) {
			case *ast.AssignStmt:
				if len(x.Lhs) == 1 && squash(p.text(x.Lhs[0])) == "strm.headersFinished" && p.text(x.Rhs[0]) != "true" && p.text(x.Rhs[0]) != "false" {
					fin = x.Rhs[0]
				}
			case *ast.IfStmt:
				if squash(p.text(x.Cond)) == "!strm.headersFinished" && isRejectingBody(p, x.Body) && incomplete == nil && fin != nil {
					incomplete = x
				}
				if x.Init != nil && strings.Contains(p.text(x.Init), "validateRequestPseudoHeaders(strm)") && squash(p.text(x.Cond)) == "err!=nil" {
					if res := firstReturn(x.Body); len(res) == 1 && p.text(res[0]) == "err" {
						validated = true
					}
				}
				if cmp, ok := p.canonCmp(x.Cond, nil); ok && cmp.Op == "eq" && cmp.L.eq(Lin{T: map[string]int64{"win": 1}}) && isRejectingBody(p, x.Body) {
					zeroInc = true
				}
			}
			return true
		})
		ch := fdeCheck{p, r, p.pos(hf.Pos())}
		ch.expr("END_HEADERS completes the block only when nothing is carried over", fin, fdeDomain{[]string{"len(strm.previousHeaderBytes)"}, [][]int64{seq(0, 3)}}, nil, func(e fdeEnv) int64 { return b2i(e["len(strm.previousHeaderBytes)"] == 0) }, "len(previousHeaderBytes) == 0", "a block that ends in the middle of a field is not complete")
		r.check(incomplete != nil, "an incomplete block at END_HEADERS is refused", p.pos(hf.Pos()), "if !headersFinished { reject }", "END_HEADERS on a block with a cut field is no longer an error")
		r.check(validated, "mandatory pseudo-headers are required at END_HEADERS", p.pos(hf.Pos()), "if err := validateRequestPseudoHeaders(strm); err != nil { return err }", "the completed header block is no longer checked for its mandatory pseudo-headers (or the verdict is dropped)")
		r.check(zeroInc, "WINDOW_UPDATE of 0 is refused", p.pos(hf.Pos()), "if win == 0 { reject }", "a stream WINDOW_UPDATE with an increment of 0 is no longer an error (RFC 7540 s6.9)")
	}
	// a trailer block reopens the header state until its END_HEADERS
	{
		reopen := false
		for _, s := range hh.Body.List {
			ifs, ok := s.(*ast.IfStmt)
			if !ok || !p.isConjunctionOf(ifs.Cond, "strm.headersFinished", "fr.Type()==FrameHeaders") {
				continue
			}
			rejects, clears := false, false
			for _, b := range ifs.Body.List {
				if in, ok := b.(*ast.IfStmt); ok && squash(p.text(in.Cond)) == "!fr.Flags().Has(FlagEndStream)" && (isRejectingBody(p, in.Body) || marksMalformed(p, in.Body, hh)) {
					rejects = true
				}
				if as, ok := b.(*ast.AssignStmt); ok && squash(p.text(as.Lhs[0])) == "strm.headersFinished" && p.text(as.Rhs[0]) == "false" && rejects {
					clears = true
				}
			}
			reopen = rejects && clears
		}
		r.check(reopen, "a trailer block must end the stream and reopens the header state", p.pos(hh.Pos()), "if headersFinished && HEADERS { !END_STREAM -> reject; headersFinished = false }", "a second HEADERS frame on a stream no longer (a) has to carry END_STREAM and (b) marks the header block as open again until its END_HEADERS: trailers continued in CONTINUATION frames are refused, or the request is dispatched when the HEADERS frame arrives, before the rest of the trailer block, and the CONTINUATION that completes it is then answered with a connection error")
	}
	if vd := p.decl("validateRequestPseudoHeaders"); vd != nil {
		okv := false
		if len(vd.Body.List) > 0 {
			if ifs, ok := vd.Body.List[0].(*ast.IfStmt); ok && isRejectingBody(p, ifs.Body) {
				atoms, pure := pureJunction(ifs.Cond, false)
				want := map[string]bool{"strm.pseudoMethod": true, "strm.pseudoScheme": true, "strm.pseudoPath": true}
				good := pure && len(atoms) == 3
				for _, a := range atoms {
					if !a.Val || !want[squash(p.text(a.Cond))] { // each atom is !flag: in the disjunction it appears negated
						good = false
					}
				}
				okv = good
			}
		}
		r.check(okv, "each of :method, :scheme, :path is required", p.pos(vd.Pos()), "!method || !scheme || !path -> reject", "the mandatory pseudo-header test is no longer the plain disjunction of the three 'missing' tests: a request without :scheme (or :method, or :path) is dispatched")
	}
	// handleHeaderFrame: content-length recorded, TE rule
	{
		rec := 0
		var te ast.Expr
		ast.Inspect(hh.Body, func(n ast.Node) bool {
			switch x := n.(type) {
			case *ast.AssignStmt:
				if len(x.Lhs) == 1 {
					l, rr := squash(p.text(x.Lhs[0])), p.text(x.Rhs[0])
					if (l == "strm.contentLength" && rr == "n") || (l == "strm.hasContentLength" && rr == "true") {
						rec++
					}
				}
			case *ast.IfStmt:
				if strings.Contains(p.text(x.Cond), "StringTE") && isRejectingBody(p, x.Body) {
					te = x.Cond
				}
			}
			return true
		})
		r.check(rec == 2, "declared content length is recorded with its marker", p.pos(hh.Pos()), "contentLength = n; hasContentLength = true", "the declared content-length (or the marker that one was declared) is no longer recorded: the check against the DATA received never fires")
		ok := te != nil && p.isConjunctionOf(te, "bytes.Equal(k,StringTE)", "!bytes.Equal(v,StringTrailers)")
		r.check(ok, "TE is refused unless it is 'trailers'", p.pos(hh.Pos()), "Equal(k, te) && !Equal(v, trailers) -> reject", "the TE rule is no longer 'the field is te and its value is not trailers': every te field (or every field that is not 'trailers') is refused, or none")
	}
	// finishRequest
	{
		flags, attached, queued := false, false, false
		streamReg, bufReg := false, false
		for _, s := range fr.Body.List {
			if es, ok := s.(*ast.ExprStmt); ok {
				t := squash(p.text(es.X))
				switch t {
				case "h.SetEndHeaders(true)":
					flags = true
				case "fr.SetBody(h)":
					attached = true
				case "sc.write(fr)":
					queued = true
				case "sc.writeHeaderBlock(fr,h)":
					// END_HEADERS is set by the emitter, on the last frame of the block (header-block-emitters)
					if ok, _ := p.headerBlockWriterOK(hbServer); ok {
						queued, flags = true, true
					}
				}
			}
			if ifs, ok := s.(*ast.IfStmt); ok && strings.Contains(p.text(ifs.Cond), "IsBodyStream()") && ifs.Else != nil {
				got := map[string]string{}
				ast.Inspect(ifs, func(m ast.Node) bool {
					if as, ok := m.(*ast.AssignStmt); ok && len(as.Lhs) == 1 {
						got[squash(p.text(as.Lhs[0]))+"<-"+squash(p.text(as.Rhs[0]))] = "x"
					}
					return true
				})
				streamReg = got["strm.bodyStream<-ctx.Response.BodyStream()"] != "" && got["strm.bodySize<-int64(ctx.Response.Header.ContentLength())"] != ""
				bufReg = got["strm.pendingData<-ctx.Response.Body()"] != "" && got["strm.pendingEnd<-true"] != ""
			}
		}
		r.check(flags && attached && queued, "response HEADERS frame is complete, attached and queued", p.pos(fr.Pos()), "h.SetEndHeaders(true); fr.SetBody(h); sc.write(fr)", "the response's HEADERS frame no longer has END_HEADERS set, its body attached and is queued: the peer waits for CONTINUATION frames that never come, or never sees the response")
		r.check(streamReg && bufReg, "response body is registered before sending starts", p.pos(fr.Pos()), "stream: bodyStream, bodySize; buffer: pendingData = Body(), pendingEnd = true", "finishRequest no longer registers the response body with the stream (the reader and its declared size, or the buffer with its end marker): the body is never sent, or its end never signalled")
	}
}

func init() {
	register(&Rule{
		Name: "server-response-encoding", Props: []string{"C01", "C06", "C09", "C17"}, Engine: "FDE", Floor: 7,
		Doc: "the response header block starts with :status taken from the handler's status code and then carries every field of the response, each copied, lower-cased and appended; the write loop flushes after a frame exactly when no error occurred and the queue is empty or enough frames are buffered (so a queued frame is never left in the buffer while the loop sleeps), and flushes before it leaves on writeStop; a panicking handler is answered with a fresh 500 response and still reports back; the request decoder is told 'start of block' exactly while no field of the block has been decoded, and literal :path / :scheme values replace, not extend, what was there",
		Run: ruleServerResponseEncoding,
	})
}

func ruleServerResponseEncoding(p *Prog, r *Out) {
	if fd := p.decl("fasthttpResponseHeaders"); fd != nil {
		r.fn("fasthttpResponseHeaders")
		order := []string{}
		var loop *ast.RangeStmt
		for _, s := range fd.Body.List {
			if es, ok := s.(*ast.ExprStmt); ok {
				t := squash(p.text(es.X))
				switch t {
				case "hf.SetKeyBytes(StringStatus)":
					order = append(order, "key")
				case "hf.SetValueBytes(statusBytes(res.Header.StatusCode()))":
					order = append(order, "value")
				case "dst.AppendHeaderField(hp,hf,true)":
					order = append(order, "emit")
				}
			}
			if rs, ok := s.(*ast.RangeStmt); ok {
				loop = rs
				order = append(order, "fields")
			}
		}
		r.check(strings.Join(order, ",") == "key,value,emit,fields", "response block opens with :status from the handler's status code", p.pos(fd.Pos()), ":status = statusBytes(StatusCode()); append; then the fields", "the response header block no longer starts with a :status field carrying the handler's status code (steps found: "+strings.Join(order, ",")+")")
		steps := []string{}
		if loop != nil {
			for _, s := range loop.Body.List {
				if es, ok := s.(*ast.ExprStmt); ok {
					t := squash(p.text(es.X))
					switch t {
					case "hf.SetBytes(k,v)":
						steps = append(steps, "set")
					case "ToLower(hf.key)":
						steps = append(steps, "lower")
					case "dst.AppendHeaderField(hp,hf,false)":
						steps = append(steps, "emit")
					}
				}
			}
		}
		r.check(strings.Join(steps, ",") == "set,lower,emit", "every response field is copied, lower-cased and appended", p.pos(fd.Pos()), "hf.SetBytes(k, v); ToLower(hf.key); AppendHeaderField", "the per-field steps of the response encoder are "+strings.Join(steps, ",")+": a field the handler set does not reach the peer, or goes out with an upper-case name (malformed in HTTP/2)")
	} else {
		r.undecided("fasthttpResponseHeaders", "?", "no longer resolves")
	}
	if fd := p.decl("(*serverConn).writeLoop"); fd != nil {
		r.fn("(*serverConn).writeLoop")
		c := fdeCheck{p, r, p.pos(fd.Pos())}
		var flushIf *ast.IfStmt
		ast.Inspect(fd.Body, func(n ast.Node) bool {
			if ifs, ok := n.(*ast.IfStmt); ok && flushIf == nil {
				fl := false
				for _, s := range ifs.Body.List {
					if as, ok := s.(*ast.AssignStmt); ok && squash(p.text(as.Rhs[0])) == "sc.bw.Flush()" {
						fl = true
					}
				}
				if fl {
					flushIf = ifs
				}
			}
			return true
		})
		if flushIf != nil {
			c.expr("flush when the queue is empty (or enough is buffered) and nothing failed", flushIf.Cond, fdeDomain{[]string{"err==nil", "len(sc.writer)", "buffered"}, [][]int64{{0, 1}, {0, 1, 5}, {0, 5, 10, 11, 50}}}, nil, func(e fdeEnv) int64 {
				return b2i(e["err==nil"] != 0 && (e["len(sc.writer)"] == 0 || e["buffered"] > 10))
			}, "err == nil && (len(writer) == 0 || buffered > 10)", "when the queue is empty after a frame the loop goes to sleep: anything still in the buffer then stays there, and the peer waits for a response (or a WINDOW_UPDATE) that was 'sent'")
		} else {
			r.bad("flush when the queue is empty (or enough is buffered) and nothing failed", c.pos, "the write loop never flushes after a frame")
		}
		// the loop goes on after a frame that was sent and leaves after one that was not
		nSend, okSend := 0, true
		ast.Inspect(fd.Body, func(n ast.Node) bool {
			cc, ok := n.(*ast.CommClause)
			if !ok || cc.Comm == nil || squash(p.text(cc.Comm)) != "fr:=<-sc.writer" {
				return true
			}
			nSend++
			t := stmtTexts(p, cc.Body)
			if len(t) != 1 || t[0] != "ifsend(fr)!=nil{return}" {
				okSend = false
			}
			return true
		})
		r.check(nSend >= 2 && okSend, "the write loop leaves exactly when a frame could not be sent", p.pos(fd.Pos()), "case fr := <-sc.writer: if send(fr) != nil { return } (both in the loop and in the drain)", "the write loop no longer carries on after a frame that was sent and returns after one that was not: it stops after the first frame of the connection, or keeps writing to a socket that has failed")
		drainFlush := false
		ast.Inspect(fd.Body, func(n ast.Node) bool {
			if cc, ok := n.(*ast.CommClause); ok && cc.Comm == nil { // default arm
				fl, ret := false, false
				for _, s := range cc.Body {
					if as, ok := s.(*ast.AssignStmt); ok && squash(p.text(as.Rhs[0])) == "sc.bw.Flush()" {
						fl = true
					}
					if _, ok := s.(*ast.ReturnStmt); ok {
						ret = true
					}
				}
				if fl && ret {
					drainFlush = true
				}
			}
			return true
		})
		r.check(drainFlush, "the drained queue is flushed before the write loop leaves", p.pos(fd.Pos()), "default: bw.Flush(); return", "on writeStop the write loop no longer flushes what it drained before it leaves: the GOAWAY written on the way out never reaches the peer")
	}
	if fd := p.decl("(*serverConn).dispatchHandler"); fd != nil {
		r.fn("(*serverConn).dispatchHandler")
		reset, status, reports := false, false, false
		ast.Inspect(fd.Body, func(n ast.Node) bool {
			switch x := n.(type) {
			case *ast.IfStmt:
				if x.Init != nil && strings.Contains(p.text(x.Init), "recover()") && squash(p.text(x.Cond)) == "err!=nil" {
					for _, s := range x.Body.List {
						if es, ok := s.(*ast.ExprStmt); ok {
							t := squash(p.text(es.X))
							if t == "ctx.Response.Reset()" {
								reset = true
							}
							if t == "ctx.Response.SetStatusCode(fasthttp.StatusInternalServerError)" {
								status = true
							}
						}
					}
				}
			case *ast.SelectStmt:
				for _, cl := range x.Body.List {
					cc := cl.(*ast.CommClause)
					if ss, ok := cc.Comm.(*ast.SendStmt); ok && squash(p.text(ss.Chan)) == "sc.handlerDone" && p.text(ss.Value) == "strm" {
						reports = true
					}
				}
			}
			return true
		})
		r.check(reset && status, "a panicking handler is answered with a fresh 500", p.pos(fd.Pos()), "recover: Response.Reset(); SetStatusCode(500)", "a handler panic no longer turns into a clean 500 response: whatever the handler had half written goes out with its status, or nothing does")
		r.check(reports, "the handler goroutine reports back", p.pos(fd.Pos()), "select { case sc.handlerDone <- strm: ... }", "the handler goroutine no longer hands its stream back on handlerDone: the response is never sent and the slot never returned")
	}
	if fd := p.decl("(*serverConn).handleHeaderFrame"); fd != nil {
		r.fn("(*serverConn).handleHeaderFrame")
		c := fdeCheck{p, r, p.pos(fd.Pos())}
		var startArg, countArg ast.Expr
		var loop *ast.ForStmt
		ast.Inspect(fd.Body, func(n ast.Node) bool {
			switch x := n.(type) {
			case *ast.CallExpr:
				if p.calleeOf(x) == "(*HPACK).nextField" && len(x.Args) == 4 {
					startArg, countArg = x.Args[1], x.Args[2]
				}
			case *ast.ForStmt:
				if loop == nil {
					loop = x
				}
			}
			return true
		})
		c.expr("decoder is told 'start of block' while no field of the block was decoded", startArg, fdeDomain{[]string{"strm.blockFields"}, [][]int64{seq(0, 4)}}, nil, func(e fdeEnv) int64 { return b2i(e["strm.blockFields"] == 0) }, "strm.blockFields == 0", "a dynamic table size update is legal exactly there (RFC 7541 s4.2)")
		r.check(countArg != nil && squash(p.text(countArg)) == "strm.blockFields", "decoder is given the count of fields decoded in this block", p.pos(fd.Pos()), "nextField(hf, blockFields == 0, blockFields, b)", "the decoder no longer receives the number of fields already decoded in this block")
		if loop != nil && loop.Cond != nil {
			c.expr("decode loop runs while input remains", loop.Cond, fdeDomain{[]string{"len(b)"}, [][]int64{seq(0, 3)}}, nil, func(e fdeEnv) int64 { return b2i(e["len(b)"] > 0) }, "len(b) > 0", "the last field of a block may be a single octet")
		}
		// literal values replace what was there; the carried-over bytes are consumed
		repl, consumed := 0, false
		ast.Inspect(fd.Body, func(n ast.Node) bool {
			as, ok := n.(*ast.AssignStmt)
			if !ok || len(as.Lhs) != 1 {
				return true
			}
			l := squash(p.text(as.Lhs[0]))
			if l == "strm.path" || l == "strm.scheme" {
				if cl, ok := as.Rhs[0].(*ast.CallExpr); ok && p.calleeOf(cl) == "builtin.append" {
					if _, _, hi, ok := p.sliceBounds(cl.Args[0]); ok && hi == 0 {
						repl++
					}
				}
			}
			if l == "strm.previousHeaderBytes" && squash(p.text(as.Rhs[0])) == "b[:0]" {
				consumed = true
			}
			return true
		})
		r.check(repl == 2, ":path and :scheme replace the stream's previous value", p.pos(fd.Pos()), "append(strm.path[:0], v...) / append(strm.scheme[:0], v...)", "the :path or :scheme value is appended to what the stream already held (the default scheme, or a stale octet) rather than replacing it")
		r.check(consumed, "carried-over header bytes are consumed once", p.pos(fd.Pos()), "b = append(previous, frame...); previous = b[:0]", "the bytes carried over from the previous frame are no longer cleared after being prepended: they are decoded again with every following frame")
	}
}

func init() {
	register(&Rule{
		Name: "small-predicates", Props: []string{"C01", "C06", "C08", "C18", "C05"}, Engine: "FDE", Floor: 4,
		Doc: "one-line predicates that several loops rely on, compared with their definition on every point of a small domain: Stream.hasMoreToSend is 'octets pending or a body stream attached'; Stream.continuingHeaders is 'a CONTINUATION frame while the header block is open'; the decoded ENABLE_PUSH flag is 'value != 0'; a SETTINGS frame is refused exactly when it has ACK set and a payload",
		Run: func(p *Prog, r *Out) {
			if fd := p.decl("(*Stream).hasMoreToSend"); fd != nil {
				r.fn("(*Stream).hasMoreToSend")
				c := fdeCheck{p, r, p.pos(fd.Pos())}
				c.expr("hasMoreToSend", singleReturn(fd), fdeDomain{[]string{"len(s.pendingData)", "s.bodyStream!=nil"}, [][]int64{seq(0, 2), {0, 1}}}, nil, func(e fdeEnv) int64 { return b2i(e["len(s.pendingData)"] > 0 || e["s.bodyStream!=nil"] != 0) }, "len(pendingData) > 0 || bodyStream != nil", "the resume branches only look at streams for which this is true: a stream with one pending octet, or with a body stream whose chunk has just been sent, must count")
			} else {
				r.undecided("(*Stream).hasMoreToSend", "?", "no longer resolves")
			}
			if fd := p.decl("(*Stream).continuingHeaders"); fd != nil {
				r.fn("(*Stream).continuingHeaders")
				c := fdeCheck{p, r, p.pos(fd.Pos())}
				c.expr("continuingHeaders", singleReturn(fd), fdeDomain{[]string{"fr.Type()", "s.headersFinished"}, [][]int64{seq(0, 9), {0, 1}}}, nil, func(e fdeEnv) int64 { return b2i(e["fr.Type()"] == 9 && e["s.headersFinished"] == 0) }, "type == CONTINUATION && !headersFinished", "frames on a half-closed stream are legal only as the continuation of its open header block")
			} else {
				r.undecided("(*Stream).continuingHeaders", "?", "no longer resolves")
			}
			if fd := p.decl("(*Settings).Read"); fd != nil {
				r.fn("(*Settings).Read")
				c := fdeCheck{p, r, p.pos(fd.Pos())}
				var e ast.Expr
				ast.Inspect(fd.Body, func(n ast.Node) bool {
					if as, ok := n.(*ast.AssignStmt); ok && len(as.Lhs) == 1 && p.isFieldSel(as.Lhs[0], "Settings", "enablePush") {
						e = as.Rhs[0]
					}
					return true
				})
				c.expr("decoded ENABLE_PUSH", e, fdeDomain{[]string{"value"}, [][]int64{{0, 1}}}, nil, func(e fdeEnv) int64 { return b2i(e["value"] != 0) }, "value != 0", "0 disables push and 1 enables it")
			}
			if fd := p.decl("(*Settings).Deserialize"); fd != nil {
				r.fn("(*Settings).Deserialize")
				ok := false
				for _, s := range fd.Body.List {
					if ifs, isIf := s.(*ast.IfStmt); isIf && isRejectingBody(p, ifs.Body) && strings.Contains(p.text(ifs.Cond), "IsAck()") {
						atoms, pure := pureJunction(ifs.Cond, true)
						ack, pay := false, false
						for _, a := range atoms {
							if a.Val && squash(p.text(a.Cond)) == "st.IsAck()" {
								ack = true
							}
							if cmp, okc := p.canonCmp(a.Cond, nil); okc && a.Val && cmp.Op == "le" && cmp.L.eq(Lin{T: map[string]int64{"len(fr.payload)": -1}, C: 1}) {
								pay = true
							}
						}
						ok = pure && len(atoms) == 2 && ack && pay
					}
				}
				r.check(ok, "SETTINGS with ACK and a payload is refused, nothing else", p.pos(fd.Pos()), "IsAck() && len(payload) > 0 -> FRAME_SIZE_ERROR", "the ACK-with-payload test of Settings.Deserialize is no longer exactly 'ACK set and at least one octet of payload': every acknowledgement, or every SETTINGS frame with parameters, is refused")
			}
		},
	})
	register(&Rule{
		Name: "replace-idiom", Props: []string{"C01", "C02", "C05", "C16", "C19"}, Engine: "AST", Floor: 25,
		Doc: "wherever a buffer field is refilled with `x = append(x[:k], other...)` from something other than itself, k is 0: the refill replaces what the pooled object held before; and wherever a buffer field is emptied with `x = x[:k]`, k is 0",
		Run: func(p *Prog, r *Out) {
			n := 0
			var names []string
			for name := range p.funcDecls {
				names = append(names, name)
			}
			sortStrings(names)
			for _, fn := range names {
				fd := p.funcDecls[fn]
				if fd.Body == nil {
					continue
				}
				ord := map[string]int{}
				ast.Inspect(fd.Body, func(nd ast.Node) bool {
					as, ok := nd.(*ast.AssignStmt)
					if !ok || len(as.Lhs) != 1 || len(as.Rhs) != 1 || as.Tok != token.ASSIGN {
						return true
					}
					lhs := squash(p.text(as.Lhs[0]))
					if _, isSel := ast.Unparen(as.Lhs[0]).(*ast.SelectorExpr); !isSel {
						return true
					}
					var k int64 = -1
					kind := ""
					switch x := ast.Unparen(as.Rhs[0]).(type) {
					case *ast.CallExpr:
						if p.calleeOf(x) == "builtin.append" && len(x.Args) >= 2 {
							if base, lo, hi, ok := p.sliceBounds(x.Args[0]); ok && squash(base) == lhs && lo == 0 && hi >= 0 {
								self := false
								for _, a := range x.Args[1:] {
									if strings.Contains(squash(p.text(a)), lhs) {
										self = true
									}
								}
								if !self {
									k, kind = hi, "refill"
								}
							}
						}
					case *ast.SliceExpr:
						if base, lo, hi, ok := p.sliceBounds(x); ok && squash(base) == lhs && lo == 0 && hi >= 0 {
							k, kind = hi, "truncate"
						}
					}
					if kind == "" {
						return true
					}
					n++
					key := fn + " " + kind + "s " + lhs
					ord[key]++
					if ord[key] > 1 {
						key += fmt.Sprintf("#%d", ord[key])
					}
					r.check(k == 0, key, p.pos(as.Pos()), "from [:0]", fmt.Sprintf("%s %ss %s from [:%d]: the first %d octet(s) the pooled object held before survive in front of the new content", fn, kind, lhs, k, k))
					return true
				})
			}
			if n < 20 {
				r.bad("refill sites found", "?", fmt.Sprintf("only %d refill/truncate sites found", n))
			}
		},
	})
}

// marksMalformed: the branch stores an error into a verdict variable that the
// function, once it has the block's bytes in hand, returns through
// rejectBlock / rejectBlockFrom (the frame is refused, its block still decoded).
func marksMalformed(p *Prog, body *ast.BlockStmt, fd *ast.FuncDecl) bool {
	v := ""
	for _, s := range body.List {
		if as, ok := s.(*ast.AssignStmt); ok && len(as.Lhs) == 1 && len(as.Rhs) == 1 {
			if _, _, okE := p.errorCall(as.Rhs[0]); okE {
				v = p.text(as.Lhs[0])
			}
		}
	}
	if v == "" {
		return false
	}
	used := false
	for _, s := range fd.Body.List {
		ifs, ok := s.(*ast.IfStmt)
		if !ok || squash(p.text(ifs.Cond)) != v+"!=nil" {
			continue
		}
		if res := firstReturn(ifs.Body); len(res) == 1 {
			if c, isC := res[0].(*ast.CallExpr); isC {
				cal := p.calleeOf(c)
				if (cal == "(*serverConn).rejectBlock" || cal == "(*serverConn).rejectBlockFrom") && p.text(c.Args[len(c.Args)-1]) == v {
					used = true
				}
			}
		}
	}
	return used
}
