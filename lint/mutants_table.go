package main

// Seeded variants: each is one realistic, still-compiling edit of the current
// tree that breaks a structural clause; the named rule must report it.

func init() {
	// ---- C05 / codec
	mutant("data-flag-endstream-bit", "flag-maps", "data.go", "fr.Flags().Add(FlagEndStream))", "fr.Flags().Add(FlagEndHeaders))")
	mutant("headers-padded-not-tested", "flag-maps", "headers.go", "if flags.Has(FlagPadded) {", "if flags.Has(FlagPriority) && false {")
	mutant("continuation-serialize-drops-flag", "flag-maps", "continuation.go", "	if c.endHeaders {\n		fr.SetFlags(\n			fr.Flags().Add(FlagEndHeaders))\n	}\n", "")
	mutant("goaway-serialize-drops-code", "codec-field-symmetry", "goaway.go", "fr.payload = http2utils.AppendUint32Bytes(fr.payload[:4], uint32(ga.code))", "fr.payload = http2utils.AppendUint32Bytes(fr.payload[:4], 0)")
	mutant("priority-unmasked", "reserved-bit-mask", "priority.go", "pry.stream = http2utils.BytesToUint32(fr.payload) & (1<<31 - 1)", "pry.stream = http2utils.BytesToUint32(fr.payload)")
	mutant("rst-code-masked", "reserved-bit-mask", "rststream.go", "rst.code = ErrorCode(http2utils.BytesToUint32(fr.payload))", "rst.code = ErrorCode(http2utils.BytesToUint32(fr.payload) & (1<<31 - 1))")
	mutant("ping-size-lower-bound", "fixed-size-exact", "ping.go", "if len(frh.payload) != 8 {", "if len(frh.payload) < 8 {")
	mutant("goaway-min-7", "fixed-size-exact", "goaway.go", "if len(fr.payload) < 8 {", "if len(fr.payload) < 7 {")
	mutant("header-stream-offset", "header-layout", "frameHeader.go", "f.stream = http2utils.BytesToUint32(header[5:]) & (1<<31 - 1) // 4", "f.stream = http2utils.BytesToUint32(header[4:]) & (1<<31 - 1) // 4")
	mutant("header-stream-unmasked", "header-layout", "frameHeader.go", "f.stream = http2utils.BytesToUint32(header[5:]) & (1<<31 - 1) // 4", "f.stream = http2utils.BytesToUint32(header[5:]) // 4")
	mutant("uint24-little-endian", "endian-helpers", "http2utils/utils.go", "	return uint32(b[0])<<16 |\n		uint32(b[1])<<8 |\n		uint32(b[2])", "	return uint32(b[2])<<16 |\n		uint32(b[1])<<8 |\n		uint32(b[0])")
	mutant("flag-padded-value", "frame-constants", "frameHeader.go", "FlagPadded     FrameFlags = 0x8", "FlagPadded     FrameFlags = 0x10")
	mutant("settings-initial-window", "frame-constants", "settings.go", "defaultWindowSize        uint32 = 1<<16 - 1", "defaultWindowSize        uint32 = 1 << 16")
	mutant("pool-swapped", "frame-pool-types", "frame.go", "			return &Priority{}", "			return &RstStream{}")
	mutant("data-reads-raw-payload", "padding-strip", "data.go", "data.b = append(data.b[:0], payload...)", "data.b = append(data.b[:0], fr.payload...)")
	mutant("cutpadding-off-by-one", "padding-strip", "http2utils/utils.go", "payload = payload[1 : length-pad]", "payload = payload[1 : length-pad+1]")
	mutant("cutpadding-guard-weak", "padding-strip", "http2utils/utils.go", "length-pad < 1 {", "length-pad < 0 {")
	mutant("headers-priority-skip-4", "padding-strip", "headers.go", "payload = payload[5:]", "payload = payload[4:]")
	// ---- C03/C04/C15 hpack
	mutant("static-table-entry", "hpack-static-table", "hpack.go", `{key: []byte(":status"), value: []byte("204")},`, `{key: []byte(":status"), value: []byte("205")},`)
	mutant("entry-overhead", "hpack-static-table", "headerField.go", "return uint32(len(hf.key) + len(hf.value) + 32)", "return uint32(len(hf.key) + len(hf.value) + 30)")
	mutant("dec-literal-mask", "dec-dispatch-table", "hpack.go", "case c&noIndexByte == 16: // 0001 0000", "case c&noIndexByte == 32: // 0001 0000")
	mutant("dec-never-indexed-adds", "dec-dispatch-table", "hpack.go", "				hf.SetValueBytes(dst)\n			}\n\n			*scratch = dst\n			releaseScratch(scratch)\n		}\n\n	// Dynamic Table Size Update", "				hf.SetValueBytes(dst)\n				hp.addDynamic(hf)\n			}\n\n			*scratch = dst\n			releaseScratch(scratch)\n		}\n\n	// Dynamic Table Size Update")
	mutant("dec-incremental-prefix", "dec-dispatch-table", "hpack.go", "if b, n, err = readInt(6, b); err != nil {", "if b, n, err = readInt(7, b); err != nil {")
	mutant("dec-extra-skip", "dec-cursor-grammar", "hpack.go", "				hf.SetValueBytes(dst)\n				// add to the table as RFC specifies.", "				b = b[1:]\n				hf.SetValueBytes(dst)\n				// add to the table as RFC specifies.")
	mutant("dec-overflow-guard-64", "dec-int-overflow", "hpack.go", "shift >= 63 {", "shift >= 70 {")
	mutant("dec-size-update-no-limit", "dec-size-update-guard", "hpack.go", "		if n > uint64(hp.maxTableSizeSettings) {\n			return nil, ErrDynamicUpdateMaxTableSize\n		}\n", "")
	mutant("dec-size-update-anywhere", "dec-size-update-guard", "hpack.go", "if !blockStart || fieldsProcessed > 0 {", "if !blockStart && fieldsProcessed > 0 {")
	mutant("peek-off-by-one", "hpack-table-index", "hpack.go", "nn := len(hp.dynamic) - int(n-maxIndex) - 1", "nn := len(hp.dynamic) - int(n-maxIndex)")
	mutant("search-off-by-one", "hpack-table-index", "hpack.go", "n = uint64(maxIndex + len(hp.dynamic) - i - 1)", "n = uint64(maxIndex + len(hp.dynamic) - i)")
	mutant("shrink-evicts-at-equal", "hpack-table-index", "hpack.go", "tableSize > hp.maxTableSize; n++ {", "tableSize >= hp.maxTableSize; n++ {")
	mutant("enc-literal-name-bits", "enc-paths", "hpack.go", "bits, dst = 4, append(dst, 0)", "bits, dst = 6, append(dst, 0)")
	mutant("enc-store-without-insert", "enc-paths", "hpack.go", "			dst = append(dst, literalByte)\n			hp.addDynamic(hf)", "			dst = append(dst, literalByte)")
	mutant("enc-sensitive-inserted", "enc-paths", "hpack.go", "		bits, dst = 4, append(dst, 16)", "		bits, dst = 4, append(dst, 16)\n		hp.addDynamic(hf)")
	mutant("enc-indexed-writes-value", "enc-paths", "hpack.go", "if bits != 7 {", "if bits != 6 {")
	mutant("enc-int-boundary-le", "enc-int-boundary", "hpack.go", "if index < b0 {", "if index <= b0 {")
	mutant("enc-peek-output", "enc-no-output-peek", "hpack.go", "	dst = append(dst, 0)\n	nn := len(dst) - 1\n", "	if len(dst) == 0 || dst[len(dst)-1] != 0 {\n		dst = append(dst, 0)\n	}\n	nn := len(dst) - 1\n")
	mutant("enc-size-update-flag-kept", "enc-size-update-first", "hpack.go", "		hp.pendingSizeUpdate = false\n\n		if hp.pendingLowSize", "		if hp.pendingLowSize")
	mutant("setmax-no-flag", "enc-size-update-first", "hpack.go", "	hp.maxTableSize = size\n	hp.pendingSizeUpdate = true\n", "	hp.maxTableSize = size\n")
	mutant("huffman-code-entry", "huffman-tables", "huffman.go", "0x1ff8, 0x7fffd8,", "0x1ff9, 0x7fffd8,")
	mutant("huffman-pad-zeros", "huffman-codec-structure", "huffman.go", "code = code<<n | (1<<n - 1)", "code = code << n")
	mutant("huffman-long-padding-ok", "huffman-codec-structure", "huffman.go", "if bitsLeft > 7 {", "if bitsLeft > 8 {")
	// ---- C18 settings
	mutant("settings-read-swapped", "settings-codec-table", "settings.go", "		case MaxConcurrentStreams:\n			st.maxStreams = value", "		case MaxConcurrentStreams:\n			st.headerSize = value")
	mutant("settings-push-unvalidated", "settings-validate", "settings.go", "			if value != 0 && value != 1 {\n				return NewGoAwayError(ProtocolError, \"wrong value for SETTINGS_ENABLE_PUSH\")\n			}\n", "")
	mutant("settings-window-code", "settings-validate", "settings.go", "return NewGoAwayError(FlowControlError, \"SETTINGS_INITIAL_WINDOW_SIZE above maximum\")", "return NewGoAwayError(ProtocolError, \"SETTINGS_INITIAL_WINDOW_SIZE above maximum\")")
	mutant("settings-framesize-lower", "settings-validate", "settings.go", "if value < 1<<14 || value > 1<<24-1 {", "if value > 1<<24-1 {")
	mutant("settings-double-ack", "settings-ack-once", "serverConn.go", "	stRes.SetAck(true)\n\n	fr.SetBody(stRes)\n\n	sc.write(fr)\n}", "	stRes.SetAck(true)\n\n	fr.SetBody(stRes)\n\n	if st.hasWindowSize {\n		sc.write(fr)\n	}\n}")
	mutant("settings-window-unguarded", "settings-presence-guard", "conn.go", "	if st.hasWindowSize {\n		if err := c.applyInitialWindow(int32(st.MaxWindowSize())); err != nil {", "	{\n		if err := c.applyInitialWindow(int32(st.MaxWindowSize())); err != nil {")
	mutant("read-bound-peer", "limit-source", "serverConn.go", "ReadFrameFromWithSize(sc.br, sc.st.frameSize)", "ReadFrameFromWithSize(sc.br, sc.clientS.frameSize)")
	mutant("second-data-emitter", "data-emitters", "serverConn.go", "func (sc *serverConn) writePing() {", "func (sc *serverConn) writeRaw(id uint32, b []byte) {\n	fr := AcquireFrameHeader()\n	fr.SetStream(id)\n	d := AcquireFrame(FrameData).(*Data)\n	d.SetData(b)\n	fr.SetBody(d)\n	sc.write(fr)\n}\n\nfunc (sc *serverConn) writePing() {")
	// ---- C08 / KSA
	mutant("endstream-any-type", "flag-scope", "serverConn.go", "if (fr.Type() == FrameData || fr.Type() == FrameHeaders) && fr.Flags().Has(FlagEndStream) {\n			strm.SetState(StreamStateHalfClosed)", "if fr.Flags().Has(FlagEndStream) {\n			strm.SetState(StreamStateHalfClosed)")
	mutant("client-endstream-any-type", "flag-scope", "conn.go", "		return c.block.endStream && fr.Flags().Has(FlagEndHeaders)\n	}\n\n	return false", "		return c.block.endStream && fr.Flags().Has(FlagEndHeaders)\n	}\n\n	return fr.Flags().Has(FlagEndStream)")
	allMutants = append(allMutants, Mutant{Name: "assert-wrong-case", Rule: "assertion-kinds", Subs: []Subst{
		{File: "conn.go", Old: "		case FrameWindowUpdate:\n			c.addWindow(0, int32(fr.Body().(*WindowUpdate).Increment()))", New: "		case FrameWindowUpdate, FrameGoAway:\n			c.addWindow(0, int32(fr.Body().(*WindowUpdate).Increment()))"},
		{File: "conn.go", Old: "		case FrameGoAway:\n			ga := fr.Body().(*GoAway)", New: "		case 99:\n			ga := fr.Body().(*GoAway)"},
	}})
	mutant("window-limit-ge", "window-limit-strict", "serverConn.go", "if sc.clientWindow > 1<<31-1 {", "if sc.clientWindow >= 1<<31-1 {")
	// ---- C01 / C09 / C13 / C20 server
	mutant("dispatch-without-marker", "srv-dispatch-once", "serverConn.go", "if strm.State() == StreamStateHalfClosed && strm.headersFinished && !strm.responded {\n				strm.responded = true\n", "if strm.State() == StreamStateHalfClosed && strm.headersFinished && !strm.responded {\n")
	mutant("dispatch-before-headers-finished", "srv-dispatch-once", "serverConn.go", "if strm.State() == StreamStateHalfClosed && strm.headersFinished && !strm.responded {", "if strm.State() == StreamStateHalfClosed && !strm.responded {")
	mutant("carryover-wrong-cursor", "hdr-carryover", "serverConn.go", "strm.previousHeaderBytes = append(strm.previousHeaderBytes, pb...)", "strm.previousHeaderBytes = append(strm.previousHeaderBytes, b...)")
	mutant("new-stream-error-in-loop", "no-stream-error-inside-decode-loop", "serverConn.go", "		// From here on it is a regular header field.\n		strm.regularSeen = true\n", "		// From here on it is a regular header field.\n		strm.regularSeen = true\n\n		if len(v) > 8192 {\n			return NewResetStreamError(EnhanceYourCalm, \"header value too long\")\n		}\n")
	mutant("handler-report-only-on-success", "handler-panic-reports-back", "serverConn.go", "				ctx.Response.SetStatusCode(fasthttp.StatusInternalServerError)\n			}\n", "				ctx.Response.SetStatusCode(fasthttp.StatusInternalServerError)\n				return\n			}\n")
	mutant("release-while-handler-runs", "abandoned-bookkeeping", "serverConn.go", "		if strm.handlerRunning {\n			strm.abandoned = true", "		if strm.handlerRunning && sc.debug {\n			strm.abandoned = true")
	mutant("no-limit-before-newstream", "stream-creation-guards", "serverConn.go", "if (openStreams >= int(sc.st.maxStreams) || wasClosing) && newRequest", "if (wasClosing) && newRequest")
	mutant("create-while-closing", "stream-creation-guards", "serverConn.go", "if (openStreams >= int(sc.st.maxStreams) || wasClosing) && newRequest", "if (openStreams >= int(sc.st.maxStreams)) && newRequest")
	mutant("goaway-no-closing-state", "goaway-bookkeeping", "serverConn.go", "	atomic.StoreInt32((*int32)(&sc.state), int32(connStateClosed))\n\n	last := atomic.LoadUint32(&sc.lastID)", "	if strm != 0 {\n		atomic.StoreInt32((*int32)(&sc.state), int32(connStateClosed))\n	}\n\n	last := atomic.LoadUint32(&sc.lastID)")
	mutant("body-unbounded", "buffer-append-bounded", "serverConn.go", "		if sc.maxRequestBodySize > 0 && strm.recvBody > sc.maxRequestBodySize {\n			return NewResetStreamError(EnhanceYourCalm, \"request body is too large\")\n		}\n\n		strm.ctx.Request.AppendBody(data)", "		strm.ctx.Request.AppendBody(data)")
	mutant("ring-never-evicts", "closed-ring-bounded", "serverConn.go", "			delete(closedStrms, closedRing[closedOldest])\n", "")
	mutant("uppercase-check-dropped", "validators-dominate-accept", "serverConn.go", "		if hasUpperCase(k) {\n			return sc.rejectBlock(strm, fr, b, NewResetStreamError(ProtocolError, \"header field name contains uppercase characters\"))\n		}\n", "")
	mutant("te-check-after-accept", "validators-dominate-accept", "serverConn.go", "		if bytes.Equal(k, StringTE) && !bytes.Equal(v, StringTrailers) {\n			return sc.rejectBlock(strm, fr, b, NewResetStreamError(ProtocolError, \"TE header field with a value other than trailers\"))\n		}\n", "")
	mutant("client-status-range", "validators-dominate-accept", "conn.go", "if err != nil || len(hf.ValueBytes()) != 3 || n < 100 || n > 999 {", "if err != nil {")
	mutant("content-length-mismatch-ignored", "validators-dominate-accept", "serverConn.go", "if strm.hasContentLength && strm.recvBody != strm.contentLength {", "if strm.hasContentLength && strm.recvBody > strm.contentLength {")
	mutant("parse-error-skipped", "parse-error-rejects", "conn.go", "			n, err := parseUint(hf.ValueBytes())\n			if err != nil {\n				return c.skipFields(fr, b, errInvalidContentLength)\n			}\n", "			n, err := parseUint(hf.ValueBytes())\n			if err != nil {\n				n = 0\n			}\n")
	mutant("parseuint-no-overflow-check", "decimal-accumulate-guarded", "strings.go", "		if n > (maxInt-int(c-'0'))/10 {\n			return 0, errInvalidUint\n		}\n", "")
	mutant("tolower-unguarded", "name-fold-guard", "strings.go", "		if b[i] >= 'A' && b[i] <= 'Z' {\n			b[i] |= 32\n		}", "		b[i] |= 32")
	mutant("bare-send-reader", "no-bare-send", "serverConn.go", "	select {\n	case sc.reader <- fr:\n		return true\n	case <-sc.writeStop:\n		ReleaseFrameHeader(fr)\n		return false\n	}", "	sc.reader <- fr\n	return true")
	// ---- flow control
	mutant("srv-no-conn-window-bound", "srv-chunk-bound", "serverConn.go", "		avail := strm.window\n		if sc.clientWindow < avail {\n			avail = sc.clientWindow\n		}", "		avail := strm.window")
	mutant("srv-no-conn-debit", "srv-chunk-bound", "serverConn.go", "		strm.window -= step\n		sc.clientWindow -= step", "		strm.window -= step")
	mutant("srv-send-at-zero-window", "srv-chunk-bound", "serverConn.go", "		if avail <= 0 {\n			return false\n		}", "		if avail < 0 {\n			return false\n		}")
	mutant("cli-no-stream-window-bound", "cli-chunk-bound", "conn.go", "		if int(pb.window) < n {\n			n = int(pb.window)\n		}\n", "")
	mutant("cli-debit-outside-lock", "cli-chunk-bound", "conn.go", "		pb.window -= int32(n)\n		c.connWindow -= int32(n)\n\n		body := pb.body[:n]\n		pb.body = pb.body[n:]\n\n		end := !pb.hasMore()\n		if end {\n			delete(c.pending, id)\n		}\n\n		c.sendLck.Unlock()", "		body := pb.body[:n]\n		pb.body = pb.body[n:]\n\n		end := !pb.hasMore()\n		if end {\n			delete(c.pending, id)\n		}\n\n		c.sendLck.Unlock()\n\n		pb.window -= int32(n)\n		c.connWindow -= int32(n)")
	mutant("cli-frame-size-ignored", "cli-chunk-bound", "conn.go", "		if i+step >= len(body) {\n			step = len(body) - i\n		}", "		if i+step >= len(body) || end {\n			step = len(body) - i\n		}")
	mutant("window-credit-becomes-store", "window-writers", "conn.go", "	if streamID == 0 {\n		c.connWindow += inc", "	if streamID == 0 {\n		c.connWindow = inc")
	mutant("delta-sign", "initial-window-delta", "serverConn.go", "delta := int64(int32(st.windowSize)) - int64(curInitialWindow)", "delta := int64(curInitialWindow) - int64(int32(st.windowSize))")
	mutant("cli-delta-not-remembered", "initial-window-delta", "conn.go", "	c.streamWindow = size\n\n	for _, pb := range c.pending {\n		pb.window += int32(delta)", "	for _, pb := range c.pending {\n		pb.window += int32(delta)")
	mutant("no-flush-after-conn-credit", "credit-then-flush", "serverConn.go", "						break loop\n					}\n\n					sc.flushStreams(strms, closeStream)\n				}\n\n				// The credit may", "						break loop\n					}\n				}\n\n				// The credit may")
	mutant("cli-no-signal", "credit-then-flush", "conn.go", "		pb.window += inc\n	}\n\n	c.sendLck.Unlock()\n\n	c.signalWindow()", "		pb.window += inc\n	}\n\n	c.sendLck.Unlock()")
	mutant("refused-data-ok-but-priority-skip", "hdr-must-decode", "serverConn.go", "					sc.writeGoAway(fr.Stream(), ProtocolError, \"stream ID is lower than the latest\")\n\n					if canCloseAfterGoAway() {\n						break loop\n					}\n", "					sc.writeReset(fr.Stream(), ProtocolError)\n")
	mutant("data-on-closed-stream-reset-only", "data-must-credit", "serverConn.go", "						sc.writeGoAway(fr.Stream(), StreamClosedError, \"frame on closed stream\")\n\n						if canCloseAfterGoAway() {\n							break loop\n						}\n					}", "						sc.writeReset(fr.Stream(), StreamClosedError)\n					}")
	mutant("refill-wrong-increment", "recv-window-refill", "serverConn.go", "		inc := sc.maxWindow - sc.currentWindow\n		sc.currentWindow = sc.maxWindow", "		inc := sc.maxWindow\n		sc.currentWindow = sc.maxWindow")
	mutant("cli-debit-data-length", "recv-window-refill", "conn.go", "func (c *Conn) creditData(fr *FrameHeader) {\n	c.consumeConnWindow(fr.Len())", "func (c *Conn) creditData(fr *FrameHeader) {\n	c.consumeConnWindow(fr.Body().(*Data).Len())")
	mutant("zero-increment-possible", "increment-positive", "serverConn.go", "	if n <= 0 {\n		return\n	}\n\n	// The body has already been copied", "	if n < 0 {\n		return\n	}\n\n	// The body has already been copied")
	// ---- client
	mutant("nextid-plus-one", "cli-stream-id", "conn.go", "atomic.StoreUint32(&c.nextID, id+2)", "atomic.StoreUint32(&c.nextID, id+1)")
	mutant("queue-after-write", "cli-register-before-write", "conn.go", "	atomic.StoreUint32(&ctx.streamID, id)\n	c.queueReq(id, ctx)\n", "	atomic.StoreUint32(&ctx.streamID, id)\n	defer c.queueReq(id, ctx)\n")
	mutant("finish-wrong-stream", "cli-response-key", "conn.go", "	c.finish(r, fr.Stream(), err)\n\n	return stop", "	c.finish(r, c.closeRef, err)\n\n	return stop")
	mutant("open-stream-after-goaway", "no-stream-after-goaway", "conn.go", "	if atomic.LoadUint32(&c.goAway) != 0 {\n		return false\n	}\n", "")
	mutant("retryable-after-write", "retryable-pre-wire", "conn.go", "		release()\n		c.deletePending(id)\n\n		return err", "		release()\n		c.deletePending(id)\n\n		return ErrConnectionClosed")
	mutant("dequeue-without-resolve", "removal-implies-resolve", "conn.go", "				err = c.writeRequest(ctx)\n			}\n\n			if err != nil {\n				ctx.resolve(err)\n", "				err = c.writeRequest(ctx)\n			}\n\n			if err != nil {\n")
	mutant("resolve-blocking", "resolve-protocol", "client.go", "		select {\n		case ctx.Err <- err:\n		default:\n		}", "		ctx.Err <- err")
	mutant("drain-before-close", "resolve-protocol", "conn.go", "	first, _ := c.shut()\n\n	for _, ctx := range c.takeAllReqs() {\n		ctx.resolve(lastErr)\n	}\n", "	for _, ctx := range c.takeAllReqs() {\n		ctx.resolve(lastErr)\n	}\n\n	first, _ := c.shut()\n")
	// ---- pools / ownership / totality
	mutant("double-release-on-short-read", "release-field-then-nil", "frameHeader.go", "			f.fr = nil\n\n			return 0, err", "			return 0, err")
	mutant("use-after-release", "no-use-after-release", "conn.go", "		stop := c.dispatch(fr)\n\n		ReleaseFrameHeader(fr)\n", "		ReleaseFrameHeader(fr)\n\n		stop := c.dispatch(fr)\n")
	mutant("stream-field-not-reset", "reset-completeness", "stream.go", "	strm.responded = false\n", "")
	mutant("type-range-lower-only", "read-path-structure", "frameHeader.go", "if f.kind < FrameData || f.kind > FrameContinuation {", "if f.kind > FrameContinuation {")
	mutant("alloc-before-length-check", "read-path-structure", "frameHeader.go", "	if err = f.checkLen(); err != nil {\n		return 0, err\n	}\n", "	_ = f.checkLen()\n")
	mutant("new-panic", "explicit-panics", "serverConn.go", "func (sc *serverConn) writePing() {", "func (sc *serverConn) must(ok bool) {\n	if !ok {\n		panic(\"invariant\")\n	}\n}\n\nfunc (sc *serverConn) writePing() {")
	mutant("readloop-no-recover", "goroutine-roots", "conn.go", "	defer func() {\n		err := recover()\n		if err == nil {\n			return\n		}\n", "	defer func() {\n		var err interface{}\n		if err == nil {\n			return\n		}\n")
	mutant("weakened-length-guard", "bounds-residual", "headers.go", "if len(payload) < 5 { // 4 (stream) + 1 (weight)", "if len(payload) < 4 { // 4 (stream) + 1 (weight)")
	mutant("enc-resized-on-read-loop-again", "access-discipline", "conn.go", "	atomic.StoreUint32(&c.encTableSize, c.serverS.HeaderTableSize())\n", "	atomic.StoreUint32(&c.encTableSize, c.serverS.HeaderTableSize())\n	c.enc.SetMaxTableSize(c.serverS.HeaderTableSize())\n")
	mutant("window-read-unlocked", "access-discipline", "conn.go", "func (c *Conn) pendingIDs() []uint32 {\n	c.sendLck.Lock()\n	defer c.sendLck.Unlock()\n", "func (c *Conn) pendingIDs() []uint32 {\n")
	mutant("atomic-field-plain-store", "access-discipline", "conn.go", "			atomic.StoreUint32(&c.goAway, 1)", "			c.goAway = 1")
	mutant("lastid-from-read-loop", "access-discipline", "serverConn.go", "					sc.writeGoAway(0, ProtocolError, \"extension frame inside a header block\")", "					sc.writeGoAway(sc.lastID, ProtocolError, \"extension frame inside a header block\")")
}

func init() {
	mutant("idle-priority-rejected", "state-table", "serverConn.go", "if fr.Type() != FrameHeaders && fr.Type() != FramePriority {\n			return NewGoAwayError(ProtocolError, \"wrong frame on idle stream\")", "if fr.Type() != FrameHeaders {\n			return NewGoAwayError(ProtocolError, \"wrong frame on idle stream\")")
	mutant("data-before-headers-finished", "state-table", "serverConn.go", "		if !strm.headersFinished {\n			return NewGoAwayError(ProtocolError, \"stream didn't end the headers\")\n		}\n", "")
	mutant("trailers-without-endstream", "state-table", "serverConn.go", "		if !fr.Flags().Has(FlagEndStream) {\n			malformed = NewResetStreamError(ProtocolError, \"trailers that do not end the stream\")\n		}\n\n", "")
	mutant("idle-headers-endstream-stays-open", "state-table", "serverConn.go", "			strm.SetState(StreamStateOpen)\n			if fr.Flags().Has(FlagEndStream) {\n				strm.SetState(StreamStateHalfClosed)\n			}", "			strm.SetState(StreamStateOpen)")
	mutant("rst-in-halfclosed-ignored", "state-table", "serverConn.go", "	if fr.Type() == FrameResetStream {\n		strm.SetState(StreamStateClosed)\n	}\n\n	switch strm.State() {", "	switch strm.State() {")
	mutant("stream-closed-code-changed", "state-table", "serverConn.go", "return NewGoAwayError(StreamClosedError, \"wrong frame on half-closed stream\")", "return NewGoAwayError(FlowControlError, \"wrong frame on half-closed stream\")")
	// two cooperating sites: each check alone is backed up by the other (the
	// single-site edits are equivalent mutants and are rightly not reported)
	allMutants = append(allMutants, Mutant{Name: "data-on-halfclosed-both-checks", Rule: "state-table", Subs: []Subst{
		{File: "serverConn.go", Old: "if fr.Type() != FrameWindowUpdate && fr.Type() != FramePriority && fr.Type() != FrameResetStream {", New: "if fr.Type() != FrameWindowUpdate && fr.Type() != FramePriority && fr.Type() != FrameResetStream && fr.Type() != FrameData {"},
		{File: "serverConn.go", Old: "		if strm.State() >= StreamStateHalfClosed {\n			return NewGoAwayError(StreamClosedError, \"stream closed\")\n		}", New: "		if strm.State() > StreamStateHalfClosed {\n			return NewGoAwayError(StreamClosedError, \"stream closed\")\n		}"},
	}})
}

func init() {
	mutant("empty-refill-no-endstream", "srv-end-stream-paths", "serverConn.go", "				if strm.pendingEnd {\n					fr := AcquireFrameHeader()", "				if strm.pendingEnd && false {\n					fr := AcquireFrameHeader()")
	mutant("end-flag-ignores-remaining", "srv-end-stream-paths", "serverConn.go", "end := strm.pendingEnd && len(strm.pendingData) == 0", "end := strm.pendingEnd")
	mutant("buffered-body-no-end", "srv-end-stream-paths", "serverConn.go", "		strm.pendingData = ctx.Response.Body()\n		strm.pendingEnd = true", "		strm.pendingData = ctx.Response.Body()\n		strm.pendingEnd = false")
	mutant("sized-body-end-off-by-one", "srv-end-stream-paths", "serverConn.go", "if strm.bodySize >= 0 && strm.bodyRead >= strm.bodySize {", "if strm.bodySize >= 0 && strm.bodyRead > strm.bodySize {")
}

func init() {
	mutant("closed-id-not-remembered", "close-stream-bookkeeping", "serverConn.go", "		markClosed(strmID, strm.resetSent)\n		strms.Del(strmID)", "		if sc.debug {\n			markClosed(strmID, strm.resetSent)\n		}\n		strms.Del(strmID)")
	mutant("closed-state-not-swept", "close-stream-bookkeeping", "serverConn.go", "			if strm.State() == StreamStateClosed {\n				closeStream(strm)\n			}\n\n			if wasClosing", "			if wasClosing")
	mutant("stream-error-as-goaway", "error-routing", "serverConn.go", "		sc.resetStream(strm, streamErr.Code())\n	}", "		sc.writeGoAway(strm.ID(), streamErr.Code(), streamErr.Error())\n	}")
	mutant("loop-continues-after-conn-error", "error-routing", "serverConn.go", "					connErr.frameType == FrameGoAway && connErr.Code() != NoError {\n					break loop\n				}", "					connErr.frameType == FrameGoAway && connErr.Code() != NoError {\n					continue\n				}")
	mutant("continuation-other-stream-ok", "continuation-sequencing", "serverConn.go", "if fr.Type() != FrameContinuation || fr.Stream() != expectContinuation {", "if fr.Type() != FrameContinuation {")
	mutant("stray-continuation-forwarded", "continuation-sequencing", "serverConn.go", "		} else if fr.Type() == FrameContinuation {\n			sc.writeGoAway(0, ProtocolError, \"unexpected CONTINUATION frame\")\n			ReleaseFrameHeader(fr)\n			return errConnClosed\n		} else if", "		} else if")
	mutant("even-stream-id-accepted", "read-loop-connection-errors", "serverConn.go", "	if fr.Stream()&1 == 0 {\n		return NewGoAwayError(ProtocolError, \"invalid stream id\")\n	}\n", "")
	mutant("zero-window-update-ignored", "read-loop-connection-errors", "serverConn.go", "			if win == 0 && fr.Stream() == 0 {\n				sc.writeGoAway(0, ProtocolError, \"window increment of 0\")\n				ReleaseFrameHeader(fr)\n				return errConnClosed\n			}\n", "			_ = win\n")
	mutant("resolve-before-drop", "client-finish-order", "conn.go", "	if c.takeReq(stream) {\n		atomic.AddInt32(&c.openStreams, -1)\n	}\n\n	r.markFinished()\n	r.resolve(err)", "	r.markFinished()\n	r.resolve(err)\n\n	if c.takeReq(stream) {\n		atomic.AddInt32(&c.openStreams, -1)\n	}")
	mutant("ctx-always-recycled", "client-finish-order", "client.go", "	if reuse {\n		releaseCtx(ctx)\n	}", "	_ = reuse\n	releaseCtx(ctx)")
	mutant("push-ignored", "client-finish-order", "conn.go", "			c.setLastErr(NewGoAwayError(ProtocolError, \"server pushed with push disabled\"))\n			ReleaseFrameHeader(fr)\n\n			break", "			ReleaseFrameHeader(fr)\n\n			continue")
	mutant("copyto-misses-framesize", "settings-copy-complete", "settings.go", "	st2.frameSize = st.frameSize\n", "")
	mutant("copyto-misses-marker", "settings-copy-complete", "settings.go", "	st2.hasWindowSize = st.hasWindowSize\n", "")
}

func init() {
	mutant("handlestate-before-handleframe", "frame-step-order", "serverConn.go", "			handleState(fr, strm)\n\n			// Hand the request to the handler", "			// Hand the request to the handler")
	mutant("data-before-headers", "frame-step-order", "serverConn.go", "	fasthttpResponseHeaders(h, &sc.enc, &ctx.Response)\n\n	sc.writeHeaderBlock(fr, h)\n\n	if !hasBody {", "	fasthttpResponseHeaders(h, &sc.enc, &ctx.Response)\n\n	if !hasBody {\n		sc.writeHeaderBlock(fr, h)")
}

func init() {
	mutant("enc-int-no-zero-continuation", "enc-int-boundary", "hpack.go", "	for ; index >= 128; index >>= 7 {\n		dst = append(dst, 128|byte(index&127))\n	}\n\n	return append(dst, byte(index))", "	for ; index >= 128; index >>= 7 {\n		dst = append(dst, 128|byte(index&127))\n	}\n\n	if index != 0 {\n		dst = append(dst, byte(index))\n	}\n\n	return dst")
	mutant("dec-int-cursor-off", "dec-int-overflow", "hpack.go", "			return b[i+1:], nn + uint64(b0), nil", "			return b[i:], nn + uint64(b0), nil")
}

func init() {
	mutant("huff-tail-bitsleft-stale", "huffman-bit-roles", "huffman.go", "		bits -= root.codeLen\n		root = rootHuffmanNode\n		bitsLeft = bits\n	}\n\n	if bitsLeft > 7 {", "		bits -= root.codeLen\n		root = rootHuffmanNode\n	}\n\n	if bitsLeft > 7 {")
	mutant("huff-tail-stop-weak", "huffman-bit-roles", "huffman.go", "if root.sub != nil || root.codeLen > bits {", "if root.sub != nil {")
	mutant("huff-table-fill-short", "huffman-bit-roles", "huffman.go", "for i := start; i < start+end; i++ {", "for i := start; i < start+end-1; i++ {")
}

func init() {
	mutant("settings-marker-conditional", "settings-codec-table", "settings.go", "			st.windowSize = value\n			st.hasWindowSize = true", "			if value != st.windowSize {\n				st.windowSize = value\n				st.hasWindowSize = true\n			}")
}

func init() {
	mutant("block-position-per-call", "hdr-carryover", "serverConn.go", "b, err = sc.dec.nextField(hf, strm.blockFields == 0, strm.blockFields, b)", "b, err = sc.dec.nextField(hf, fr.Type() != FrameContinuation, strm.blockFields, b)")
	mutant("block-position-never-reset", "hdr-carryover", "serverConn.go", "	if fr.Type() != FrameContinuation {\n		strm.blockFields = 0\n	}\n", "")
}

func init() {
	mutant("string-cut-own-error", "dec-short-input-signal", "hpack.go", "		return b, dst, ErrUnexpectedSize\n	}\n\n	mustDecode", "		return b, dst, errors.New(\"no bytes left\")\n	}\n\n	mustDecode")
	mutant("peek-nil-unchecked", "dec-short-input-signal", "hpack.go", "		hf2 := hp.peek(n)\n		if hf2 == nil {\n			return b, NewError(FlowControlError, fmt.Sprintf(\"index field not found: %d. table:\\n%s\", n,\n				headerFieldsToString(hp.dynamic, maxIndex)))\n		}\n\n		hf2.CopyTo(hf)", "		hf2 := hp.peek(n)\n\n		hf2.CopyTo(hf)")
}

func init() {
	mutant("handlerstop-not-deferred", "stop-channels-closed", "serverConn.go", "	defer close(sc.handlerStop)\n", "	defer func() {\n		if sc.debug {\n			close(sc.handlerStop)\n		}\n	}()\n")
	mutant("trailer-block-resets-validation", "validator-state-monotone", "serverConn.go", "	if fr.Type() != FrameContinuation {\n		strm.blockFields = 0\n	}", "	if fr.Type() != FrameContinuation {\n		strm.blockFields = 0\n		strm.regularSeen = false\n	}")
	mutant("writeloop-retryable-fallback", "retryable-pre-wire", "conn.go", "		lastErr = io.ErrUnexpectedEOF\n	}\n\n	c.setLastErr(lastErr)", "		lastErr = c.closeErr()\n	}\n\n	c.setLastErr(lastErr)")
	mutant("refill-skipped-on-endstream", "data-must-credit", "serverConn.go", "	if !fr.Flags().Has(FlagEndStream) {\n		sc.writeWindowUpdate(strm.ID(), n)\n	}\n\n	sc.consumeConnRecvWindow(n)", "	if fr.Flags().Has(FlagEndStream) {\n		return\n	}\n\n	sc.writeWindowUpdate(strm.ID(), n)\n\n	sc.consumeConnRecvWindow(n)")
	mutant("client-framesize-value-guard", "settings-presence-guard", "conn.go", "	atomic.StoreUint32(&c.maxFrameSize, c.serverS.MaxFrameSize())", "	if size := c.serverS.MaxFrameSize(); size != defaultDataFrameSize {\n		atomic.StoreUint32(&c.maxFrameSize, size)\n	}")
}

func init() {
	mutant("goaway-body-kept-after-release", "no-use-after-release", "conn.go", "				c.failAbove(ga.stream)\n			}\n\n			break loop\n		}", "				c.failAbove(ga.stream)\n\n				break loop\n			}\n		}")
}

// Variants for the rules written after the mutation sweep (rules_gap.go, conn-lifecycle).
func init() {
	mutant("stream-window-limit-constant", "credit-overflow-check", "serverConn.go", "							if s.window > 1<<31-1 {", "							if s.window > 1<<32-1 {")
	mutant("conn-window-limit-loose", "credit-overflow-check", "serverConn.go", "					if sc.clientWindow > 1<<31-1 {", "					if sc.clientWindow > 1<<31+1 {")
	mutant("stream-wu-limit-nonstrict", "credit-overflow-check", "serverConn.go", "		if atomic.AddInt64(&strm.window, win) > 1<<31-1 {", "		if atomic.AddInt64(&strm.window, win) >= 1<<31-1 {")
	mutant("rst-on-latest-is-idle", "unknown-stream-classification", "serverConn.go", "!closed && fr.Stream() > sc.lastID {", "!closed && fr.Stream() >= sc.lastID {")
	mutant("lower-than-latest-nonstrict", "unknown-stream-classification", "serverConn.go", "\t\t\t\tif fr.Stream() <= highID {\n\t\t\t\t\tif fr.Type() == FrameWindowUpdate {", "\t\t\t\tif fr.Stream() < highID {\n\t\t\t\t\tif fr.Type() == FrameWindowUpdate {")
	mutant("resume-not-closed", "completion-closes-stream", "serverConn.go", "				if sc.sendData(strm) {\n					strm.SetState(StreamStateClosed)\n				}", "				if sc.sendData(strm) {\n					strm.responded = true\n				}")
	mutant("flush-done-not-closed", "completion-closes-stream", "serverConn.go", "	for _, s := range done {\n		s.SetState(StreamStateClosed)\n		closeStream(s)\n	}", "	for _, s := range done {\n		s.SetState(StreamStateClosed)\n	}")
	mutant("resume-while-handler-runs", "completion-closes-stream", "serverConn.go", "			} else if strm.responded && !strm.handlerRunning && strm.hasMoreToSend() {", "			} else if strm.responded || !strm.handlerRunning && strm.hasMoreToSend() {")
	mutant("stream-error-ends-connection", "error-routing", "serverConn.go", "				if errors.As(err, &connErr) &&\n					connErr.frameType == FrameGoAway && connErr.Code() != NoError {", "				if errors.As(err, &connErr) ||\n					connErr.frameType == FrameGoAway && connErr.Code() != NoError {")
	mutant("window-update-on-stream-zero", "emitters-address-stream", "serverConn.go", "	fr := AcquireFrameHeader()\n	fr.SetStream(id)\n\n	wu := AcquireFrame(FrameWindowUpdate).(*WindowUpdate)", "	fr := AcquireFrameHeader()\n\n	wu := AcquireFrame(FrameWindowUpdate).(*WindowUpdate)")
	mutant("reset-on-stream-zero", "emitters-address-stream", "serverConn.go", "	fr := AcquireFrameHeader()\n	fr.SetStream(strm)\n	fr.SetBody(r)", "	fr := AcquireFrameHeader()\n	fr.SetBody(r)")
	mutant("authority-not-marked", "request-mapping", "serverConn.go", "				strm.pseudoAuthority = true\n", "")
	mutant("authority-not-delivered", "request-mapping", "serverConn.go", "				req.Header.SetHostBytes(v)\n", "")
	mutant("user-agent-dropped", "request-mapping", "serverConn.go", "			req.Header.SetUserAgentBytes(v)\n", "")
	mutant("header-list-size-undercount", "request-mapping", "serverConn.go", "		strm.headerListSize += len(k) + len(v) + 32", "		strm.headerListSize += len(k) + len(v) - 32")
	mutant("carry-needs-two-bytes", "request-mapping", "serverConn.go", "errors.Is(err, ErrUnexpectedSize) && len(pb) > 0 && !fr.Flags().Has(FlagEndHeaders)", "errors.Is(err, ErrUnexpectedSize) && len(pb) > 1 && !fr.Flags().Has(FlagEndHeaders)")
	mutant("body-limit-nonstrict", "request-mapping", "serverConn.go", "sc.maxRequestBodySize > 0 && strm.recvBody > sc.maxRequestBodySize", "sc.maxRequestBodySize > 0 && strm.recvBody >= sc.maxRequestBodySize")
	mutant("handler-running-not-set", "request-mapping", "serverConn.go", "	strm.handlerRunning = true\n\n	go func() {", "	go func() {")
	mutant("one-byte-body-dropped", "request-mapping", "serverConn.go", "hasBody := ctx.Response.IsBodyStream() || len(ctx.Response.Body()) > 0", "hasBody := ctx.Response.IsBodyStream() || len(ctx.Response.Body()) > 1")
	mutant("short-read-dropped", "request-mapping", "serverConn.go", "	n, err := strm.bodyStream.Read(buf)\n	if n > 0 {", "	n, err := strm.bodyStream.Read(buf)\n	if n > 1 {")
	mutant("server-encoder-not-resized", "settings-applied", "serverConn.go", "	sc.enc.SetMaxTableSize(sc.clientS.HeaderTableSize())\n", "")
	mutant("server-settings-not-kept", "settings-applied", "serverConn.go", "	st.applyTo(&sc.clientS)\n", "")
	mutant("connection-header-kept", "settings-applied", "serverConn.go", "	res.Header.Del(\"Connection\")\n", "")
}

func init() {
	mutant("request-timer-not-stopped", "conn-lifecycle", "serverConn.go", "		sc.maxIdleTimer.Stop()\n	}\n\n	sc.maxRequestTimer.Stop()\n}", "		sc.maxIdleTimer.Stop()\n	}\n}")
	mutant("ping-timer-unguarded", "conn-lifecycle", "serverConn.go", "func (sc *serverConn) close() {\n	if sc.pingTimer != nil {\n		sc.pingTimer.Stop()\n	}", "func (sc *serverConn) close() {\n	sc.pingTimer.Stop()")
	mutant("serve-skips-teardown-on-error", "conn-lifecycle", "serverConn.go", "		err = nil\n	}\n\n	sc.close()\n\n	return err", "		err = nil\n\n		sc.close()\n	}\n\n	return err")
	mutant("graceful-close-ignores-promised", "conn-lifecycle", "serverConn.go", "			if strm.origType == FrameHeaders && strm.ID() <= ref {\n				return false\n			}", "			if strm.origType == FrameHeaders && strm.ID() < ref {\n				return false\n			}")
	mutant("abandoned-not-marked", "conn-lifecycle", "serverConn.go", "		if strm.handlerRunning {\n			strm.abandoned = true\n", "		if strm.handlerRunning {\n")
	mutant("abandoned-answered", "conn-lifecycle", "serverConn.go", "					break loop\n				}\n\n				continue\n			}\n\n			if sc.finishRequest(strm) {", "					break loop\n				}\n			}\n\n			if sc.finishRequest(strm) {")
	mutant("slot-returned-unconditionally", "conn-lifecycle", "serverConn.go", "		if strm.origType == FrameHeaders {\n			openStreams--\n		}\n\n		if strm.ctx != nil {", "		openStreams--\n\n		if strm.ctx != nil {")
	mutant("origin-not-recorded", "conn-lifecycle", "serverConn.go", "	strm.origType = frameType\n", "")
}

func init() {
	mutant("length-mismatch-reset-not-closed", "completion-closes-stream", "serverConn.go", "					sc.resetStream(strm, ProtocolError)\n					strm.SetState(StreamStateClosed)\n				} else {", "					sc.resetStream(strm, ProtocolError)\n				} else {")
	mutant("header-limit-zero-is-a-limit", "request-mapping", "serverConn.go", "if sc.maxHeaderList > 0 && strm.headerListSize > sc.maxHeaderList {", "if sc.maxHeaderList >= 0 && strm.headerListSize > sc.maxHeaderList {")
}

// Variants for payload-layout and the settings codec corrections.
func init() {
	mutant("goaway-code-offset-read", "payload-layout", "goaway.go", "ga.code = ErrorCode(http2utils.BytesToUint32(fr.payload[4:]))", "ga.code = ErrorCode(http2utils.BytesToUint32(fr.payload[3:]))")
	mutant("goaway-code-offset-write", "payload-layout", "goaway.go", "fr.payload = http2utils.AppendUint32Bytes(fr.payload[:4], uint32(ga.code))", "fr.payload = http2utils.AppendUint32Bytes(fr.payload[:3], uint32(ga.code))")
	mutant("goaway-debug-offset", "payload-layout", "goaway.go", "ga.data = append(ga.data[:0], fr.payload[8:]...)", "ga.data = append(ga.data[:0], fr.payload[7:]...)")
	mutant("priority-weight-index", "payload-layout", "priority.go", "pry.weight = fr.payload[4]", "pry.weight = fr.payload[3]")
	mutant("priority-weight-not-written", "payload-layout", "priority.go", "	fr.payload = append(fr.payload, pry.weight)", "	fr.payload = append(fr.payload, 0)")
	mutant("headers-weight-index-write", "payload-layout", "headers.go", "payload[4] = h.weight", "payload[2] = h.weight")
	mutant("headers-dependency-slot", "payload-layout", "headers.go", "http2utils.Uint32ToBytes(payload[0:4], h.stream)", "http2utils.Uint32ToBytes(payload[1:5], h.stream)")
	mutant("headers-shift-short", "payload-layout", "headers.go", "payload = append(payload, 0, 0, 0, 0, 0)", "payload = append(payload, 0, 0, 0, 0)")
	mutant("headers-block-after-priority", "payload-layout", "headers.go", "		payload = payload[5:]", "		payload = payload[4:]")
	mutant("pushpromise-block-offset", "payload-layout", "pushpromise.go", "pp.header = append(pp.header, payload[4:]...)", "pp.header = append(pp.header, payload[5:]...)")
	mutant("ping-data-not-read", "payload-layout", "ping.go", "	p.SetData(frh.payload)\n", "")
	mutant("settings-id-low-octet", "settings-codec-table", "settings.go", "key = uint16(b[0])<<8 | uint16(b[1])", "key = uint16(b[0])<<8 | uint16(b[2])")
	mutant("settings-value-low-octet", "settings-codec-table", "settings.go", "uint32(b[4])<<8 | uint32(b[5])", "uint32(b[4])<<8 | uint32(b[4])")
	mutant("settings-last-entry-skipped", "settings-codec-table", "settings.go", "	for i <= n {", "	for i < n {")
	mutant("settings-push-literal", "settings-codec-table", "settings.go", "		0, 0, 0, push,", "		0, 0, push, 0,")
	mutant("settings-push-rejects-all", "settings-validate", "settings.go", "if value != 0 && value != 1 {", "if value != 0 || value != 1 {")
	mutant("settings-framesize-accepts-all", "settings-validate", "settings.go", "if value < 1<<14 || value > 1<<24-1 {", "if value < 1<<14 && value > 1<<24-1 {")
	mutant("settings-table-size-inverted", "settings-encode-defaults", "settings.go", "	st.rawSettings = append(st.rawSettings,\n		byte(HeaderTableSize>>8), byte(HeaderTableSize),\n		byte(st.tableSize>>24), byte(st.tableSize>>16),\n		byte(st.tableSize>>8), byte(st.tableSize),\n	)\n", "	if st.tableSize == 0 {\n		st.rawSettings = append(st.rawSettings,\n			byte(HeaderTableSize>>8), byte(HeaderTableSize),\n			byte(st.tableSize>>24), byte(st.tableSize>>16),\n			byte(st.tableSize>>8), byte(st.tableSize),\n		)\n	}\n")
}

// Variants for the building-block rules (rules_hygiene.go), reset values and copy completeness.
func init() {
	mutant("flag-has-inverted", "flag-ops", "frame.go", "	return flags&f == f", "	return flags&f != f")
	mutant("flag-has-any-bit", "flag-ops", "frame.go", "	return flags&f == f", "	return flags&f != 0")
	mutant("flag-add-is-and", "flag-ops", "frame.go", "	return flags | f", "	return flags & f")
	mutant("headers-endstream-setter-noop", "accessor-pairing", "headers.go", "	h.endStream = value\n", "")
	mutant("headers-endheaders-crosswired", "accessor-pairing", "headers.go", "	h.endHeaders = value\n", "	h.endStream = value\n")
	mutant("frameheader-setstream-noop", "accessor-pairing", "frameHeader.go", "	f.stream = stream\n", "")
	mutant("settings-tablesize-setter-noop", "accessor-pairing", "settings.go", "	st.tableSize = size\n", "")
	mutant("windowupdate-setter-noop", "accessor-pairing", "windowUpdate.go", "	wu.increment = increment\n", "")
	mutant("pseudo-test-inverted", "pseudo-header-test", "headerField.go", "	return len(hf.key) > 0 && hf.key[0] == ':'", "	return len(hf.key) > 0 && hf.key[0] != ':'")
	mutant("pseudo-test-second-octet", "pseudo-header-test", "headerField.go", "	return len(hf.key) > 0 && hf.key[0] == ':'", "	return len(hf.key) > 1 && hf.key[1] == ':'")
	mutant("search-returns-other", "stream-table-ops", "streams.go", "		if strm.ID() == id {\n			return strm\n		}\n	}\n	return nil", "		if strm.ID() != id {\n			return strm\n		}\n	}\n	return nil")
	mutant("del-drops-neighbour", "stream-table-ops", "streams.go", "append((*strms)[:i], (*strms)[i+1:]...)", "append((*strms)[:i], (*strms)[i+2:]...)")
	mutant("del-empties-on-absent-id", "stream-table-ops", "streams.go", "	if len(*strms) == 1 && (*strms)[0].ID() == id {", "	if len(*strms) == 1 || (*strms)[0].ID() == id {")
	mutant("settings-reset-window-default", "reset-completeness", "settings.go", "	st.windowSize = defaultWindowSize\n", "	st.windowSize = defaultDataFrameSize\n")
	mutant("headers-reset-endstream-set", "reset-completeness", "headers.go", "	h.endStream = false\n", "	h.endStream = true\n")
	mutant("frameheader-reset-stream-one", "reset-completeness", "frameHeader.go", "	f.stream = 0\n", "	f.stream = 1\n")
	mutant("headerfield-copy-misses-sensible", "settings-copy-complete", "headerField.go", "	other.sensible = hf.sensible\n", "")
	mutant("headerfield-copy-extends-value", "settings-copy-complete", "headerField.go", "	other.value = append(other.value[:0], hf.value...)", "	other.value = append(other.value, hf.value...)")
}

// Variants for padding-shape and frame-io-bounds.
func init() {
	mutant("cutpadding-rejects-legal-pad", "padding-shape", "http2utils/utils.go", "	if len(payload) < length-pad-1 || length-pad < 1 {", "	if len(payload) < length+pad-1 || length-pad < 1 {")
	mutant("cutpadding-first-test-conjunction", "padding-shape", "http2utils/utils.go", "	if len(payload) == 0 || length < 1 || length > len(payload) {", "	if len(payload) == 0 && length < 1 || length > len(payload) {")
	mutant("cutpadding-length-one-refused", "padding-shape", "http2utils/utils.go", "	if len(payload) == 0 || length < 1 || length > len(payload) {", "	if len(payload) == 0 || length <= 1 || length > len(payload) {")
	mutant("addpadding-wraps", "padding-shape", "http2utils/utils.go", "	n := int(fastrand.Uint32n(256-9)) + 9", "	n := int(fastrand.Uint32n(257-9)) + 9")
	mutant("addpadding-short-tail", "padding-shape", "http2utils/utils.go", "	b = Resize(b, nn+n)", "	b = Resize(b, nn+n-1)")
	mutant("addpadding-stale-tail", "padding-shape", "http2utils/utils.go", "	clear(b[nn+1:])\n", "")
	mutant("checklen-never-enforced", "frame-io-bounds", "frameHeader.go", "	if f.maxLen != 0 && f.length > int(f.maxLen) {", "	if f.maxLen == 0 && f.length > int(f.maxLen) {")
	mutant("checklen-nonstrict", "frame-io-bounds", "frameHeader.go", "	if f.maxLen != 0 && f.length > int(f.maxLen) {", "	if f.maxLen != 0 && f.length >= int(f.maxLen) {")
	mutant("reader-bound-dropped", "frame-io-bounds", "frameHeader.go", "	fr := AcquireFrameHeader()\n	fr.maxLen = max\n", "	fr := AcquireFrameHeader()\n")
	mutant("one-octet-payload-unread", "frame-io-bounds", "frameHeader.go", "	if f.length > 0 {\n		n := f.length", "	if f.length > 1 {\n		n := f.length")
	mutant("reader-count-wrong", "frame-io-bounds", "frameHeader.go", "		rn += int64(n)", "		rn -= int64(n)")
}

func init() {
	mutant("stream-limit-not-configured", "config-reaches-enforcement", "server.go", "	sc.st.SetMaxConcurrentStreams(uint32(s.cnf.MaxConcurrentStreams))\n", "")
	mutant("header-limit-not-configured", "config-reaches-enforcement", "server.go", "		maxHeaderList:  s.cnf.MaxHeaderListSize,", "		maxHeaderList:  DefaultMaxHeaderListSize,")
	mutant("window-accounting-detached", "config-reaches-enforcement", "server.go", "	sc.currentWindow = sc.maxWindow\n", "	sc.currentWindow = 1 << 16\n")
	mutant("body-limit-ignored", "config-reaches-enforcement", "server.go", "	if s.MaxRequestBodySize > 0 {\n		return s.MaxRequestBodySize\n	}\n", "")
	mutant("stream-limit-default-zero", "config-reaches-enforcement", "server.go", "	if sc.MaxConcurrentStreams <= 0 {", "	if sc.MaxConcurrentStreams < 0 {")
	mutant("send-window-starts-wrong", "config-reaches-enforcement", "serverConn.go", "	sc.clientWindow = int64(defaultWindowSize)", "	sc.clientWindow = int64(defaultDataFrameSize)")
}

// Variants for hpack-primitives, dec-effects and hpack-table-accounting.
func init() {
	mutant("readint-mask-off", "hpack-primitives", "hpack.go", "	b0 := byte(1<<n - 1)", "	b0 := byte(1<<n + 1)")
	mutant("readint-short-cursor", "hpack-primitives", "hpack.go", "		return b[1:], uint64(b[0] & b0), nil", "		return b[2:], uint64(b[0] & b0), nil")
	mutant("readint-short-value-octet", "hpack-primitives", "hpack.go", "		return b[1:], uint64(b[0] & b0), nil", "		return b[1:], uint64(b[1] & b0), nil")
	mutant("readint-loop-starts-late", "hpack-primitives", "hpack.go", "	for i := 1; i < len(b); i++ {", "	for i := 2; i < len(b); i++ {")
	mutant("readint-shift-base", "hpack-primitives", "hpack.go", "		if shift := (i - 1) * 7; shift >= 63 {", "		if shift := (i + 1) * 7; shift >= 63 {")
	mutant("readint-empty-guard-gone", "hpack-primitives", "hpack.go", "func readInt(n int, b []byte) ([]byte, uint64, error) {\n	if len(b) == 0 {\n		return b, 0, ErrUnexpectedSize\n	}\n", "func readInt(n int, b []byte) ([]byte, uint64, error) {\n")
	mutant("readint-stop-bit", "hpack-primitives", "hpack.go", "		if b[i]&128 != 128 {", "		if b[i]&128 == 128 {")
	mutant("appendint-prefix-octet-index", "hpack-primitives", "hpack.go", "		dst[len(dst)-1] |= byte(index)", "		dst[len(dst)-2] |= byte(index)")
	mutant("appendint-empty-test-inverted", "hpack-primitives", "hpack.go", "	if len(dst) == 0 {\n		dst = append(dst, 0)\n	}\n	b0 := uint64(1<<bits - 1)", "	if len(dst) != 0 {\n		dst = append(dst, 0)\n	}\n	b0 := uint64(1<<bits - 1)")
	mutant("readstring-hbit-mask", "hpack-primitives", "hpack.go", "	mustDecode := b[0]&128 == 128 // huffman encoded", "	mustDecode := b[0]&129 == 129 // huffman encoded")
	mutant("readstring-length-prefix", "hpack-primitives", "hpack.go", "	b, n, err := readInt(7, b)\n	if err != nil {\n		return b, dst, err", "	b, n, err := readInt(8, b)\n	if err != nil {\n		return b, dst, err")
	mutant("readstring-exact-length-refused", "hpack-primitives", "hpack.go", "	if uint64(len(b)) < n {", "	if uint64(len(b)) <= n {")
	mutant("appendstring-hbit-value", "hpack-primitives", "hpack.go", "		dst[nn] |= 128 // setting H bit", "		dst[nn] |= 64 // setting H bit")
	mutant("appendstring-mark-off", "hpack-primitives", "hpack.go", "	dst = append(dst, 0)\n	nn := len(dst) - 1\n", "	dst = append(dst, 0)\n	nn := len(dst) - 2\n")
	mutant("dec-indexed-not-copied", "dec-effects", "hpack.go", "		hf2.CopyTo(hf)\n", "")
	mutant("dec-name-mode-inverted-inc", "dec-effects", "hpack.go", "		if c != 64 { // Read key as index", "		if c == 64 { // Read key as index")
	mutant("dec-name-mode-mask-noindex", "dec-effects", "hpack.go", "		if c&15 != 0 { // Reading key as index", "		if c&7 != 0 { // Reading key as index")
	mutant("dec-indexed-name-dropped", "dec-effects", "hpack.go", "			hf.SetKeyBytes(hf2.KeyBytes())\n", "")
	mutant("dec-literal-name-stale-prefix", "dec-effects", "hpack.go", "			b, dst, err = readString(dst[:0], b)\n			if err == nil {\n				hf.SetKeyBytes(dst)\n			}\n\n			*scratch = dst\n			releaseScratch(scratch)\n		}\n\n		// Reading value\n		if err == nil {\n			if len(b) == 0 {\n				// The field is cut short: its value is in the bytes that have\n				// not arrived yet.\n				return b, ErrUnexpectedSize\n			}\n\n			scratch := acquireScratch()\n			dst := *scratch\n\n			b, dst, err = readString(dst[:0], b)\n			if err == nil {\n				hf.SetValueBytes(dst)\n				// add", "			b, dst, err = readString(dst[:1], b)\n			if err == nil {\n				hf.SetKeyBytes(dst)\n			}\n\n			*scratch = dst\n			releaseScratch(scratch)\n		}\n\n		// Reading value\n		if err == nil {\n			if len(b) == 0 {\n				// The field is cut short: its value is in the bytes that have\n				// not arrived yet.\n				return b, ErrUnexpectedSize\n			}\n\n			scratch := acquireScratch()\n			dst := *scratch\n\n			b, dst, err = readString(dst[:0], b)\n			if err == nil {\n				hf.SetValueBytes(dst)\n				// add")
	mutant("dec-size-update-always-refused", "dec-effects", "hpack.go", "		if !blockStart || fieldsProcessed > 0 {", "		if !blockStart || fieldsProcessed >= 0 {")
	mutant("dec-size-update-after-field", "dec-effects", "hpack.go", "		if !blockStart || fieldsProcessed > 0 {", "		if !blockStart || fieldsProcessed > 1 {")
	mutant("dec-empty-block-guard-gone", "dec-effects", "hpack.go", "loop:\n	if len(b) == 0 {\n		return b, nil\n	}\n\n	c = b[0]", "loop:\n	if len(b) == 1 {\n		return b, nil\n	}\n\n	c = b[0]")
	mutant("next-not-block-start", "dec-effects", "hpack.go", "	return hp.nextField(hf, true, 0, b)", "	return hp.nextField(hf, true, 1, b)")
	mutant("entry-size-overhead", "hpack-table-accounting", "headerField.go", "	return uint32(len(hf.key) + len(hf.value) + 32)", "	return uint32(len(hf.key) + len(hf.value) + 31)")
	mutant("table-size-not-summed", "hpack-table-accounting", "hpack.go", "		n += hf.Size()", "		n = hf.Size()")
	mutant("evict-adds-size", "hpack-table-accounting", "hpack.go", "		tableSize -= hp.dynamic[n].Size()", "		tableSize += hp.dynamic[n].Size()")
	mutant("evict-skips-oldest", "hpack-table-accounting", "hpack.go", "	for n = 0; n < len(hp.dynamic) && tableSize > hp.maxTableSize; n++ {", "	for n = 1; n < len(hp.dynamic) && tableSize > hp.maxTableSize; n++ {")
	mutant("full-match-on-either", "hpack-table-accounting", "hpack.go", "		if fullMatch = bytes.Equal(hf.key, hf2.key) && bytes.Equal(hf.value, hf2.value); fullMatch {", "		if fullMatch = bytes.Equal(hf.key, hf2.key) || bytes.Equal(hf.value, hf2.value); fullMatch {")
	mutant("size-update-limit-not-stored", "hpack-table-accounting", "hpack.go", "	hp.maxTableSizeSettings = size\n", "")
}

func init() {
	mutant("peek-bounds-conjunction", "hpack-table-index", "hpack.go", "	if index < 0 || index >= len(table) {", "	if index < 0 && index >= len(table) {")
	mutant("dec-dispatch-second-octet", "dec-effects", "hpack.go", "	c = b[0]\n", "	c = b[1]\n")
	mutant("dec-int-error-swallowed", "dec-effects", "hpack.go", "		if b, n, err = readInt(7, b); err != nil {", "		if b, n, err = readInt(7, b); err == nil {")
	mutant("dec-one-octet-value-refused", "dec-effects", "hpack.go", "		// Reading value\n		if err == nil {\n			if len(b) == 0 {\n				// The field is cut short: its value is in the bytes that have\n				// not arrived yet.\n				return b, ErrUnexpectedSize\n			}\n\n			scratch := acquireScratch()\n			dst := *scratch\n\n			b, dst, err = readString(dst[:0], b)\n			if err == nil {\n				hf.SetValueBytes(dst)\n				// add", "		// Reading value\n		if err == nil {\n			if len(b) == 1 {\n				// The field is cut short: its value is in the bytes that have\n				// not arrived yet.\n				return b, ErrUnexpectedSize\n			}\n\n			scratch := acquireScratch()\n			dst := *scratch\n\n			b, dst, err = readString(dst[:0], b)\n			if err == nil {\n				hf.SetValueBytes(dst)\n				// add")
	mutant("readstring-length-error-ignored", "hpack-primitives", "hpack.go", "	b, n, err := readInt(7, b)\n	if err != nil {\n		return b, dst, err\n	}\n", "	b, n, err := readInt(7, b)\n")
	mutant("readstring-decode-error-ignored", "hpack-primitives", "hpack.go", "	if err != nil {\n		return b, nil, err\n	}\n\n	b = b[n:]", "	if err == nil {\n		return b, nil, err\n	}\n\n	b = b[n:]")
	mutant("appendstring-dirty-scratch", "hpack-primitives", "hpack.go", "		b = HuffmanEncode((*scratch)[:0], src)", "		b = HuffmanEncode((*scratch)[:1], src)")
	mutant("append-header-field-dropped", "enc-entry-points", "hpack.go", "	h.rawHeaders = hp.AppendHeader(h.rawHeaders, hf, store)\n", "	_ = hp.AppendHeader(h.rawHeaders, hf, store)\n")
	mutant("size-update-pattern", "enc-entry-points", "hpack.go", "		dst = appendInt(append(dst, 0x20), 5, uint64(hp.maxTableSize))", "		dst = appendInt(append(dst, 0x20), 4, uint64(hp.maxTableSize))")
}

func init() {
	mutant("uppercase-range-open", "text-primitives", "strings.go", "		if c >= 'A' && c <= 'Z' {\n			return true", "		if c > 'A' && c <= 'Z' {\n			return true")
	mutant("uppercase-either", "text-primitives", "strings.go", "		if c >= 'A' && c <= 'Z' {\n			return true", "		if c >= 'A' || c <= 'Z' {\n			return true")
	mutant("parseuint-nine-not-a-digit", "text-primitives", "strings.go", "		if c < '0' || c > '9' {", "		if c < '0' || c >= '9' {")
	mutant("parseuint-overflow-divisor", "text-primitives", "strings.go", "		if n > (maxInt-int(c-'0'))/10 {", "		if n > (maxInt-int(c-'0'))/11 {")
	mutant("parseuint-accumulates-wrong", "text-primitives", "strings.go", "		n = n*10 + int(c-'0')", "		n = n*10 - int(c-'0')")
	mutant("parseuint-empty-is-zero", "text-primitives", "strings.go", "	if len(b) == 0 {\n		return 0, errInvalidUint\n	}\n\n	n := 0", "	n := 0")
	mutant("status-999-becomes-500", "text-primitives", "strings.go", "	if code < 100 || code > 999 {", "	if code < 100 || code >= 999 {")
	mutant("status-table-short", "text-primitives", "strings.go", "	for i := 100; i < 1000; i++ {", "	for i := 101; i < 1000; i++ {")
}

func init() {
	mutant("server-without-defaults", "server-construction", "configure.go", "	s2.cnf.defaults()\n", "")
	mutant("configure-server-skips-defaults", "server-construction", "configure.go", "	cnf.defaults()\n\n	s2 := &Server{", "	s2 := &Server{")
	mutant("preface-partial-accepted", "server-construction", "http2.go", "	if err == nil && n == prefaceLen {", "	if err == nil || n == prefaceLen {")
}

// Variants for client-request-shape.
func init() {
	mutant("client-path-not-emitted", "client-request-shape", "conn.go", "	hf.SetBytes(StringPath, req.URI().RequestURI())\n	enc.AppendHeaderField(h, hf, true)\n", "	hf.SetBytes(StringPath, req.URI().RequestURI())\n")
	mutant("client-authority-from-header", "client-request-shape", "conn.go", "	hf.SetBytes(StringAuthority, req.URI().Host())", "	hf.SetBytes(StringAuthority, req.Header.Host())")
	mutant("client-field-not-lowered", "client-request-shape", "conn.go", "		hf.SetBytes(k, v)\n		ToLower(hf.key)\n", "		hf.SetBytes(k, v)\n")
	mutant("client-field-not-emitted", "client-request-shape", "conn.go", "		enc.AppendHeaderField(h, hf, false)\n	}\n\n	h.SetPadding(false)", "	}\n\n	h.SetPadding(false)")
	mutant("client-one-octet-body-dropped", "client-request-shape", "conn.go", "	hasBody := bodyStream || len(req.Body()) != 0", "	hasBody := bodyStream || len(req.Body()) > 1")
	mutant("client-endstream-always", "client-request-shape", "conn.go", "	h.SetEndStream(!hasBody)", "	h.SetEndStream(true)")
	mutant("client-stream-id-step", "client-request-shape", "conn.go", "	atomic.StoreUint32(&c.nextID, id+2)", "	atomic.StoreUint32(&c.nextID, id+1)")
	mutant("client-slot-never-returned", "client-request-shape", "conn.go", "	if c.takeReq(stream) {\n		atomic.AddInt32(&c.openStreams, -1)\n	}", "	c.takeReq(stream)")
	mutant("client-hasmore-one-octet", "client-request-shape", "conn.go", "	return len(pb.body) > 0 || (pb.stream != nil && !pb.drained)", "	return len(pb.body) > 1 || (pb.stream != nil && !pb.drained)")
	mutant("client-idle-test-one", "client-request-shape", "conn.go", "		if n == 0 && !end {\n			return nil\n		}", "		if n <= 1 && !end {\n			return nil\n		}")
	mutant("client-conn-window-not-debited", "client-request-shape", "conn.go", "		c.connWindow -= int32(n)\n", "")
	mutant("client-short-read-dropped", "client-request-shape", "conn.go", "	n, err := pb.stream.Read(buf)\n	if n > 0 {", "	n, err := pb.stream.Read(buf)\n	if n > 1 {")
	mutant("client-declared-length-ignored", "client-request-shape", "conn.go", "	if pb.size >= 0 && pb.read >= pb.size {", "	if pb.size >= 0 && pb.read > pb.size {")
	mutant("client-handshake-credit", "client-request-shape", "conn.go", "Handshake(true, c.bw, &c.current, c.maxWindow-65535)", "Handshake(true, c.bw, &c.current, c.maxWindow+65535)")
	mutant("client-handshake-no-ack", "client-request-shape", "conn.go", "			stRes.SetAck(true)\n", "")
	mutant("client-handshake-framesize-ignored", "client-request-shape", "conn.go", "			c.maxFrameSize = c.serverS.MaxFrameSize()\n", "")
	mutant("client-window-constants-differ", "client-request-shape", "conn.go", "	nc.current.SetMaxWindowSize(1 << 20)", "	nc.current.SetMaxWindowSize(1 << 21)")
}

func init() {
	mutant("window-update-zero-increment", "emitter-payloads", "conn.go", "	wu.SetIncrement(size)\n", "")
	mutant("server-window-update-zero-increment", "emitter-payloads", "serverConn.go", "	wu.SetIncrement(inc)\n", "")
	mutant("reset-code-dropped", "emitter-payloads", "serverConn.go", "	r.SetCode(code)\n", "")
	mutant("ping-answer-without-ack", "emitter-payloads", "serverConn.go", "	ack.SetAck(true)\n	ack.SetData(ping.Data())\n\n	fr := AcquireFrameHeader()\n	fr.SetBody(ack)\n\n	sc.write(fr)", "	ack.SetData(ping.Data())\n\n	fr := AcquireFrameHeader()\n	fr.SetBody(ack)\n\n	sc.write(fr)")
	mutant("ping-answer-without-data", "emitter-payloads", "conn.go", "	ack.SetData(ping.Data())\n", "")
	mutant("goaway-code-dropped", "emitter-payloads", "serverConn.go", "	ga.SetCode(code)\n", "")
	mutant("client-settings-ack-not-queued", "emitter-payloads", "conn.go", "	fr.SetBody(stRes)\n\n	c.writeOut(fr)\n\n	return nil\n}", "	fr.SetBody(stRes)\n\n	return nil\n}")
	mutant("client-data-not-appended", "client-response-shape", "conn.go", "			res.AppendBody(data.Data())\n", "")
	mutant("client-one-octet-data-dropped", "client-response-shape", "conn.go", "		if data.Len() != 0 {", "		if data.Len() > 1 {")
	mutant("client-status-range-conjunction", "client-response-shape", "conn.go", "			if err != nil || len(hf.ValueBytes()) != 3 || n < 100 || n > 999 {", "			if err != nil || len(hf.ValueBytes()) != 3 || n < 100 && n > 999 {")
	mutant("client-status-not-stored", "client-response-shape", "conn.go", "			res.SetStatusCode(n)\n", "")
	mutant("client-regular-not-marked", "client-response-shape", "conn.go", "		c.block.regularSeen = true\n", "		c.block.regularSeen = false\n")
	mutant("client-fields-dropped", "client-response-shape", "conn.go", "			res.Header.AddBytesKV(hf.KeyBytes(), hf.ValueBytes())\n", "")
	mutant("client-initial-window-not-applied", "client-response-shape", "conn.go", "		if err := c.applyInitialWindow(int32(st.MaxWindowSize())); err != nil {\n			// Not acknowledged: the frame is the end of the connection.\n			return err\n		}\n", "")
	mutant("client-settings-not-kept", "client-response-shape", "conn.go", "	st.applyTo(&c.serverS)\n\n	atomic.StoreUint32(&c.maxStreams", "	atomic.StoreUint32(&c.maxStreams")
}

func init() {
	mutant("acquire-after-takeback", "ctx-ownership-protocol", "client.go", "	if ctx.done {\n		ctx.lck.Unlock()\n		return false\n	}\n\n	return true\n}\n\n// acquireFor", "	return true\n}\n\n// acquireFor")
	mutant("acquirefor-any-stream", "ctx-ownership-protocol", "client.go", "	if ctx.done || ctx.conn.Load() != c || atomic.LoadUint32(&ctx.streamID) != id {", "	if ctx.done || ctx.conn.Load() != c && atomic.LoadUint32(&ctx.streamID) != id {")
	mutant("acquirefor-other-conn", "ctx-ownership-protocol", "client.go", "	if ctx.done || ctx.conn.Load() != c || atomic.LoadUint32(&ctx.streamID) != id {", "	if ctx.done || atomic.LoadUint32(&ctx.streamID) != id {")
	mutant("finished-never-marked", "ctx-ownership-protocol", "client.go", "	ctx.finished = true\n", "")
	mutant("reusable-either", "ctx-ownership-protocol", "client.go", "	return stopped && ctx.finished", "	return stopped || ctx.finished")
	mutant("timer-armed-unrecorded", "ctx-ownership-protocol", "client.go", "		ctx.armed = true\n", "")
	mutant("retryable-conjunction", "retry-predicate", "client.go", "	return errors.Is(err, ErrConnectionClosed) ||\n		errors.Is(err, ErrNotAvailableStreams) ||", "	return errors.Is(err, ErrConnectionClosed) ||\n		errors.Is(err, ErrNotAvailableStreams) &&")
	mutant("retryable-includes-timeout", "retry-predicate", "client.go", "		errors.Is(err, ErrNoMoreStreamIDs)\n}", "		errors.Is(err, ErrNoMoreStreamIDs) ||\n		errors.Is(err, ErrRequestCanceled)\n}")
	mutant("roundtrip-retries-everything", "retry-predicate", "client.go", "		if err == nil || !retryable(err) {", "		if err == nil && !retryable(err) {")
	mutant("roundtrip-flags-retry-on-processed", "retry-predicate", "client.go", "		if err == nil || !retryable(err) {\n			return false, err", "		if err == nil || !retryable(err) {\n			return err != nil, err")
}

func init() {
	mutant("huff-subtable-created-when-present", "huffman-tree-build", "huffman.go", "		if node.sub[i] == nil {", "		if node.sub[i] != nil {")
	mutant("huff-descent-nine-bits", "huffman-tree-build", "huffman.go", "	for length > 8 {\n		length -= 8", "	for length > 8 {\n		length -= 9")
	mutant("huff-fill-start-unaligned", "huffman-tree-build", "huffman.go", "	start, end := int(uint8(code<<n)), 1<<n", "	start, end := int(uint8(code)), 1<<n")
}

func init() {
	mutant("end-stream-sent-twice", "send-loop-shape", "serverConn.go", "		if end {\n			// END_STREAM has gone out on this frame. Asking the body for more\n			// would read (0, io.EOF) and close the stream a second time.\n			break\n		}\n", "")
	mutant("last-frame-not-debited", "send-loop-shape", "serverConn.go", "		sc.write(fr)\n\n		strm.window -= step\n		sc.clientWindow -= step\n\n		if end {", "		sc.write(fr)\n\n		if end {\n			break\n		}\n\n		strm.window -= step\n		sc.clientWindow -= step\n\n		if end {")
	mutant("end-stream-while-data-left", "send-loop-shape", "serverConn.go", "		end := strm.pendingEnd && len(strm.pendingData) == 0", "		end := strm.pendingEnd && len(strm.pendingData) <= 1")
}

func init() {
	mutant("phantom-field-server", "no-phantom-field", "serverConn.go", "		if !sc.dec.fieldDecoded {\n			// The fragment ended in a dynamic table size update, which\n			// consumes input without producing a field: there is nothing to\n			// validate or to hand to the request yet.\n			break\n		}\n", "")
	mutant("phantom-guard-drops-last-field", "no-phantom-field", "serverConn.go", "		if !sc.dec.fieldDecoded {\n			// The fragment ended in a dynamic table size update, which\n			// consumes input without producing a field: there", "		if !sc.dec.fieldDecoded || len(b) == 0 {\n			// The fragment ended in a dynamic table size update, which\n			// consumes input without producing a field: there")
	mutant("phantom-field-client", "no-phantom-field", "conn.go", "		if !c.dec.fieldDecoded {\n			// The fragment ended in a dynamic table size update, which\n			// consumes input without producing a field, or in the middle of\n			// a field that the next frame completes.\n			break\n		}\n", "")
}

func init() {
	mutant("client-chunks-share-a-buffer", "chunk-storage-per-stream", "conn.go", "	buf := pb.buf[:defaultDataFrameSize]", "	buf := c.serverS.rawSettings[:defaultDataFrameSize]")
	mutant("client-refill-skipped-when-window-shut", "client-request-shape", "conn.go", "			c.sendLck.Unlock()\n\n			if err := c.refillPending(pb); err != nil {", "			blocked := pb.window <= 0 || c.connWindow <= 0\n\n			c.sendLck.Unlock()\n\n			if blocked {\n				return nil\n			}\n\n			if err := c.refillPending(pb); err != nil {")
}

func init() {
	mutant("flush-stops-at-first-blocked", "completion-closes-stream", "serverConn.go", "		if s.responded && !s.handlerRunning && s.hasMoreToSend() && sc.sendData(s) {\n			done = append(done, s)\n		}", "		if s.responded && !s.handlerRunning && s.hasMoreToSend() {\n			if !sc.sendData(s) {\n				break\n			}\n			done = append(done, s)\n		}")
	mutant("flush-closes-inside-walk", "completion-closes-stream", "serverConn.go", "		if s.responded && !s.handlerRunning && s.hasMoreToSend() && sc.sendData(s) {\n			done = append(done, s)\n		}", "		if s.responded && !s.handlerRunning && s.hasMoreToSend() && sc.sendData(s) {\n			done = append(done, s)\n			closeStream(s)\n		}")
}

func init() {
	mutant("oversized-insert-skipped", "hpack-table-accounting", "hpack.go", "	// append a copy\n	hf2 := AcquireHeaderField()", "	if hf.Size() > hp.maxTableSize {\n		return\n	}\n\n	// append a copy\n	hf2 := AcquireHeaderField()")
}

func init() {
	mutant("resume-skips-graceful-close", "frame-step-order", "serverConn.go", "				if sc.sendData(strm) {\n					strm.SetState(StreamStateClosed)\n				}\n			}\n\n			if strm.State() == StreamStateClosed {", "				if sc.sendData(strm) {\n					strm.SetState(StreamStateClosed)\n					closeStream(strm)\n\n					continue\n				}\n			}\n\n			if strm.State() == StreamStateClosed {")
}

func init() {
	mutant("client-stops-at-last-stream-frame", "client-goaway-drain", "conn.go", "			c.finish(r, fr.Stream(), nil)\n		}\n\n		return false\n	}\n\n	// A header block that does not decode", "			c.finish(r, fr.Stream(), nil)\n		}\n\n		return c.state == connStateClosed && fr.Stream() == c.closeRef\n	}\n\n	// A header block that does not decode")
	mutant("client-drained-ignores-lower-streams", "client-goaway-drain", "conn.go", "		if id <= c.closeRef {\n			return false\n		}", "		if id == c.closeRef {\n			return false\n		}")
	mutant("client-goaway-leaves-disclaimed-waiting", "client-goaway-drain", "conn.go", "				c.failAbove(ga.stream)\n", "")
	mutant("client-fails-promised-streams-too", "retryable-pre-wire", "conn.go", "		if id > last {\n			ids = append(ids, id)\n		}", "		if id >= last {\n			ids = append(ids, id)\n		}")
}

func init() {
	mutant("header-list-budget-per-block", "validator-state-monotone", "serverConn.go", "	if fr.Type() != FrameContinuation {\n		strm.blockFields = 0\n	}", "	if fr.Type() != FrameContinuation {\n		strm.blockFields = 0\n		strm.headerListSize = 0\n	}")
}

func init() {
	mutant("client-table-record-starts-at-zero", "settings-applied", "conn.go", "	nc.encTableSize = defaultHeaderTableSize\n	nc.encTableSizeSeen = defaultHeaderTableSize\n", "")
	mutant("client-handshake-marker-without-encoder", "settings-applied", "conn.go", "			c.enc.SetMaxTableSize(size)\n			c.encTableSize = size\n			c.encTableSizeSeen = size", "			c.encTableSize = size\n			c.encTableSizeSeen = size")
	mutant("cutpadding-pad-equals-length", "padding-shape", "http2utils/utils.go", "	if len(payload) < length-pad-1 || length-pad < 1 {", "	if len(payload) < length-pad-1 || pad > length {")
}

func init() {
	mutant("priority-on-idle-creates-stream", "table-insert-counted", "serverConn.go", "					if fr.Body().(*Priority).Stream() == fr.Stream() {\n						sc.writeGoAway(fr.Stream(), ProtocolError, \"stream that depends on itself\")\n						break loop\n					}\n\n					continue\n				}\n", "					if fr.Body().(*Priority).Stream() == fr.Stream() {\n						sc.writeGoAway(fr.Stream(), ProtocolError, \"stream that depends on itself\")\n						break loop\n					}\n				}\n")
}

func init() {
	mutant("dispatch-finishes-under-the-ctx-lock", "no-self-deadlock", "conn.go", "	err := c.readStreamOwned(fr, r)\n", "	defer r.release()\n\n	err := c.readStream(fr, r.Response)\n")
	mutant("write-failure-cleans-up-under-the-ctx-lock", "no-self-deadlock", "conn.go", "		release()\n		c.deletePending(id)\n", "		c.deletePending(id)\n")
}

func init() {
	mutant("send-lock-held-while-taking-the-ctx", "lock-order", "conn.go", "	delete(c.pending, id)\n	c.sendLck.Unlock()\n\n	if pb == nil {", "	delete(c.pending, id)\n	defer c.sendLck.Unlock()\n\n	if pb == nil {")
}

func init() {
	mutant("teardown-waits-for-ever", "server-teardown-bounded", "serverConn.go", "		select {\n		case <-writeDone:\n		case <-time.After(writeDrainTimeout):\n		}", "		<-writeDone")
	mutant("write-stop-never-closed", "server-teardown-bounded", "serverConn.go", "		close(sc.writeStop)\n	}()", "	}()")
	mutant("socket-left-open-by-writer", "server-teardown-bounded", "serverConn.go", "		defer func() {\n			_ = sc.c.Close()\n		}()\n\n		// Whoever is waiting", "		// Whoever is waiting")
}

func init() {
	mutant("handshake-sends-default-settings", "client-loop-shape", "conn.go", "	st.CopyTo(st2)\n", "")
	mutant("handshake-credit-dropped", "client-loop-shape", "conn.go", "		wu.SetIncrement(int(maxWin))\n", "")
	mutant("stream-window-update-ignored", "client-loop-shape", "conn.go", "			c.addWindow(fr.Stream(), int32(fr.Body().(*WindowUpdate).Increment()))\n", "")
	mutant("conn-window-update-on-stream-one", "client-loop-shape", "conn.go", "			c.addWindow(0, int32(fr.Body().(*WindowUpdate).Increment()))", "			c.addWindow(1, int32(fr.Body().(*WindowUpdate).Increment()))")
	mutant("routing-test-inverted", "client-loop-shape", "conn.go", "		if fr.Stream() != 0 {\n			// SETTINGS, PING and GOAWAY are about", "		if fr.Stream() == 0 {\n			// SETTINGS, PING and GOAWAY are about")
	mutant("goaway-last-stream-not-recorded", "client-loop-shape", "conn.go", "				c.closeRef = ga.stream\n", "")
	mutant("read-loop-leaves-on-both", "client-loop-shape", "conn.go", "		if stop || c.drained() {", "		if stop && c.drained() {")
	mutant("finished-response-not-resolved", "client-loop-shape", "conn.go", "			c.finish(r, fr.Stream(), nil)\n", "")
	mutant("failed-response-reported-as-success", "client-loop-shape", "conn.go", "	c.finish(r, fr.Stream(), err)\n", "	c.finish(r, fr.Stream(), nil)\n")
	mutant("ctx-not-bound-to-its-connection", "client-loop-shape", "conn.go", "	ctx.conn.Store(c)\n", "")
	mutant("release-closure-unlocks-twice", "client-loop-shape", "conn.go", "			released = true\n\n			ctx.release()", "			released = false\n\n			ctx.release()")
	mutant("chunk-sent-again", "client-loop-shape", "conn.go", "		pb.body = pb.body[n:]\n", "")
	mutant("end-stream-on-every-data-frame", "client-loop-shape", "conn.go", "		data.SetEndStream(end && i+step == len(body))", "		data.SetEndStream(end || i+step == len(body))")
	mutant("close-error-can-be-nil", "client-loop-shape", "conn.go", "	if err := c.LastErr(); err != nil {\n		return err\n	}\n\n	return ErrConnectionClosed", "	if err := c.LastErr(); err == nil {\n		return err\n	}\n\n	return ErrConnectionClosed")
	mutant("streamed-body-not-registered", "client-loop-shape", "conn.go", "			pb.stream = req.BodyStream()\n", "")
}

func init() {
	mutant("frame-error-branch-inverted", "error-polarity", "serverConn.go", "			if err := sc.handleFrame(strm, fr); err != nil {", "			if err := sc.handleFrame(strm, fr); err == nil {")
	mutant("read-error-branch-inverted", "error-polarity", "serverConn.go", "		fr, err = ReadFrameFromWithSize(sc.br, sc.st.frameSize)\n		if err != nil {", "		fr, err = ReadFrameFromWithSize(sc.br, sc.st.frameSize)\n		if err == nil {")
	mutant("flush-only-after-a-failed-write", "error-polarity", "conn.go", "	err := c.writeHeaderBlock(fr, h)\n	if err == nil {\n		err = c.bw.Flush()\n	}\n\n	c.bwLck.Unlock()\n\n	ReleaseHeaderField(hf)", "	err := c.writeHeaderBlock(fr, h)\n	if err != nil {\n		err = c.bw.Flush()\n	}\n\n	c.bwLck.Unlock()\n\n	ReleaseHeaderField(hf)")
	mutant("decode-error-branch-inverted", "error-polarity", "serverConn.go", "		b, err = sc.dec.nextField(hf, strm.blockFields == 0, strm.blockFields, b)\n		if err != nil {", "		b, err = sc.dec.nextField(hf, strm.blockFields == 0, strm.blockFields, b)\n		if err == nil {")
	mutant("client-handshake-error-ignored", "error-polarity", "conn.go", "	if err = Handshake(true, c.bw, &c.current, c.maxWindow-65535); err != nil {", "	if err = Handshake(true, c.bw, &c.current, c.maxWindow-65535); err == nil {")
}

func init() {
	mutant("refused-stream-not-told", "server-loop-shape", "serverConn.go", "					sc.writeReset(fr.Stream(), RefusedStreamError)\n", "")
	mutant("highest-accepted-id-not-recorded", "server-loop-shape", "serverConn.go", "					openStreams++\n					atomic.StoreUint32(&sc.lastID, fr.Stream())\n", "					openStreams++\n")
	mutant("closing-test-disjunction", "server-loop-shape", "serverConn.go", "			if wasClosing && canCloseAfterGoAway() {", "			if wasClosing || canCloseAfterGoAway() {")
	mutant("length-mismatch-needs-no-declaration", "server-loop-shape", "serverConn.go", "				if strm.hasContentLength && strm.recvBody != strm.contentLength {", "				if strm.hasContentLength || strm.recvBody != strm.contentLength {")
	mutant("goaway-reference-not-recorded", "server-loop-shape", "serverConn.go", "		atomic.StoreUint32(&sc.closeRef, last)\n", "")
	mutant("stream-error-not-answered", "server-loop-shape", "serverConn.go", "		sc.resetStream(strm, streamErr.Code())\n", "")
	mutant("incomplete-block-counts-as-finished", "server-loop-shape", "serverConn.go", "			strm.headersFinished = len(strm.previousHeaderBytes) == 0", "			strm.headersFinished = len(strm.previousHeaderBytes) >= 0")
	mutant("pseudo-header-presence-conjunction", "server-loop-shape", "serverConn.go", "	if !strm.pseudoMethod || !strm.pseudoScheme || !strm.pseudoPath {", "	if !strm.pseudoMethod && !strm.pseudoScheme || !strm.pseudoPath {")
	mutant("zero-window-increment-accepted", "server-loop-shape", "serverConn.go", "		if win == 0 {\n			return NewResetStreamError(ProtocolError, \"window increment of 0\")\n		}\n", "")
	mutant("content-length-marker-unset", "server-loop-shape", "serverConn.go", "			strm.hasContentLength = true\n", "")
	mutant("te-rule-disjunction", "server-loop-shape", "serverConn.go", "		if bytes.Equal(k, StringTE) && !bytes.Equal(v, StringTrailers) {", "		if bytes.Equal(k, StringTE) || !bytes.Equal(v, StringTrailers) {")
	mutant("response-headers-without-end-headers", "server-loop-shape", "serverConn.go", "	if len(block) <= maxDataFrameSize {\n		h.SetEndHeaders(true)\n\n		sc.write(fr)", "	if len(block) <= maxDataFrameSize {\n		sc.write(fr)")
	mutant("buffered-body-not-registered", "server-loop-shape", "serverConn.go", "		strm.pendingData = ctx.Response.Body()\n", "")
}

func init() {
	mutant("response-without-status", "server-response-encoding", "serverConn.go", "	hf.SetValueBytes(statusBytes(res.Header.StatusCode()))\n\n	dst.AppendHeaderField(hp, hf, true)\n", "	hf.SetValueBytes(statusBytes(res.Header.StatusCode()))\n")
	mutant("response-fields-dropped", "server-response-encoding", "serverConn.go", "		ToLower(hf.key)\n\n		dst.AppendHeaderField(hp, hf, false)\n", "		ToLower(hf.key)\n")
	mutant("response-names-not-lowered", "server-response-encoding", "serverConn.go", "		hf.SetBytes(k, v)\n		ToLower(hf.key)\n\n		dst.AppendHeaderField(hp, hf, false)", "		hf.SetBytes(k, v)\n\n		dst.AppendHeaderField(hp, hf, false)")
	mutant("write-loop-flushes-only-when-busy", "server-response-encoding", "serverConn.go", "		if err == nil && (len(sc.writer) == 0 || buffered > 10) {", "		if err == nil && (len(sc.writer) != 0 || buffered > 10) {")
	mutant("panic-keeps-half-written-response", "server-response-encoding", "serverConn.go", "				ctx.Response.Reset()\n				ctx.Response.SetStatusCode(fasthttp.StatusInternalServerError)", "				ctx.Response.SetStatusCode(fasthttp.StatusInternalServerError)")
	mutant("block-start-flag-inverted", "server-response-encoding", "serverConn.go", "b, err = sc.dec.nextField(hf, strm.blockFields == 0, strm.blockFields, b)", "b, err = sc.dec.nextField(hf, strm.blockFields != 0, strm.blockFields, b)")
	mutant("scheme-extends-the-default", "server-response-encoding", "serverConn.go", "				strm.scheme = append(strm.scheme[:0], v...)", "				strm.scheme = append(strm.scheme[:1], v...)")
	mutant("carried-bytes-decoded-again", "server-response-encoding", "serverConn.go", "	strm.previousHeaderBytes = b[:0]\n", "")
}

func init() {
	mutant("has-more-needs-both", "small-predicates", "stream.go", "	return len(s.pendingData) > 0 || s.bodyStream != nil", "	return len(s.pendingData) > 0 && s.bodyStream != nil")
	mutant("continuing-any-frame", "small-predicates", "stream.go", "	return fr.Type() == FrameContinuation && !s.headersFinished", "	return fr.Type() == FrameContinuation || !s.headersFinished")
	mutant("enable-push-inverted", "small-predicates", "settings.go", "			st.enablePush = value != 0", "			st.enablePush = value == 0")
	mutant("settings-ack-always-refused", "small-predicates", "settings.go", "	if st.IsAck() && len(fr.payload) > 0 {", "	if st.IsAck() || len(fr.payload) > 0 {")
	mutant("frame-payload-keeps-a-stale-octet", "replace-idiom", "frameHeader.go", "	f.payload = append(f.payload[:0], payload...)", "	f.payload = append(f.payload[:1], payload...)")
	mutant("stream-path-keeps-a-stale-octet", "replace-idiom", "stream.go", "	strm.path = strm.path[:0]", "	strm.path = strm.path[:1]")
	mutant("settings-encode-keeps-previous-octets", "replace-idiom", "settings.go", "func (st *Settings) Encode() {\n	st.rawSettings = st.rawSettings[:0]", "func (st *Settings) Encode() {\n	st.rawSettings = st.rawSettings[:6]")
}

func init() {
	mutant("trailers-must-fit-one-frame-again", "state-table", "serverConn.go", "		// Like any header block the trailers may go on in CONTINUATION frames.\n		// The block is open again until its END_HEADERS, and the request is\n		// not complete, and not dispatched, before that.\n		strm.headersFinished = false\n", "		if !fr.Flags().Has(FlagEndHeaders) {\n			return NewGoAwayError(ProtocolError, \"stream not open\")\n		}\n")
	mutant("trailer-block-dispatches-before-end-headers", "server-loop-shape", "serverConn.go", "		strm.headersFinished = false\n\n		// Trailers carry no pseudo-header fields", "		// Trailers carry no pseudo-header fields")
	mutant("settings-acknowledged-by-the-read-loop", "late-and-graceful-frames", "serverConn.go", "				// must not overtake the INITIAL_WINDOW_SIZE delta.\n				if !sc.forward(fr) {", "				// must not overtake the INITIAL_WINDOW_SIZE delta.\n				sc.handleSettings(st)\n				if !sc.forward(fr) {")
	mutant("settings-acknowledged-before-the-delta", "late-and-graceful-frames", "serverConn.go", "					st := fr.Body().(*Settings)\n					if st.hasWindowSize {", "					st := fr.Body().(*Settings)\n					sc.handleSettings(st)\n					if st.hasWindowSize {")
	mutant("peer-goaway-ends-the-read-loop", "late-and-graceful-frames", "serverConn.go", "			if ga.Code() != NoError {\n				err = fmt.Errorf(\"goaway: %s: %s\", ga.Code(), ga.Data())\n			}", "			err = fmt.Errorf(\"goaway: %s: %s\", ga.Code(), ga.Data())")
	mutant("late-window-update-is-an-error", "late-and-graceful-frames", "serverConn.go", "					if fr.Type() == FrameWindowUpdate {\n						// An id below", "					if fr.Type() == FrameWindowUpdate && sc.debug {\n						// An id below")
	mutant("client-drops-unowned-header-blocks", "late-and-graceful-frames", "conn.go", "		if fr.Type() == FrameData {\n			c.consumeConnWindow(fr.Len())\n		}\n\n		return c.skipHeaderBlock(fr)\n	}\n\n	// A canceled", "		if fr.Type() == FrameData {\n			c.consumeConnWindow(fr.Len())\n		}\n\n		return false\n	}\n\n	// A canceled")
	mutant("zero-reference-means-no-goaway", "conn-lifecycle", "serverConn.go", "		ref := atomic.LoadUint32(&sc.closeRef)\n\n		for _, strm := range strms {", "		ref := atomic.LoadUint32(&sc.closeRef)\n		if ref == 0 {\n			return false\n		}\n\n		for _, strm := range strms {")
	mutant("error-goaway-then-sleep", "conn-lifecycle", "serverConn.go", "						sc.writeGoAway(fr.Stream(), ProtocolError, \"RST_STREAM on idle stream\")\n\n						// No further frame may ever reach this loop, so this\n						// is the moment to notice that nothing is left to\n						// wait for.\n						if canCloseAfterGoAway() {\n							break loop\n						}\n", "						sc.writeGoAway(fr.Stream(), ProtocolError, \"RST_STREAM on idle stream\")\n")
}

func init() {
	mutant("new-stream-window-read-outside-the-lock", "access-discipline", "conn.go", "		c.sendLck.Lock()\n		pb.window = c.streamWindow\n		c.pending[id] = pb", "		pb.window = c.streamWindow\n		c.sendLck.Lock()\n		c.pending[id] = pb")
	allMutants = append(allMutants, Mutant{Name: "data-credited-under-the-ctx-again", Rule: "no-blocking-under-ctx-lock", Subs: []Subst{
		{File: "conn.go", Old: "	err := c.readStream(fr, r.Response)\n\n	if c.block.final {", New: "	if fr.Type() == FrameData {\n		c.creditData(fr)\n	}\n\n	err := c.readStream(fr, r.Response)\n\n	if c.block.final {"},
		{File: "conn.go", Old: "	if fr.Type() == FrameData {\n		c.creditData(fr)\n	}\n\n	if err == nil {", New: "	if err == nil {"},
	}})
	mutant("answered-data-never-credited", "data-must-credit", "conn.go", "	if fr.Type() == FrameData {\n		c.creditData(fr)\n	}\n\n	if err == nil {", "	if err == nil {")
	mutant("consumed-body-stream-test-inverted", "retry-predicate", "client.go", "		if streamed && !req.IsBodyStream() {", "		if streamed && req.IsBodyStream() {")
	mutant("consumed-body-stream-only-after-first-retry", "retry-predicate", "client.go", "		if streamed && !req.IsBodyStream() {", "		if streamed && !req.IsBodyStream() && attempt > 0 {")
	mutant("consumed-body-stream-left-to-fasthttp", "retry-predicate", "client.go", "		if streamed && !req.IsBodyStream() {\n			return false, err", "		if streamed && !req.IsBodyStream() {\n			return true, err")
	mutant("pending-body-kept-on-error", "client-request-shape", "conn.go", "	if c.deletePending(stream) && err == nil {", "	if err == nil && c.deletePending(stream) {")
	mutant("abandoned-body-never-reset", "client-request-shape", "conn.go", "	if c.deletePending(stream) && err == nil {", "	if c.deletePending(stream) && err != nil {")
	mutant("delete-pending-always-true", "client-request-shape", "conn.go", "	if pb == nil {\n		return false\n	}\n\n	if pb.stream == nil {\n		return true", "	if pb == nil {\n		return true\n	}\n\n	if pb.stream == nil {\n		return true")
	mutant("abandoned-stream-body-left-open", "client-request-shape", "conn.go", "	defer pb.ctx.release()\n\n	c.closeBodyStream(pb)\n\n	return true", "	defer pb.ctx.release()\n\n	return true")
	mutant("unsent-debit-not-refunded", "window-writers", "conn.go", "			c.connWindow += int32(n)\n", "			_ = n\n")
	mutant("unsent-debit-refunded-twice", "window-writers", "conn.go", "			c.connWindow += int32(n)\n", "			c.connWindow += 2 * int32(n)\n")
}

func init() {
	mutant("one-rejection-leaves-the-block-undecoded", "no-stream-error-inside-decode-loop", "serverConn.go", "			return sc.rejectBlock(strm, fr, b, NewResetStreamError(ProtocolError, \"connection-specific header field\"))", "			return NewResetStreamError(ProtocolError, \"connection-specific header field\")")
	mutant("rejection-drains-the-whole-fragment-again", "no-stream-error-inside-decode-loop", "serverConn.go", "			return sc.rejectBlock(strm, fr, b, NewResetStreamError(ProtocolError, \"connection-specific header field\"))", "			return sc.rejectBlock(strm, fr, pb, NewResetStreamError(ProtocolError, \"connection-specific header field\"))")
	mutant("drain-loop-forgets-to-count", "block-remainder-decoded", "serverConn.go", "			break\n		}\n\n		fields++\n	}\n\n	return nil, fields, nil", "			break\n		}\n	}\n\n	return nil, fields, nil")
	mutant("drain-loop-carries-on-the-last-fragment", "block-remainder-decoded", "serverConn.go", "			if errors.Is(err, ErrUnexpectedSize) && !last {\n				return pb, fields, nil", "			if errors.Is(err, ErrUnexpectedSize) {\n				return pb, fields, nil")
	mutant("drain-loop-decode-error-is-a-stream-error", "block-remainder-decoded", "serverConn.go", "			return nil, fields, NewGoAwayError(CompressionError, err.Error())", "			return nil, fields, NewResetStreamError(CompressionError, err.Error())")
	mutant("drain-loop-stops-at-any-empty-field", "block-remainder-decoded", "serverConn.go", "		if !sc.dec.fieldDecoded {\n			// Ended in a dynamic table size update: no field.", "		if hf.Empty() {\n			// Ended in a dynamic table size update: no field.")
	mutant("drain-loop-always-at-block-start", "block-remainder-decoded", "serverConn.go", "		b, err = sc.dec.nextField(hf, fields == 0, fields, b)", "		b, err = sc.dec.nextField(hf, true, fields, b)")
	mutant("rejected-field-not-counted", "block-remainder-decoded", "serverConn.go", "	return sc.rejectBlockFrom(strm, fr, b, strm.blockFields+1, reason)", "	return sc.rejectBlockFrom(strm, fr, b, strm.blockFields, reason)")
	mutant("rejection-drops-the-cut-field", "block-remainder-decoded", "serverConn.go", "	strm.previousHeaderBytes = append(strm.previousHeaderBytes[:0], carry...)\n	strm.blockFields = fields\n", "	strm.blockFields = fields\n")
	mutant("rejection-swallowed", "block-remainder-decoded", "serverConn.go", "		return err\n	}\n\n	return reason\n}", "		return err\n	}\n\n	return err\n}")
	mutant("open-block-read-from-end-stream", "block-remainder-decoded", "serverConn.go", "	strm.blockOpen = !fr.Flags().Has(FlagEndHeaders)", "	strm.blockOpen = !fr.Flags().Has(FlagEndStream)")
	mutant("open-block-only-recorded-on-headers", "block-remainder-decoded", "serverConn.go", "	if fr.Type() != FrameContinuation {\n		strm.blockFields = 0\n	}\n\n	strm.blockOpen = !fr.Flags().Has(FlagEndHeaders)", "	if fr.Type() != FrameContinuation {\n		strm.blockFields = 0\n		strm.blockOpen = !fr.Flags().Has(FlagEndHeaders)\n	}")
	mutant("closed-stream-takes-its-block-with-it", "block-remainder-decoded", "serverConn.go", "		if strm.blockOpen {\n			sc.discard.open = true", "		if strm.blockOpen && sc.debug {\n			sc.discard.open = true")
	mutant("handed-over-bytes-alias-the-pooled-stream", "block-remainder-decoded", "serverConn.go", "			sc.discard.carry = append(sc.discard.carry[:0], strm.previousHeaderBytes...)", "			sc.discard.carry = strm.previousHeaderBytes")
	mutant("handed-over-position-lost", "block-remainder-decoded", "serverConn.go", "			sc.discard.fields = strm.blockFields\n", "")
	mutant("discard-keeps-a-stale-cut-field", "block-remainder-decoded", "serverConn.go", "		if fr.Type() == FrameHeaders || !d.open || d.id != fr.Stream() {", "		if fr.Type() == FrameHeaders && (!d.open || d.id != fr.Stream()) {")
	mutant("discard-ignores-the-carried-bytes", "block-remainder-decoded", "serverConn.go", "		b := append(d.carry, fr.Body().(FrameWithHeaders).Headers()...)", "		b := fr.Body().(FrameWithHeaders).Headers()")
	mutant("discard-open-flag-inverted", "block-remainder-decoded", "serverConn.go", "		d.open = !last", "		d.open = last")
	mutant("discard-credits-data-without-padding", "block-remainder-decoded", "serverConn.go", "	case FrameData:\n		sc.consumeConnRecvWindow(fr.Len())\n	case FrameHeaders, FrameContinuation:", "	case FrameData:\n		sc.consumeConnRecvWindow(fr.Body().(*Data).Len())\n	case FrameHeaders, FrameContinuation:")
	mutant("discard-skips-continuations", "hdr-must-decode", "serverConn.go", "	case FrameHeaders, FrameContinuation:\n		d := &sc.discard", "	case FrameHeaders:\n		d := &sc.discard")
	mutant("recycled-stream-keeps-the-reset-mark", "block-remainder-decoded", "stream.go", "	strm.resetSent = false\n", "")
	mutant("late-frames-after-our-reset-kill-the-connection", "late-frames-on-reset-streams", "serverConn.go", "						if resetSent {\n							if err := sc.discardFrame(fr); err != nil {", "						if resetSent && sc.debug {\n							if err := sc.discardFrame(fr); err != nil {")
	mutant("late-frames-after-our-reset-dropped-unseen", "late-frames-on-reset-streams", "serverConn.go", "						if resetSent {\n							if err := sc.discardFrame(fr); err != nil {\n								sc.writeError(nil, err)\n								break loop\n							}\n\n							continue\n						}", "						if resetSent {\n							continue\n						}")
	mutant("frames-on-a-stream-the-peer-closed-accepted", "late-frames-on-reset-streams", "serverConn.go", "						sc.writeGoAway(fr.Stream(), StreamClosedError, \"frame on closed stream\")\n\n						if canCloseAfterGoAway() {\n							break loop\n						}\n", "")
	allMutants = append(allMutants, Mutant{Name: "open-block-mark-stored-after-the-whole-frame-refusal", Rule: "block-remainder-decoded", Subs: []Subst{
		{File: "serverConn.go", Old: "\tstrm.blockOpen = !fr.Flags().Has(FlagEndHeaders)\n\n\t// Appending to the stream's own buffer", New: "\t// Appending to the stream's own buffer"},
		{File: "serverConn.go", Old: "\treq := &strm.ctx.Request\n\n\tvar err error\n\n\tfor len(b) > 0 {", New: "\treq := &strm.ctx.Request\n\n\tstrm.blockOpen = !fr.Flags().Has(FlagEndHeaders)\n\n\tvar err error\n\n\tfor len(b) > 0 {"},
	}})
	mutant("write-loop-reset-names-no-stream", "emitters-address-stream", "conn.go", "\tdefer ReleaseFrameHeader(h)\n\n\th.SetStream(id)\n\n\tfr := AcquireFrame(FrameResetStream).(*RstStream)", "\tdefer ReleaseFrameHeader(h)\n\n\tfr := AcquireFrame(FrameResetStream).(*RstStream)")
	mutant("write-loop-reset-carries-no-code", "emitter-payloads", "conn.go", "\tfr.SetCode(code)\n\n\th.SetBody(fr)\n\n\treturn c.writeFrame(h)", "\th.SetBody(fr)\n\n\treturn c.writeFrame(h)")
	mutant("headers-payload-assembled-and-dropped", "payload-layout", "headers.go", "\t\tpayload = http2utils.AddPadding(payload)\n\t}\n\n\tfrh.payload = payload\n}", "\t\tpayload = http2utils.AddPadding(payload)\n\t}\n\n\t_ = payload\n}")
	mutant("refused-stream-forgotten", "late-frames-on-reset-streams", "serverConn.go", "					// turns up later is out of order.\n					markClosed(fr.Stream(), true)\n", "					// turns up later is out of order.\n")
	mutant("refused-stream-remembered-as-closed-by-the-peer", "late-frames-on-reset-streams", "serverConn.go", "					// turns up later is out of order.\n					markClosed(fr.Stream(), true)", "					// turns up later is out of order.\n					markClosed(fr.Stream(), false)")
	mutant("refused-header-block-not-decoded", "late-frames-on-reset-streams", "serverConn.go", "					if err := sc.discardFrame(fr); err != nil {\n						sc.writeError(nil, err)\n						break loop\n					}\n\n					continue\n				}\n\n				if fr.Stream() <= highID {", "					if fr.Type() == FrameData {\n						sc.consumeConnRecvWindow(fr.Len())\n					}\n\n					continue\n				}\n\n				if fr.Stream() <= highID {")
	mutant("reset-not-recorded", "late-frames-on-reset-streams", "serverConn.go", "	strm.resetSent = true\n\n	sc.writeReset(strm.ID(), code)", "	sc.writeReset(strm.ID(), code)")
	mutant("timeout-reset-bypasses-the-record", "late-frames-on-reset-streams", "serverConn.go", "				sc.resetStream(strm, StreamCanceled)\n\n				// set the state to closed", "				sc.writeReset(strm.ID(), StreamCanceled)\n\n				// set the state to closed")
	mutant("memory-forgets-who-reset", "late-frames-on-reset-streams", "serverConn.go", "		closedStrms[id] = resetSent\n	}", "		closedStrms[id] = false\n	}")
	mutant("second-close-clears-the-reset-mark", "late-frames-on-reset-streams", "serverConn.go", "			closedStrms[id] = closedStrms[id] || resetSent", "			closedStrms[id] = resetSent")
	mutant("close-stream-drops-the-reset-mark", "late-frames-on-reset-streams", "serverConn.go", "		markClosed(strmID, strm.resetSent)", "		markClosed(strmID, false)")
	mutant("cancel-of-a-refused-stream-is-an-idle-reset", "late-frames-on-reset-streams", "serverConn.go", "					if _, closed := closedStrms[fr.Stream()]; !closed && fr.Stream() > sc.lastID {", "					if fr.Stream() > sc.lastID {")
}

func init() {
	mutant("client-block-restarts-on-continuation", "client-block-state", "conn.go", "	if fr.Type() != FrameContinuation {\n		hb.carry = hb.carry[:0]", "	if fr.Type() == FrameHeaders || len(hb.carry) == 0 {\n		hb.carry = hb.carry[:0]")
	mutant("client-block-keeps-a-stale-cut-field", "client-block-state", "conn.go", "		hb.carry = hb.carry[:0]\n		hb.fields = 0", "		hb.fields = 0")
	mutant("client-block-ignores-carried-bytes", "client-block-state", "conn.go", "	b := append(hb.carry, fr.Body().(FrameWithHeaders).Headers()...)\n	hb.carry = b[:0]", "	b := fr.Body().(FrameWithHeaders).Headers()\n	hb.carry = hb.carry[:0]")
	mutant("client-always-at-block-start", "client-block-state", "conn.go", "	b, err := c.dec.nextField(hf, c.block.fields == 0, c.block.fields, b)", "	b, err := c.dec.nextField(hf, true, c.block.fields, b)")
	mutant("client-cut-field-on-the-last-frame-waits", "client-block-state", "conn.go", "		if errors.Is(err, ErrUnexpectedSize) && !fr.Flags().Has(FlagEndHeaders) {\n			c.block.carry = append(c.block.carry, pb...)", "		if errors.Is(err, ErrUnexpectedSize) {\n			c.block.carry = append(c.block.carry, pb...)")
	mutant("client-half-decoded-field-is-judged", "client-block-state", "conn.go", "			// Whatever part of the field was decoded is not a field.\n			hf.Reset()\n", "")
	mutant("client-decode-error-fails-one-request", "client-block-state", "conn.go", "		// The dynamic table cannot be trusted from here on.\n		return nil, NewGoAwayError(CompressionError, err.Error())", "		// The dynamic table cannot be trusted from here on.\n		return nil, err")
	mutant("client-skip-loop-forgets-to-count", "client-block-state", "conn.go", "		if !c.dec.fieldDecoded {\n			break\n		}\n\n		c.block.fields++\n	}\n\n	return reason", "		if !c.dec.fieldDecoded {\n			break\n		}\n	}\n\n	return reason")
	mutant("client-skip-swallows-the-reason", "client-block-state", "conn.go", "		c.block.fields++\n	}\n\n	return reason", "		c.block.fields++\n	}\n\n	return nil")
	mutant("client-rejection-leaves-the-block-undecoded", "no-stream-error-inside-decode-loop", "conn.go", "			return c.skipFields(fr, b, errConnectionSpecific)", "			return errConnectionSpecific")
	mutant("client-counts-after-judging", "client-block-state", "conn.go", "		c.block.fields++\n\n		// A response carries exactly one pseudo-header", "		// A response carries exactly one pseudo-header")
	mutant("client-unowned-block-decoded-from-scratch", "client-block-state", "conn.go", "	b := c.block.open(fr)\n\n	err := c.skipFields(fr, b, nil)", "	b := fr.Body().(FrameWithHeaders).Headers()\n\n	err := c.skipFields(fr, b, nil)")
	mutant("client-response-ends-on-the-headers-frame", "client-block-state", "conn.go", "		return c.block.endStream && fr.Flags().Has(FlagEndHeaders)", "		return fr.Type() == FrameHeaders && fr.Flags().Has(FlagEndStream)")
	mutant("client-response-ends-on-any-end-headers", "client-block-state", "conn.go", "		return c.block.endStream && fr.Flags().Has(FlagEndHeaders)", "		return c.block.endStream || fr.Flags().Has(FlagEndHeaders)")
	mutant("client-end-stream-flag-not-remembered", "client-block-state", "conn.go", "		hb.endStream = fr.Flags().Has(FlagEndStream)\n", "")
	mutant("client-malformed-response-not-reset", "client-block-state", "conn.go", "	if !stop && fr.Type() != FrameResetStream {\n		c.cancelStream(fr.Stream(), ProtocolError)\n	}\n", "")
	mutant("client-answers-a-reset-with-a-reset", "client-block-state", "conn.go", "	if !stop && fr.Type() != FrameResetStream {\n		c.cancelStream(fr.Stream(), ProtocolError)\n	}\n", "	if !stop {\n		c.cancelStream(fr.Stream(), ProtocolError)\n	}\n")
	mutant("client-carries-on-after-a-compression-error", "client-block-state", "conn.go", "	stop := errors.As(err, &connErr) && connErr.frameType == FrameGoAway\n	if stop {", "	stop := errors.As(err, &connErr) && connErr.frameType == FrameGoAway && false\n	if stop {")
}

func init() {
	mutant("closed-misaligned-on-32-bit", "atomic64-alignment", "conn.go", "	done chan struct{}\n\n	closed uint64\n", "	done chan struct{}\n\n	pad32 uint32\n\n	closed uint64\n")
	mutant("stream-window-misaligned-on-32-bit", "atomic64-alignment", "stream.go", "	window              int64\n	id                  uint32\n", "	id                  uint32\n	window              int64\n")
	mutant("blocked-writers-never-released", "server-teardown-bounded", "serverConn.go", "	case <-sc.writeGone:\n		ReleaseFrameHeader(fr)\n", "")
	mutant("write-loop-exit-not-announced", "server-teardown-bounded", "serverConn.go", "		defer close(sc.writeGone)\n", "")
	mutant("connection-error-leaves-writes-unbounded", "server-teardown-bounded", "serverConn.go", "	if code != NoError {\n		sc.limitWrites(writeDrainTimeout)\n	}\n", "")
	mutant("write-limit-not-applied-to-the-write-in-progress", "server-teardown-bounded", "serverConn.go", "	if sc.c != nil {\n		_ = sc.c.SetWriteDeadline(time.Now().Add(d))\n	}\n", "")
	mutant("write-limit-not-applied-to-later-writes", "server-teardown-bounded", "serverConn.go", "		if d := sc.writeLimit.Load(); d > 0 {\n			_ = sc.c.SetWriteDeadline(time.Now().Add(time.Duration(d)))\n		}\n", "")
}

func init() {
	mutant("goaway-reads-the-id-before-it-marks", "goaway-bookkeeping", "serverConn.go", "	atomic.StoreInt32((*int32)(&sc.state), int32(connStateClosed))\n\n	last := atomic.LoadUint32(&sc.lastID)\n", "	last := atomic.LoadUint32(&sc.lastID)\n\n	atomic.StoreInt32((*int32)(&sc.state), int32(connStateClosed))\n")
	mutant("goaway-names-the-offending-stream-again", "goaway-bookkeeping", "serverConn.go", "	ga.SetStream(last)", "	ga.SetStream(strm)")
	mutant("accepted-id-not-published-before-the-last-look", "goaway-bookkeeping", "serverConn.go", "					atomic.StoreUint32(&sc.lastID, fr.Stream())\n\n					wasClosing = isClosing()", "					wasClosing = isClosing()")
	mutant("last-look-at-the-closing-mark-dropped", "goaway-bookkeeping", "serverConn.go", "					atomic.StoreUint32(&sc.lastID, fr.Stream())\n\n					wasClosing = isClosing()", "					atomic.StoreUint32(&sc.lastID, fr.Stream())")
	mutant("highest-id-written-plainly", "access-discipline", "serverConn.go", "					openStreams++\n					atomic.StoreUint32(&sc.lastID, fr.Stream())", "					openStreams++\n					sc.lastID = fr.Stream()")
	mutant("goaway-reads-the-id-plainly", "access-discipline", "serverConn.go", "	last := atomic.LoadUint32(&sc.lastID)", "	last := sc.lastID")
	mutant("server-header-block-one-oversized-frame", "header-block-emitters", "serverConn.go", "	if len(block) <= maxDataFrameSize {\n		h.SetEndHeaders(true)", "	if len(block) <= maxDataFrameSize || !sc.debug {\n		h.SetEndHeaders(true)")
	mutant("server-continuation-repeats-the-first-octets", "header-block-emitters", "serverConn.go", "	rest := append([]byte(nil), block[maxDataFrameSize:]...)", "	rest := append([]byte(nil), block...)")
	allMutants = append(allMutants, Mutant{Name: "server-continuation-read-after-hand-over", Rule: "header-block-emitters", Subs: []Subst{
		{File: "serverConn.go", Old: "		cfr.SetStream(id)", New: "		cfr.SetStream(fr.Stream())"},
		{File: "serverConn.go", Old: "	id := fr.Stream()\n	rest := append([]byte(nil), block[maxDataFrameSize:]...)", New: "	rest := append([]byte(nil), block[maxDataFrameSize:]...)"},
	}})
	mutant("server-every-continuation-ends-the-block", "header-block-emitters", "serverConn.go", "		c.SetEndHeaders(len(rest) == 0)\n\n		cfr.SetBody(c)", "		c.SetEndHeaders(true)\n\n		cfr.SetBody(c)")
	mutant("server-block-frames-queued-without-the-lock", "header-block-emitters", "serverConn.go", "	sc.queueLck.Lock()\n	defer sc.queueLck.Unlock()\n\n	sc.enqueue(fr)", "	sc.enqueue(fr)")
	mutant("server-single-frames-queued-without-the-lock", "header-block-emitters", "serverConn.go", "	sc.queueLck.Lock()\n	sc.enqueue(fr)\n	sc.queueLck.Unlock()", "	sc.enqueue(fr)")
	mutant("server-continuation-larger-than-the-bound", "header-block-emitters", "serverConn.go", "		if n > maxDataFrameSize {\n			n = maxDataFrameSize\n		}\n\n		cfr := AcquireFrameHeader()", "		cfr := AcquireFrameHeader()")
	mutant("client-continuation-skips-octets", "header-block-emitters", "conn.go", "		cont.SetHeader(rest[:n])\n\n		rest = rest[n:]", "		cont.SetHeader(rest[:n])\n\n		rest = rest[step:]")
	mutant("client-first-frame-keeps-end-headers", "header-block-emitters", "conn.go", "	h.SetHeaders(block[:step])\n	h.SetEndHeaders(false)", "	h.SetHeaders(block[:step])\n	h.SetEndHeaders(true)")
	mutant("client-bound-ignores-the-servers-setting", "header-block-emitters", "conn.go", "func (c *Conn) writeHeaderBlock(fr *FrameHeader, h *Headers) error {\n	step := int(atomic.LoadUint32(&c.maxFrameSize))", "func (c *Conn) writeHeaderBlock(fr *FrameHeader, h *Headers) error {\n	step := int(maxFrameSize)")
	mutant("client-header-block-written-outside-the-lock", "header-block-emitters", "conn.go", "	c.lockWrites()\n\n	err := c.writeHeaderBlock(fr, h)\n	if err == nil {\n		err = c.bw.Flush()\n	}\n\n	c.bwLck.Unlock()", "	err := c.writeHeaderBlock(fr, h)\n\n	c.lockWrites()\n\n	if err == nil {\n		err = c.bw.Flush()\n	}\n\n	c.bwLck.Unlock()")
}

func init() {
	mutant("settings-record-overwritten-wholesale-server", "settings-presence-guard", "serverConn.go", "	st.applyTo(&sc.clientS)", "	st.CopyTo(&sc.clientS)")
	mutant("settings-record-overwritten-wholesale-client", "settings-presence-guard", "conn.go", "	st.applyTo(&c.serverS)", "	st.CopyTo(&c.serverS)")
	mutant("settings-merge-crosses-two-parameters", "settings-presence-guard", "settings.go", "	if st.has(MaxConcurrentStreams) {\n		dst.maxStreams = st.maxStreams", "	if st.has(MaxWindowSize) {\n		dst.maxStreams = st.maxStreams")
	mutant("settings-merge-applies-absent-table-size", "settings-presence-guard", "settings.go", "	if st.has(HeaderTableSize) {\n		dst.tableSize = st.tableSize\n	}", "	dst.tableSize = st.tableSize")
	mutant("settings-presence-bit-off-by-one", "settings-presence-guard", "settings.go", "	return st.present&(1<<id) != 0", "	return st.present&(1<<(id-1)) != 0")
	mutant("settings-presence-only-for-window", "settings-presence-guard", "settings.go", "		if key >= HeaderTableSize && key <= MaxHeaderListSize {\n			st.present |= 1 << key", "		if key == MaxWindowSize {\n			st.present |= 1 << key")
	mutant("settings-presence-survives-the-pool", "settings-presence-guard", "settings.go", "	st.hasWindowSize = false\n	st.present = 0\n", "	st.hasWindowSize = false\n")
	mutant("client-encoder-size-from-the-bare-frame", "settings-presence-guard", "conn.go", "	atomic.StoreUint32(&c.encTableSize, c.serverS.HeaderTableSize())", "	atomic.StoreUint32(&c.encTableSize, st.HeaderTableSize())")
	mutant("table-size-zero-left-out-again", "settings-encode-defaults", "settings.go", "	st.rawSettings = append(st.rawSettings,\n		byte(HeaderTableSize>>8), byte(HeaderTableSize),\n		byte(st.tableSize>>24), byte(st.tableSize>>16),\n		byte(st.tableSize>>8), byte(st.tableSize),\n	)\n", "	if st.tableSize != 0 {\n		st.rawSettings = append(st.rawSettings,\n			byte(HeaderTableSize>>8), byte(HeaderTableSize),\n			byte(st.tableSize>>24), byte(st.tableSize>>16),\n			byte(st.tableSize>>8), byte(st.tableSize),\n		)\n	}\n")
	mutant("push-octet-set-when-disabled", "settings-codec-table", "settings.go", "	var push byte\n	if st.enablePush {\n		push = 1\n	}", "	var push byte\n	if !st.enablePush {\n		push = 1\n	}")
}

func init() {
	mutant("carried-bytes-bound-disabled", "buffer-append-bounded", "serverConn.go", "	if sc.maxHeaderList > 0 && n > 4*sc.maxHeaderList {", "	if sc.maxHeaderList > 0 && n > 4*sc.maxHeaderList && sc.debug {")
	mutant("carried-bytes-bound-refuses-legal-fields", "buffer-append-bounded", "serverConn.go", "	if sc.maxHeaderList > 0 && n > 4*sc.maxHeaderList {", "	if sc.maxHeaderList > 0 && n > sc.maxHeaderList/4 {")
	mutant("carried-bytes-bound-without-a-limit", "buffer-append-bounded", "serverConn.go", "	if sc.maxHeaderList > 0 && n > 4*sc.maxHeaderList {", "	if n > 4*sc.maxHeaderList {")
	mutant("carried-bytes-not-checked-in-the-request-path", "buffer-append-bounded", "serverConn.go", "				err = sc.checkCarried(len(pb))\n", "				err = nil\n")
	mutant("carried-bytes-not-checked-after-a-rejection", "buffer-append-bounded", "serverConn.go", "	if err := sc.checkCarried(len(carry)); err != nil {\n		return err\n	}\n\n	return reason", "	return reason")
	mutant("carried-bytes-not-checked-when-discarding", "buffer-append-bounded", "serverConn.go", "		if err == nil {\n			err = sc.checkCarried(len(carry))\n		}\n", "")
	mutant("oversized-field-is-a-stream-error", "buffer-append-bounded", "serverConn.go", "		return NewGoAwayError(EnhanceYourCalm, \"header field exceeds the maximum size\")", "		return NewResetStreamError(EnhanceYourCalm, \"header field exceeds the maximum size\")")
}

func init() {
	mutant("ctx-wait-does-not-bound-the-write", "no-blocking-under-ctx-lock", "client.go", "	if c := ctx.conn.Load(); c != nil {\n		c.boundWrite()\n	}\n\n	ctx.lck.Lock()", "	ctx.lck.Lock()")
	mutant("take-back-waits-on-the-bare-mutex", "no-blocking-under-ctx-lock", "client.go", "func (ctx *Ctx) takeBack() {\n	ctx.lock()", "func (ctx *Ctx) takeBack() {\n	ctx.lck.Lock()")
	mutant("write-grace-is-an-hour", "no-blocking-under-ctx-lock", "conn.go", "const writeGrace = 2 * time.Second", "const writeGrace = time.Hour")
	mutant("deadline-marked-before-it-is-set", "no-blocking-under-ctx-lock", "conn.go", "	_ = c.c.SetWriteDeadline(time.Now().Add(writeGrace))\n\n	atomic.StoreInt32(&c.writeBounded, 1)", "	atomic.StoreInt32(&c.writeBounded, 1)\n\n	_ = c.c.SetWriteDeadline(time.Now().Add(writeGrace))")
	mutant("stale-deadline-never-cleared", "no-blocking-under-ctx-lock", "conn.go", "	if atomic.CompareAndSwapInt32(&c.writeBounded, 1, 0) {\n		_ = c.c.SetWriteDeadline(time.Time{})\n	}\n", "")
	mutant("close-waits-for-the-stuck-write", "no-blocking-under-ctx-lock", "conn.go", "	c.boundWrite()\n\n	c.bwLck.Lock()", "	c.bwLck.Lock()")
	mutant("callback-before-the-requests-are-answered", "resolve-protocol", "conn.go", "	first, _ := c.shut()\n\n	for _, ctx := range c.takeAllReqs() {", "	_ = c.Close()\n	first := false\n\n	for _, ctx := range c.takeAllReqs() {")
	mutant("handshake-deadline-after-tls", "dial-bounded", "conn.go", "	_ = c.SetDeadline(time.Now().Add(handshakeTimeout))\n\n	tlsConn := tls.Client(c, d.TLSConfig)\n\n	if err := tlsConn.Handshake(); err != nil {\n		_ = c.Close()\n		return nil, err\n	}", "	tlsConn := tls.Client(c, d.TLSConfig)\n\n	if err := tlsConn.Handshake(); err != nil {\n		_ = c.Close()\n		return nil, err\n	}\n\n	_ = c.SetDeadline(time.Now().Add(handshakeTimeout))")
	mutant("handshake-deadline-never-removed", "dial-bounded", "conn.go", "	if err == nil {\n		err = c.SetDeadline(time.Time{})\n	}\n\n	return nc, err", "	return nc, err")
	mutant("handshake-deadline-removed-before-the-handshake", "dial-bounded", "conn.go", "	err = nc.Handshake()\n	if err == nil {\n		err = c.SetDeadline(time.Time{})\n	}", "	err = c.SetDeadline(time.Time{})\n	if err == nil {\n		err = nc.Handshake()\n	}")
}

func init() {
	mutant("sensitive-mark-sticks", "decoded-field-state", "hpack.go", "	hf.sensible = false\n\n	switch {", "	switch {")
	mutant("plain-literal-marked-sensitive", "decoded-field-state", "hpack.go", "	case c&noIndexByte == 0: // 0000 0000\n", "	case c&noIndexByte == 0: // 0000 0000\n		hf.sensible = true\n")
	mutant("empty-frame-keeps-old-payload", "reread-rewrite-frames", "frameHeader.go", "	} else {\n		// An empty frame has an empty payload, not whatever the frame that\n		// was read into this header before it left behind.\n		f.payload = f.payload[:0]\n	}", "	}")
	mutant("data-keeps-padded-flag", "reread-rewrite-frames", "data.go", "		fr.SetFlags(fr.Flags().Del(FlagPadded))\n", "")
	mutant("headers-keep-padded-flag", "reread-rewrite-frames", "headers.go", "		frh.SetFlags(flags.Del(FlagPadded))\n", "")
	mutant("push-promise-keeps-padded-flag", "reread-rewrite-frames", "pushpromise.go", "		fr.SetFlags(fr.Flags().Del(FlagPadded))\n", "")
	mutant("flag-del-toggles", "reread-rewrite-frames", "frame.go", "	return flags &^ f", "	return flags ^ f")
	mutant("exclusive-bit-read-from-the-wrong-bit", "reread-rewrite-frames", "priority.go", "		pry.exclusive = fr.payload[0]&0x80 != 0", "		pry.exclusive = fr.payload[0]&0x40 != 0")
	mutant("exclusive-bit-not-written", "payload-layout", "headers.go", "		if h.exclusive {\n			payload[0] |= 0x80\n		}\n", "")
	mutant("headers-copy-loses-priority", "reread-rewrite-frames", "headers.go", "	h2.priority = h.priority\n", "")
	mutant("second-content-length-wins", "message-consistency", "serverConn.go", "			if strm.hasContentLength && n != strm.contentLength {", "			if strm.hasContentLength && n != strm.contentLength && sc.debug {")
	mutant("content-length-conflict-checked-after-the-store", "message-consistency", "serverConn.go", "			if strm.hasContentLength && n != strm.contentLength {\n				return sc.rejectBlock(strm, fr, b, NewResetStreamError(ProtocolError, \"conflicting content-length fields\"))\n			}\n\n			strm.contentLength = n\n			strm.hasContentLength = true\n", "			strm.contentLength = n\n			strm.hasContentLength = true\n\n			if strm.hasContentLength && n != strm.contentLength {\n				return sc.rejectBlock(strm, fr, b, NewResetStreamError(ProtocolError, \"conflicting content-length fields\"))\n			}\n")
	mutant("client-settings-from-a-zero-value", "message-consistency", "conn.go", "	nc.current.Reset()\n", "")
	mutant("client-accepts-server-push-setting", "message-consistency", "conn.go", "				if st.Push() {\n					err = NewGoAwayError(ProtocolError, \"server set SETTINGS_ENABLE_PUSH to 1\")\n					break\n				}\n", "")
	mutant("client-accepts-server-push-setting-in-the-handshake", "message-consistency", "conn.go", "		if !st.IsAck() && st.Push() {\n			_ = c.c.Close()\n			return NewGoAwayError(ProtocolError, \"server set SETTINGS_ENABLE_PUSH to 1\")\n		}\n", "")
	mutant("low-point-not-announced", "enc-size-update-first", "hpack.go", "		if hp.pendingLowSize < hp.maxTableSize {\n			dst = appendInt(append(dst, 0x20), 5, uint64(hp.pendingLowSize))\n		}\n", "")
	mutant("low-point-announced-last", "enc-size-update-first", "hpack.go", "		if hp.pendingLowSize < hp.maxTableSize {\n			dst = appendInt(append(dst, 0x20), 5, uint64(hp.pendingLowSize))\n		}\n\n		dst = appendInt(append(dst, 0x20), 5, uint64(hp.maxTableSize))", "		dst = appendInt(append(dst, 0x20), 5, uint64(hp.maxTableSize))\n\n		if hp.pendingLowSize < hp.maxTableSize {\n			dst = appendInt(append(dst, 0x20), 5, uint64(hp.pendingLowSize))\n		}")
	mutant("low-point-forgets-earlier-changes", "enc-size-update-first", "hpack.go", "	if !hp.pendingSizeUpdate || size < hp.pendingLowSize {", "	if !hp.pendingSizeUpdate && size < hp.pendingLowSize {")
	mutant("settings-frame-low-point-lost", "table-size-low-point", "serverConn.go", "	if st.has(HeaderTableSize) {\n		sc.enc.SetMaxTableSize(st.tableSizeLow)\n	}\n", "")
	mutant("client-hand-over-loses-the-low-point", "table-size-low-point", "conn.go", "		if low != noTableSizeLow {\n			c.enc.SetMaxTableSize(low)\n		}\n", "")
}

func init() {
	mutant("idle-callback-closes-the-channel-again", "timer-callbacks-idempotent", "serverConn.go", "	select {\n	case sc.closer <- struct{}{}:\n	default:\n	}\n}", "	close(sc.closer)\n}")
	mutant("idle-callback-send-can-block", "timer-callbacks-idempotent", "serverConn.go", "	select {\n	case sc.closer <- struct{}{}:\n	default:\n	}\n}", "	sc.closer <- struct{}{}\n}")
	mutant("body-stream-closed-after-release-again", "access-discipline", "conn.go", "		if err == nil && end {\n			c.closeBodyStream(pb)\n		}\n\n		pb.ctx.release()\n", "		pb.ctx.release()\n\n		if err == nil && end {\n			c.closeBodyStream(pb)\n		}\n")
	mutant("body-stream-field-cleared-again", "access-discipline", "conn.go", "	if pb.stream == nil || !pb.closed.CompareAndSwap(false, true) {\n		return\n	}\n", "	if pb.stream == nil || !pb.closed.CompareAndSwap(false, true) {\n		return\n	}\n\n	pb.stream = nil\n")
}

func init() {
	mutant("second-status-wins", "response-status-once", "conn.go", "			if c.block.statusSeen {\n				return c.skipFields(fr, b, errDuplicateStatus)\n			}\n", "")
	mutant("response-without-status-is-a-200", "response-status-once", "conn.go", "		if !c.block.statusSeen {\n			return errMissingStatus\n		}\n", "")
	mutant("status-in-trailers-replaces-the-status", "response-blocks-in-order", "conn.go", "			if c.block.trailers {\n				return c.skipFields(fr, b, errPseudoInTrailers)\n			}\n", "")
	mutant("interim-status-counts-as-final", "response-blocks-in-order", "conn.go", "		if res.StatusCode() >= 200 {\n			c.block.final = true\n		}", "		c.block.final = true")
	mutant("recycled-ctx-thinks-it-has-headers", "response-blocks-in-order", "client.go", "	ctx.headersDone = false\n", "")
	mutant("request-never-learns-its-headers-arrived", "response-blocks-in-order", "conn.go", "	if c.block.final {\n		c.block.final = false\n		r.headersDone = true\n	}\n", "")
	mutant("block-never-told-about-trailers", "response-blocks-in-order", "conn.go", "	if fr.Type() == FrameHeaders {\n		c.block.trailers = r.headersDone\n	}\n", "")
	mutant("status-mark-survives-the-block", "response-blocks-in-order", "conn.go", "		hb.statusSeen = false\n", "")
	mutant("ping-timer-re-armed-after-teardown", "teardown-lets-go", "serverConn.go", "	select {\n	case <-sc.writeStop:\n		return\n	case <-sc.writeGone:\n		return\n	default:\n	}\n\n	sc.pingTimer.Reset(sc.pingInterval)", "	sc.pingTimer.Reset(sc.pingInterval)")
	mutant("held-responses-left-open-at-teardown", "teardown-lets-go", "serverConn.go", "		for _, strm := range strms {\n			sc.dropResponse(strm)\n		}\n", "")
	mutant("late-handler-leaves-its-body-open", "teardown-lets-go", "serverConn.go", "			case <-sc.handlerStop:\n				closeLeftBody(ctx)\n			}\n		}()", "			case <-sc.handlerStop:\n			}\n		}()")
	mutant("dropped-response-under-a-running-handler", "teardown-lets-go", "serverConn.go", "	if strm.handlerRunning || strm.ctx == nil {\n		return\n	}\n\n	sc.closeBodyStream(strm)", "	if strm.ctx == nil {\n		return\n	}\n\n	sc.closeBodyStream(strm)")
}

func init() {
	mutant("timed-out-stream-stays-in-the-table", "completion-closes-stream", "serverConn.go", "				strm.SetState(StreamStateClosed)\n				closeStream(strm)\n			}\n\n			// Armed again", "				strm.SetState(StreamStateClosed)\n			}\n\n			// Armed again")
	mutant("self-dependent-priority-on-unknown-stream-ignored", "unknown-stream-classification", "serverConn.go", "					if fr.Body().(*Priority).Stream() == fr.Stream() {\n						sc.writeGoAway(fr.Stream(), ProtocolError, \"stream that depends on itself\")\n						break loop\n					}\n", "")
}

func init() {
	mutant("cancel-keeps-the-slot", "client-lifecycle-shape", "conn.go", "	if c.takeReq(id) {\n		atomic.AddInt32(&c.openStreams, -1)\n	}\n}", "	c.takeReq(id)\n}")
	mutant("cancel-does-not-reset-the-stream", "client-lifecycle-shape", "conn.go", "	c.cancelStream(id, StreamCanceled)\n\n	// Drop the stream here", "	// Drop the stream here")
	mutant("cancel-keeps-the-pending-body", "client-lifecycle-shape", "conn.go", "	// resetting, and the buffer stops being ours as soon as RoundTrip returns.\n	c.deletePending(id)\n", "	// resetting, and the buffer stops being ours as soon as RoundTrip returns.\n")
	mutant("cancel-resets-stream-zero", "client-lifecycle-shape", "conn.go", "	id := atomic.LoadUint32(&ctx.streamID)\n	if id == 0 {", "	id := atomic.LoadUint32(&ctx.streamID)\n	if id == 1<<31 {")
	mutant("silent-server-never-given-up", "client-lifecycle-shape", "conn.go", "		if !c.disableAcks && atomic.LoadInt32(&c.unacks) >= 3 {", "		if !c.disableAcks && atomic.LoadInt32(&c.unacks) >= 3 && c.disableAcks {")
	mutant("ping-acks-not-counted", "client-lifecycle-shape", "conn.go", "			} else {\n				atomic.AddInt32(&c.unacks, -1)\n			}", "			}")
	mutant("unknown-frame-type-is-fatal-for-the-client", "client-lifecycle-shape", "conn.go", "			if errors.Is(err, ErrUnknownFrameType) {\n				err = nil\n				continue\n			}\n\n			break", "			break")
	mutant("handshake-reads-an-empty-record", "client-lifecycle-shape", "conn.go", "			st.CopyTo(&c.serverS)\n", "")
	mutant("second-close-panics", "client-lifecycle-shape", "conn.go", "	if !atomic.CompareAndSwapUint64(&c.closed, 0, 1) {\n		return false, io.EOF\n	}\n", "	atomic.StoreUint64(&c.closed, 1)\n")
}

func init() {
	mutant("settings-frame-goes-out-empty", "serialize-essentials", "settings.go", "		st.Encode()\n\n		fr.setPayload(st.rawSettings)", "		st.Encode()")
	mutant("settings-ack-keeps-a-payload", "serialize-essentials", "settings.go", "			fr.Flags().Add(FlagAck))\n\n		fr.payload = fr.payload[:0]", "			fr.Flags().Add(FlagAck))")
	mutant("set-payload-keeps-old-octets", "serialize-essentials", "frameHeader.go", "	f.payload = append(f.payload[:0], payload...)\n}", "	f.payload = append(f.payload, payload...)\n}")
	mutant("set-body-forgets-the-type", "serialize-essentials", "frameHeader.go", "	f.kind = fr.Type()\n	f.fr = fr", "	f.fr = fr")
	mutant("priority-section-not-marked", "serialize-essentials", "headers.go", "		h.priority = true\n", "")
	mutant("padding-flag-without-padding", "serialize-essentials", "headers.go", "		payload = http2utils.AddPadding(payload)\n", "")
	mutant("headers-copy-loses-the-block", "settings-copy-complete", "headers.go", "	h2.rawHeaders = append(h2.rawHeaders[:0], h.rawHeaders...)\n", "")
	mutant("headers-copy-loses-end-stream", "settings-copy-complete", "headers.go", "	h2.endStream = h.endStream\n", "")
}

func init() {
	mutant("padded-data-replaces-the-flags", "flag-ops", "data.go", "		fr.SetFlags(\n			fr.Flags().Add(FlagPadded))\n		fr.payload = http2utils.AddPadding(fr.payload)", "		fr.SetFlags(FlagPadded)\n		fr.payload = http2utils.AddPadding(fr.payload)")
	mutant("body-length-counts-the-padding", "message-consistency", "serverConn.go", "		strm.recvBody += len(data)", "		strm.recvBody += fr.Len()")
	mutant("timed-out-stream-closed-before-its-reset", "late-frames-on-reset-streams", "serverConn.go", "				sc.resetStream(strm, StreamCanceled)\n\n				// set the state to closed in case it comes back to life later\n				strm.SetState(StreamStateClosed)\n				closeStream(strm)\n", "				// set the state to closed in case it comes back to life later\n				strm.SetState(StreamStateClosed)\n				closeStream(strm)\n\n				sc.resetStream(strm, StreamCanceled)\n")
}

func init() {
	mutant("goaway-reference-moves-only-once", "client-goaway-drain", "conn.go", "			} else {\n				// wait for the streams to complete\n				c.closeRef = ga.stream", "			} else if c.state != connStateClosed {\n				// wait for the streams to complete\n				c.closeRef = ga.stream")
	mutant("pending-write-error-keeps-the-ctx", "ctx-acquire-released", "conn.go", "		err := c.flushData(id, body, end)\n", "		err := c.flushData(id, body, end)\n		if err != nil {\n			return err\n		}\n")
	mutant("dropped-response-ignores-running-handler", "request-ctx-handoff", "serverConn.go", "	if strm.handlerRunning || strm.ctx == nil {\n		return\n	}\n\n	sc.closeBodyStream(strm)", "	if strm.ctx == nil {\n		return\n	}\n\n	sc.closeBodyStream(strm)")
	allMutants = append(allMutants, Mutant{Name: "protocol-set-after-handler-started", Rule: "request-ctx-handoff", Subs: []Subst{
		{File: "serverConn.go", Old: "	ctx.Request.Header.SetProtocolBytes(StringHTTP2)\n\n	strm.handlerRunning = true", New: "	strm.handlerRunning = true"},
		{File: "serverConn.go", Old: "		sc.h(ctx)\n	}()\n}", New: "		sc.h(ctx)\n	}()\n\n	ctx.Request.Header.SetProtocolBytes(StringHTTP2)\n}"},
	}})
	mutant("data-appended-to-a-finished-request", "request-ctx-handoff", "serverConn.go", "		if strm.State() >= StreamStateHalfClosed {\n			return NewGoAwayError(StreamClosedError, \"stream closed\")\n		}\n\n		data := fr.Body().(*Data).Data()", "		data := fr.Body().(*Data).Data()")
	mutant("read-error-frame-released", "result-with-error-untouched", "conn.go", "		fr, err := c.readNext()\n		if err != nil {\n			c.setLastErr(err)\n", "		fr, err := c.readNext()\n		if err != nil {\n			c.setLastErr(err)\n			ReleaseFrameHeader(fr)\n")
	mutant("handshake-frame-read-before-error-test", "result-with-error-untouched", "conn.go", "err == nil && fr.Type() != FrameSettings {", "fr.Type() != FrameSettings && err == nil {")
	allMutants = append(allMutants, Mutant{Name: "body-compared-before-counted", Rule: "buffer-append-bounded", Subs: []Subst{
		{File: "serverConn.go", Old: "		strm.recvBody += len(data)\n\n		// Accounted", New: "		// Accounted"},
		{File: "serverConn.go", Old: "		strm.ctx.Request.AppendBody(data)", New: "		strm.recvBody += len(data)\n		strm.ctx.Request.AppendBody(data)"},
	}})
}

func init() {
	mutant("release-keeps-the-ctx", "mutex-released-on-every-path", "client.go", "func (ctx *Ctx) release() {\n	ctx.lck.Unlock()\n}", "func (ctx *Ctx) release() {\n}")
	mutant("second-close-keeps-the-client-lock", "mutex-released-on-every-path", "client.go", "	if cl.closed {\n		cl.lck.Unlock()\n		return nil\n	}", "	if cl.closed {\n		return nil\n	}")
	mutant("close-keeps-the-client-lock", "mutex-released-on-every-path", "client.go", "	// to be released first.\n	cl.lck.Unlock()\n", "	// to be released first.\n")
	mutant("takeback-keeps-the-ctx", "mutex-released-on-every-path", "client.go", "	ctx.done = true\n	ctx.lck.Unlock()\n", "	ctx.done = true\n")
}

func init() {
	mutant("picked-connection-used-despite-error", "result-with-error-untouched", "client.go", "	c, err := cl.pickConn()\n	if err != nil {\n		return err\n	}\n", "	c, err := cl.pickConn()\n")
	mutant("zero-timeout-stays-zero", "client-pool-shape", "client.go", "		opts.MaxResponseTime = DefaultMaxResponseTime\n", "")
	mutant("options-stored-unsanitized", "client-pool-shape", "client.go", "	opts.sanitize()\n", "")
	mutant("timeout-cancels-on-no-connection", "client-pool-shape", "client.go", "	if c := ctx.conn.Load(); c != nil {\n		c.cancel(ctx)", "	if c := ctx.conn.Load(); c == nil {\n		c.cancel(ctx)")
	mutant("pooled-ctx-without-timer", "client-pool-shape", "client.go", "		ctx.timer = time.AfterFunc(timerDisarmed, ctx.fireTimeout)\n		ctx.timer.Stop()\n", "")
	mutant("close-does-not-mark-closed", "client-pool-shape", "client.go", "	cl.closed = true\n\n	conns := make", "	conns := make")
	mutant("close-forgets-the-connections", "client-pool-shape", "client.go", "		conns = append(conns, e.Value.(*Conn))\n", "		_ = e\n")
	mutant("close-stops-at-first-error", "client-pool-shape", "client.go", "			err = cerr\n		}", "			err = cerr\n			break\n		}")
	mutant("closed-client-still-picks", "client-pool-shape", "client.go", "	if cl.closed {\n		return nil, ErrClientClosed\n	}\n", "")
	mutant("closed-client-redials", "client-pool-shape", "client.go", "	if cl.closed {\n		return\n	}\n", "")
	mutant("retry-loop-unbounded", "client-pool-shape", "client.go", "		if attempt == roundTripAttempts-1 {", "		if attempt == roundTripAttempts-1 && !streamed {")
}

func init() {
	mutant("handshake-error-inverted", "server-construction", "server.go", "	if err := sc.Handshake(); err != nil {\n		return err\n	}\n\n	return sc.Serve()", "	if err := sc.Handshake(); err == nil {\n		return err\n	}\n\n	return sc.Serve()")
	mutant("decoder-starts-with-no-table", "server-construction", "server.go", "	sc.dec.Reset()\n", "")
	mutant("connection-without-logger", "server-construction", "server.go", "	if sc.logger == nil {\n		sc.logger = logger\n	}\n", "")
	mutant("no-default-header-list-limit", "config-reaches-enforcement", "server.go", "		sc.MaxHeaderListSize = DefaultMaxHeaderListSize\n", "")
	mutant("receive-window-never-set", "config-reaches-enforcement", "server.go", "	sc.maxWindow = 1 << 22\n", "")
}

func init() {
	mutant("previous-is-the-newest", "previous-stream-lookup", "streams.go", "	cnt := 0\n	for i := len(strms) - 1", "	cnt := 1\n	for i := len(strms) - 1")
	mutant("previous-of-another-origin", "previous-stream-lookup", "streams.go", "		if strms[i].origType == frameType {\n			if cnt != 0 {", "		if strms[i].origType != frameType {\n			if cnt != 0 {")
	mutant("previous-without-passing-one", "previous-stream-lookup", "streams.go", "			if cnt != 0 {\n				return strms[i]\n			}", "			if cnt == 0 {\n				return strms[i]\n			}")
}

func init() {
	mutant("table-emptied-for-another-stream", "previous-stream-lookup", "streams.go", "(*strms)[0].ID() == id {", "(*strms)[0].ID() != id {")
	mutant("first-of-another-origin", "previous-stream-lookup", "streams.go", "		if strm.origType == frameType {\n			return strm", "		if strm.origType != frameType {\n			return strm")
	mutant("previous-skips-the-newest", "previous-stream-lookup", "streams.go", "for i := len(strms) - 1; i >= 0; i-- {", "for i := len(strms) - 2; i >= 0; i-- {")
}

func init() {
	mutant("header-parsed-despite-short-read", "result-with-error-untouched", "frameHeader.go", "	header, err := br.Peek(DefaultFrameSize)\n	if err != nil {\n		return -1, err\n	}\n", "	header, err := br.Peek(DefaultFrameSize)\n")
	mutant("socket-used-despite-dial-error", "result-with-error-untouched", "conn.go", "		c, err = net.DialTCP(\"tcp\", nil, tcpAddr)\n		if err != nil {\n			return nil, err\n		}\n", "		c, err = net.DialTCP(\"tcp\", nil, tcpAddr)\n")
}

func init() {
	mutant("frame-header-comes-out-dirty", "pooled-objects-come-out-reset", "frameHeader.go", "	fr := frameHeaderPool.Get().(*FrameHeader)\n	fr.Reset()\n", "	fr := frameHeaderPool.Get().(*FrameHeader)\n")
	mutant("frame-body-comes-out-dirty", "pooled-objects-come-out-reset", "frame.go", "	fr := framePools[ftype].Get().(Frame)\n	fr.Reset()\n", "	fr := framePools[ftype].Get().(Frame)\n")
	mutant("header-field-goes-in-dirty", "pooled-objects-come-out-reset", "headerField.go", "	hf.Reset()\n	headerPool.Put(hf)", "	headerPool.Put(hf)")
	mutant("request-ctx-keeps-the-last-response", "pooled-objects-come-out-reset", "serverConn.go", "	ctx.Request.Reset()\n	ctx.Response.Reset()\n", "	ctx.Request.Reset()\n")
	mutant("hpack-comes-out-with-a-table", "pooled-objects-come-out-reset", "hpack.go", "	hp := hpackPool.Get().(*HPACK)\n	hp.Reset()\n", "	hp := hpackPool.Get().(*HPACK)\n")
	mutant("reader-releases-on-success", "readers-return-frame-or-error", "frameHeader.go", "	fr.maxLen = max\n\n	_, err := fr.ReadFrom(br)\n	if err != nil {", "	fr.maxLen = max\n\n	_, err := fr.ReadFrom(br)\n	if err == nil {")
	mutant("reader-keeps-the-frame-with-the-error", "readers-return-frame-or-error", "frameHeader.go", "			frameHeaderPool.Put(fr)\n		}\n\n		fr = nil\n	}\n\n	return fr, err\n}\n\nfunc ReadFrameFromWithSize", "			frameHeaderPool.Put(fr)\n		}\n	}\n\n	return fr, err\n}\n\nfunc ReadFrameFromWithSize")
}

func init() {
	mutant("data-kept-despite-bad-padding", "result-with-error-untouched", "data.go", "		payload, err = http2utils.CutPadding(payload, fr.Len())\n		if err != nil {", "		payload, err = http2utils.CutPadding(payload, fr.Len())\n		if err == nil {")
	mutant("headers-kept-despite-bad-padding", "result-with-error-untouched", "headers.go", "		payload, err = http2utils.CutPadding(payload, len(payload))\n		if err != nil {", "		payload, err = http2utils.CutPadding(payload, len(payload))\n		if err == nil {")
}

func init() {
	mutant("data-padded-without-the-flag", "serialize-essentials", "data.go", "		fr.SetFlags(\n			fr.Flags().Add(FlagPadded))\n		fr.payload = http2utils.AddPadding(fr.payload)", "		fr.payload = http2utils.AddPadding(fr.payload)")
	mutant("data-flagged-without-padding", "serialize-essentials", "data.go", "			fr.Flags().Add(FlagPadded))\n		fr.payload = http2utils.AddPadding(fr.payload)\n", "			fr.Flags().Add(FlagPadded))\n")
}

func init() {
	mutant("shrink-counts-down-from-zero", "counted-loops-advance", "hpack.go", "		for i := 0; i < n; i++ {\n			// release the header field", "		for i := 0; i < n; i-- {\n			// release the header field")
	mutant("previous-walks-off-the-end", "counted-loops-advance", "streams.go", "for i := len(strms) - 1; i >= 0; i-- {", "for i := len(strms) - 1; i >= 0; i++ {")
}

func init() {
	mutant("hpack-reset-keeps-the-table", "reset-completeness", "hpack.go", "func (hp *HPACK) Reset() {\n	hp.releaseDynamic()\n", "func (hp *HPACK) Reset() {\n")
}

func init() {
	allMutants = append(allMutants, Mutant{Name: "cancel-frees-the-slot-before-the-reset", Rule: "slot-released-with-the-reset", Subs: []Subst{
		{File: "conn.go", Old: "	c.cancelStream(id, StreamCanceled)\n\n	// Drop the stream here", New: "	// Drop the stream here"},
		{File: "conn.go", Old: "	if c.takeReq(id) {\n		atomic.AddInt32(&c.openStreams, -1)\n	}\n}", New: "	if c.takeReq(id) {\n		atomic.AddInt32(&c.openStreams, -1)\n	}\n\n	c.cancelStream(id, StreamCanceled)\n}"},
	}})
	allMutants = append(allMutants, Mutant{Name: "finish-frees-the-slot-before-the-reset", Rule: "slot-released-with-the-reset", Subs: []Subst{
		{File: "conn.go", Old: "	if c.deletePending(stream) && err == nil {\n		c.cancelStream(stream, StreamCanceled)\n	}\n\n	// Drop the stream before resolving", New: "	// Drop the stream before resolving"},
		{File: "conn.go", Old: "		atomic.AddInt32(&c.openStreams, -1)\n	}\n\n	r.markFinished()", New: "		atomic.AddInt32(&c.openStreams, -1)\n	}\n\n	if c.deletePending(stream) && err == nil {\n		c.cancelStream(stream, StreamCanceled)\n	}\n\n	r.markFinished()"},
	}})
	allMutants = append(allMutants, Mutant{Name: "dispatch-frees-the-slot-before-the-reset", Rule: "slot-released-with-the-reset", Subs: []Subst{
		{File: "conn.go", Old: "	if !stop && fr.Type() != FrameResetStream {\n		c.cancelStream(fr.Stream(), ProtocolError)\n	}\n\n	c.finish(r, fr.Stream(), err)\n", New: "	c.finish(r, fr.Stream(), err)\n\n	if !stop && fr.Type() != FrameResetStream {\n		c.cancelStream(fr.Stream(), ProtocolError)\n	}\n"},
	}})
	mutant("request-overtakes-the-queue", "slot-released-with-the-reset", "conn.go", "			err := c.flushOut()\n			if err == nil {\n				err = c.writeRequest(ctx)\n			}\n", "			err := c.writeRequest(ctx)\n")
	mutant("flush-writes-one-frame-only", "slot-released-with-the-reset", "conn.go", "			if err != nil {\n				return err\n			}\n		default:\n			return nil", "			return err\n		default:\n			return nil")
}

func init() {
	mutant("handshake-ack-without-a-body", "frames-leave-with-a-body", "conn.go", "			fr.SetBody(stRes)\n\n			if _, err = fr.WriteTo(c.bw); err == nil {", "			if _, err = fr.WriteTo(c.bw); err == nil {")
	mutant("data-frame-without-a-body", "frames-leave-with-a-body", "conn.go", "	fh.SetBody(data)\n", "")
}

func init() {
	mutant("write-loop-stops-on-a-good-write", "nil-error-not-reported", "conn.go", "			if err := c.flushPending(); err != nil {", "			if err := c.flushPending(); err == nil {")
	mutant("pending-body-error-sense-inverted", "nil-error-not-reported", "conn.go", "		if err != nil {\n			return err\n		}\n\n		if end {\n			return nil\n		}", "		if err == nil {\n			return err\n		}\n\n		if end {\n			return nil\n		}")
	mutant("server-read-error-sense-inverted", "nil-error-not-reported", "serverConn.go", "			var h2err Error\n			if errors.As(err, &h2err) && h2err.frameType == FrameGoAway {", "			var h2err Error\n			if err == nil && errors.As(err, &h2err) && h2err.frameType == FrameGoAway {")
}

func init() {
	mutant("frame-flushed-only-when-the-write-failed", "client-writes-are-flushed", "conn.go", "	_, err := fr.WriteTo(c.bw)\n	if err == nil {\n		if err = c.bw.Flush(); err != nil {", "	_, err := fr.WriteTo(c.bw)\n	if err != nil {\n		if err = c.bw.Flush(); err != nil {")
	mutant("ping-never-flushed", "client-writes-are-flushed", "conn.go", "		err = c.bw.Flush()\n		if err == nil {\n			atomic.AddInt32(&c.unacks, 1)\n		}", "		atomic.AddInt32(&c.unacks, 1)")
}

func init() {
	mutant("disconnect-callback-called-unset", "optional-callbacks-guarded", "conn.go", "	first, err := c.shut()\n\n	if first && c.onDisconnect != nil {", "	first, err := c.shut()\n\n	if first || c.onDisconnect != nil {")
	mutant("netdial-called-unset", "optional-callbacks-guarded", "conn.go", "	if d.NetDial != nil {\n		c, err = d.NetDial(d.Addr)", "	if d.NetDial == nil {\n		c, err = d.NetDial(d.Addr)")
}

func init() {
	mutant("stream-born-without-a-context", "stream-birth-and-timeout", "serverConn.go", "				sc.createStream(sc.c, fr.Type(), strm)\n", "")
	mutant("stream-born-without-an-origin", "stream-birth-and-timeout", "serverConn.go", "	strm.origType = frameType\n", "")
}

func init() {
	mutant("goaway-zero-leaves-the-requests-to-the-write-loop", "client-goaway-drain", "conn.go", "				c.failAbove(0)\n\n				_ = c.c.Close()", "				_ = c.c.Close()")
	mutant("reset-with-flow-control-code-ends-the-connection", "client-block-state", "conn.go", "	stop = stop || (fr.Type() != FrameResetStream && errors.Is(err, FlowControlError))", "	stop = stop || errors.Is(err, FlowControlError)")
	mutant("retry-appends-to-the-first-attempts-response", "client-pool-shape", "client.go", "		res.Reset()\n", "")
}

func init() {
	mutant("body-run-as-long-as-the-window", "cli-chunk-bound", "conn.go", "		if n > sendRun {\n			n = sendRun\n		}\n\n", "")
}

func init() {
	mutant("preface-read-in-one-go", "server-construction", "http2.go", "io.ReadFull(br, b[:prefaceLen])", "br.Read(b[:prefaceLen])")
	mutant("late-handler-report-picked-at-random", "teardown-lets-go", "serverConn.go", "			select {\n			case <-sc.handlerStop:\n				// Nobody is left to send the response, or to close a body\n				// stream the handler put in it.\n				closeLeftBody(ctx)\n\n				return\n			default:\n			}\n\n", "")
	mutant("late-handler-report-not-looked-at-again", "teardown-lets-go", "serverConn.go", "				select {\n				case <-sc.handlerStop:\n					sc.dropReported()\n				default:\n				}\n", "")
	mutant("abandoned-report-does-not-end-the-connection", "server-loop-shape", "serverConn.go", "				releaseStream(strm)\n\n				// See below: this may have been the last stream a GOAWAY\n				// was waiting for.\n				if isClosing() && canCloseAfterGoAway() {\n					break loop\n				}\n", "				releaseStream(strm)\n")
	mutant("timeout-arm-does-not-end-the-connection", "server-loop-shape", "serverConn.go", "			// A stream that timed out may have been the last one a GOAWAY\n			// was waiting for.\n			if isClosing() && canCloseAfterGoAway() {\n				break loop\n			}\n", "")
	mutant("settings-on-a-stream-dropped", "client-loop-shape", "conn.go", "			if t := fr.Type(); t == FrameSettings || t == FramePing || t == FrameGoAway {", "			if t := fr.Type(); t == FramePing || t == FrameGoAway {")
	mutant("stream-frames-on-stream-zero-ignored", "client-loop-shape", "conn.go", "		case FrameData, FrameHeaders, FramePriority, FrameResetStream, FramePushPromise, FrameContinuation:\n", "		case FrameData, FrameHeaders, FramePriority, FrameResetStream, FrameContinuation:\n")
	mutant("window-overflow-by-settings-accepted", "initial-window-delta", "conn.go", "		if int64(pb.window)+delta > 1<<31-1 {", "		if int64(pb.window)+delta > 1<<32-1 {")
	mutant("window-overflow-error-not-propagated", "nil-error-not-reported", "conn.go", "		if err := c.applyInitialWindow(int32(st.MaxWindowSize())); err != nil {", "		if err := c.applyInitialWindow(int32(st.MaxWindowSize())); err == nil {")
	mutant("dropreported-called-with-the-loop-alive", "request-ctx-handoff", "serverConn.go", "			case sc.handlerDone <- strm:\n", "			case sc.handlerDone <- strm:\n				sc.dropReported()\n")
}

func init() {
	mutant("write-loop-queues-its-reset-to-itself", "loops-do-not-queue-to-themselves", "conn.go", "				return c.resetStreamNow(id, InternalError)\n", "				c.cancelStream(id, InternalError)\n\n				return nil\n")
	mutant("write-waits-for-room-only", "client-stuck-writes-bounded", "conn.go", "	case err := <-r.Err:\n", "	case err := <-make(chan error):\n")
	mutant("control-frame-write-unbounded", "client-stuck-writes-bounded", "conn.go", "	defer c.limitControlWrite()()\n\n	_, err := fr.WriteTo(c.bw)\n	if err == nil {\n		if err = c.bw.Flush(); err != nil {", "	_, err := fr.WriteTo(c.bw)\n	if err == nil {\n		if err = c.bw.Flush(); err != nil {")
	mutant("control-write-deadline-never-removed", "client-stuck-writes-bounded", "conn.go", "	return func() { _ = c.c.SetWriteDeadline(time.Time{}) }", "	return func() {}")
	mutant("stream-end-without-headers-is-a-response", "client-stuck-writes-bounded", "conn.go", "	if err == nil && !r.headersDone && c.endsStream(fr) {", "	if err == nil && !r.headersDone && c.endsStream(fr) && false {")
	mutant("timed-out-context-goes-to-the-pool", "request-ctx-handoff", "serverConn.go", "			strm.handlerRunning = false\n\n			sc.detachTimedOut(strm)\n\n			if strm.abandoned {", "			strm.handlerRunning = false\n\n			if strm.abandoned {")
	mutant("left-body-closed-under-a-timed-out-handler", "teardown-lets-go", "serverConn.go", "	if ctx.LastTimeoutErrorResponse() == nil {\n		_ = ctx.Response.CloseBodyStream()\n	}", "	_ = ctx.Response.CloseBodyStream()")
}

func init() {
	mutant("interim-fields-reach-the-response", "client-block-state", "conn.go", "		} else if !c.block.interim {\n			res.Header.AddBytesKV", "		} else {\n			res.Header.AddBytesKV")
	mutant("stream-limit-compared-in-32-bits", "no-stream-after-goaway", "conn.go", "	return int64(atomic.LoadInt32(&c.openStreams)) < int64(atomic.LoadUint32(&c.maxStreams))", "	return atomic.LoadInt32(&c.openStreams) < int32(atomic.LoadUint32(&c.maxStreams))")
	mutant("complete-request-timed-out-under-its-handler", "stream-birth-and-timeout", "serverConn.go", "				if !strm.responded {\n					due = append(due, strm)\n				}", "				due = append(due, strm)")
	mutant("timer-armed-for-a-stream-slow-to-answer", "stream-birth-and-timeout", "serverConn.go", "				if strm.origType != FrameHeaders || strm.responded {\n					continue\n				}", "				if strm.origType != FrameHeaders {\n					continue\n				}")
	mutant("zero-increment-on-a-stream-ends-the-connection", "stream-offences-stay-on-the-stream", "serverConn.go", "			return NewResetStreamError(ProtocolError, \"window increment of 0\")", "			return NewGoAwayError(ProtocolError, \"window increment of 0\")")
	mutant("zero-increment-on-a-stream-judged-by-the-read-loop", "read-loop-connection-errors", "serverConn.go", "			if win == 0 && fr.Stream() == 0 {", "			if win == 0 {")
}

func init() {
	mutant("timeout-arm-searches-past-a-stream-not-due", "stream-birth-and-timeout", "serverConn.go", "				if !time.Now().After(strm.startedAt.Add(sc.maxRequestTime)) {\n					break\n				}", "				if !time.Now().After(strm.startedAt.Add(sc.maxRequestTime)) {\n					continue\n				}")
}

func init() {
	mutant("idle-timer-cuts-requests-in-flight", "stream-birth-and-timeout", "serverConn.go", "			if len(strms) != 0 {\n				sc.maxIdleTimer.Reset(sc.maxIdleTime)\n\n				continue\n			}\n\n			sc.writeGoAway(0, NoError, \"connection has been idle for a long time\")", "			sc.writeGoAway(0, NoError, \"connection has been idle for a long time\")")
	mutant("priority-self-dependency-ends-the-connection", "stream-offences-stay-on-the-stream", "serverConn.go", "			return NewResetStreamError(ProtocolError, \"stream that depends on itself\")", "			return NewGoAwayError(ProtocolError, \"stream that depends on itself\")")
}

func init() {
	mutant("block-start-forgets-it-is-the-trailers", "client-block-state", "conn.go", "		hb.final = false\n		hb.interim = false\n", "		hb.final = false\n		hb.interim = false\n		hb.trailers = false\n")
	mutant("write-loop-leaves-with-an-unanswered-request", "client-stuck-writes-bounded", "conn.go", "			err := c.flushOut()\n			if err == nil {\n				err = c.writeRequest(ctx)\n			}\n", "			if err := c.flushOut(); err != nil {\n				return WriteError{err}\n			}\n\n			err := c.writeRequest(ctx)\n")
	mutant("settings-release-does-not-end-the-connection", "server-loop-shape", "serverConn.go", "					sc.flushStreams(strms, closeStream)\n				}\n\n				// The credit may have let the last response a GOAWAY was\n				// waiting for go out.\n				if isClosing() && canCloseAfterGoAway() {\n					break loop\n				}\n", "					sc.flushStreams(strms, closeStream)\n\n					if isClosing() && canCloseAfterGoAway() {\n						break loop\n					}\n				}\n")
}

func init() {
	mutant("trailers-without-end-stream-end-the-connection", "stream-offences-stay-on-the-stream", "serverConn.go", "			malformed = NewResetStreamError(ProtocolError, \"trailers that do not end the stream\")", "			malformed = NewGoAwayError(ProtocolError, \"trailers that do not end the stream\")")
	mutant("malformed-frame-rejected-before-its-block-is-decoded", "hdr-must-decode", "serverConn.go", "	if malformed != nil {\n		return sc.rejectBlockFrom(strm, fr, b, strm.blockFields, malformed)\n	}\n", "	if malformed != nil {\n		return malformed\n	}\n")
	mutant("rejected-block-start-counts-a-field-too-many", "block-remainder-decoded", "serverConn.go", "	return sc.rejectBlockFrom(strm, fr, b, strm.blockFields+1, reason)", "	return sc.rejectBlockFrom(strm, fr, b, strm.blockFields+2, reason)")
}

func init() {
	mutant("duplicate-scheme-accepted", "pseudo-headers-once", "serverConn.go", "				if strm.pseudoScheme {\n					return sc.rejectBlock(strm, fr, b, NewResetStreamError(ProtocolError, \"duplicate :scheme pseudo-header\"))\n				}\n", "")
	mutant("authority-not-mapped-to-host", "pseudo-headers-once", "serverConn.go", "				req.Header.SetHostBytes(v)\n				req.Header.AddBytesV(\"Host\", v)\n", "				req.Header.SetHostBytes(v)\n")
}

func init() {
	mutant("finished-response-leaves-its-body-open", "response-body-closed-with-the-response", "serverConn.go", "	sc.closeBodyStream(strm)\n\n	return true\n}", "	return true\n}")
	mutant("failed-body-read-leaves-the-stream-open", "response-body-closed-with-the-response", "serverConn.go", "				sc.closeBodyStream(strm)\n				sc.resetStream(strm, InternalError)", "				sc.resetStream(strm, InternalError)")
}

func init() {
	mutant("scheme-never-reaches-the-uri", "pseudo-headers-once", "serverConn.go", "			strm.ctx.Request.URI().SetSchemeBytes(strm.scheme)\n", "")
}

func init() {
	mutant("user-agent-sent-twice", "request-fields-sent-once", "conn.go", "		if bytes.EqualFold(k, StringUserAgent) {\n			continue\n		}\n\n", "")
	mutant("user-agent-never-sent", "request-fields-sent-once", "conn.go", "	hf.SetBytes(StringUserAgent, req.Header.UserAgent())\n	enc.AppendHeaderField(h, hf, true)\n", "")
	mutant("scheme-sent-in-place-of-the-user-agent", "request-fields-sent-once", "conn.go", "	hf.SetBytes(StringUserAgent, req.Header.UserAgent())\n", "")
}

func init() {
	mutant("field-with-empty-value-counts-as-no-field", "small-primitives", "headerField.go", "return len(hf.key) == 0 && len(hf.value) == 0", "return len(hf.key) == 0 || len(hf.value) == 0")
	mutant("setbytes-forgets-the-name", "small-primitives", "headerField.go", "	hf.SetKeyBytes(k)\n	hf.SetValueBytes(v)", "	hf.SetValueBytes(v)")
	mutant("parseuint-starts-at-one", "small-primitives", "strings.go", "	n := 0\n	for _, c := range b {", "	n := 1\n	for _, c := range b {")
}

func init() {
	mutant("goaway-last-stream-keeps-the-reserved-bit", "small-primitives", "goaway.go", "	ga.stream = stream & (1<<31 - 1)", "	ga.stream = stream & (1<<32 - 1)")
	mutant("priority-dependency-loses-a-bit", "small-primitives", "priority.go", "	pry.stream = stream & (1<<31 - 1)", "	pry.stream = stream & (1<<30 - 1)")
}

func init() {
	mutant("detach-forgets-to-swap", "request-ctx-handoff", "serverConn.go", "	tr.CopyTo(&ctx.Response)\n\n	strm.ctx = ctx\n", "	tr.CopyTo(&ctx.Response)\n")
	mutant("detach-loses-the-timeout-response", "request-ctx-handoff", "serverConn.go", "	tr.CopyTo(&ctx.Response)\n\n	strm.ctx = ctx\n", "	strm.ctx = ctx\n")
	mutant("server-write-loop-stops-after-a-good-frame", "server-response-encoding", "serverConn.go", "		case fr := <-sc.writer:\n			if send(fr) != nil {\n				return\n			}\n		case <-sc.writeStop:", "		case fr := <-sc.writer:\n			if send(fr) == nil {\n				return\n			}\n		case <-sc.writeStop:")
}

func init() {
	mutant("authority-in-trailers-becomes-the-host", "pseudo-headers-once", "serverConn.go", "		strm.regularSeen = true\n	}\n\n	if headerFrame, ok", "	}\n\n	if headerFrame, ok")
	mutant("status-with-leading-zeros-accepted", "client-response-shape", "conn.go", "			if err != nil || len(hf.ValueBytes()) != 3 || n < 100 || n > 999 {", "			if err != nil || n < 100 || n > 999 {")
	mutant("interim-content-length-not-checked", "client-block-state", "conn.go", "		if bytes.Equal(hf.KeyBytes(), StringContentLength) {\n			n, err := parseUint(hf.ValueBytes())", "		if c.block.interim {\n			continue\n		}\n\n		if bytes.Equal(hf.KeyBytes(), StringContentLength) {\n			n, err := parseUint(hf.ValueBytes())")
	mutant("goaway-code-cut-to-31-bits", "small-primitives", "goaway.go", "	ga.code = code\n", "	ga.code = code & (1<<31 - 1)\n")
	mutant("settings-on-a-stream-taken-for-a-stream-frame", "read-loop-connection-errors", "serverConn.go", "	case FrameSettings, FrameGoAway:\n", "	case FrameGoAway:\n")
	mutant("stream-window-update-handed-to-the-request", "client-loop-shape", "conn.go", "			c.addWindow(fr.Stream(), int32(fr.Body().(*WindowUpdate).Increment()))\n\n			ReleaseFrameHeader(fr)\n\n			continue\n", "			c.addWindow(fr.Stream(), int32(fr.Body().(*WindowUpdate).Increment()))\n")
}

func init() {
	mutant("handshake-forgets-the-low-point", "table-size-low-point", "conn.go", "			if st.has(HeaderTableSize) && st.tableSizeLow < size {\n				c.enc.SetMaxTableSize(st.tableSizeLow)\n			}\n\n", "")
	mutant("empty-field-at-a-frame-end-taken-for-no-field", "no-phantom-field", "serverConn.go", "		if !sc.dec.fieldDecoded {\n			// The fragment ended in a dynamic table size update", "		if len(b) == 0 && hf.Empty() {\n			// The fragment ended in a dynamic table size update")
	mutant("decoder-claims-a-field-after-a-size-update", "small-primitives", "hpack.go", "	hp.fieldDecoded = false\n\nloop:", "loop:")
	mutant("data-padding-stored-in-the-data", "serialize-leaves-the-frame-alone", "data.go", "		fr.payload = http2utils.AddPadding(fr.payload)", "		data.b = http2utils.AddPadding(data.b)\n		fr.setPayload(data.b)")
}

func init() {
	mutant("limit-refuses-any-frame-on-an-unknown-stream", "refusal-is-for-requests-in-order", "serverConn.go", "newRequest := fr.Type() == FrameHeaders && fr.Stream() > highID", "newRequest := fr.Stream() > highID")
	mutant("request-order-judged-by-the-goaway-promise", "refusal-is-for-requests-in-order", "serverConn.go", "newRequest := fr.Type() == FrameHeaders && fr.Stream() > highID", "newRequest := fr.Type() == FrameHeaders && fr.Stream() > sc.lastID")
	mutant("request-order-decided-after-the-id-is-published", "refusal-is-for-requests-in-order", "serverConn.go", "(openStreams >= int(sc.st.maxStreams) || wasClosing) && newRequest {", "(openStreams >= int(sc.st.maxStreams) || wasClosing) && fr.Type() == FrameHeaders && fr.Stream() > sc.lastID {")
	mutant("refused-id-leaves-no-trace", "refusal-is-for-requests-in-order", "serverConn.go", "\t\t\t\t\tmarkClosed(fr.Stream(), true)\n\n\t\t\t\t\thighID = fr.Stream()\n", "\t\t\t\t\tmarkClosed(fr.Stream(), true)\n")
	mutant("refused-id-raises-the-goaway-promise", "refusal-is-for-requests-in-order", "serverConn.go", "\t\t\t\t\tmarkClosed(fr.Stream(), true)\n\n\t\t\t\t\thighID = fr.Stream()\n", "\t\t\t\t\tmarkClosed(fr.Stream(), true)\n\n\t\t\t\t\thighID = fr.Stream()\n\t\t\t\t\tatomic.StoreUint32(&sc.lastID, fr.Stream())\n")
	mutant("accepted-id-leaves-the-order-mark-behind", "server-loop-shape", "serverConn.go", "\t\t\t\t\tatomic.StoreUint32(&sc.lastID, fr.Stream())\n\n\t\t\t\t\thighID = fr.Stream()\n\t\t\t\t}", "\t\t\t\t\tatomic.StoreUint32(&sc.lastID, fr.Stream())\n\t\t\t\t}")
}

func init() {
	mutant("headers-priority-section-stored-in-the-block", "serialize-leaves-the-frame-alone", "headers.go", "	payload = append(payload, h.rawHeaders...)\n", "	h.rawHeaders = append(payload, h.rawHeaders...)\n	payload = h.rawHeaders\n")
	mutant("headers-weight-written-at-the-wrong-octet", "payload-layout", "headers.go", "		payload[4] = h.weight", "		payload[3] = h.weight")
}
