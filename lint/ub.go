package main

import (
	"go/ast"
	"go/token"
)

// UB — upper-bound recogniser over a statement sequence (AST level).
//
// Tracks, for integer locals, a set of expressions each of which the local is
// known not to exceed (or, after a clamp to zero, not to exceed unless that
// expression is negative, in which case the local is 0). Recognised shapes only:
//
//	x := E / x = E                      UB(x) = {E} ∪ UB(E)
//	x = min(A, B, ...)                  UB(x) = {A, B, ...} ∪ their UBs
//	if B < x { x = B }  (or x > B)      UB(x) ∪= {B} ∪ UB(B)        (min idiom)
//	if x < 0 { x = 0 }                  UB(x) unchanged              (clamp)
//	if A+x >= C { x = C - A }           UB(x) ∪= {C - A}             (tail idiom)
//
// Any other assignment to x forgets what was known. Integer conversions are
// transparent. Nothing is assumed about shapes that are not recognised.
type ubState map[string]map[string]bool

func (p *Prog) stripConvAST(e ast.Expr) ast.Expr {
	for {
		e = ast.Unparen(e)
		c, ok := e.(*ast.CallExpr)
		if !ok || len(c.Args) != 1 {
			return e
		}
		if tv, ok := p.infoFor(c).Types[c.Fun]; ok && tv.IsType() {
			e = c.Args[0]
			continue
		}
		return e
	}
}

func (p *Prog) ubKey(e ast.Expr) string { return p.text(p.stripConvAST(e)) }

func (u ubState) set(x string, bounds map[string]bool) { u[x] = bounds }

func (u ubState) closure(p *Prog, e ast.Expr) map[string]bool {
	out := map[string]bool{}
	k := p.ubKey(e)
	out[k] = true
	if id, ok := p.stripConvAST(e).(*ast.Ident); ok {
		for b := range u[id.Name] {
			out[b] = true
		}
	}
	return out
}

// ubWalk processes statements in order up to (not including) stop.
func (p *Prog) ubWalk(list []ast.Stmt, u ubState, stop ast.Node) bool {
	for _, s := range list {
		if stop != nil && s.Pos() <= stop.Pos() && stop.End() <= s.End() {
			// descend into the statement that contains stop, if it is a block-like
			switch x := s.(type) {
			case *ast.BlockStmt:
				return p.ubWalk(x.List, u, stop)
			case *ast.ForStmt:
				return p.ubWalk(x.Body.List, u, stop)
			case *ast.IfStmt:
				if stop.Pos() >= x.Body.Pos() && stop.End() <= x.Body.End() {
					return p.ubWalk(x.Body.List, u, stop)
				}
			}
			return true
		}
		switch x := s.(type) {
		case *ast.AssignStmt:
			if len(x.Lhs) == 1 && len(x.Rhs) == 1 {
				if id, ok := x.Lhs[0].(*ast.Ident); ok && (x.Tok == token.DEFINE || x.Tok == token.ASSIGN) {
					rhs := p.stripConvAST(x.Rhs[0])
					if c, ok := rhs.(*ast.CallExpr); ok && p.calleeOf(c) == "builtin.min" {
						b := map[string]bool{}
						for _, a := range c.Args {
							for k := range u.closure(p, a) {
								b[k] = true
							}
						}
						u.set(id.Name, b)
					} else {
						u.set(id.Name, u.closure(p, x.Rhs[0]))
					}
					continue
				}
			}
			for _, l := range x.Lhs {
				if id, ok := l.(*ast.Ident); ok {
					delete(u, id.Name)
				}
			}
		case *ast.IfStmt:
			if x.Else != nil || len(x.Body.List) != 1 || x.Init != nil {
				p.ubForget(x, u)
				continue
			}
			as, ok := x.Body.List[0].(*ast.AssignStmt)
			if !ok || len(as.Lhs) != 1 || len(as.Rhs) != 1 || as.Tok != token.ASSIGN {
				p.ubForget(x, u)
				continue
			}
			id, ok := as.Lhs[0].(*ast.Ident)
			if !ok {
				p.ubForget(x, u)
				continue
			}
			cond, ok := ast.Unparen(x.Cond).(*ast.BinaryExpr)
			if !ok {
				p.ubForget(x, u)
				continue
			}
			xk := id.Name
			rk := p.ubKey(as.Rhs[0])
			lk, yk := p.ubKey(cond.X), p.ubKey(cond.Y)
			switch {
			// if B < x { x = B }   |  if x > B { x = B }
			case (cond.Op == token.LSS || cond.Op == token.LEQ) && yk == xk && lk == rk,
				(cond.Op == token.GTR || cond.Op == token.GEQ) && lk == xk && yk == rk:
				if u[xk] == nil {
					u[xk] = map[string]bool{}
				}
				for k := range u.closure(p, as.Rhs[0]) {
					u[xk][k] = true
				}
			// if x < 0 { x = 0 }
			case cond.Op == token.LSS && lk == xk && yk == "0" && rk == "0":
				if u[xk] != nil {
					u[xk]["0-clamped"] = true
				}
			// if A+x >= C { x = C - A }
			case (cond.Op == token.GEQ || cond.Op == token.GTR):
				sum := p.linOf(cond.X, nil)
				tot := p.linOf(cond.Y, nil)
				newv := p.linOf(as.Rhs[0], nil)
				if sum.T[xk] == 1 && newv.eq(tot.add(sum.add(Lin{T: map[string]int64{xk: 1}}, -1), -1)) {
					if u[xk] == nil {
						u[xk] = map[string]bool{}
					}
					u[xk]["tail:"+newv.String()] = true
				} else {
					delete(u, xk)
				}
			default:
				delete(u, xk)
			}
		default:
			p.ubForget(s, u)
		}
	}
	return false
}

// ubForget drops knowledge about every local assigned inside n.
func (p *Prog) ubForget(n ast.Node, u ubState) {
	ast.Inspect(n, func(m ast.Node) bool {
		switch x := m.(type) {
		case *ast.AssignStmt:
			for _, l := range x.Lhs {
				if id, ok := l.(*ast.Ident); ok {
					delete(u, id.Name)
				}
			}
		case *ast.IncDecStmt:
			if id, ok := x.X.(*ast.Ident); ok {
				delete(u, id.Name)
			}
		}
		return true
	})
}
