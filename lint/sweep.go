package main

// Mutation sweep (development and thorough-tier evidence): generate simple
// operator-level edits of the library source mechanically, build each in
// memory, run every rule, and report which edits no rule notices. It measures
// how much of the code is under some rule; survivors are triaged by hand
// (equivalent edit, outside every property, or a gap to close). Nothing of the
// repository is executed.

import (
	"encoding/json"
	"fmt"
	"go/ast"
	"go/token"
	"os"
	"sort"
	"strings"
	"sync"
)

type sweepEdit struct {
	File string
	Line int
	Fn   string
	Op   string
	Sub  Subst
}

func genSweepEdits(p *Prog, only string) []sweepEdit {
	var out []sweepEdit
	for _, f := range append(append([]*ast.File{}, p.Files...), p.UFiles...) {
		fname := p.Fset.Position(f.Pos()).Filename
		rel := relName(fname)
		if only != "" && !strings.Contains(rel, only) {
			continue
		}
		src := p.Src[fname]
		tf := p.Fset.File(f.Pos())
		off := func(pos token.Pos) int { return tf.Offset(pos) }
		pm := p.parentMaps()[f]
		add := func(n ast.Node, op string, start, end token.Pos, repl string) {
			out = append(out, sweepEdit{File: rel, Line: p.Fset.Position(n.Pos()).Line, Fn: enclosingFunc(pm, n), Op: op,
				Sub: Subst{File: rel, UseOff: true, Off: off(start), Len: off(end) - off(start), New: repl}})
		}
		swap := map[token.Token]string{token.LSS: "<=", token.LEQ: "<", token.GTR: ">=", token.GEQ: ">", token.EQL: "!=", token.NEQ: "==", token.LAND: "||", token.LOR: "&&", token.ADD: "-", token.SUB: "+"}
		ast.Inspect(f, func(n ast.Node) bool {
			switch x := n.(type) {
			case *ast.FuncDecl:
				if x.Body == nil {
					return false
				}
				// String()/debug helpers are not interesting
				if x.Name.Name == "String" || x.Name.Name == "Error" {
					return false
				}
			case *ast.BinaryExpr:
				if r, ok := swap[x.Op]; ok {
					// skip string concatenation
					if x.Op == token.ADD {
						if tv, ok := p.infoFor(x).Types[x]; ok && tv.Type != nil && strings.Contains(tv.Type.String(), "string") {
							return true
						}
					}
					add(x, fmt.Sprintf("%s -> %s", x.Op, r), x.OpPos, x.OpPos+token.Pos(len(x.Op.String())), r)
				}
			case *ast.IfStmt:
				if x.Else == nil && x.Init == nil && len(x.Body.List) > 0 && exits(x.Body.List[len(x.Body.List)-1]) {
					add(x, "delete early-exit if", x.Pos(), x.End(), "")
				}
			case *ast.ExprStmt:
				if c, ok := x.X.(*ast.CallExpr); ok {
					name := p.calleeOf(c)
					if !strings.Contains(name, "Printf") && !strings.HasPrefix(name, "builtin.") {
						add(x, "delete call "+name, x.Pos(), x.End(), "")
					}
				}
			case *ast.AssignStmt:
				if len(x.Lhs) == 1 && len(x.Rhs) == 1 {
					switch x.Tok {
					case token.SUB_ASSIGN:
						add(x, "-= -> +=", x.TokPos, x.TokPos+2, "+=")
					case token.ADD_ASSIGN:
						add(x, "+= -> -=", x.TokPos, x.TokPos+2, "-=")
					case token.ASSIGN:
						if id, ok := x.Rhs[0].(*ast.Ident); ok && (id.Name == "true" || id.Name == "false") {
							nv := "true"
							if id.Name == "true" {
								nv = "false"
							}
							add(x, id.Name+" -> "+nv, id.Pos(), id.End(), nv)
						}
						// delete a field store
						if _, ok := x.Lhs[0].(*ast.SelectorExpr); ok {
							add(x, "delete store "+p.text(x.Lhs[0]), x.Pos(), x.End(), "")
						}
					}
				}
			case *ast.BasicLit:
				if x.Kind == token.INT {
					if v, ok := p.intConst(x); ok && v >= 0 && v < 1<<20 {
						// not inside composite literal tables
						for cur := pm[x]; cur != nil; cur = pm[cur] {
							if _, ok := cur.(*ast.CompositeLit); ok {
								return true
							}
							if _, ok := cur.(*ast.FuncDecl); ok {
								break
							}
						}
						add(x, fmt.Sprintf("%d -> %d", v, v+1), x.Pos(), x.End(), fmt.Sprint(v+1))
					}
				}
			case *ast.IncDecStmt:
				if x.Tok == token.INC {
					add(x, "++ -> --", x.TokPos, x.TokPos+2, "--")
				} else {
					add(x, "-- -> ++", x.TokPos, x.TokPos+2, "++")
				}
			}
			return true
		})
		_ = src
	}
	return out
}

func doSweep(only string, outPath string, withBCE bool) int {
	base, err := loadBase()
	if err != nil {
		fmt.Println("load:", err)
		return 1
	}
	prog, err := base.build(nil)
	if err != nil {
		fmt.Println("build:", err)
		return 1
	}
	var rules []*Rule
	for _, r := range allRules {
		if r.Name == "bounds-residual" && !withBCE {
			continue
		}
		rules = append(rules, r)
	}
	baseFail := map[string]bool{}
	for _, r := range rules {
		for _, in := range runRule(prog, r).Insts {
			if !in.OK {
				baseFail[fullKey(in)] = true
			}
		}
	}
	edits := genSweepEdits(prog, only)
	fmt.Printf("sweep: %d candidate edits, %d rules\n", len(edits), len(rules))
	type res struct {
		E       sweepEdit
		Outcome string
		By      string
	}
	results := make([]res, len(edits))
	sem := make(chan struct{}, 12)
	var wg sync.WaitGroup
	for i, e := range edits {
		wg.Add(1)
		go func(i int, e sweepEdit) {
			defer wg.Done()
			sem <- struct{}{}
			defer func() { <-sem }()
			rs := res{E: e}
			defer func() {
				if x := recover(); x != nil {
					rs.Outcome = fmt.Sprintf("panic: %v", x)
				}
				results[i] = rs
			}()
			p, err := base.build([]Subst{e.Sub})
			if err != nil {
				rs.Outcome = "invalid"
				return
			}
			for _, r := range rules {
				for _, in := range runRule(p, r).Insts {
					if !in.OK && !baseFail[fullKey(in)] {
						rs.Outcome = "killed"
						rs.By = r.Name
						return
					}
				}
			}
			rs.Outcome = "survived"
		}(i, e)
	}
	wg.Wait()
	counts := map[string]int{}
	byFn := map[string][2]int{}
	var surv []res
	for _, r := range results {
		counts[r.Outcome]++
		if r.Outcome == "killed" || r.Outcome == "survived" {
			c := byFn[r.E.Fn]
			if r.Outcome == "killed" {
				c[0]++
			} else {
				c[1]++
				surv = append(surv, r)
			}
			byFn[r.E.Fn] = c
		}
	}
	fmt.Printf("outcomes: %v\n", counts)
	var fns []string
	for f := range byFn {
		fns = append(fns, f)
	}
	sort.Strings(fns)
	for _, f := range fns {
		c := byFn[f]
		fmt.Printf("  %-45s noticed %3d  unnoticed %3d\n", f, c[0], c[1])
	}
	if outPath != "" {
		var lines []map[string]interface{}
		for _, r := range results {
			lines = append(lines, map[string]interface{}{"file": r.E.File, "line": r.E.Line, "fn": r.E.Fn, "op": r.E.Op, "outcome": r.Outcome, "by": r.By, "off": r.E.Sub.Off, "len": r.E.Sub.Len, "new": r.E.Sub.New})
		}
		b, _ := json.MarshalIndent(lines, "", " ")
		_ = os.WriteFile(outPath, b, 0o644)
	}
	return 0
}
