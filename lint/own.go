package main

// OWN — goroutine ownership / access discipline on go/ssa.
//
// 1. A package call graph: static callees, closures called through local
//    variables or free variables that are assigned one function literal,
//    function-typed parameters resolved through the call sites' arguments, and
//    interface invokes resolved to the package's implementations (CHA).
// 2. Goroutine roots (go statements, time.AfterFunc callbacks, exported entry
//    points) and, per function, the set of roots that reach it without
//    crossing a go statement.
// 3. Every access to a field of the connection-state structs, classified as
//    read / write / atomic / sync and with the protection in force at that
//    instruction: init (before the goroutines exist, or on a fresh object),
//    atomic, locked(M) (a Lock of M dominates with no Unlock in between;
//    verified wrapper functions count), or plain.
// The armed rule compares each access with a frozen per-field discipline table.

import (
	"fmt"
	"go/token"
	"go/types"
	"sort"
	"strings"

	"golang.org/x/tools/go/ssa"
)

type ownAccess struct {
	Fn     *ssa.Function
	Instr  ssa.Instruction
	Owner  string
	Field  string
	Kind   string // read | write | atomic | sync
	Prot   string // init | atomic | locked:<M>[,<M2>] | plain
	Locks  map[string]bool
	Detail string
}

type ownResult struct {
	Callees map[ssa.CallInstruction][]*ssa.Function
	// Visits[f][root] = the nil-parameter masks under which root reaches f
	Visits   map[*ssa.Function]map[string][]uint32
	RootsOf  map[*ssa.Function]map[string]bool
	Accesses []ownAccess
	Roots    map[string]*ssa.Function
}

var ownStructs = map[string]bool{"serverConn": true, "Conn": true, "Client": true, "Ctx": true, "pendingBody": true, "Stream": true}

func (p *Prog) implementers(method string) []*ssa.Function {
	var out []*ssa.Function
	for _, f := range p.allFuncs() {
		if f.Signature.Recv() != nil && f.Name() == method && f.Pkg == p.SPkg {
			out = append(out, f)
		}
	}
	return out
}

// implementersOf narrows implementers to receivers whose type really
// implements the interface the call is made through.
func (p *Prog) implementersOf(c *ssa.CallCommon) []*ssa.Function {
	iface, _ := c.Value.Type().Underlying().(*types.Interface)
	var out []*ssa.Function
	for _, f := range p.implementers(c.Method.Name()) {
		if iface == nil || types.Implements(f.Signature.Recv().Type(), iface) {
			out = append(out, f)
		}
	}
	return out
}

// releasesCtx: the call is (*Ctx).release, a call of a local closure that makes it
// (the `release := func() { if !released { released = true; ctx.release() } }` idiom),
// or a call of a function that releases, directly or by defer, a Ctx it was
// handed as an argument (the callee gives the caller's ownership back).
func (p *Prog) releasesCtx(c *ssa.Call) bool {
	if p.calleeName(c.Common()) == "(*Ctx).release" {
		return true
	}
	bodyReleases := func(g *ssa.Function, needParam bool) bool {
		for _, b := range g.Blocks {
			for _, x := range b.Instrs {
				ci, ok := x.(ssa.CallInstruction)
				if !ok {
					continue
				}
				if _, isGo := x.(*ssa.Go); isGo {
					continue
				}
				if p.calleeName(ci.Common()) != "(*Ctx).release" || len(ci.Common().Args) != 1 {
					continue
				}
				if !needParam {
					return true
				}
				for _, pa := range g.Params {
					if ci.Common().Args[0] == pa {
						return true
					}
				}
			}
		}
		return false
	}
	if f := c.Common().StaticCallee(); f != nil {
		if f.Blocks == nil {
			return false
		}
		return bodyReleases(f, f.Parent() == nil)
	}
	if !c.Common().IsInvoke() {
		for _, g := range p.closureOf(c.Common().Value, c.Parent(), 4) {
			if bodyReleases(g, false) {
				return true
			}
		}
	}
	return false
}

// closureOf resolves a function value to the function literals it can be.
func (p *Prog) closureOf(v ssa.Value, fn *ssa.Function, depth int) []*ssa.Function {
	if depth == 0 {
		return nil
	}
	switch x := v.(type) {
	case *ssa.Function:
		return []*ssa.Function{x}
	case *ssa.MakeClosure:
		if f, ok := x.Fn.(*ssa.Function); ok {
			return []*ssa.Function{f}
		}
	case *ssa.UnOp:
		if x.Op != token.MUL {
			return nil
		}
		switch a := x.X.(type) {
		case *ssa.Alloc:
			var out []*ssa.Function
			for _, ref := range *a.Referrers() {
				if st, ok := ref.(*ssa.Store); ok && st.Addr == a {
					out = append(out, p.closureOf(st.Val, fn, depth-1)...)
				}
			}
			return out
		case *ssa.FreeVar:
			// find the binding in the parent's MakeClosure
			par := fn.Parent()
			if par == nil {
				return nil
			}
			idx := -1
			for i, fv := range fn.FreeVars {
				if fv == a {
					idx = i
				}
			}
			var out []*ssa.Function
			for _, b := range par.Blocks {
				for _, in := range b.Instrs {
					if mc, ok := in.(*ssa.MakeClosure); ok && mc.Fn == fn && idx >= 0 && idx < len(mc.Bindings) {
						// the binding is the address (alloc) of the captured variable
						if al, ok := mc.Bindings[idx].(*ssa.Alloc); ok {
							for _, ref := range *al.Referrers() {
								if st, ok := ref.(*ssa.Store); ok && st.Addr == al {
									out = append(out, p.closureOf(st.Val, par, depth-1)...)
								}
							}
						}
					}
				}
			}
			return out
		}
	case *ssa.Parameter:
		// function-typed parameter: the arguments at the static call sites
		var out []*ssa.Function
		idx := -1
		for i, pa := range fn.Params {
			if pa == x {
				idx = i
			}
		}
		if idx < 0 {
			return nil
		}
		for _, g := range p.allFuncs() {
			for _, cs := range p.callsIn(g) {
				if cs.Common.StaticCallee() == fn && idx < len(cs.Common.Args) {
					out = append(out, p.closureOf(cs.Common.Args[idx], g, depth-1)...)
				}
			}
		}
		return out
	case *ssa.Phi:
		var out []*ssa.Function
		for _, e := range x.Edges {
			out = append(out, p.closureOf(e, fn, depth-1)...)
		}
		return out
	}
	return nil
}

func (p *Prog) calleesOf(ci ssa.CallInstruction) []*ssa.Function {
	c := ci.Common()
	if c.IsInvoke() {
		return p.implementers(c.Method.Name())
	}
	if f := c.StaticCallee(); f != nil {
		return []*ssa.Function{f}
	}
	return p.closureOf(c.Value, ci.Parent(), 4)
}

func (p *Prog) own() *ownResult {
	if v, ok := p.memo["own"]; ok {
		return v.(*ownResult)
	}
	res := &ownResult{Callees: map[ssa.CallInstruction][]*ssa.Function{}, RootsOf: map[*ssa.Function]map[string]bool{}, Roots: map[string]*ssa.Function{}, Visits: map[*ssa.Function]map[string][]uint32{}}
	funcs := p.allFuncs()
	// ---- roots
	addRoot := func(name string, f *ssa.Function) {
		if f != nil {
			res.Roots[name] = f
		}
	}
	for _, f := range funcs {
		for _, b := range f.Blocks {
			for _, in := range b.Instrs {
				switch x := in.(type) {
				case *ssa.Go:
					for _, g := range p.calleesOf(x) {
						addRoot("go:"+p.fname(g), g)
					}
				case *ssa.Call:
					if p.calleeName(x.Common()) == "time.AfterFunc" && len(x.Call.Args) == 2 {
						for _, g := range p.closureOf(x.Call.Args[1], f, 3) {
							name := p.fname(g)
							// a bound method wrapper: the root is the method
							if strings.HasSuffix(name, "$bound") {
								if m := p.ssaFunc(strings.TrimSuffix(name, "$bound")); m != nil {
									g, name = m, p.fname(m)
								}
							}
							addRoot("timer:"+name, g)
						}
					}
				}
			}
		}
	}
	// exported entry points
	for _, f := range funcs {
		if f.Pkg != p.SPkg || f.Parent() != nil || f.Object() == nil || !f.Object().Exported() {
			continue
		}
		recv := ""
		if r := f.Signature.Recv(); r != nil {
			t := r.Type()
			if pt, ok := t.(*types.Pointer); ok {
				t = pt.Elem()
			}
			if nt, ok := t.(*types.Named); ok {
				recv = nt.Obj().Name()
			}
		}
		switch recv {
		case "Client", "Conn", "Ctx", "Dialer", "clientAdapter":
			addRoot("caller:"+p.fname(f), f)
		case "Server":
			addRoot("conn:"+p.fname(f), f)
		case "":
			switch f.Name() {
			case "ConfigureClient", "ConfigureServer", "ConfigureServerAndConfig", "ClientFrom":
				addRoot("caller:"+p.fname(f), f)
			}
		}
	}
	// ---- reachability (not crossing go statements)
	for name, root := range res.Roots {
		type ctx struct {
			f    *ssa.Function
			mask uint32
		}
		seen := map[ctx]bool{}
		var visit func(f *ssa.Function, mask uint32)
		visit = func(f *ssa.Function, mask uint32) {
			if f == nil || f.Blocks == nil || seen[ctx{f, mask}] {
				return
			}
			seen[ctx{f, mask}] = true
			if res.RootsOf[f] == nil {
				res.RootsOf[f] = map[string]bool{}
				res.Visits[f] = map[string][]uint32{}
			}
			res.RootsOf[f][name] = true
			res.Visits[f][name] = append(res.Visits[f][name], mask)
			for _, b := range f.Blocks {
				for _, in := range b.Instrs {
					ci, ok := in.(ssa.CallInstruction)
					if !ok {
						continue
					}
					if _, isGo := in.(*ssa.Go); isGo {
						continue
					}
					if p.guardedOut(in, mask) {
						continue
					}
					cs, ok := res.Callees[ci]
					if !ok {
						cs = p.calleesOf(ci)
						res.Callees[ci] = cs
					}
					for _, g := range cs {
						if g.Pkg == p.SPkg || g.Pkg == p.SUPkg {
							var m uint32
							for i, a := range ci.Common().Args {
								if c, ok := a.(*ssa.Const); ok && c.Value == nil && i < 32 {
									if _, isPtr := c.Type().Underlying().(*types.Pointer); isPtr {
										m |= 1 << uint(i)
									}
								}
							}
							visit(g, m)
						}
					}
					if p.calleeName(ci.Common()) != "time.AfterFunc" {
						for _, a := range ci.Common().Args {
							if mc, ok := a.(*ssa.MakeClosure); ok {
								if g, ok := mc.Fn.(*ssa.Function); ok {
									visit(g, 0)
								}
							}
						}
					}
				}
			}
		}
		visit(root, 0)
	}
	// ---- accesses
	for _, f := range funcs {
		if f.Pkg != p.SPkg {
			continue
		}
		for _, b := range f.Blocks {
			for _, in := range b.Instrs {
				fa, ok := in.(*ssa.FieldAddr)
				if !ok {
					continue
				}
				owner, field := p.fieldAddrName(fa)
				if !ownStructs[owner] {
					continue
				}
				// a FieldAddr nested in another tracked FieldAddr is reported at the outer level
				for _, acc := range p.classifyUses(fa, f, 3) {
					acc.Owner, acc.Field = owner, field
					acc.Fn = f
					p.protectionOf(&acc, fa)
					res.Accesses = append(res.Accesses, acc)
				}
			}
		}
	}
	// ---- init by spawn order: in the functions that start the goroutines, an
	// access is still single-threaded if it dominates every spawn point whose
	// goroutine can touch the same field.
	for _, fn := range []string{"(*serverConn).Serve", "(*Conn).Handshake"} {
		f := p.ssaFunc(fn)
		if f == nil {
			continue
		}
		type spawn struct {
			in    ssa.Instruction
			roots []string
		}
		var spawns []spawn
		timerRoot := map[string]string{} // field holding the timer -> root
		for _, b := range f.Blocks {
			for _, x := range b.Instrs {
				switch y := x.(type) {
				case *ssa.Go:
					var rs []string
					for _, g := range p.calleesOf(y) {
						rs = append(rs, "go:"+p.fname(g))
					}
					spawns = append(spawns, spawn{x, rs})
				case *ssa.Call:
					n := p.calleeName(y.Common())
					if n == "time.AfterFunc" {
						var rs []string
						for _, g := range p.closureOf(y.Call.Args[1], f, 3) {
							name := strings.TrimSuffix(p.fname(g), "$bound")
							rs = append(rs, "timer:"+name)
						}
						// where is the timer kept?
						if y.Referrers() != nil {
							for _, ref := range *y.Referrers() {
								if st, ok := ref.(*ssa.Store); ok {
									if fa, ok := st.Addr.(*ssa.FieldAddr); ok {
										_, fld := p.fieldAddrName(fa)
										if len(rs) > 0 {
											timerRoot[fld] = rs[0]
										}
									}
								}
							}
						}
						if d, ok := constInt(y.Call.Args[0]); !(ok && d >= 1<<62) {
							spawns = append(spawns, spawn{x, rs})
						}
					}
					if n == "(*time.Timer).Reset" {
						// arming: the timer's root starts here
						d := p.vdescN(y.Call.Args[0], 2)
						for fld, root := range timerRoot {
							if strings.Contains(d, "."+fld+"{") {
								spawns = append(spawns, spawn{x, []string{root}})
							}
						}
					}
				}
			}
		}
		for i := range res.Accesses {
			a := &res.Accesses[i]
			if a.Fn != f || a.Prot == "init" || a.Prot == "atomic" {
				continue
			}
			isInit := true
			for _, sp := range spawns {
				relevant := false
				for _, rt := range sp.roots {
					if res.rootAccesses(rt, a.Owner, a.Field) {
						relevant = true
					}
				}
				if !relevant {
					continue
				}
				// a store of the spawn's own result is ordered with it
				if st, ok := a.Instr.(*ssa.Store); ok {
					if sv, ok := sp.in.(ssa.Value); ok && st.Val == sv {
						continue
					}
				}
				// the access must not be executable after the spawn
				if sp.in == a.Instr || reachAvoiding(sp.in, a.Instr, nil) {
					isInit = false
				}
			}
			if isInit {
				a.Prot = "init"
			}
		}
	}
	p.memo["own"] = res
	return res
}

// classifyUses turns the referrers of an address into accesses.
func (p *Prog) classifyUses(addr ssa.Value, f *ssa.Function, depth int) []ownAccess {
	var out []ownAccess
	refs := addr.Referrers()
	if refs == nil || depth == 0 {
		return nil
	}
	for _, ref := range *refs {
		switch x := ref.(type) {
		case *ssa.DebugRef:
		case *ssa.Store:
			if x.Addr == addr {
				out = append(out, ownAccess{Instr: x, Kind: "write"})
			} else {
				out = append(out, ownAccess{Instr: x, Kind: "write", Detail: "address stored"})
			}
		case *ssa.UnOp:
			if x.Op == token.MUL {
				out = append(out, ownAccess{Instr: x, Kind: "read"})
			}
		case *ssa.FieldAddr:
			// nested struct field: access to the outer field with the inner's kind
			out = append(out, p.classifyUses(x, f, depth-1)...)
		case *ssa.IndexAddr:
			out = append(out, p.classifyUses(x, f, depth-1)...)
		case *ssa.ChangeType:
			out = append(out, p.classifyUses(x, f, depth-1)...)
		case *ssa.Convert:
			out = append(out, p.classifyUses(x, f, depth-1)...)
		case *ssa.Slice:
			out = append(out, ownAccess{Instr: x, Kind: "read"})
		case ssa.CallInstruction:
			c := x.Common()
			name := p.calleeName(c)
			argIdx := -1
			for i, a := range c.Args {
				if a == addr {
					argIdx = i
				}
			}
			switch {
			case strings.HasPrefix(name, "atomic."), strings.HasPrefix(name, "(*atomic."):
				out = append(out, ownAccess{Instr: x, Kind: "atomic", Detail: name})
			case strings.HasPrefix(name, "(*sync."), strings.HasPrefix(name, "(*list.List)") && false:
				out = append(out, ownAccess{Instr: x, Kind: "sync", Detail: name})
			default:
				kind := "write"
				if callee := c.StaticCallee(); callee != nil && argIdx >= 0 && !p.mayStoreThrough(callee, argIdx, 3) {
					kind = "read"
				}
				out = append(out, ownAccess{Instr: x, Kind: kind, Detail: "via " + name})
			}
		case *ssa.MakeClosure, *ssa.Phi, *ssa.MakeInterface:
			out = append(out, ownAccess{Instr: ref, Kind: "write", Detail: "address escapes"})
		default:
			out = append(out, ownAccess{Instr: ref, Kind: "read", Detail: fmt.Sprintf("%T", ref)})
		}
	}
	return out
}

// mayStoreThrough: can callee f write memory reachable from its i-th parameter?
func (p *Prog) mayStoreThrough(f *ssa.Function, i int, depth int) bool {
	if f == nil || f.Blocks == nil {
		// foreign or bodiless: assume the worst, except for known read-only calls
		return true
	}
	if i >= len(f.Params) {
		return true
	}
	if depth == 0 {
		return true
	}
	key := fmt.Sprintf("maystore:%s:%d", p.fname(f), i)
	if v, ok := p.memo[key]; ok {
		return v.(bool)
	}
	p.memo[key] = false
	res := false
	var derived map[ssa.Value]bool
	derived = map[ssa.Value]bool{f.Params[i]: true}
	changed := true
	for changed {
		changed = false
		for _, b := range f.Blocks {
			for _, in := range b.Instrs {
				v, ok := in.(ssa.Value)
				if !ok || derived[v] {
					continue
				}
				switch x := in.(type) {
				case *ssa.FieldAddr:
					if derived[x.X] {
						derived[v] = true
						changed = true
					}
				case *ssa.IndexAddr:
					if derived[x.X] {
						derived[v] = true
						changed = true
					}
				case *ssa.Phi:
					for _, e := range x.Edges {
						if derived[e] {
							derived[v] = true
							changed = true
						}
					}
				}
			}
		}
	}
	for _, b := range f.Blocks {
		for _, in := range b.Instrs {
			switch x := in.(type) {
			case *ssa.Store:
				if derived[x.Addr] {
					res = true
				}
			case *ssa.MapUpdate:
				res = res || false
			case ssa.CallInstruction:
				c := x.Common()
				for j, a := range c.Args {
					if !derived[a] {
						continue
					}
					name := p.calleeName(c)
					if strings.HasPrefix(name, "atomic.Load") || name == "(*sync.Mutex).Lock" || name == "(*sync.Mutex).Unlock" {
						continue
					}
					if strings.HasPrefix(name, "atomic.") {
						res = true
						continue
					}
					if g := c.StaticCallee(); g != nil && g.Blocks != nil {
						if p.mayStoreThrough(g, j, depth-1) {
							res = true
						}
					} else {
						res = true
					}
				}
			}
		}
	}
	p.memo[key] = res
	return res
}

var ownInitFuncs = map[string]string{
	"NewConn":                    "the Conn is not published yet",
	"(*Server).ServeConn":        "before Serve spawns the loops",
	"(*serverConn).Handshake":    "called from ServeConn before Serve",
	"(*Conn).doHandshake":        "before Handshake spawns the loops",
	"acquireCtx":                 "the Ctx just came out of the pool; nothing else refers to it",
	"releaseCtx":                 "after takeBack and reusable(): the connection has let go of the Ctx",
	"NewStream":                  "the Stream just came out of the pool",
	"createClient":               "the Client is not published yet",
	"ConfigureClient":            "set-up: the Client is not published yet",
	"init$3":                     "pool constructor: a brand-new Ctx",
	"(*serverConn).createStream": "stream loop only, on a stream it just created",
}

// protectionOf fills acc.Prot and acc.Locks.
func (p *Prog) protectionOf(acc *ownAccess, fa *ssa.FieldAddr) {
	acc.Locks = map[string]bool{}
	in := acc.Instr
	f := in.Parent()
	fn := p.fname(f)
	if acc.Kind == "atomic" {
		acc.Prot = "atomic"
		return
	}
	if acc.Kind == "sync" {
		acc.Prot = "sync"
		return
	}
	if _, ok := ownInitFuncs[fn]; ok {
		acc.Prot = "init"
		return
	}
	// a fresh object in this function
	if _, ok := fa.X.(*ssa.Alloc); ok {
		acc.Prot = "init"
		return
	}
	// locks held
	for _, b := range f.Blocks {
		for _, x := range b.Instrs {
			c, ok := x.(*ssa.Call)
			if !ok {
				continue
			}
			name := p.calleeName(c.Common())
			mo, mf := "", ""
			if name == "(*sync.Mutex).Lock" && len(c.Call.Args) == 1 {
				mfa, ok := c.Call.Args[0].(*ssa.FieldAddr)
				if !ok {
					continue
				}
				mo, mf = p.fieldAddrName(mfa)
			} else if m, ok := p.lockWrappers()[name]; ok {
				// a method that returns with a mutex of its receiver held on every path
				i := strings.Index(m, ".")
				mo, mf = m[:i], m[i+1:]
			} else {
				continue
			}
			if !instrDominates(x, in) {
				continue
			}
			released := false
			for _, b2 := range f.Blocks {
				for _, y := range b2.Instrs {
					c2, ok := y.(*ssa.Call)
					if !ok || p.calleeName(c2.Common()) != "(*sync.Mutex).Unlock" {
						continue
					}
					ufa, ok := c2.Call.Args[0].(*ssa.FieldAddr)
					if !ok {
						continue
					}
					uo, uf := p.fieldAddrName(ufa)
					if uo == mo && uf == mf && instrDominates(x, y) && instrDominates(y, in) {
						released = true
					}
				}
			}
			if !released {
				acc.Locks[mo+"."+mf] = true
			}
		}
	}
	// Ctx ownership wrappers
	for _, ft := range p.factsAt(in) {
		c, ok := ft.Cond.(*ssa.Call)
		if !ok || !ft.Val {
			continue
		}
		n := p.calleeName(c.Common())
		if n != "(*Ctx).acquire" && n != "(*Ctx).acquireFor" {
			continue
		}
		released := false
		for _, b2 := range f.Blocks {
			for _, y := range b2.Instrs {
				if c2, ok := y.(*ssa.Call); ok && p.releasesCtx(c2) {
					if instrDominates(c, y) && instrDominates(y, in) {
						released = true
					}
				}
			}
		}
		if !released {
			acc.Locks["Ctx.lck"] = true
		}
	}
	if len(acc.Locks) > 0 {
		var ls []string
		for l := range acc.Locks {
			ls = append(ls, l)
		}
		sort.Strings(ls)
		acc.Prot = "locked:" + strings.Join(ls, ",")
		return
	}
	acc.Prot = "plain"
}

// guardedOut: instruction in executes only when a parameter known to be nil
// (bit i of mask) is non-nil, i.e. never in this calling context.
func (p *Prog) guardedOut(in ssa.Instruction, mask uint32) bool {
	if mask == 0 {
		return false
	}
	f := in.Parent()
	for _, ft := range p.factsAt(in) {
		b, ok := ft.Cond.(*ssa.BinOp)
		if !ok {
			continue
		}
		for i, pa := range f.Params {
			if i >= 32 || mask&(1<<uint(i)) == 0 {
				continue
			}
			isNilCmp := func(x, y ssa.Value) bool {
				c, ok := y.(*ssa.Const)
				return x == pa && ok && c.Value == nil
			}
			if isNilCmp(b.X, b.Y) || isNilCmp(b.Y, b.X) {
				if (b.Op == token.NEQ && ft.Val) || (b.Op == token.EQL && !ft.Val) {
					return true
				}
			}
		}
	}
	return false
}

// rootsAt: the roots that can execute instruction in.
func (o *ownResult) rootsAt(p *Prog, in ssa.Instruction) map[string]bool {
	out := map[string]bool{}
	for root, masks := range o.Visits[in.Parent()] {
		for _, m := range masks {
			if !p.guardedOut(in, m) {
				out[root] = true
			}
		}
	}
	return out
}

// rootAccesses: does root reach an access to owner.field?
func (o *ownResult) rootAccesses(root, owner, field string) bool {
	for _, a := range o.Accesses {
		if a.Owner == owner && a.Field == field && o.RootsOf[a.Fn][root] {
			return true
		}
	}
	return false
}

// lockWrappers: functions of the package that return, on every path, holding
// one mutex field of their receiver: either a Lock of it dominates the return
// (with no Unlock in between), or the return is taken because a TryLock of it
// succeeded. The map answers "Owner.field" for each.
func (p *Prog) lockWrappers() map[string]string {
	if v, ok := p.memo["lockWrappers"]; ok {
		return v.(map[string]string)
	}
	out := map[string]string{}
	p.memo["lockWrappers"] = out
	for _, f := range p.allFuncs() {
		if f.Pkg != p.SPkg || f.Blocks == nil || f.Signature.Recv() == nil || f.Signature.Results().Len() != 0 {
			continue
		}
		// candidate mutexes: every Lock / TryLock on a field of the receiver
		cands := map[string]bool{}
		type lk struct {
			in      ssa.Instruction
			m       string
			tryLock bool
		}
		var locks, unlocks []lk
		for _, b := range f.Blocks {
			for _, in := range b.Instrs {
				c, ok := in.(*ssa.Call)
				if !ok || len(c.Call.Args) != 1 {
					continue
				}
				n := p.calleeName(c.Common())
				if n != "(*sync.Mutex).Lock" && n != "(*sync.Mutex).TryLock" && n != "(*sync.Mutex).Unlock" {
					continue
				}
				fa, ok := c.Call.Args[0].(*ssa.FieldAddr)
				if !ok || len(f.Params) == 0 || fa.X != f.Params[0] {
					continue
				}
				o, fld := p.fieldAddrName(fa)
				m := o + "." + fld
				switch n {
				case "(*sync.Mutex).Unlock":
					unlocks = append(unlocks, lk{in, m, false})
				default:
					cands[m] = true
					locks = append(locks, lk{in, m, n == "(*sync.Mutex).TryLock"})
				}
			}
		}
		for m := range cands {
			all, nret := true, 0
			for _, b := range f.Blocks {
				if b == f.Recover {
					continue
				}
				for _, in := range b.Instrs {
					ret, ok := in.(*ssa.Return)
					if !ok {
						continue
					}
					nret++
					held := false
					for _, l := range locks {
						if l.m != m {
							continue
						}
						if l.tryLock {
							for _, ft := range p.factsAt(ret) {
								if ft.Val && ft.Cond == l.in.(ssa.Value) {
									held = true
								}
							}
							continue
						}
						if !instrDominates(l.in, ret) {
							continue
						}
						rel := false
						for _, u := range unlocks {
							if u.m == m && instrDominates(l.in, u.in) && instrDominates(u.in, ret) {
								rel = true
							}
						}
						if !rel {
							held = true
						}
					}
					// an Unlock anywhere on the way disqualifies the TryLock form too
					for _, u := range unlocks {
						if u.m == m && instrDominates(u.in, ret) {
							held = false
						}
					}
					if !held {
						all = false
					}
				}
			}
			if all && nret > 0 {
				out[p.fname(f)] = m
			}
		}
	}
	return out
}
