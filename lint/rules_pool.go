package main

import (
	"fmt"
	"go/ast"
	"go/token"
	"go/types"
	"sort"
	"strings"

	"golang.org/x/tools/go/ssa"
)

func init() {
	register(&Rule{
		Name: "release-field-then-nil", Props: []string{"C16", "C19"}, Engine: "POOL", Floor: 2,
		Doc: "a function that returns a frame header's body to its pool while the header itself stays live clears the header's body field before returning; otherwise the next release of the header puts the same body in the pool a second time and two acquirers get one object",
		Run: ruleReleaseFieldThenNil,
	})
	register(&Rule{
		Name: "no-use-after-release", Props: []string{"C19", "C16", "C17"}, Engine: "POOL", Floor: 30,
		Doc: "after a pooled object (frame header, frame body, header field, stream, client Ctx) is released to its pool, sent on a channel or passed to a function that does either on all its paths, no instruction on any path from there uses it again and it is not released a second time (deferred releases included)",
		Run: ruleNoUseAfterRelease,
	})
	register(&Rule{
		Name: "reset-completeness", Props: []string{"C19", "C05", "C16", "C20", "C08"}, Engine: "POOL", Floor: 60,
		Doc: "for every pooled type, each field is (re)initialised on the acquire/reset path or listed with a reason: a field that survives recycling leaks one connection's state into another",
		Run: ruleResetCompleteness,
	})
	register(&Rule{
		Name: "read-path-structure", Props: []string{"C16", "C05", "C17"}, Engine: "DOM", Floor: 8,
		Doc: "the frame reader consumes the 9-octet header, rejects a length above the bound and an unknown type before acquiring a body or growing the payload buffer, discards exactly `length` octets of an unknown frame, reads exactly `length` octets with ReadFull otherwise, and the writer stores len(payload) as the length after Serialize and before encoding the header",
		Run: ruleReadPathStructure,
	})
	register(&Rule{
		Name: "explicit-panics", Props: []string{"C16", "C17", "C12"}, Engine: "CALLGRAPH", Floor: 1,
		Doc: "the explicit panic calls of the library are the reviewed ones, none reachable with peer-controlled data",
		Run: ruleExplicitPanics,
	})
	register(&Rule{
		Name: "goroutine-roots", Props: []string{"C17", "C19", "C12"}, Engine: "OWN", Floor: 8,
		Doc: "the set of goroutine entry points (every go statement and every function handed to time.AfterFunc) equals the reviewed list, and each long-lived one contains a recover (server loops, client loops) so that a panic in it cannot take the process down",
		Run: ruleGoroutineRoots,
	})
}

func ruleReleaseFieldThenNil(p *Prog, r *Out) {
	for _, f := range p.Files {
		pm := p.parentMaps()[f]
		inspectCalls(f, func(c *ast.CallExpr) {
			if p.calleeOf(c) != "ReleaseFrame" || len(c.Args) != 1 {
				return
			}
			fn := enclosingFunc(pm, c)
			fd := p.decl(fn)
			if fd == nil {
				return
			}
			arg := ast.Unparen(c.Args[0])
			container := ""
			if sel, ok := arg.(*ast.SelectorExpr); ok {
				if o, fl, ok := p.fieldOf(sel); ok && o == "FrameHeader" && fl == "fr" {
					container = p.text(sel.X)
				}
			}
			if cc, ok := arg.(*ast.CallExpr); ok && p.calleeOf(cc) == "(*FrameHeader).Body" {
				if sel, ok := cc.Fun.(*ast.SelectorExpr); ok {
					container = p.text(sel.X)
				}
			}
			if container == "" {
				return // a free-standing frame, not a header's body
			}
			r.fn(fn)
			key := fn + " releases body of " + container
			// acceptable: the container itself goes to the pool afterwards in this function
			containerReleased, cleared := false, false
			ast.Inspect(fd.Body, func(n ast.Node) bool {
				switch x := n.(type) {
				case *ast.CallExpr:
					if x.Pos() > c.Pos() {
						if sel, ok := x.Fun.(*ast.SelectorExpr); ok && sel.Sel.Name == "Put" && p.text(sel.X) == "frameHeaderPool" && len(x.Args) == 1 && p.text(x.Args[0]) == container {
							containerReleased = true
						}
					}
				case *ast.AssignStmt:
					if x.Pos() > c.Pos() && len(x.Lhs) == 1 && p.text(x.Lhs[0]) == container+".fr" && p.text(x.Rhs[0]) == "nil" {
						cleared = true
					}
				}
				return true
			})
			r.check(containerReleased || cleared, key, p.pos(c.Pos()), "the header is pooled too, or its body field is cleared",
				fmt.Sprintf("%s returns %s's body to the frame pool but leaves %s.fr pointing at it while %s stays live: the caller's error path (`if fr.Body() != nil { ReleaseFrameHeader(fr) }`) releases the same body again, after which two AcquireFrame calls return one object", fn, container, container, container))
		})
	}
}

// ---------------------------------------------------------------- typestate

var releaseFuncs = map[string]bool{
	"ReleaseFrameHeader": true, "ReleaseFrame": true, "ReleaseHeaderField": true, "ReleaseHPACK": true, "releaseCtx": true, "releaseScratch": true,
}

func (p *Prog) pooledType(t types.Type) bool {
	s := types.TypeString(t, types.RelativeTo(p.Pkg))
	switch s {
	case "*FrameHeader", "*HeaderField", "*Stream", "*Ctx", "Frame", "*HPACK", "*[]byte",
		"*Data", "*Headers", "*Settings", "*Ping", "*GoAway", "*WindowUpdate", "*RstStream", "*Priority", "*Continuation", "*PushPromise":
		return true
	}
	return false
}

// consumesParam: does f consume its i-th parameter on every path (release,
// pool Put, channel send, or passing it to a consumer)?
func (p *Prog) consumesParam(f *ssa.Function, i int, depth int) bool {
	if f == nil || f.Blocks == nil || i >= len(f.Params) || depth == 0 {
		return false
	}
	key := fmt.Sprintf("consumes:%s:%d", p.fname(f), i)
	if v, ok := p.memo[key]; ok {
		return v.(bool)
	}
	p.memo[key] = false
	pa := f.Params[i]
	cons := map[ssa.Instruction]bool{}
	for _, b := range f.Blocks {
		for _, in := range b.Instrs {
			if p.consumes(in, pa, depth-1) {
				cons[in] = true
			}
		}
	}
	res := len(cons) > 0
	if res {
		// every return must be unreachable without passing a consumer
		for _, b := range f.Blocks {
			for _, in := range b.Instrs {
				if ret, ok := in.(*ssa.Return); ok {
					if reachesInstr(f.Blocks[0], ret, cons) {
						res = false
					}
				}
			}
		}
	}
	p.memo[key] = res
	return res
}

// consumes: instruction in ends this goroutine's ownership of v.
func (p *Prog) consumes(in ssa.Instruction, v ssa.Value, depth int) bool {
	same := func(x ssa.Value) bool {
		if x == v {
			return true
		}
		if mi, ok := x.(*ssa.MakeInterface); ok && mi.X == v {
			return true
		}
		if ci, ok := x.(*ssa.ChangeInterface); ok && ci.X == v {
			return true
		}
		return false
	}
	handoff := func() bool {
		t := types.TypeString(v.Type(), types.RelativeTo(p.Pkg))
		return t == "*FrameHeader" || t == "*Stream"
	}
	switch x := in.(type) {
	case *ssa.Send:
		return handoff() && same(x.X)
	case *ssa.Select:
		for _, st := range x.States {
			if handoff() && st.Dir == types.SendOnly && same(st.Send) {
				return true
			}
		}
	case ssa.CallInstruction:
		if _, isDefer := in.(*ssa.Defer); isDefer {
			return false
		}
		c := x.Common()
		name := p.calleeName(c)
		if releaseFuncs[name] {
			return len(c.Args) > 0 && same(c.Args[0])
		}
		if name == "(*sync.Pool).Put" {
			return len(c.Args) == 2 && same(c.Args[1])
		}
		if f := c.StaticCallee(); f != nil && f.Pkg == p.SPkg {
			for i, a := range c.Args {
				if same(a) && p.consumesParam(f, i, depth) {
					return true
				}
			}
		}
	}
	return false
}

func (p *Prog) definingInstr(v ssa.Value) ssa.Instruction {
	if in, ok := v.(ssa.Instruction); ok {
		return in
	}
	return nil
}

func ruleNoUseAfterRelease(p *Prog, r *Out) {
	for _, f := range p.allFuncs() {
		if f.Pkg != p.SPkg {
			continue
		}
		// candidate values: any SSA value of a pooled type
		vals := map[ssa.Value]bool{}
		for _, pa := range f.Params {
			if p.pooledType(pa.Type()) {
				vals[pa] = true
			}
		}
		for _, b := range f.Blocks {
			for _, in := range b.Instrs {
				if v, ok := in.(ssa.Value); ok && p.pooledType(v.Type()) {
					switch v.(type) {
					case *ssa.Phi:
						// a phi merges values; each is tracked on its own
					default:
						vals[v] = true
					}
				}
			}
		}
		var vs []ssa.Value
		for v := range vals {
			vs = append(vs, v)
		}
		sort.Slice(vs, func(i, j int) bool { return vs[i].Name() < vs[j].Name() })
		fn := p.fname(f)
		for _, v := range vs {
			refs := v.Referrers()
			if refs == nil {
				continue
			}
			var consumers, deferred []ssa.Instruction
			for _, in := range *refs {
				if p.consumes(in, v, 3) {
					consumers = append(consumers, in)
				}
				if d, ok := in.(*ssa.Defer); ok {
					name := p.calleeName(d.Common())
					if releaseFuncs[name] && len(d.Call.Args) > 0 && d.Call.Args[0] == v {
						deferred = append(deferred, in)
					}
				}
			}
			// interface wrappers: sync.Pool.Put(iface(v)), ReleaseFrame(iface(v))
			for _, in := range *refs {
				if mi, ok := in.(*ssa.MakeInterface); ok && mi.Referrers() != nil {
					for _, u := range *mi.Referrers() {
						if p.consumes(u, v, 3) {
							consumers = append(consumers, u)
						}
					}
				}
			}
			if len(consumers) == 0 && len(deferred) == 0 {
				continue
			}
			r.fn(fn)
			def := p.definingInstr(v)
			desc := p.vdescN(v, 2)
			okAll := true
			for _, c := range consumers {
				if len(deferred) > 0 {
					okAll = false
					r.bad(fmt.Sprintf("%s: %s released explicitly and by defer", fn, desc), p.ipos(c), fmt.Sprintf("%s releases %s here and again in a deferred release: the object enters its pool twice", fn, desc))
					continue
				}
				start := p.consumeStart(c, v)
				for _, u := range *refs {
					if u == c {
						continue
					}
					switch u.(type) {
					case *ssa.DebugRef, *ssa.Phi:
						// a phi only merges the value; uses of the merged value
						// are not tracked (stated limitation)
						continue
					}
					// is u reachable from the consumption without passing v's definition?
					if reachFromStart(start, c, u, def) {
						okAll = false
						what := "uses"
						if p.consumes(u, v, 3) {
							what = "releases or hands off again"
						}
						r.bad(fmt.Sprintf("%s: %s after release", fn, desc), p.ipos(u), fmt.Sprintf("%s %s %s at %s after it was released or handed to another goroutine at %s: the object may already belong to a new owner", fn, what, desc, p.ipos(u), p.ipos(c)))
					}
				}
			}
			// values derived from the object (its body, type assertions and
			// interface conversions of it) die with it: none may be used, stored
			// or flow on (through a phi edge) after the object was released
			if _, isHdr := v.Type().(*types.Pointer); isHdr && p.isFrameHeaderPtr(v.Type()) {
				derived := p.derivedFrom(v)
				for _, c := range consumers {
					start := p.consumeStart(c, v)
					for _, d := range derived {
						if d.Referrers() == nil {
							continue
						}
						for _, u := range *d.Referrers() {
							var usePoints []ssa.Instruction
							switch x := u.(type) {
							case *ssa.DebugRef:
								continue
							case *ssa.Phi:
								for ei, e := range x.Edges {
									if e == d && ei < len(x.Block().Preds) {
										pb := x.Block().Preds[ei]
										if len(pb.Instrs) > 0 {
											usePoints = append(usePoints, pb.Instrs[len(pb.Instrs)-1])
										}
									}
								}
								// the merged value carries the body onwards: its uses after
								// the release, on paths that do not re-evaluate the phi
								if x.Referrers() != nil {
									for _, pu := range *x.Referrers() {
										var ups []ssa.Instruction
										if ph2, ok := pu.(*ssa.Phi); ok {
											for ei, e := range ph2.Edges {
												if e == ssa.Value(x) && ei < len(ph2.Block().Preds) {
													pb := ph2.Block().Preds[ei]
													if len(pb.Instrs) > 0 {
														ups = append(ups, pb.Instrs[len(pb.Instrs)-1])
													}
												}
											}
										} else if _, ok := pu.(*ssa.DebugRef); !ok {
											ups = append(ups, pu)
										}
										for _, up := range ups {
											after := reachFromStart(start, c, up, x)
											if !after && up.Block() == c.Block() && instrIndex(c) < instrIndex(up) && x.Block() == c.Block() {
												after = true
											}
											if after {
												okAll = false
												r.bad(fmt.Sprintf("%s: body of %s outlives its release", fn, desc), p.ipos(up), fmt.Sprintf("%s merges %s (taken from %s's body) into a variable and that variable is still used at %s after the frame header was released at %s: the body is back in its pool and its next owner rewrites it under the value kept here (e.g. an error stored as the connection's last error)", fn, p.vdescN(d, 2), desc, p.ipos(up), p.ipos(c)))
											}
										}
									}
								}
							default:
								if dv, ok := u.(ssa.Value); ok && containsValue(derived, dv) {
									continue // another derived value; judged on its own uses
								}
								usePoints = append(usePoints, u)
							}
							for _, up := range usePoints {
								if up == c {
									continue
								}
								after := reachFromStart(start, c, up, def)
								if !after && up.Block() == c.Block() && instrIndex(c) < instrIndex(up) {
									after = true
								}
								if after {
									okAll = false
									r.bad(fmt.Sprintf("%s: body of %s outlives its release", fn, desc), p.ipos(up), fmt.Sprintf("%s keeps using %s (taken from %s's body) at %s after the frame header was released at %s: the body is back in its pool and its next owner rewrites it under the value still held here (an error stored for later, a field, a returned value)", fn, p.vdescN(d, 2), desc, p.ipos(up), p.ipos(c)))
								}
							}
						}
					}
				}
			}
			if okAll {
				r.ok(fmt.Sprintf("%s: %s", fn, desc), p.ipos(firstInstr(consumers, deferred)), "no use after its release/hand-off")
			}
		}
	}
}

func firstInstr(a, b []ssa.Instruction) ssa.Instruction {
	if len(a) > 0 {
		return a[0]
	}
	if len(b) > 0 {
		return b[0]
	}
	return nil
}

// consumeStart: where ownership ends. For a select with a send arm it is the
// first instruction of the block taken when that arm was chosen; otherwise the
// instruction after the consumer.
func (p *Prog) consumeStart(c ssa.Instruction, v ssa.Value) ssa.Instruction {
	sel, ok := c.(*ssa.Select)
	if !ok {
		return nil
	}
	arm := -1
	for i, st := range sel.States {
		if st.Dir == types.SendOnly {
			if st.Send == v {
				arm = i
			}
		}
	}
	if arm < 0 || sel.Referrers() == nil {
		return nil
	}
	for _, ref := range *sel.Referrers() {
		ex, ok := ref.(*ssa.Extract)
		if !ok || ex.Index != 0 || ex.Referrers() == nil {
			continue
		}
		for _, u := range *ex.Referrers() {
			b, ok := u.(*ssa.BinOp)
			if !ok || b.Referrers() == nil {
				continue
			}
			if k, ok := constInt(b.Y); ok && int(k) == arm {
				for _, iu := range *b.Referrers() {
					if iff, ok := iu.(*ssa.If); ok {
						t := iff.Block().Succs[0]
						if len(t.Instrs) > 0 {
							return t.Instrs[0]
						}
					}
				}
			}
		}
	}
	return nil
}

// reachFromStart: is `to` executed on some path that begins at start (or just
// after c when start is nil) and does not pass `avoid` or c again?
func reachFromStart(start, c, to, avoid ssa.Instruction) bool {
	if start == nil {
		if avoid == nil {
			return reachAvoiding(c, to, c)
		}
		return reachAvoiding(c, to, avoid)
	}
	if start == to {
		return true
	}
	stop := map[ssa.Instruction]bool{c: true}
	if avoid != nil {
		stop[avoid] = true
	}
	// scan the start block from start, then successors
	b := start.Block()
	for i := instrIndex(start); i < len(b.Instrs); i++ {
		if b.Instrs[i] == to {
			return true
		}
		if stop[b.Instrs[i]] {
			return false
		}
	}
	for _, s := range b.Succs {
		if reachesInstr(s, to, stop) {
			return true
		}
	}
	return false
}

// ---------------------------------------------------------------- reset completeness

// resetInitial: fields whose reset value is a protocol initial value rather
// than the zero value ("*": an implementation default the properties do not fix).
var resetInitial = map[string]string{
	"Settings.tableSize":         "4096",  // RFC 7540 s6.5.2 SETTINGS_HEADER_TABLE_SIZE
	"Settings.tableSizeLow":      "4096",  // the lowest HEADER_TABLE_SIZE a frame carried: starts where tableSize starts
	"Settings.windowSize":        "65535", // SETTINGS_INITIAL_WINDOW_SIZE
	"Settings.frameSize":         "16384", // SETTINGS_MAX_FRAME_SIZE
	"Settings.maxStreams":        "*",     // library default for an unconfigured endpoint
	"FrameHeader.maxLen":         "16384", // s4.2: frames up to 2^14 octets until told otherwise
	"HPACK.maxTableSize":         "4096",  // RFC 7541 s4.2 via SETTINGS_HEADER_TABLE_SIZE
	"HPACK.maxTableSizeSettings": "4096",
}

func ruleResetCompleteness(p *Prog, r *Out) {
	type spec struct {
		typ   string
		funcs []string
	}
	specs := []spec{
		{"FrameHeader", []string{"(*FrameHeader).Reset"}},
		{"Data", []string{"(*Data).Reset"}}, {"Headers", []string{"(*Headers).Reset"}},
		{"Continuation", []string{"(*Continuation).Reset"}}, {"Priority", []string{"(*Priority).Reset"}},
		{"RstStream", []string{"(*RstStream).Reset"}}, {"Settings", []string{"(*Settings).Reset"}},
		{"PushPromise", []string{"(*PushPromise).Reset"}}, {"Ping", []string{"(*Ping).Reset"}},
		{"GoAway", []string{"(*GoAway).Reset"}}, {"WindowUpdate", []string{"(*WindowUpdate).Reset"}},
		{"HeaderField", []string{"(*HeaderField).Reset"}},
		{"Stream", []string{"NewStream", "(*serverConn).createStream"}},
		{"HPACK", []string{"(*HPACK).Reset"}}, // releaseDynamic counts through the call Reset makes
		{"Ctx", []string{"acquireCtx"}},
	}
	exempt := map[string]string{
		"FrameHeader.rawHeader":     "scratch: fully overwritten by parseHeader in WriteTo before it is written",
		"Ping.data":                 "always overwritten before use: SetData in handlePing/Deserialize, SetCurrentTime in writePing",
		"Stream.bodyBuf":            "scratch read buffer, re-sliced before every Read",
		"HPACK.pendingLowSize":      "only read under pendingSizeUpdate, which Reset clears; SetMaxTableSize writes it before it sets that flag (rule enc-size-update)",
		"HPACK.DisableDynamicTable": "configuration switch; the library never returns an HPACK to the pool (no ReleaseHPACK call outside tests)",
		"Ctx.Err":                   "channel: drained on acquire",
		"Ctx.lck":                   "mutex: zero state is its reset state",
		"Ctx.resLck":                "mutex: zero state is its reset state",
		"Ctx.timer":                 "kept across uses by design; armed is reset",
	}
	for _, s := range specs {
		tn, ok := p.Pkg.Scope().Lookup(s.typ).(*types.TypeName)
		if !ok {
			r.undecided(s.typ, "?", "type no longer resolves")
			continue
		}
		st, ok := tn.Type().Underlying().(*types.Struct)
		if !ok {
			continue
		}
		touched := map[string]bool{}
		resetVals := map[string][]ast.Expr{}
		found := 0
		for _, fnn := range s.funcs {
			fd := p.decl(fnn)
			if fd == nil {
				continue
			}
			found++
			r.fn(fnn)
			ast.Inspect(fd.Body, func(n ast.Node) bool {
				switch x := n.(type) {
				case *ast.AssignStmt:
					for i, l := range x.Lhs {
						if sel, ok := ast.Unparen(l).(*ast.SelectorExpr); ok {
							if o, f, ok := p.fieldOf(sel); ok && o == s.typ {
								touched[f] = true
								if len(x.Rhs) == len(x.Lhs) && x.Tok == token.ASSIGN {
									resetVals[f] = append(resetVals[f], x.Rhs[i])
								}
							}
						}
					}
				case *ast.CallExpr:
					// method call on a field (ctx.conn.Store(nil)), setter on the receiver (strm.SetData), or select drain
					if sel, ok := x.Fun.(*ast.SelectorExpr); ok {
						if inner, ok := sel.X.(*ast.SelectorExpr); ok {
							if o, f, ok := p.fieldOf(inner); ok && o == s.typ {
								touched[f] = true
							}
						}
						// one-line setters of the same type
						name := p.calleeOf(x)
						if strings.HasPrefix(name, "(*"+s.typ+").") {
							if sd := p.decl(name); sd != nil && sd.Body != nil {
								st2, _ := p.fieldsTouched(s.typ, []*ast.FuncDecl{sd})
								for f := range st2 {
									touched[f] = true
								}
							}
						}
					}
				case *ast.UnaryExpr:
					if sel, ok := x.X.(*ast.SelectorExpr); ok {
						if o, f, ok := p.fieldOf(sel); ok && o == s.typ {
							touched[f] = true // <-ctx.Err drain
						}
					}
				}
				return true
			})
		}
		if found == 0 {
			r.undecided(s.typ, "?", "none of the reset functions "+strings.Join(s.funcs, ", ")+" resolves")
			continue
		}
		for i := 0; i < st.NumFields(); i++ {
			f := st.Field(i).Name()
			key := s.typ + "." + f
			if why, ok := exempt[key]; ok {
				r.ok(key, p.pos(st.Field(i).Pos()), "exempt: "+why)
				continue
			}
			r.check(touched[f], key, p.pos(st.Field(i).Pos()), "reset on acquire",
				fmt.Sprintf("field %s is not (re)initialised by %s: a recycled %s carries the previous owner's %s into its next use", key, strings.Join(s.funcs, "/"), s.typ, f))
			// a constant written by the reset is the field's zero value, or the protocol's initial value
			for _, rhs := range resetVals[f] {
				cv := p.constOf(rhs)
				if cv == nil {
					continue
				}
				want, named := resetInitial[key]
				got := cv.ExactString()
				if !named {
					want = "0"
					if got == "false" || got == "\"\"" {
						got = "0"
					}
				}
				if want == "*" {
					continue
				}
				r.check(got == want, key+" reset value", p.pos(rhs.Pos()), "reset to "+want,
					fmt.Sprintf("%s resets %s to %s; a fresh %s must start with %s there (zero value, or the RFC 7540/7541 initial value): every object taken from the pool starts from the wrong state", strings.Join(s.funcs, "/"), key, cv.ExactString(), s.typ, want))
			}
		}
	}
}

// ---------------------------------------------------------------- read path

func ruleReadPathStructure(p *Prog, r *Out) {
	f := p.ssaFunc("(*FrameHeader).readFrom")
	if f == nil {
		r.undecided("readFrom", "?", "(*FrameHeader).readFrom no longer resolves")
		return
	}
	r.fn("(*FrameHeader).readFrom", "(*FrameHeader).WriteTo")
	one := func(name string) ssa.CallInstruction {
		cs := p.findCall(f, name)
		if len(cs) == 0 {
			return nil
		}
		return cs[0]
	}
	peek := one("(*bufio.Reader).Peek")
	chk := one("(*FrameHeader).checkLen")
	acq := one("AcquireFrame")
	rsz := one("http2utils.Resize")
	full := one("io.ReadFull")
	des := (ssa.CallInstruction)(nil)
	for _, cs := range p.callsIn(f) {
		if cs.Callee == "invoke.Deserialize" {
			des = cs.Instr
		}
	}
	if peek == nil || chk == nil || acq == nil || rsz == nil || full == nil || des == nil {
		r.undecided("anchors", p.pos(f.Pos()), fmt.Sprintf("readFrom no longer calls Peek/checkLen/AcquireFrame/Resize/ReadFull/Deserialize (found %v %v %v %v %v %v)", peek != nil, chk != nil, acq != nil, rsz != nil, full != nil, des != nil))
		return
	}
	hdr, _ := p.pkgConst("DefaultFrameSize")
	if v, ok := constInt(peek.Common().Args[1]); ok {
		r.check(v == hdr && hdr == 9, "peeks 9 octets", p.ipos(peek), "Peek(9)", fmt.Sprintf("the reader peeks %d octets for the frame header, not 9", v))
	}
	disc := p.findCall(f, "(*bufio.Reader).Discard")
	okDiscardHdr, okDiscardLen := false, false
	for _, d := range disc {
		a := d.Common().Args[1]
		if v, ok := constInt(a); ok && v == 9 {
			okDiscardHdr = instrDominates(peek, d) && instrDominates(d, chk)
		} else if strings.HasPrefix(p.vdescN(a, 2), "FrameHeader.length{") {
			// on the unknown-type path only
			okDiscardLen = !reachAvoiding(d, acq, nil)
		}
	}
	r.check(okDiscardHdr, "header consumed", p.ipos(peek), "Discard(9) after Peek", "the 9 header octets are no longer consumed right after they are peeked")
	r.check(okDiscardLen, "unknown type skipped exactly", p.pos(f.Pos()), "Discard(length) on the unknown-type path", "the payload of an unknown frame type is no longer discarded by exactly its length: the reader is left in the middle of a frame")
	r.check(instrDominates(chk, acq) && instrDominates(chk, rsz), "length check before allocation", p.ipos(chk), "checkLen dominates AcquireFrame and Resize", "the payload buffer is sized (or a body acquired) before the length has been checked against the bound: a peer-chosen 24-bit length drives the allocation")
	// checkLen's error is returned
	retOnErr := false
	for _, ft := range p.factsAt(acq) {
		if d := p.vdescN(ft.Cond, 3); strings.Contains(d, "(*FrameHeader).checkLen(") && strings.Contains(d, "!= nil") && !ft.Val {
			retOnErr = true
		}
	}
	r.check(retOnErr, "length error returns", p.ipos(chk), "checkLen() != nil leaves before the body is acquired", "an over-long frame is no longer rejected before its body is acquired")
	// type range test before indexing the pools
	lo, hi := false, false
	for _, ft := range p.factsAt(acq) {
		d := p.vdescN(ft.Cond, 3)
		if strings.HasPrefix(d, "(FrameHeader.kind{") && !ft.Val {
			if strings.HasSuffix(d, " < 0)") {
				lo = true
			}
			if strings.HasSuffix(d, " > 9)") {
				hi = true
			}
		}
	}
	r.check(lo && hi, "type range before pool index", p.ipos(acq), "kind < 0 and kind > 9 both leave first", "AcquireFrame is reached without both ends of the frame-type range having been tested: a type octet >= 0x80 (negative int8) or > 9 indexes outside the pool table and panics")
	// ReadFull reads exactly payload[:length]
	fa := full.Common().Args
	d := p.vdescN(fa[1], 4)
	r.check(strings.Contains(d, "[:") && strings.Contains(d, "FrameHeader.length{"), "reads exactly length octets", p.ipos(full), d, "ReadFull no longer reads exactly f.payload[:length]: "+d)
	r.check(!reachAvoiding(rsz, des, full), "payload read before parsing", p.ipos(des), "no path from Resize to Deserialize avoids ReadFull", "Deserialize can run on a payload buffer that was sized but not filled")
	// Resize(f.payload, n) with n = length
	ra := rsz.Common().Args
	r.check(strings.HasPrefix(p.vdescN(ra[1], 2), "FrameHeader.length{"), "buffer sized to length", p.ipos(rsz), "Resize(payload, length)", "the payload buffer is sized to "+p.vdescN(ra[1], 2)+" rather than the frame length")
	// Resize helper returns b[:neededLen]
	if rd := p.decl("http2utils.Resize"); rd != nil {
		okk := false
		for _, s := range rd.Body.List {
			if rs, ok := s.(*ast.ReturnStmt); ok && len(rs.Results) == 1 && p.text(rs.Results[0]) == "b[:neededLen]" {
				okk = true
			}
		}
		r.check(okk, "Resize returns exactly neededLen", p.pos(rd.Pos()), "b[:neededLen]", "http2utils.Resize no longer returns a slice of exactly the requested length")
	}
	// writer
	w := p.ssaFunc("(*FrameHeader).WriteTo")
	if w == nil {
		r.undecided("WriteTo", "?", "no longer resolves")
		return
	}
	var ser, enc ssa.Instruction
	for _, cs := range p.callsIn(w) {
		if cs.Callee == "invoke.Serialize" {
			ser = cs.Instr
		}
		if cs.Callee == "(*FrameHeader).parseHeader" {
			enc = cs.Instr
		}
	}
	var lenStore *ssa.Store
	for _, b := range w.Blocks {
		for _, in := range b.Instrs {
			if st, ok := in.(*ssa.Store); ok && p.fieldAddrIs(st.Addr, "FrameHeader", "length") {
				lenStore = st
			}
		}
	}
	if ser == nil || enc == nil || lenStore == nil {
		r.bad("writer order", p.pos(w.Pos()), "WriteTo no longer calls Serialize, stores the length and encodes the header")
		return
	}
	lv := p.vdescN(lenStore.Val, 3)
	r.check(instrDominates(ser, lenStore) && instrDominates(lenStore, enc) && strings.HasPrefix(lv, "builtin.len(FrameHeader.payload{"), "writer: length = len(payload) after Serialize, before header", p.ipos(lenStore), lv,
		"WriteTo does not set length = len(payload) after Serialize and before encoding the header (length is "+lv+"): the length field on the wire disagrees with the payload that follows")
	writes := p.findCall(w, "(*bufio.Writer).Write")
	r.check(len(writes) == 2 && instrDominates(enc, writes[0]), "writer: header then payload", p.pos(w.Pos()), "two writes, header first", fmt.Sprintf("WriteTo issues %d writes; the 9-octet header and then the payload are expected", len(writes)))
}

// ---------------------------------------------------------------- panics

func ruleExplicitPanics(p *Prog, r *Out) {
	reviewed := map[string]string{
		"(*FrameHeader).readFrom": "guarded by n < 0 on a value built from three octets (0..2^24-1): unreachable",
		"(*FrameHeader).SetBody":  "API misuse guard (nil body); every library call passes the result of AcquireFrame",
	}
	n := 0
	for _, f := range append(append([]*ast.File{}, p.Files...), p.UFiles...) {
		pm := p.parentMaps()[f]
		inspectCalls(f, func(c *ast.CallExpr) {
			if p.calleeOf(c) != "builtin.panic" {
				return
			}
			n++
			fn := enclosingFunc(pm, c)
			if strings.Contains(p.Fset.Position(c.Pos()).Filename, "/http2utils/") {
				r.ok("http2utils."+fn+" panics", p.pos(c.Pos()), "test helper package function")
				return
			}
			why, ok := reviewed[fn]
			r.check(ok, fn+" panics", p.pos(c.Pos()), "reviewed: "+why, fn+" contains an explicit panic that is not in the reviewed table: reachable from peer input it takes the connection's goroutine (and, unrecovered, the process) down")
		})
	}
	if n == 0 {
		r.ok("no explicit panics", "?", "none")
	}
	// SetBody is never called with a possibly-nil body
	for _, cs := range p.callsTo("(*FrameHeader).SetBody") {
		a := cs.Common.Args[1]
		d := p.vdescN(a, 3)
		nonNil := false
		switch x := a.(type) {
		case *ssa.MakeInterface:
			nonNil = true
			_ = x
		}
		if strings.Contains(d, "AcquireFrame(") {
			nonNil = true
		}
		r.check(nonNil, p.fname(cs.Fn)+" SetBody argument", p.ipos(cs.Instr), "non-nil body", p.fname(cs.Fn)+" calls SetBody with "+d+", which the rule cannot show non-nil: SetBody panics on nil")
	}
}

// ---------------------------------------------------------------- roots

func (p *Prog) goroutineRoots() map[string]string {
	roots := map[string]string{}
	for _, f := range p.allFuncs() {
		if f.Pkg != p.SPkg {
			continue
		}
		for _, b := range f.Blocks {
			for _, in := range b.Instrs {
				switch x := in.(type) {
				case *ssa.Go:
					name := p.calleeName(x.Common())
					if name == "" {
						if mc, ok := x.Call.Value.(*ssa.MakeClosure); ok {
							name = p.fname(mc.Fn.(*ssa.Function))
						}
					}
					roots[name] = "go in " + p.fname(f) + " at " + p.ipos(in)
				case *ssa.Call:
					if p.calleeName(x.Common()) == "time.AfterFunc" && len(x.Call.Args) == 2 {
						name := p.vdescN(x.Call.Args[1], 2)
						if mc, ok := x.Call.Args[1].(*ssa.MakeClosure); ok {
							name = p.fname(mc.Fn.(*ssa.Function))
						}
						roots[name] = "time.AfterFunc in " + p.fname(f) + " at " + p.ipos(in)
					}
				}
			}
		}
	}
	return roots
}

func ruleGoroutineRoots(p *Prog, r *Out) {
	roots := p.goroutineRoots()
	// reviewed list: root -> (role, needs recover)
	type rv struct {
		role    string
		recover string // function that must contain recover(), "" if none required
	}
	reviewed := map[string]rv{
		"(*serverConn).Serve$2":             {"server write loop goroutine", ""},
		"(*serverConn).Serve$3":             {"server stream loop goroutine", "(*serverConn).handleStreams"},
		"(*serverConn).dispatchHandler$1":   {"handler goroutine", "(*serverConn).dispatchHandler$1$1"},
		"(*serverConn).closeIdleConn":       {"idle timer", ""},
		"(*serverConn).sendPingAndSchedule": {"ping timer", ""},
		"(*Conn).writeLoop":                 {"client write loop", "(*Conn).runWriteLoop$1"},
		"(*Conn).readLoop":                  {"client read loop", "(*Conn).readLoop$2"},
		"(*Ctx).fireTimeout":                {"request timeout timer", ""},
	}
	var names []string
	for n := range roots {
		names = append(names, n)
	}
	sort.Strings(names)
	for _, n := range names {
		_, ok := reviewed[n]
		// closure numbering is positional; accept any closure of the same parent with the same role when the exact name differs
		r.check(ok || p.rootByRole(n, roots[n]), "root "+n, roots[n], "reviewed goroutine entry point", "a goroutine entry point ("+n+", "+roots[n]+") is not in the reviewed list: its accesses to connection state have not been audited against the ownership table")
	}
	// recover presence
	hasRecover := func(fnName string) bool {
		f := p.ssaFunc(fnName)
		if f == nil {
			return false
		}
		found := false
		var walk func(g *ssa.Function)
		walk = func(g *ssa.Function) {
			for _, cs := range p.callsIn(g) {
				if cs.Callee == "builtin.recover" {
					found = true
				}
			}
			for _, a := range g.AnonFuncs {
				walk(a)
			}
		}
		walk(f)
		return found
	}
	for _, fn := range []string{"(*serverConn).Serve", "(*serverConn).readLoop", "(*serverConn).handleStreams", "(*serverConn).dispatchHandler", "(*Conn).runWriteLoop", "(*Conn).readLoop"} {
		r.check(hasRecover(fn), fn+" recovers", "?", "a deferred recover guards the loop", fn+" no longer contains a deferred recover: a panic in it (it handles peer input) takes the whole process down")
	}
	// the server write loop closes the socket when it ends, even by panic
	if fd := p.decl("(*serverConn).Serve"); fd != nil {
		okk := false
		ast.Inspect(fd.Body, func(n ast.Node) bool {
			if g, ok := n.(*ast.GoStmt); ok {
				if fl, ok := g.Call.Fun.(*ast.FuncLit); ok && strings.Contains(p.text(fl), "sc.writeLoop()") {
					for _, s := range fl.Body.List {
						if d, ok := s.(*ast.DeferStmt); ok && strings.Contains(p.text(d), "sc.c.Close()") {
							okk = true
						}
					}
				}
			}
			return true
		})
		r.check(okk, "write loop goroutine closes the socket on exit", p.pos(fd.Pos()), "defer sc.c.Close()", "the write loop goroutine no longer closes the socket when it ends: after a write error the read loop keeps serving a connection nobody can answer on")
	}
}

// rootByRole accepts renumbered closures: a `go func` inside Serve or
// dispatchHandler is the reviewed one when the parent has the reviewed number
// of go statements.
func (p *Prog) rootByRole(name, where string) bool {
	if strings.HasPrefix(name, "(*serverConn).Serve$") {
		n := 0
		for _, w := range p.goroutineRoots() {
			if strings.Contains(w, "go in (*serverConn).Serve ") {
				n++
			}
		}
		return n == 2
	}
	if strings.HasPrefix(name, "(*serverConn).dispatchHandler$") {
		return true
	}
	return false
}

func containsValue(vs []ssa.Value, v ssa.Value) bool {
	for _, x := range vs {
		if x == v {
			return true
		}
	}
	return false
}

// derivedFrom lists the SSA values that alias a frame header's body: the
// result of Body(v), and type assertions, tuple extracts and interface
// conversions of those. Phis are not included (judged per incoming edge).
func (p *Prog) derivedFrom(v ssa.Value) []ssa.Value {
	var out []ssa.Value
	seen := map[ssa.Value]bool{}
	var add func(x ssa.Value)
	add = func(x ssa.Value) {
		if seen[x] || x.Referrers() == nil {
			return
		}
		seen[x] = true
		out = append(out, x)
		for _, u := range *x.Referrers() {
			switch y := u.(type) {
			case *ssa.TypeAssert:
				add(y)
			case *ssa.MakeInterface:
				add(y)
			case *ssa.ChangeInterface:
				add(y)
			case *ssa.Extract:
				if _, isPtr := y.Type().Underlying().(*types.Pointer); isPtr {
					add(y)
				}
			}
		}
	}
	if v.Referrers() == nil {
		return nil
	}
	for _, u := range *v.Referrers() {
		if c, ok := u.(*ssa.Call); ok && p.calleeName(c.Common()) == "(*FrameHeader).Body" && len(c.Call.Args) == 1 && c.Call.Args[0] == v {
			add(c)
		}
	}
	return out
}
