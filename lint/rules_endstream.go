package main

import (
	"go/ast"
	"go/token"
	"strings"
)

func init() {
	register(&Rule{
		Name: "srv-end-stream-paths", Props: []string{"C01", "C06"}, Engine: "AST", Floor: 7,
		Doc: "structural conditions for 'END_STREAM exactly once' on a response: HEADERS carries END_STREAM iff there is no body; a buffered body marks pendingEnd; every DATA frame's END_STREAM is pendingEnd && nothing-left, computed after the chunk is cut; a streamed body marks pendingEnd on EOF and on reaching its declared length; when a refill yields no bytes the loop still emits an END_STREAM-bearing frame if pendingEnd is set; a read error resets the stream",
		Run: ruleEndStreamPaths,
	})
}

func ruleEndStreamPaths(p *Prog, r *Out) {
	sd := p.decl("(*serverConn).sendData")
	fr := p.decl("(*serverConn).finishRequest")
	rf := p.decl("(*serverConn).refillPending")
	if sd == nil || fr == nil || rf == nil {
		r.undecided("anchors", "?", "sendData / finishRequest / refillPending no longer resolve")
		return
	}
	r.fn("(*serverConn).sendData", "(*serverConn).finishRequest", "(*serverConn).refillPending")
	// (a) end flag of each chunk
	defs := map[string]*ast.AssignStmt{}
	ast.Inspect(sd.Body, func(n ast.Node) bool {
		if as, ok := n.(*ast.AssignStmt); ok && as.Tok == token.DEFINE && len(as.Lhs) == 1 {
			if id, ok := as.Lhs[0].(*ast.Ident); ok {
				defs[id.Name] = as
			}
		}
		return true
	})
	okEnd, afterCut := false, false
	var setEnd *ast.CallExpr
	inspectCalls(sd.Body, func(c *ast.CallExpr) {
		if p.calleeOf(c) == "(*Data).SetEndStream" && len(c.Args) == 1 {
			if id, ok := c.Args[0].(*ast.Ident); ok && id.Name != "true" && id.Name != "false" {
				setEnd = c
				if d := defs[id.Name]; d != nil {
					t := p.text(d.Rhs[0])
					okEnd = strings.Contains(t, "strm.pendingEnd") && strings.Contains(t, "len(strm.pendingData) == 0") && strings.Contains(t, "&&")
					// computed after pendingData was advanced past the chunk
					ast.Inspect(sd.Body, func(m ast.Node) bool {
						if as, ok := m.(*ast.AssignStmt); ok && len(as.Lhs) == 1 && p.isFieldSel(as.Lhs[0], "Stream", "pendingData") && as.Pos() < d.Pos() {
							if se, ok := as.Rhs[0].(*ast.SliceExpr); ok && se.Low != nil && se.High == nil {
								afterCut = true
							}
						}
						return true
					})
				}
			}
		}
	})
	pos := p.pos(sd.Pos())
	if setEnd != nil {
		pos = p.pos(setEnd.Pos())
	}
	r.check(okEnd && afterCut, "chunk END_STREAM = pendingEnd && nothing left", pos, "end := pendingEnd && len(pendingData)==0, after the cut",
		"the END_STREAM flag of a DATA chunk is not `strm.pendingEnd && len(strm.pendingData) == 0` computed after the chunk was cut from pendingData: END_STREAM goes out early (truncating the response) or never")
	// (b) empty-after-refill exit
	var emptyIf *ast.IfStmt
	var refillCall *ast.CallExpr
	inspectCalls(sd.Body, func(c *ast.CallExpr) {
		if p.calleeOf(c) == "(*serverConn).refillPending" {
			refillCall = c
		}
	})
	if refillCall != nil {
		ast.Inspect(sd.Body, func(n ast.Node) bool {
			if ifs, ok := n.(*ast.IfStmt); ok && ifs.Pos() > refillCall.Pos() && emptyIf == nil {
				if c, ok := p.canonCmp(ifs.Cond, nil); ok && c.Op == "eq" && c.L.T["len(strm.pendingData)"] != 0 && c.L.C == 0 {
					brk := false
					for _, s := range ifs.Body.List {
						if b, ok := s.(*ast.BranchStmt); ok && b.Tok == token.BREAK {
							brk = true
						}
					}
					if brk {
						emptyIf = ifs
					}
				}
			}
			return true
		})
	}
	emits := false
	if emptyIf != nil {
		for _, s := range emptyIf.Body.List {
			if ifs, ok := s.(*ast.IfStmt); ok && p.isFieldSel(ifs.Cond, "Stream", "pendingEnd") {
				end, wr := false, false
				inspectCalls(ifs.Body, func(c *ast.CallExpr) {
					switch p.calleeOf(c) {
					case "(*Data).SetEndStream":
						if len(c.Args) == 1 && p.text(c.Args[0]) == "true" {
							end = true
						}
					case "(*serverConn).write":
						wr = true
					case "(*serverConn).writeReset", "(*serverConn).resetStream":
						end, wr = true, true
					}
				})
				emits = end && wr
			}
		}
	}
	epos := p.pos(sd.Pos())
	if emptyIf != nil {
		epos = p.pos(emptyIf.Pos())
	}
	r.check(emptyIf != nil && emits, "empty refill still ends the stream", epos, "if pendingEnd { DATA(END_STREAM) } before leaving the loop",
		"when a refill of a streamed body yields no bytes (the reader's final (0, io.EOF)) the loop is left and the response reported complete without any frame carrying END_STREAM: a body of unknown or zero length never ends for the peer")
	// (c) refill error resets
	errReset := false
	ast.Inspect(sd.Body, func(n ast.Node) bool {
		if ifs, ok := n.(*ast.IfStmt); ok && ifs.Init != nil && strings.Contains(p.text(ifs.Init), "refillPending") {
			rst, ret := false, false
			inspectCalls(ifs.Body, func(c *ast.CallExpr) {
				if _, _, _, ok := p.resetCall(c); ok {
					rst = true
				}
			})
			for _, s := range ifs.Body.List {
				if rs, ok := s.(*ast.ReturnStmt); ok && len(rs.Results) == 1 && p.text(rs.Results[0]) == "true" {
					ret = true
				}
			}
			errReset = rst && ret
		}
		return true
	})
	r.check(errReset, "body read error resets the stream", p.pos(sd.Pos()), "RST_STREAM then done", "a read error on a streamed body no longer resets the stream before it is reported complete")
	// (d) finishRequest
	hdrEnd, bufEnd := false, false
	inspectCalls(fr.Body, func(c *ast.CallExpr) {
		if p.calleeOf(c) == "(*Headers).SetEndStream" && len(c.Args) == 1 && p.text(c.Args[0]) == "!hasBody" {
			hdrEnd = true
		}
	})
	ast.Inspect(fr.Body, func(n ast.Node) bool {
		if ifs, ok := n.(*ast.IfStmt); ok && strings.Contains(p.text(ifs.Cond), "IsBodyStream()") && ifs.Else != nil {
			ast.Inspect(ifs.Else, func(m ast.Node) bool {
				if as, ok := m.(*ast.AssignStmt); ok && len(as.Lhs) == 1 && p.isFieldSel(as.Lhs[0], "Stream", "pendingEnd") && p.text(as.Rhs[0]) == "true" {
					bufEnd = true
				}
				return true
			})
		}
		return true
	})
	r.check(hdrEnd, "HEADERS END_STREAM iff no body", p.pos(fr.Pos()), "h.SetEndStream(!hasBody)", "the response HEADERS frame no longer carries END_STREAM exactly when there is no body")
	r.check(bufEnd, "buffered body marks pendingEnd", p.pos(fr.Pos()), "pendingEnd = true", "a buffered response body no longer marks pendingEnd: its last DATA frame goes out without END_STREAM")
	early := false
	for _, s := range fr.Body.List {
		if ifs, ok := s.(*ast.IfStmt); ok && p.text(ifs.Cond) == "!hasBody" {
			for _, b := range ifs.Body.List {
				if rs, ok := b.(*ast.ReturnStmt); ok && len(rs.Results) == 1 && p.text(rs.Results[0]) == "true" {
					early = true
				}
			}
		}
	}
	r.check(early, "complete after HEADERS only without body", p.pos(fr.Pos()), "return true only under !hasBody", "finishRequest no longer reports completion right after HEADERS exactly when there is no body")
	// (e) refillPending marks the end
	eof, sized := false, false
	ast.Inspect(rf.Body, func(n ast.Node) bool {
		switch x := n.(type) {
		case *ast.CaseClause:
			if len(x.List) == 1 && strings.Contains(p.text(x.List[0]), "io.EOF") {
				for _, s := range x.Body {
					if as, ok := s.(*ast.AssignStmt); ok && p.isFieldSel(as.Lhs[0], "Stream", "pendingEnd") && p.text(as.Rhs[0]) == "true" {
						eof = true
					}
				}
			}
		case *ast.IfStmt:
			t := p.text(x.Cond)
			if strings.Contains(t, "strm.bodySize >= 0") && strings.Contains(t, "strm.bodyRead >= strm.bodySize") {
				for _, s := range x.Body.List {
					if as, ok := s.(*ast.AssignStmt); ok && p.isFieldSel(as.Lhs[0], "Stream", "pendingEnd") && p.text(as.Rhs[0]) == "true" {
						sized = true
					}
				}
			}
		}
		return true
	})
	r.check(eof, "EOF marks pendingEnd", p.pos(rf.Pos()), "io.EOF -> pendingEnd", "refillPending no longer marks the end of the body on io.EOF")
	r.check(sized, "declared length marks pendingEnd", p.pos(rf.Pos()), "bodyRead >= bodySize -> pendingEnd", "refillPending no longer marks the end of the body when the declared length has been read")
}
