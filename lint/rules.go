package main

import (
	"fmt"
	"runtime/debug"
	"sort"
	"strings"
)

// Inst is one rule instance: an obligation that was located in the tree and
// decided. Key identifies the construct (function + role), never a line.
type Inst struct {
	Rule string   `json:"rule"`
	Key  string   `json:"key"`
	Pos  string   `json:"pos"`
	OK   bool     `json:"ok"`
	Msg  string   `json:"msg"`
	Path []string `json:"path,omitempty"`
	// Undecided marks an instance the rule could not decide (anchor lost,
	// unrecognised shape). It fails the check.
	Undecided bool `json:"undecided,omitempty"`
}

// Rule is a template whose slots are filled from the loaded tree.
type Rule struct {
	Name   string
	Props  []string
	Engine string
	Doc    string // the rule text, reported in the evidence
	Floor  int    // minimum number of instances expected (vacuity guard)
	Run    func(p *Prog, r *Out)
}

// Out collects a rule's results.
type Out struct {
	rule  *Rule
	Insts []Inst
	Funcs map[string]bool
}

func (o *Out) ok(key, pos, msg string) {
	o.Insts = append(o.Insts, Inst{Rule: o.rule.Name, Key: key, Pos: pos, OK: true, Msg: msg})
}

func (o *Out) bad(key, pos, msg string, path ...string) {
	o.Insts = append(o.Insts, Inst{Rule: o.rule.Name, Key: key, Pos: pos, OK: false, Msg: msg, Path: path})
}

func (o *Out) check(cond bool, key, pos, okmsg, badmsg string) {
	if cond {
		o.ok(key, pos, okmsg)
	} else {
		o.bad(key, pos, badmsg)
	}
}

func (o *Out) undecided(key, pos, msg string) {
	o.Insts = append(o.Insts, Inst{Rule: o.rule.Name, Key: key, Pos: pos, OK: false, Msg: "UNDECIDED: " + msg, Undecided: true})
}

func (o *Out) fn(names ...string) {
	for _, n := range names {
		o.Funcs[n] = true
	}
}

var allRules []*Rule

func register(r *Rule) { allRules = append(allRules, r) }

func rulesFor(prop string) []*Rule {
	var out []*Rule
	for _, r := range allRules {
		for _, p := range r.Props {
			if p == prop {
				out = append(out, r)
			}
		}
	}
	return out
}

func ruleByName(n string) *Rule {
	for _, r := range allRules {
		if r.Name == n {
			return r
		}
	}
	return nil
}

// runRule runs one rule with panic containment: a checker panic is reported
// as an undecided instance (which fails the check), never as "holds".
func runRule(p *Prog, r *Rule) (out *Out) {
	out = &Out{rule: r, Funcs: map[string]bool{}}
	defer func() {
		if e := recover(); e != nil {
			st := string(debug.Stack())
			if len(st) > 1500 {
				st = st[:1500]
			}
			out.undecided("checker-panic", "?", fmt.Sprintf("rule panicked: %v\n%s", e, st))
		}
	}()
	r.Run(p, out)
	// de-duplicate keys deterministically: a key must identify one construct.
	seen := map[string]int{}
	for i := range out.Insts {
		k := out.Insts[i].Key
		seen[k]++
		if seen[k] > 1 {
			out.Insts[i].Key = fmt.Sprintf("%s#%d", k, seen[k])
		}
	}
	if len(out.Insts) < r.Floor {
		out.undecided("floor", "?", fmt.Sprintf("rule matched %d instances, fewer than the %d confirmed by hand on the pinned tree: the rule may have lost its anchors", len(out.Insts), r.Floor))
	}
	return out
}

func sortedKeys(m map[string]bool) []string {
	var ks []string
	for k := range m {
		ks = append(ks, k)
	}
	sort.Strings(ks)
	return ks
}

func fullKey(in Inst) string { return in.Rule + "|" + in.Key }

func hasProp(r *Rule, prop string) bool {
	for _, p := range r.Props {
		if p == prop {
			return true
		}
	}
	return false
}

func joinNonEmpty(sep string, parts ...string) string {
	var o []string
	for _, p := range parts {
		if p != "" {
			o = append(o, p)
		}
	}
	return strings.Join(o, sep)
}
