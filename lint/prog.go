package main

// Loading of /repo's current working tree into a type-checked program with
// go/ssa form. One code path serves the real tree and the in-memory seeded
// variants (mutants) used to test the rules: go/packages supplies the file
// lists and the dependencies' types (from export data), the two library
// packages are then parsed and type-checked here from source text (optionally
// with one substitution applied), and SSA is built for them.

import (
	"bytes"
	"fmt"
	"go/ast"
	"go/parser"
	"go/token"
	"go/types"
	"os"
	"path/filepath"
	"sort"
	"strings"

	"golang.org/x/tools/go/packages"
	"golang.org/x/tools/go/ssa"
)

const (
	mainPath  = "github.com/dgrr/http2"
	utilsPath = "github.com/dgrr/http2/http2utils"
)

var repoDir = "/repo"

// Base is what go/packages gives us once per process.
type Base struct {
	Deps      map[string]*types.Package // import path -> types (export data)
	MainFiles []string
	UtilFiles []string
	Sources   map[string][]byte // file -> text as on disk now
	LoadNote  string
}

type loadErr struct{ msg string }

func (e loadErr) Error() string { return e.msg }

func goEnv(extra ...string) []string {
	env := []string{}
	for _, kv := range os.Environ() {
		if strings.HasPrefix(kv, "GOWORK=") || strings.HasPrefix(kv, "GOFLAGS=") ||
			strings.HasPrefix(kv, "GOPROXY=") || strings.HasPrefix(kv, "GOSUMDB=") ||
			strings.HasPrefix(kv, "GOTOOLCHAIN=") || strings.HasPrefix(kv, "GOARCH=") {
			continue
		}
		env = append(env, kv)
	}
	env = append(env, "GOWORK=off", "GOFLAGS=-mod=mod", "GOPROXY=off")
	env = append(env, extra...)
	return env
}

func loadBase(extraEnv ...string) (*Base, error) {
	cfg := &packages.Config{
		Mode: packages.NeedName | packages.NeedFiles | packages.NeedCompiledGoFiles |
			packages.NeedImports | packages.NeedDeps | packages.NeedTypes,
		Dir:   repoDir,
		Env:   goEnv(extraEnv...),
		Tests: false,
	}
	pkgs, err := packages.Load(cfg, mainPath, utilsPath)
	if err != nil {
		return nil, loadErr{"go/packages: " + err.Error()}
	}
	if len(pkgs) != 2 {
		return nil, loadErr{fmt.Sprintf("expected 2 packages, got %d", len(pkgs))}
	}
	b := &Base{Deps: map[string]*types.Package{}, Sources: map[string][]byte{}}
	var visit func(p *packages.Package)
	seen := map[string]bool{}
	visit = func(p *packages.Package) {
		if seen[p.ID] {
			return
		}
		seen[p.ID] = true
		if p.Types != nil && p.PkgPath != mainPath && p.PkgPath != utilsPath {
			b.Deps[p.PkgPath] = p.Types
		}
		for _, q := range p.Imports {
			visit(q)
		}
	}
	for _, p := range pkgs {
		for _, e := range p.Errors {
			// errors in the root packages are re-detected by our own type check;
			// errors listing the package at all are fatal.
			if e.Kind == packages.ListError {
				return nil, loadErr{"list error: " + e.Error()}
			}
		}
		visit(p)
		files := append([]string{}, p.CompiledGoFiles...)
		sort.Strings(files)
		switch p.PkgPath {
		case mainPath:
			b.MainFiles = files
		case utilsPath:
			b.UtilFiles = files
		}
	}
	if len(b.MainFiles) == 0 || len(b.UtilFiles) == 0 {
		return nil, loadErr{"a library package has no files"}
	}
	for _, f := range append(append([]string{}, b.MainFiles...), b.UtilFiles...) {
		src, err := os.ReadFile(f)
		if err != nil {
			return nil, loadErr{err.Error()}
		}
		b.Sources[f] = src
	}
	return b, nil
}

// Subst is one textual substitution used to build a seeded variant in memory.
type Subst struct {
	File string // base name, e.g. "hpack.go" or "http2utils/utils.go"
	Old  string
	New  string
	// offset form (used by the sweep): replace src[Off:Off+Len] when UseOff
	UseOff bool
	Off    int
	Len    int
}

// Prog is one type-checked tree (the real one or a variant).
type Prog struct {
	Fset   *token.FileSet
	Pkg    *types.Package
	Info   *types.Info
	Files  []*ast.File
	UPkg   *types.Package
	UInfo  *types.Info
	UFiles []*ast.File
	SSA    *ssa.Program
	SPkg   *ssa.Package
	SUPkg  *ssa.Package
	Src    map[string][]byte // by full file name

	ksaZeroKinds uint16
	isVariant    bool
	diskSrc      map[string][]byte

	funcDecls map[string]*ast.FuncDecl
	memo      map[string]interface{}
}

type mapImporter map[string]*types.Package

func (m mapImporter) Import(path string) (*types.Package, error) {
	if p, ok := m[path]; ok {
		return p, nil
	}
	return nil, fmt.Errorf("package %q not loaded", path)
}

var errSubstNotFound = fmt.Errorf("substitution anchor not found")

func relName(f string) string {
	r, err := filepath.Rel(repoDir, f)
	if err != nil {
		return filepath.Base(f)
	}
	return r
}

// build parses, type-checks and SSA-builds the two packages. subs may be nil.
func (b *Base) build(subs []Subst) (*Prog, error) {
	fset := token.NewFileSet()
	p := &Prog{Fset: fset, Src: map[string][]byte{}, funcDecls: map[string]*ast.FuncDecl{}, memo: map[string]interface{}{}}
	p.isVariant = len(subs) > 0
	p.diskSrc = b.Sources
	applied := make([]bool, len(subs))
	parse := func(files []string) ([]*ast.File, error) {
		var out []*ast.File
		for _, f := range files {
			src := b.Sources[f]
			for i, s := range subs {
				if relName(f) == s.File {
					if s.UseOff {
						if s.Off < 0 || s.Off+s.Len > len(src) {
							continue
						}
						ns := append([]byte{}, src[:s.Off]...)
						ns = append(ns, []byte(s.New)...)
						ns = append(ns, src[s.Off+s.Len:]...)
						src = ns
						applied[i] = true
						continue
					}
					if n := bytes.Count(src, []byte(s.Old)); n != 1 {
						continue
					}
					src = bytes.Replace(src, []byte(s.Old), []byte(s.New), 1)
					applied[i] = true
				}
			}
			p.Src[f] = src
			af, err := parser.ParseFile(fset, f, src, parser.ParseComments|parser.SkipObjectResolution)
			if err != nil {
				return nil, loadErr{"parse: " + err.Error()}
			}
			out = append(out, af)
		}
		return out, nil
	}
	var err error
	if p.UFiles, err = parse(b.UtilFiles); err != nil {
		return nil, err
	}
	if p.Files, err = parse(b.MainFiles); err != nil {
		return nil, err
	}
	for i := range subs {
		if !applied[i] {
			return nil, errSubstNotFound
		}
	}
	imp := mapImporter{}
	for k, v := range b.Deps {
		imp[k] = v
	}
	newInfo := func() *types.Info {
		return &types.Info{
			Types:      map[ast.Expr]types.TypeAndValue{},
			Defs:       map[*ast.Ident]types.Object{},
			Uses:       map[*ast.Ident]types.Object{},
			Implicits:  map[ast.Node]types.Object{},
			Selections: map[*ast.SelectorExpr]*types.Selection{},
			Scopes:     map[ast.Node]*types.Scope{},
			Instances:  map[*ast.Ident]types.Instance{},
		}
	}
	var terrs []string
	tc := &types.Config{Importer: imp, Error: func(e error) { terrs = append(terrs, e.Error()) },
		Sizes: types.SizesFor("gc", "amd64"), GoVersion: "go1.25"}
	p.UInfo = newInfo()
	p.UPkg, _ = tc.Check(utilsPath, fset, p.UFiles, p.UInfo)
	if len(terrs) > 0 {
		return nil, loadErr{"type errors: " + strings.Join(terrs, "; ")}
	}
	imp[utilsPath] = p.UPkg
	p.Info = newInfo()
	p.Pkg, _ = tc.Check(mainPath, fset, p.Files, p.Info)
	if len(terrs) > 0 {
		return nil, loadErr{"type errors: " + strings.Join(terrs, "; ")}
	}

	prog := ssa.NewProgram(fset, ssa.InstantiateGenerics)
	created := map[*types.Package]bool{}
	var createDeps func(tp *types.Package)
	createDeps = func(tp *types.Package) {
		for _, q := range tp.Imports() {
			if !created[q] {
				created[q] = true
				if q != p.UPkg {
					prog.CreatePackage(q, nil, nil, true)
				}
				createDeps(q)
			}
		}
	}
	createDeps(p.UPkg)
	p.SUPkg = prog.CreatePackage(p.UPkg, p.UFiles, p.UInfo, false)
	created[p.UPkg] = true
	createDeps(p.Pkg)
	p.SPkg = prog.CreatePackage(p.Pkg, p.Files, p.Info, false)
	p.SUPkg.Build()
	p.SPkg.Build()
	p.SSA = prog

	for _, f := range p.Files {
		for _, d := range f.Decls {
			if fd, ok := d.(*ast.FuncDecl); ok {
				p.funcDecls[declName(fd)] = fd
			}
		}
	}
	for _, f := range p.UFiles {
		for _, d := range f.Decls {
			if fd, ok := d.(*ast.FuncDecl); ok {
				p.funcDecls["http2utils."+declName(fd)] = fd
			}
		}
	}
	return p, nil
}

// declName renders a FuncDecl as "(*T).m", "(T).m" or "f".
func declName(fd *ast.FuncDecl) string {
	if fd.Recv == nil || len(fd.Recv.List) == 0 {
		return fd.Name.Name
	}
	t := fd.Recv.List[0].Type
	if st, ok := t.(*ast.StarExpr); ok {
		if id, ok := st.X.(*ast.Ident); ok {
			return "(*" + id.Name + ")." + fd.Name.Name
		}
	}
	if id, ok := t.(*ast.Ident); ok {
		return "(" + id.Name + ")." + fd.Name.Name
	}
	return fd.Name.Name
}

func (p *Prog) pos(n token.Pos) string {
	if !n.IsValid() {
		return "?"
	}
	ps := p.Fset.Position(n)
	return fmt.Sprintf("%s:%d", relName(ps.Filename), ps.Line)
}

// infoFor returns the types.Info covering node n (main or utils package).
func (p *Prog) infoFor(n ast.Node) *types.Info {
	f := p.Fset.File(n.Pos())
	if f != nil && strings.Contains(f.Name(), "/http2utils/") {
		return p.UInfo
	}
	return p.Info
}
