package main

import (
	"fmt"
	"go/token"
	"go/types"
	"strings"

	"golang.org/x/tools/go/ssa"
)

// vdesc renders an SSA value as a canonical expression over field loads,
// parameters, constants and calls, so that rules can recognise a role
// ("load of Stream.responded", "fr.Type()") without depending on names of
// temporaries or on source spelling.
func (p *Prog) vdesc(v ssa.Value) string { return p.vdescN(v, 6) }

func (p *Prog) vdescN(v ssa.Value, depth int) string {
	if v == nil {
		return "nil"
	}
	if depth <= 0 {
		return "…"
	}
	switch x := v.(type) {
	case *ssa.Const:
		if x.Value == nil {
			return "nil"
		}
		return x.Value.ExactString()
	case *ssa.Parameter:
		return x.Name()
	case *ssa.FreeVar:
		return "free:" + x.Name()
	case *ssa.Global:
		return "global:" + x.Name()
	case *ssa.Function:
		return "func:" + p.fname(x)
	case *ssa.UnOp:
		switch x.Op {
		case token.MUL:
			if fa, ok := x.X.(*ssa.FieldAddr); ok {
				o, n := p.fieldAddrName(fa)
				return o + "." + n + "{" + p.vdescN(fa.X, depth-1) + "}"
			}
			return "*" + p.vdescN(x.X, depth-1)
		case token.NOT:
			return "!" + p.vdescN(x.X, depth-1)
		case token.ARROW:
			return "<-" + p.vdescN(x.X, depth-1)
		case token.SUB:
			return "-" + p.vdescN(x.X, depth-1)
		}
		return x.Op.String() + p.vdescN(x.X, depth-1)
	case *ssa.FieldAddr:
		o, n := p.fieldAddrName(x)
		return "&" + o + "." + n + "{" + p.vdescN(x.X, depth-1) + "}"
	case *ssa.Field:
		o, n := p.fieldValName(x)
		return o + "." + n + "{" + p.vdescN(x.X, depth-1) + "}"
	case *ssa.BinOp:
		return "(" + p.vdescN(x.X, depth-1) + " " + x.Op.String() + " " + p.vdescN(x.Y, depth-1) + ")"
	case *ssa.Call:
		name := p.calleeName(x.Common())
		if name == "" {
			name = "dyn:" + p.vdescN(x.Call.Value, depth-1)
		}
		var as []string
		for _, a := range x.Call.Args {
			as = append(as, p.vdescN(a, depth-1))
		}
		return name + "(" + strings.Join(as, ", ") + ")"
	case *ssa.Convert:
		return p.vdescN(x.X, depth)
	case *ssa.ChangeType:
		return p.vdescN(x.X, depth)
	case *ssa.MakeInterface:
		return "iface(" + p.vdescN(x.X, depth-1) + ")"
	case *ssa.Extract:
		return fmt.Sprintf("ext%d(%s)", x.Index, p.vdescN(x.Tuple, depth-1))
	case *ssa.Phi:
		var es []string
		for _, e := range x.Edges {
			es = append(es, p.vdescN(e, depth-2))
		}
		return "phi[" + strings.Join(es, " | ") + "]"
	case *ssa.Alloc:
		if x.Comment != "" {
			return "alloc:" + x.Comment
		}
		return "alloc"
	case *ssa.Slice:
		lo, hi := "", ""
		if x.Low != nil {
			lo = p.vdescN(x.Low, depth-1)
		}
		if x.High != nil {
			hi = p.vdescN(x.High, depth-1)
		}
		return p.vdescN(x.X, depth-1) + "[" + lo + ":" + hi + "]"
	case *ssa.IndexAddr:
		return "&" + p.vdescN(x.X, depth-1) + "[" + p.vdescN(x.Index, depth-1) + "]"
	case *ssa.Index:
		return p.vdescN(x.X, depth-1) + "[" + p.vdescN(x.Index, depth-1) + "]"
	case *ssa.TypeAssert:
		return "assert(" + p.vdescN(x.X, depth-1) + ", " + types.TypeString(x.AssertedType, types.RelativeTo(p.Pkg)) + ")"
	case *ssa.MakeClosure:
		return "closure:" + p.vdescN(x.Fn, depth-1)
	case *ssa.Lookup:
		return p.vdescN(x.X, depth-1) + "[" + p.vdescN(x.Index, depth-1) + "]"
	}
	return fmt.Sprintf("%T", v)
}

// edgeDominates: every path to block b passes the edge from->from.Succs[si].
func edgeDominates(from *ssa.BasicBlock, si int, b *ssa.BasicBlock) bool {
	s := from.Succs[si]
	if !s.Dominates(b) {
		return false
	}
	// both edges to the same block carry no information
	if len(from.Succs) == 2 && from.Succs[0] == from.Succs[1] {
		return false
	}
	for _, pr := range s.Preds {
		if pr == from {
			continue
		}
		if !s.Dominates(pr) { // another way into s that is not a back edge
			return false
		}
	}
	return true
}

// ssaFact is a branch condition known at an instruction.
type ssaFact struct {
	Cond ssa.Value
	Val  bool
	If   *ssa.If
}

// factsAt lists the conditions (atoms; NOT stripped into Val) that hold at
// instruction in because an If edge with that outcome dominates it.
func (p *Prog) factsAt(in ssa.Instruction) []ssaFact {
	var out []ssaFact
	b := in.Block()
	for d := b.Idom(); d != nil; d = d.Idom() {
		n := len(d.Instrs)
		if n == 0 {
			continue
		}
		iff, ok := d.Instrs[n-1].(*ssa.If)
		if !ok {
			continue
		}
		for si := 0; si < 2; si++ {
			if edgeDominates(d, si, b) {
				c, val := iff.Cond, si == 0
				for {
					u, ok := c.(*ssa.UnOp)
					if !ok || u.Op != token.NOT {
						break
					}
					c, val = u.X, !val
				}
				out = append(out, ssaFact{c, val, iff})
			}
		}
	}
	return out
}

// hasFact reports whether a fact whose description contains sub holds with val.
func (p *Prog) hasFact(in ssa.Instruction, sub string, val bool) bool {
	for _, f := range p.factsAt(in) {
		if f.Val == val && strings.Contains(p.vdesc(f.Cond), sub) {
			return true
		}
	}
	return false
}

// mustPassBetween: every path from instruction `from` to instruction `to`
// (not re-entering from) passes instruction `via`. All in one function.
func mustPassBetween(from, via, to ssa.Instruction) bool {
	if from.Parent() != to.Parent() || via.Parent() != to.Parent() {
		return false
	}
	return reachAvoiding(from, to, via) == false
}

// reachAvoiding: is there a path from after `from` to `to` that does not
// execute `avoid` and does not pass `from` again?
func reachAvoiding(from, to, avoid ssa.Instruction) bool {
	type pos struct {
		b *ssa.BasicBlock
		i int
	}
	start := pos{from.Block(), instrIndex(from) + 1}
	seen := map[*ssa.BasicBlock]bool{}
	var scan func(b *ssa.BasicBlock, i int) bool
	scan = func(b *ssa.BasicBlock, i int) bool {
		for ; i < len(b.Instrs); i++ {
			x := b.Instrs[i]
			if x == to {
				return true
			}
			if x == avoid || x == from {
				return false
			}
		}
		for _, s := range b.Succs {
			if seen[s] {
				continue
			}
			seen[s] = true
			if scan(s, 0) {
				return true
			}
		}
		return false
	}
	return scan(start.b, start.i)
}

// reachesInstr: some path from the start of block b reaches instruction to
// without executing any instruction in stop.
func reachesInstr(b *ssa.BasicBlock, to ssa.Instruction, stop map[ssa.Instruction]bool) bool {
	seen := map[*ssa.BasicBlock]bool{b: true}
	var scan func(b *ssa.BasicBlock) bool
	scan = func(b *ssa.BasicBlock) bool {
		for _, x := range b.Instrs {
			if x == to {
				return true
			}
			if stop[x] {
				return false
			}
		}
		for _, s := range b.Succs {
			if !seen[s] {
				seen[s] = true
				if scan(s) {
					return true
				}
			}
		}
		return false
	}
	return scan(b)
}

// errClass classifies an error-typed SSA value.
//
//	GoAway  — connection error (NewGoAwayError / a package var initialised so)
//	Reset   — stream error (NewResetStreamError / NewError)
//	Nil     — nil
//	Foreign — anything else (plain errors, sentinels)
type errClassSet map[string]bool

func (p *Prog) errClasses(v ssa.Value, depth int, seen map[ssa.Value]bool) errClassSet {
	out := errClassSet{}
	if v == nil || depth == 0 || seen[v] {
		out["Foreign"] = true
		return out
	}
	seen[v] = true
	switch x := v.(type) {
	case *ssa.Const:
		if x.Value == nil {
			out["Nil"] = true
		} else {
			out["Foreign"] = true
		}
	case *ssa.Parameter:
		// resolved by the caller: see the *ssa.Call case
		for i, pa := range x.Parent().Params {
			if pa == x {
				out[fmt.Sprintf("Param#%d", i)] = true
				return out
			}
		}
		out["Foreign"] = true
	case *ssa.MakeInterface:
		return p.errClasses(x.X, depth, seen)
	case *ssa.ChangeInterface:
		return p.errClasses(x.X, depth, seen)
	case *ssa.Call:
		switch name := p.calleeName(x.Common()); name {
		case "NewGoAwayError":
			out["GoAway"] = true
		case "NewResetStreamError", "NewError":
			out["Reset"] = true
		default:
			if f := x.Common().StaticCallee(); f != nil && f.Pkg == p.SPkg && f.Blocks != nil {
				// summarise the callee's error results
				for _, c := range p.returnErrClasses(f, depth-1) {
					var i int
					if n, _ := fmt.Sscanf(c, "Param#%d", &i); n == 1 {
						// the callee hands back one of its arguments
						if i < len(x.Common().Args) {
							for c2 := range p.errClasses(x.Common().Args[i], depth-1, seen) {
								out[c2] = true
							}
						} else {
							out["Foreign"] = true
						}
						continue
					}
					out[c] = true
				}
			} else {
				out["Foreign"] = true
			}
		}
	case *ssa.Extract:
		if c, ok := x.Tuple.(*ssa.Call); ok {
			if f := c.Common().StaticCallee(); f != nil && f.Pkg == p.SPkg && f.Blocks != nil {
				for _, cl := range p.returnErrClassesIdx(f, x.Index, depth-1) {
					out[cl] = true
				}
				return out
			}
		}
		out["Foreign"] = true
	case *ssa.Phi:
		for _, e := range x.Edges {
			for c := range p.errClasses(e, depth, seen) {
				out[c] = true
			}
		}
	case *ssa.UnOp:
		if x.Op == token.MUL {
			if a, ok := x.X.(*ssa.Alloc); ok {
				// a spilled result or local: the value stored last before the
				// load in the same block, else any value ever stored
				b := x.Block()
				idx := instrIndex(x)
				for j := idx - 1; j >= 0; j-- {
					if st, ok := b.Instrs[j].(*ssa.Store); ok && st.Addr == a {
						return p.errClasses(st.Val, depth, seen)
					}
				}
				n := 0
				for _, ref := range *a.Referrers() {
					if st, ok := ref.(*ssa.Store); ok && st.Addr == a {
						n++
						for c := range p.errClasses(st.Val, depth, seen) {
							out[c] = true
						}
					}
				}
				if n == 0 {
					out["Nil"] = true
				}
				return out
			}
			if g, ok := x.X.(*ssa.Global); ok {
				switch p.globalErrClass(g) {
				case "":
					out["Foreign"] = true
				default:
					out[p.globalErrClass(g)] = true
				}
				return out
			}
		}
		out["Foreign"] = true
	default:
		out["Foreign"] = true
	}
	return out
}

// globalErrClass reads the initialiser of a package-level error variable.
func (p *Prog) globalErrClass(g *ssa.Global) string {
	init, _ := p.findVarInit(g.Name())
	if init == nil {
		return ""
	}
	if cl, _, ok := p.errorCall(init); ok {
		return cl
	}
	return ""
}

func (p *Prog) returnErrClasses(f *ssa.Function, depth int) []string {
	res := f.Signature.Results()
	return p.returnErrClassesIdx(f, res.Len()-1, depth)
}

func (p *Prog) returnErrClassesIdx(f *ssa.Function, idx int, depth int) []string {
	key := fmt.Sprintf("reterr:%s:%d", p.fname(f), idx)
	if v, ok := p.memo[key]; ok {
		return v.([]string)
	}
	p.memo[key] = []string{"Foreign"} // recursion guard
	set := errClassSet{}
	for _, b := range f.Blocks {
		for _, in := range b.Instrs {
			if r, ok := in.(*ssa.Return); ok && idx < len(r.Results) {
				for c := range p.errClasses(r.Results[idx], depth, map[ssa.Value]bool{}) {
					set[c] = true
				}
			}
		}
	}
	var out []string
	for c := range set {
		out = append(out, c)
	}
	sortStrings(out)
	p.memo[key] = out
	return out
}
