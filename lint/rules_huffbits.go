package main

import (
	"go/ast"
	"go/token"
	"strings"
)

// Role-by-role structural conditions of the Huffman bit loops. Each is a
// necessary condition of RFC 7541 s5.2 coding with an 8-bit-stride table; none
// decides the arithmetic as a whole (that needs execution), and together they
// still leave value-level behaviour undecided.

func init() {
	register(&Rule{
		Name: "huffman-bit-roles", Props: []string{"C15", "C03", "C04"}, Engine: "AST", Floor: 20,
		Doc: "each arithmetic role of HuffmanEncode / HuffmanDecode / the decode-table builder has the form the 8-bit-stride algorithm needs: accumulate 8 bits per input octet; index the table with the top 8 pending bits; a non-leaf consumes 8 bits, a leaf consumes its code length, emits its symbol, returns to the root and restarts the pending-padding count; the tail pads the index with zeros on the right and stops at a non-leaf or a code longer than what is left; the encoder shifts each code in by its length and flushes whole octets; the table builder strides 8 bits per level and fills 1<<(8-len) slots",
		Run: ruleHuffmanBitRoles,
	})
}

func squash(s string) string { return strings.ReplaceAll(s, " ", "") }

func ruleHuffmanBitRoles(p *Prog, r *Out) {
	dec := p.decl("HuffmanDecode")
	enc := p.decl("HuffmanEncode")
	add := p.decl("(*huffmanNode).add")
	if dec == nil || enc == nil || add == nil {
		r.undecided("anchors", "?", "HuffmanDecode / HuffmanEncode / (*huffmanNode).add no longer resolve")
		return
	}
	r.fn("HuffmanDecode", "HuffmanEncode", "(*huffmanNode).add")
	has := func(fd *ast.FuncDecl, pred func(n ast.Node) bool) int {
		n := 0
		ast.Inspect(fd.Body, func(x ast.Node) bool {
			if x != nil && pred(x) {
				n++
			}
			return true
		})
		return n
	}
	assign := func(lhs string, tok token.Token, rhs string) func(ast.Node) bool {
		return func(n ast.Node) bool {
			as, ok := n.(*ast.AssignStmt)
			return ok && len(as.Lhs) == 1 && len(as.Rhs) == 1 && as.Tok == tok && squash(p.text(as.Lhs[0])) == lhs && squash(p.text(as.Rhs[0])) == rhs
		}
	}
	dpos, epos, apos := p.pos(dec.Pos()), p.pos(enc.Pos()), p.pos(add.Pos())
	// ---- decoder: accumulation
	r.check(has(dec, assign("accBits", token.ASSIGN, "accBits<<8|uint32(b)")) == 1, "decode: accumulate one octet", dpos, "accBits = accBits<<8 | b", "HuffmanDecode no longer shifts each input octet into the accumulator as accBits<<8 | b")
	r.check(has(dec, assign("bits", token.ADD_ASSIGN, "8")) == 1 && has(dec, assign("bitsLeft", token.ADD_ASSIGN, "8")) == 1, "decode: 8 pending bits per octet", dpos, "bits += 8; bitsLeft += 8", "HuffmanDecode no longer counts 8 pending bits (and 8 possible padding bits) per input octet")
	// loops
	mainLoop, tailLoop := false, false
	var tail *ast.ForStmt
	ast.Inspect(dec.Body, func(n ast.Node) bool {
		if f, ok := n.(*ast.ForStmt); ok && f.Cond != nil && f.Init == nil {
			if c, ok := p.canonCmp(f.Cond, nil); ok && c.Op == "le" {
				if c.L.eq(Lin{T: map[string]int64{"bits": -1}, C: 8}) { // bits >= 8
					mainLoop = true
				}
				if c.L.eq(Lin{T: map[string]int64{"bits": -1}, C: 1}) { // bits > 0
					tailLoop = true
					tail = f
				}
			}
		}
		return true
	})
	r.check(mainLoop, "decode: consume while 8 bits are pending", dpos, "for bits >= 8", "the main decode loop no longer runs while at least 8 bits are pending")
	r.check(tailLoop, "decode: tail while bits remain", dpos, "for bits > 0", "the tail loop no longer runs while bits remain after the last octet")
	// table index expressions
	r.check(has(dec, func(n ast.Node) bool {
		as, ok := n.(*ast.AssignStmt)
		return ok && len(as.Lhs) == 1 && p.text(as.Lhs[0]) == "idx" && squash(p.text(as.Rhs[0])) == "byte(accBits>>(bits-8))"
	}) == 1, "decode: index with the top 8 pending bits", dpos, "idx = byte(accBits >> (bits-8))", "the main loop no longer indexes the table with the 8 oldest pending bits")
	r.check(has(dec, func(n ast.Node) bool {
		as, ok := n.(*ast.AssignStmt)
		return ok && len(as.Lhs) == 1 && p.text(as.Lhs[0]) == "idx" && squash(p.text(as.Rhs[0])) == "byte(accBits<<(8-bits))"
	}) == 1, "decode: tail index padded on the right", dpos, "idx = byte(accBits << (8-bits))", "the tail loop no longer left-aligns the remaining bits to index the table")
	r.check(has(dec, assign("root", token.ASSIGN, "root.sub[idx]")) == 2, "decode: one table step per index", dpos, "root = root.sub[idx] in both loops", "a decode loop no longer steps through the table with root = root.sub[idx]")
	// non-leaf consumes 8
	nonLeaf := false
	ast.Inspect(dec.Body, func(n ast.Node) bool {
		if ifs, ok := n.(*ast.IfStmt); ok && squash(p.text(ifs.Cond)) == "root.sub!=nil" && ifs.Else != nil {
			for _, s := range ifs.Body.List {
				if assign("bits", token.SUB_ASSIGN, "8")(s) {
					nonLeaf = true
				}
			}
		}
		return true
	})
	r.check(nonLeaf, "decode: a non-leaf consumes 8 bits", dpos, "root.sub != nil -> bits -= 8", "an interior table node no longer consumes exactly 8 bits")
	// emission sites
	nEmit, okEmit := 0, 0
	ast.Inspect(dec.Body, func(n ast.Node) bool {
		var list []ast.Stmt
		switch x := n.(type) {
		case *ast.BlockStmt:
			list = x.List
		default:
			return true
		}
		emitIdx := -1
		for i, s := range list {
			if assign("dst", token.ASSIGN, "append(dst,root.sym)")(s) {
				emitIdx = i
			}
		}
		if emitIdx < 0 {
			return true
		}
		nEmit++
		consume, reset, pad := -1, -1, -1
		for i, s := range list {
			if assign("bits", token.SUB_ASSIGN, "root.codeLen")(s) {
				consume = i
			}
			if assign("root", token.ASSIGN, "rootHuffmanNode")(s) {
				reset = i
			}
			if assign("bitsLeft", token.ASSIGN, "bits")(s) {
				pad = i
			}
		}
		// codeLen must be read before root is reset; the padding count restarts after the consume
		if consume >= 0 && reset > consume && reset > emitIdx && pad > consume {
			okEmit++
		}
		return true
	})
	r.check(nEmit == 2 && okEmit == 2, "decode: a leaf consumes its length, emits, resets, restarts the padding count", dpos, "bits -= codeLen; emit sym; root = root node; bitsLeft = bits (both loops)",
		"a symbol emission site of HuffmanDecode does not (in this order) consume the code's length, emit the symbol, return to the root and restart the pending-padding count: after a long code decoded in the tail the leftover count is stale and a valid string is rejected as over-padded, or a stale node is reused")
	// tail stop condition
	tailStop := false
	if tail != nil {
		for _, s := range tail.Body.List {
			if ifs, ok := s.(*ast.IfStmt); ok && squash(p.text(ifs.Cond)) == "root.sub!=nil||root.codeLen>bits" {
				for _, b := range ifs.Body.List {
					if br, ok := b.(*ast.BranchStmt); ok && br.Tok == token.BREAK {
						tailStop = true
					}
				}
			}
		}
	}
	r.check(tailStop, "decode: tail stops at a non-leaf or a code longer than what is left", dpos, "root.sub != nil || root.codeLen > bits -> break", "the tail loop no longer stops when the remaining bits reach an interior node or a code longer than the bits that remain: padding is decoded as a symbol")
	// final mask uses the bits that remain
	r.check(has(dec, func(n ast.Node) bool {
		ifs, ok := n.(*ast.IfStmt)
		return ok && ifs.Init != nil && squash(p.text(ifs.Init)) == "mask:=uint32(1<<bits-1)" && squash(p.text(ifs.Cond)) == "accBits&mask!=mask"
	}) == 1, "decode: padding mask over the remaining bits", dpos, "mask = 1<<bits - 1; accBits&mask != mask rejects", "the final padding test no longer compares exactly the remaining low bits with all ones")
	// ---- encoder
	r.check(has(enc, assign("length", token.ADD_ASSIGN, "n")) == 1, "encode: pending grows by the code length", epos, "length += n", "HuffmanEncode no longer adds each code's length to the pending bit count")
	r.check(has(enc, assign("code", token.ASSIGN, "code<<n|c")) == 1, "encode: shift the code in", epos, "code = code<<n | c", "HuffmanEncode no longer shifts each code into the accumulator by its own length")
	flush := false
	ast.Inspect(enc.Body, func(n ast.Node) bool {
		if f, ok := n.(*ast.ForStmt); ok && f.Cond != nil {
			if c, ok := p.canonCmp(f.Cond, nil); ok && c.Op == "le" && c.L.eq(Lin{T: map[string]int64{"length": -1}, C: 8}) {
				dec8, out := false, false
				for _, s := range f.Body.List {
					if assign("length", token.SUB_ASSIGN, "8")(s) {
						dec8 = true
					}
					if assign("dst", token.ASSIGN, "append(dst,byte(code>>length))")(s) && dec8 {
						out = true
					}
				}
				flush = dec8 && out
			}
		}
		return true
	})
	r.check(flush, "encode: flush whole octets", epos, "for length >= 8 { length -= 8; append(byte(code>>length)) }", "HuffmanEncode no longer flushes the oldest 8 pending bits while at least 8 are pending")
	tailPad := false
	ast.Inspect(enc.Body, func(n ast.Node) bool {
		if ifs, ok := n.(*ast.IfStmt); ok {
			if c, ok := p.canonCmp(ifs.Cond, nil); ok && c.Op == "le" && c.L.eq(Lin{T: map[string]int64{"length": -1}, C: 1}) {
				for _, s := range ifs.Body.List {
					if assign("dst", token.ASSIGN, "append(dst,byte(code))")(s) {
						tailPad = true
					}
				}
			}
		}
		return true
	})
	r.check(tailPad, "encode: last partial octet written when bits remain", epos, "if length > 0 { ...; append(byte(code)) }", "HuffmanEncode no longer writes the last partial octet exactly when bits remain")
	r.check(has(enc, func(n ast.Node) bool {
		as, ok := n.(*ast.AssignStmt)
		return ok && len(as.Lhs) == 1 && p.text(as.Lhs[0]) == "n" && squash(p.text(as.Rhs[0])) == "huffmanCodeLen[b]"
	}) == 1 && has(enc, func(n ast.Node) bool {
		as, ok := n.(*ast.AssignStmt)
		return ok && len(as.Lhs) == 1 && p.text(as.Lhs[0]) == "c" && squash(p.text(as.Rhs[0])) == "uint64(huffmanCodes[b])"
	}) == 1, "encode: code and length of the same symbol", epos, "n = len[b]; c = code[b]", "HuffmanEncode no longer takes a symbol's code and length from the same table index")
	// ---- table builder
	stride := false
	ast.Inspect(add.Body, func(n ast.Node) bool {
		if f, ok := n.(*ast.ForStmt); ok && f.Cond != nil {
			if c, ok := p.canonCmp(f.Cond, nil); ok && c.Op == "le" && c.L.eq(Lin{T: map[string]int64{"length": -1}, C: 9}) { // length > 8
				d, ix := false, false
				for _, s := range f.Body.List {
					if assign("length", token.SUB_ASSIGN, "8")(s) {
						d = true
					}
					if as, ok := s.(*ast.AssignStmt); ok && len(as.Lhs) == 1 && p.text(as.Lhs[0]) == "i" && squash(p.text(as.Rhs[0])) == "uint8(code>>length)" && d {
						ix = true
					}
				}
				stride = d && ix
			}
		}
		return true
	})
	r.check(stride, "table: 8-bit stride per level", apos, "for length > 8 { length -= 8; i = uint8(code >> length) }", "the decode-table builder no longer descends one level per 8 code bits")
	r.check(has(add, func(n ast.Node) bool {
		as, ok := n.(*ast.AssignStmt)
		return ok && len(as.Lhs) == 1 && p.text(as.Lhs[0]) == "n" && p.linOf(as.Rhs[0], nil).eq(Lin{T: map[string]int64{"length": -1}, C: 8})
	}) == 1, "table: free bits below a short code", apos, "n = 8 - length", "the decode-table builder no longer computes the free low bits as 8 - length")
	r.check(has(add, func(n ast.Node) bool {
		as, ok := n.(*ast.AssignStmt)
		return ok && len(as.Lhs) == 2 && len(as.Rhs) == 2 && squash(p.text(as.Rhs[0])) == "int(uint8(code<<n))" && squash(p.text(as.Rhs[1])) == "1<<n"
	}) == 1, "table: slot range of a short code", apos, "start = uint8(code<<n); count = 1<<n", "the decode-table builder no longer fills the 1<<n slots starting at code<<n")
	fill := false
	ast.Inspect(add.Body, func(n ast.Node) bool {
		if f, ok := n.(*ast.ForStmt); ok && f.Init != nil && f.Cond != nil && f.Post != nil {
			if squash(p.text(f.Init)) == "i:=start" && squash(p.text(f.Cond)) == "i<start+end" && squash(p.text(f.Post)) == "i++" {
				for _, s := range f.Body.List {
					if as, ok := s.(*ast.AssignStmt); ok && squash(p.text(as.Lhs[0])) == "node.sub[i]" && strings.Contains(squash(p.text(as.Rhs[0])), "sym:sym,codeLen:length") {
						fill = true
					}
				}
			}
		}
		return true
	})
	r.check(fill, "table: every slot of the range gets the leaf", apos, "for i := start; i < start+end; i++ { sub[i] = leaf(sym, length) }", "the decode-table builder no longer fills exactly the slots start..start+end-1 with the symbol's leaf")
}
