package main

import (
	"fmt"
	"go/ast"
	"go/token"
	"go/types"
	"sort"
	"strings"

	"golang.org/x/tools/go/ssa"
)

// Rules added for the second half of the third seeding round.

// ctxTouchers is the frozen table of the functions that look inside the
// fasthttp.RequestCtx a server stream carries (Stream.ctx), each with the reason
// the handler cannot be running on that context when the function does so. The
// handler owns the context from the `go` statement in dispatchHandler until its
// report on handlerDone has been received.
var ctxTouchers = map[string]string{
	"(*serverConn).handleStreams/releaseStream": "guard: releases the context only past the handlerRunning test (rule request-ctx-pool)",
	"(*serverConn).handleFrame":                 "state: request side; HEADERS/CONTINUATION/DATA on a stream that is half-closed or further is turned away first",
	"(*serverConn).handleHeaderFrame":           "callers: reached from handleFrame's HEADERS/CONTINUATION case only, past the state test",
	"(*serverConn).dispatchHandler":             "before: everything before the go statement runs before the handler exists",
	"(*serverConn).dispatchHandler/go":          "handler: this is the handler goroutine itself",
	"(*serverConn).dispatchHandler/go/defer":    "handler: deferred function of the handler goroutine",
	"(*serverConn).finishRequest":               "callers: called on the handlerDone receipt only",
	"(*serverConn).dropResponse":                "guard: returns at once when handlerRunning",
	"(*serverConn).closeBodyStream":             "bodyStream: looks only when Stream.bodyStream is set, which finishRequest alone does",
	"(*serverConn).detachTimedOut":              "report: runs on a stream just taken off handlerDone, handlerRunning cleared in the statement before; it asks fasthttp whether the handler left a goroutine on the context and, if so, gives the stream a fresh one",
	"(*serverConn).dropReported":                "after-stop: takes streams out of handlerDone (their handlers have returned) and is called only where handlerStop has been found closed (the loop is gone)",
}

func init() {
	register(&Rule{
		Name: "request-ctx-handoff", Props: []string{"C19", "C17"}, Engine: "SSA", Floor: 9,
		Doc: "the RequestCtx of a server stream belongs to the handler from the go statement in dispatchHandler until the handlerDone receipt: the functions that look inside Stream.ctx are exactly a frozen table, and each one's reason is checked (guarded by handlerRunning, reached only on the handlerDone receipt, before the go statement, behind the half-closed state test, or behind Stream.bodyStream which only finishRequest sets)",
		Run: func(p *Prog, r *Out) {
			touch := map[string]string{} // fn -> pos of first deref
			for _, f := range p.allFuncs() {
				if f.Pkg != p.SPkg {
					continue
				}
				for _, b := range f.Blocks {
					for _, in := range b.Instrs {
						fa, ok := in.(*ssa.FieldAddr)
						if !ok || !p.fieldAddrIs(fa, "Stream", "ctx") {
							continue
						}
						for _, ref := range *fa.Referrers() {
							ld, ok := ref.(*ssa.UnOp)
							if !ok || ld.Op != token.MUL {
								continue // a store
							}
							for _, u := range *ld.Referrers() {
								if bo, ok := u.(*ssa.BinOp); ok && (bo.Op == token.EQL || bo.Op == token.NEQ) {
									continue
								}
								if _, ok := u.(*ssa.DebugRef); ok {
									continue
								}
								fn := p.closureLabel(f)
								if _, seen := touch[fn]; !seen {
									touch[fn] = p.ipos(u)
								}
							}
						}
					}
				}
			}
			var names []string
			for fn := range touch {
				names = append(names, fn)
			}
			sort.Strings(names)
			for _, fn := range names {
				why, ok := ctxTouchers[fn]
				// accessors in stream.go hand the pointer out, they do not look inside
				if !ok && (fn == "(*Stream).Ctx" || fn == "(*Stream).SetData" || fn == "(*Stream).Data") {
					continue
				}
				r.fn(fn)
				r.check(ok, fn+" may look inside Stream.ctx", touch[fn], why,
					fn+" looks inside the RequestCtx of a stream but is not one of the functions known to do so only while no handler owns it")
			}
			for fn := range ctxTouchers {
				if _, ok := touch[fn]; !ok && !strings.Contains(fn, "/") && fn != "(*serverConn).handleHeaderFrame" {
					r.ok(fn+" may look inside Stream.ctx", "-", "no longer looks inside")
				}
			}

			// dropResponse: first statement returns under a disjunction that has handlerRunning
			if fd := p.decl("(*serverConn).dropResponse"); fd != nil && len(fd.Body.List) > 0 {
				ok := false
				if ifs, isIf := fd.Body.List[0].(*ast.IfStmt); isIf && ifs.Init == nil && ifs.Else == nil && len(ifs.Body.List) == 1 {
					if ret, isRet := ifs.Body.List[0].(*ast.ReturnStmt); isRet && len(ret.Results) == 0 {
						for _, d := range disjuncts(ifs.Cond) {
							if p.isFieldSel(d, "Stream", "handlerRunning") {
								ok = true
							}
						}
					}
				}
				r.check(ok, "dropResponse leaves a running handler's context alone", p.pos(fd.Pos()), "if handlerRunning || ... { return } first", "dropResponse no longer returns at once for a stream whose handler is still running: the stream loop then closes and reads a response the handler goroutine is writing")
			} else {
				r.undecided("dropResponse leaves a running handler's context alone", "?", "(*serverConn).dropResponse no longer resolves")
			}

			// closeBodyStream: first statement returns when bodyStream == nil; bodyStream set non-nil only in finishRequest
			if fd := p.decl("(*serverConn).closeBodyStream"); fd != nil && len(fd.Body.List) > 0 {
				ok := false
				if ifs, isIf := fd.Body.List[0].(*ast.IfStmt); isIf && ifs.Else == nil && len(ifs.Body.List) == 1 {
					if _, isRet := ifs.Body.List[0].(*ast.ReturnStmt); isRet {
						if be, isB := ifs.Cond.(*ast.BinaryExpr); isB && be.Op == token.EQL && p.isFieldSel(be.X, "Stream", "bodyStream") && p.text(be.Y) == "nil" {
							ok = true
						}
					}
				}
				r.check(ok, "closeBodyStream looks only when a body stream is held", p.pos(fd.Pos()), "if bodyStream == nil { return } first", "closeBodyStream no longer returns at once when the stream holds no body stream")
			}
			for _, f := range p.allFuncs() {
				if f.Pkg != p.SPkg {
					continue
				}
				for _, b := range f.Blocks {
					for _, in := range b.Instrs {
						st, ok := in.(*ssa.Store)
						if !ok || !p.fieldAddrIs(st.Addr, "Stream", "bodyStream") {
							continue
						}
						if c, isC := st.Val.(*ssa.Const); isC && c.IsNil() {
							continue
						}
						fn := p.fname(f)
						r.check(fn == "(*serverConn).finishRequest", "Stream.bodyStream set in "+fn, p.ipos(in), "only finishRequest, on the handlerDone receipt, takes the body stream", fn+" stores a body stream into the stream: closeBodyStream takes a held body stream as proof that the handler is done")
					}
				}
			}

			// finishRequest: every call lies in the arm that received from handlerDone, after handlerRunning = false
			calls := p.callsTo("(*serverConn).finishRequest")
			for _, cs := range calls {
				fn := p.fname(cs.Fn)
				okArm := false
				if fd := p.decl(fn); fd != nil {
					pm := p.pmFor(fd)
					if ce := p.callExprAt(cs.Instr.Pos()); ce != nil {
						for n := ast.Node(ce); n != nil; n = pm[n] {
							cc, isCC := n.(*ast.CommClause)
							if !isCC || cc.Comm == nil {
								continue
							}
							if !strings.Contains(squash(p.text(cc.Comm)), "<-sc.handlerDone") {
								continue
							}
							// handlerRunning = false earlier in the arm
							for _, s := range cc.Body {
								if s.Pos() >= ce.Pos() {
									break
								}
								ast.Inspect(s, func(x ast.Node) bool {
									if as, isAs := x.(*ast.AssignStmt); isAs && len(as.Lhs) == 1 && p.isFieldSel(as.Lhs[0], "Stream", "handlerRunning") && p.text(as.Rhs[0]) == "false" {
										okArm = true
									}
									return true
								})
							}
						}
					}
				}
				r.check(okArm, "finishRequest called from "+fn+" on the handlerDone receipt", p.ipos(cs.Instr.(ssa.Instruction)), "inside `case strm := <-sc.handlerDone`, after handlerRunning = false", fn+" calls finishRequest outside the handlerDone receipt: the response is read while the handler may still be writing it")
			}
			if len(calls) == 0 {
				r.undecided("finishRequest call sites", "?", "no call of (*serverConn).finishRequest resolves")
			}

			// detachTimedOut: every call directly follows `strm.handlerRunning = false` in an arm that received the stream from handlerDone,
			// and is there in every such arm: a context a timed-out handler still uses must not reach finishRequest, dropResponse or the pool
			nArms, nDetach := 0, 0
			for _, fnm := range []string{"(*serverConn).handleStreams"} {
				fd := p.decl(fnm)
				if fd == nil {
					continue
				}
				ast.Inspect(fd.Body, func(n ast.Node) bool {
					cc, ok := n.(*ast.CommClause)
					if !ok || cc.Comm == nil || squash(p.text(cc.Comm)) != "strm:=<-sc.handlerDone" {
						return true
					}
					nArms++
					t := stmtTexts(p, cc.Body)
					for i, x := range t {
						if x == "sc.detachTimedOut(strm)" && i > 0 && t[i-1] == "strm.handlerRunning=false" && i == 1 {
							nDetach++
						}
					}
					return true
				})
			}
			r.check(nArms >= 2 && nDetach == nArms, "every report taken off handlerDone has a timed-out context detached first", "serverConn.go", "case strm := <-sc.handlerDone: strm.handlerRunning = false; sc.detachTimedOut(strm); ...", fmt.Sprintf("%d of the %d places where the stream loop takes a handler's report detach a timed-out handler's context before using the stream: fasthttp.TimeoutHandler returns while its goroutine still works on the RequestCtx, and the loop then reads, closes and pools a context that goroutine is writing to", nDetach, nArms))
			for _, cs := range p.callsTo("(*serverConn).detachTimedOut") {
				fn := p.closureLabel(cs.Fn)
				r.check(strings.HasPrefix(fn, "(*serverConn).handleStreams"), "detachTimedOut called from "+fn, p.ipos(cs.Instr.(ssa.Instruction)), "only where the stream loop takes a report", fn+" calls detachTimedOut, which replaces Stream.ctx, away from the places where a handler's report is taken")
			}
			// detachTimedOut itself: nothing to do without a context or without a timed-out response; otherwise a context nobody else has,
			// initialised for this connection, given a copy of the response to send, and put in the place of the old one
			if fd := p.decl("(*serverConn).detachTimedOut"); fd != nil {
				t := stmtTexts(p, fd.Body.List)
				at := func(w string) int {
					for i, x := range t {
						if x == w {
							return i
						}
					}
					return -1
				}
				g1, tr, g2, mk, in2, cp, st := at("ifstrm.ctx==nil{return}"), at("tr:=strm.ctx.LastTimeoutErrorResponse()"), at("iftr==nil{return}"), at("ctx:=&fasthttp.RequestCtx{}"), at("ctx.Init2(sc.c,sc.logger,false)"), at("tr.CopyTo(&ctx.Response)"), at("strm.ctx=ctx")
				r.check(g1 >= 0 && tr > g1 && g2 > tr && mk > g2 && in2 > mk && cp > mk && st > cp && st > in2, "a timed-out context is replaced by a fresh one that carries the response to send", p.pos(fd.Pos()), "no ctx or no timeout response -> return; fresh RequestCtx; Init2; tr.CopyTo(&ctx.Response); strm.ctx = ctx", "detachTimedOut no longer swaps the context a timed-out handler still uses for a fresh one holding a copy of the timeout response: the loop goes on to read, close and pool the handler's context, or the peer gets an empty 200 instead of the timeout response")
			} else {
				r.bad("a timed-out context is replaced by a fresh one that carries the response to send", "?", "(*serverConn).detachTimedOut no longer resolves")
			}
			if fd := p.decl("(*serverConn).dropReported"); fd != nil {
				okD := false
				ast.Inspect(fd.Body, func(n ast.Node) bool {
					cc, ok := n.(*ast.CommClause)
					if ok && cc.Comm != nil && squash(p.text(cc.Comm)) == "strm:=<-sc.handlerDone" {
						t := stmtTexts(p, cc.Body)
						okD = len(t) == 1 && t[0] == "ifstrm.ctx!=nil{closeLeftBody(strm.ctx)}"
					}
					return true
				})
				r.check(okD, "what a late reporter finds in the channel has its body closed", p.pos(fd.Pos()), "case strm := <-sc.handlerDone: if strm.ctx != nil { closeLeftBody(strm.ctx) }", "dropReported no longer closes the body stream of each response it takes out of the dead channel")
			}
			// dropReported: every call sits in a select arm that received from handlerStop
			for _, cs := range p.callsTo("(*serverConn).dropReported") {
				fn := p.closureLabel(cs.Fn)
				okStop := false
				if ce := p.callExprAt(cs.Instr.Pos()); ce != nil {
					pm := p.pmFor(ce)
					for n := ast.Node(ce); n != nil; n = pm[n] {
						if cc, isCC := n.(*ast.CommClause); isCC && cc.Comm != nil && squash(p.text(cc.Comm)) == "<-sc.handlerStop" {
							okStop = true
						}
					}
				}
				r.check(okStop, "dropReported called from "+fn+" only once the loop is known to be gone", p.ipos(cs.Instr.(ssa.Instruction)), "inside `case <-sc.handlerStop`", fn+" empties handlerDone without having found handlerStop closed: it takes reports the stream loop is still there to take, and touches their contexts beside it")
			}
			// dispatchHandler: nothing after the go statement looks inside the context
			if fd := p.decl("(*serverConn).dispatchHandler"); fd != nil {
				goIdx := -1
				bad := ""
				for i, s := range fd.Body.List {
					if _, isGo := s.(*ast.GoStmt); isGo {
						goIdx = i
						continue
					}
					if goIdx >= 0 {
						ast.Inspect(s, func(x ast.Node) bool {
							if id, isId := x.(*ast.Ident); isId && (id.Name == "ctx") {
								bad = p.pos(id.Pos())
							}
							if se, isSel := x.(*ast.SelectorExpr); isSel && p.isFieldSel(se, "Stream", "ctx") {
								bad = p.pos(se.Pos())
							}
							return true
						})
					}
				}
				r.check(goIdx >= 0 && bad == "", "dispatchHandler lets go of the context at the go statement", p.pos(fd.Pos()), "no use of the context after `go func`", "dispatchHandler uses the RequestCtx after it has started the handler on it ("+bad+")")
			}

			// handleFrame: each case that looks inside the context (or calls handleHeaderFrame) first turns a half-closed stream away
			if fd := p.decl("(*serverConn).handleFrame"); fd != nil {
				n := 0
				ast.Inspect(fd.Body, func(x ast.Node) bool {
					cc, isCC := x.(*ast.CaseClause)
					if !isCC {
						return true
					}
					first := token.NoPos
					ast.Inspect(cc, func(y ast.Node) bool {
						if se, isSel := y.(*ast.SelectorExpr); isSel && p.isFieldSel(se, "Stream", "ctx") && first == token.NoPos {
							first = se.Pos()
						}
						if ce, isCall := y.(*ast.CallExpr); isCall && p.calleeOf(ce) == "(*serverConn).handleHeaderFrame" && first == token.NoPos {
							first = ce.Pos()
						}
						return true
					})
					if first == token.NoPos {
						return true
					}
					n++
					guarded := false
					for _, s := range cc.Body {
						if s.Pos() >= first {
							break
						}
						ifs, isIf := s.(*ast.IfStmt)
						if !isIf || len(ifs.Body.List) == 0 {
							continue
						}
						if _, isRet := ifs.Body.List[len(ifs.Body.List)-1].(*ast.ReturnStmt); !isRet {
							continue
						}
						t := squash(p.text(ifs.Cond))
						if t == "strm.State()>=StreamStateHalfClosed" || t == "strm.State()>=StreamStateHalfClosed&&!strm.continuingHeaders(fr)" {
							guarded = true
						}
					}
					label := "handleFrame case " + squash(p.text(cc.List[0])) + " turns a finished request away before touching the context"
					r.check(guarded, label, p.pos(first), "if State() >= HalfClosed [&& !continuingHeaders(fr)] { return error } first", "handleFrame looks inside the RequestCtx in a case that no longer first refuses a stream that is half-closed or further: a frame arriving while the handler runs is written into the request the handler is reading")
					return true
				})
				if n == 0 {
					r.undecided("handleFrame cases touching the context", "?", "no case of handleFrame touches Stream.ctx any more")
				}
			}
			if cs := p.callsTo("(*serverConn).handleHeaderFrame"); true {
				for _, c := range cs {
					fn := p.fname(c.Fn)
					r.check(fn == "(*serverConn).handleFrame", "handleHeaderFrame called from "+fn, p.ipos(c.Instr.(ssa.Instruction)), "only handleFrame, past its state test", fn+" calls handleHeaderFrame, which writes the request, without handleFrame's test that the request is still open")
				}
			}
		},
	})
}

// disjuncts flattens a || b || c.
func disjuncts(e ast.Expr) []ast.Expr {
	e = ast.Unparen(e)
	if be, ok := e.(*ast.BinaryExpr); ok && be.Op == token.LOR {
		return append(disjuncts(be.X), disjuncts(be.Y)...)
	}
	return []ast.Expr{e}
}

// closureLabel names a function literal by what the enclosing function does
// with it (the variable it is bound to, go, defer) rather than by its ordinal,
// which moves when another literal is added before it.
func (p *Prog) closureLabel(f *ssa.Function) string {
	if f.Parent() == nil {
		return p.fname(f)
	}
	lit, ok := f.Syntax().(*ast.FuncLit)
	if !ok {
		return p.fname(f)
	}
	pm := p.pmFor(lit)
	role := "?"
	for n := pm[ast.Node(lit)]; n != nil; n = pm[n] {
		switch x := n.(type) {
		case *ast.CallExpr, *ast.ParenExpr:
			continue
		case *ast.GoStmt:
			role = "go"
		case *ast.DeferStmt:
			role = "defer"
		case *ast.AssignStmt:
			for i, rh := range x.Rhs {
				if rh == ast.Expr(lit) && i < len(x.Lhs) {
					role = p.text(x.Lhs[i])
				}
			}
		case *ast.ValueSpec:
			for i, rh := range x.Values {
				if rh == ast.Expr(lit) && i < len(x.Names) {
					role = x.Names[i].Name
				}
			}
		}
		break
	}
	return p.closureLabel(f.Parent()) + "/" + role
}

func init() {
	register(&Rule{
		Name: "result-with-error-untouched", Props: []string{"C19", "C16", "C12", "C17"}, Engine: "SSA", Floor: 14,
		Doc: "a frame that comes back together with an error is not the caller's: the readers return nil with an error, and the client's readNext returns a frame it has already released or one whose body has become the connection's error. At every call of a function of the package returning (pointer..., error) no pointer result is used anywhere but where the error has been found nil: a connection that was not dialled, a frame that was not read",
		Run: func(p *Prog, r *Out) {
			n := 0
			for _, f := range p.allFuncs() {
				if f.Pkg != p.SPkg {
					continue
				}
				for _, b := range f.Blocks {
					for _, in := range b.Instrs {
						c, ok := in.(*ssa.Call)
						if !ok {
							continue
						}
						res := c.Common().Signature().Results()
						g := c.Common().StaticCallee()
						if res.Len() < 2 || res.At(res.Len()-1).Type().String() != "error" {
							continue
						}
						own := g != nil && (g.Pkg == p.SPkg || g.Pkg == p.SUPkg)
						for ri := 0; ri < res.Len()-1; ri++ {
							switch res.At(ri).Type().Underlying().(type) {
							case *types.Pointer:
							case *types.Slice, *types.Interface:
								// bytes not all there, a connection not made. One of the
								// package's own functions may hand its buffer back with the
								// error on purpose (readString does); only those that return
								// nil whenever they return an error are held to the rule
								if own && !nilWithError(g, ri) {
									continue
								}
							default:
								continue
							}
							var frv, errv ssa.Value
							for _, ref := range *c.Referrers() {
								if ex, ok := ref.(*ssa.Extract); ok {
									if ex.Index == ri {
										frv = ex
									} else if ex.Index == res.Len()-1 {
										errv = ex
									}
								}
							}
							callee := p.calleeName(c.Common())
							if callee == "" {
								callee = "the function value " + p.vdesc(c.Common().Value)
							}
							fn := p.closureLabel(f)
							what := "what"
							if p.isFrameHeaderPtr(res.At(ri).Type()) {
								what = "the frame"
							}
							key := fn + " leaves alone " + what + " " + callee + " returns with an error"
							if ri > 0 {
								key += fmt.Sprintf(" (#%d)", ri)
							}
							n++
							r.fn(fn)
							if frv == nil {
								r.ok(key, p.ipos(in), "that result is not used at all")
								continue
							}
							if errv == nil {
								r.check(false, key, p.ipos(in), "", fn+" uses what "+callee+" returns without looking at the error")
								continue
							}
							// the error, and what is loaded back from the local it is spilled to
							errs := []ssa.Value{errv}
							for _, ref := range *errv.Referrers() {
								st, ok := ref.(*ssa.Store)
								if !ok || st.Val != errv {
									continue
								}
								after := false
								for _, y := range st.Block().Instrs {
									if y == ssa.Instruction(st) {
										after = true
										continue
									}
									if !after {
										continue
									}
									if st2, isSt := y.(*ssa.Store); isSt && st2.Addr == st.Addr {
										break
									}
									if ld, isLd := y.(*ssa.UnOp); isLd && ld.Op == token.MUL && ld.X == st.Addr {
										errs = append(errs, ld)
									}
								}
							}
							// blocks where err == nil is known; a phi of errors stands for the
							// call's error when each of its edges either carries that error
							// or comes from where the error is already known to be nil
							inErrs := func(v ssa.Value) bool {
								for _, e := range errs {
									if e == v {
										return true
									}
								}
								return false
							}
							var nilBlocks []*ssa.BasicBlock
							nilKnown := func(b *ssa.BasicBlock) bool {
								for _, nb := range nilBlocks {
									if nb.Dominates(b) {
										return true
									}
								}
								return false
							}
							// the edge pred -> succ is taken only with the error nil
							edgeNilKnown := func(pred, succ *ssa.BasicBlock) bool {
								if nilKnown(pred) {
									return true
								}
								if len(pred.Instrs) == 0 {
									return false
								}
								iff, ok := pred.Instrs[len(pred.Instrs)-1].(*ssa.If)
								if !ok {
									return false
								}
								bo, ok := iff.Cond.(*ssa.BinOp)
								if !ok || (bo.Op != token.NEQ && bo.Op != token.EQL) {
									return false
								}
								ev, other := bo.X, bo.Y
								if !inErrs(ev) {
									ev, other = bo.Y, bo.X
								}
								if k, isK := other.(*ssa.Const); !inErrs(ev) || !isK || !k.IsNil() {
									return false
								}
								t := pred.Succs[1]
								if bo.Op == token.EQL {
									t = pred.Succs[0]
								}
								return t == succ && pred.Succs[0] != pred.Succs[1]
							}
							for round := 0; round < 4; round++ {
								nilBlocks = nilBlocks[:0]
								for _, ev := range errs {
									for _, ref := range *ev.Referrers() {
										bo, ok := ref.(*ssa.BinOp)
										if !ok || (bo.Op != token.NEQ && bo.Op != token.EQL) {
											continue
										}
										other := bo.Y
										if other == ev {
											other = bo.X
										}
										if k, isK := other.(*ssa.Const); !isK || !k.IsNil() {
											continue
										}
										for _, u := range *bo.Referrers() {
											iff, ok := u.(*ssa.If)
											if !ok {
												continue
											}
											t := iff.Block().Succs[1]
											if bo.Op == token.EQL {
												t = iff.Block().Succs[0]
											}
											if len(t.Preds) == 1 {
												nilBlocks = append(nilBlocks, t)
											}
										}
									}
								}
								grew := false
								for _, b2 := range f.Blocks {
									for _, y := range b2.Instrs {
										phi, isPhi := y.(*ssa.Phi)
										if !isPhi || inErrs(phi) || phi.Type().String() != "error" {
											continue
										}
										carries, all := false, true
										for i, e := range phi.Edges {
											if inErrs(e) {
												carries = true
											} else if !edgeNilKnown(b2.Preds[i], b2) {
												all = false
											}
										}
										if carries && all {
											errs = append(errs, phi)
											grew = true
										}
									}
								}
								if !grew {
									break
								}
							}
							// the value, its conversions, and the phis it flows into from
							// where the error has not been found nil yet
							frames := []ssa.Value{frv}
							addFrame := func(v ssa.Value) {
								for _, x := range frames {
									if x == v {
										return
									}
								}
								frames = append(frames, v)
							}
							for i := 0; i < len(frames); i++ {
								for _, u := range *frames[i].Referrers() {
									switch x := u.(type) {
									case *ssa.Phi:
										for ei, e := range x.Edges {
											if e == frames[i] && !edgeNilKnown(x.Block().Preds[ei], x.Block()) {
												addFrame(x)
											}
										}
									case *ssa.MakeInterface:
										addFrame(x)
									case *ssa.ChangeType:
										addFrame(x)
									case *ssa.ChangeInterface:
										addFrame(x)
									}
								}
							}
							bad := ""
							spilled := false
							for _, fv := range frames {
								for _, u := range *fv.Referrers() {
									switch x := u.(type) {
									case *ssa.DebugRef, *ssa.Phi, *ssa.MakeInterface, *ssa.ChangeType, *ssa.ChangeInterface:
										continue
									case *ssa.Return:
										// handed on together with the error: the caller's business
										if returnsError(f) {
											continue
										}
									case *ssa.Store:
										if al, isAlloc := x.Addr.(*ssa.Alloc); isAlloc && x.Val == fv {
											// a result spilled for the deferred calls and reloaded by the return
											if returnsError(f) && onlyFeedsReturns(al) {
												continue
											}
											spilled = true
										}
									}
									if !nilKnown(u.Block()) && bad == "" {
										bad = p.ipos(u)
									}
								}
							}
							if spilled {
								r.undecided(key, p.ipos(in), "the frame is kept in a local that is read through memory; its uses cannot be followed")
								continue
							}
							r.check(bad == "", key, p.ipos(in), "every use of the frame lies where err == nil is known", fn+" uses "+what+" "+callee+" returned where the error has not been found nil ("+bad+"): with an error it is nil, already back in its pool, or held by the connection's error")
						}
					}
				}
			}
			if n == 0 {
				r.undecided("calls returning a frame and an error", "?", "none found")
			}
		},
	})
}

// mutexOf names the mutex a Lock/Unlock/TryLock call works on as Owner.field.
func (p *Prog) mutexOf(c *ssa.CallCommon) (string, bool) {
	if c.IsInvoke() || len(c.Args) != 1 {
		return "", false
	}
	fa, ok := c.Args[0].(*ssa.FieldAddr)
	if !ok {
		return "", false
	}
	o, fld := p.fieldAddrName(fa)
	return o + "." + fld, true
}

// lockEffect classifies a call: +1 acquires mutex m (Lock, RLock, a lock
// wrapper, a successful acquire/acquireFor is handled by ctx-acquire-released),
// -1 releases it (Unlock, RUnlock, a release wrapper).
func (p *Prog) lockEffect(c *ssa.CallCommon, relWrappers map[string]string) (m string, eff int) {
	n := p.calleeName(c)
	switch n {
	case "(*sync.Mutex).Lock", "(*sync.RWMutex).Lock", "(*sync.RWMutex).RLock":
		if m, ok := p.mutexOf(c); ok {
			return m, +1
		}
	case "(*sync.Mutex).Unlock", "(*sync.RWMutex).Unlock", "(*sync.RWMutex).RUnlock":
		if m, ok := p.mutexOf(c); ok {
			return m, -1
		}
	}
	if m, ok := p.lockWrappers()[n]; ok {
		return m, +1
	}
	if m, ok := relWrappers[n]; ok {
		return m, -1
	}
	return "", 0
}

// releaseWrappers finds the methods that give up a mutex of their receiver they
// did not take: an Unlock that no Lock of the same mutex in the function
// dominates, passed on every path from entry to every return.
func (p *Prog) releaseWrappers() map[string]string {
	if v, ok := p.memo["releaseWrappers"]; ok {
		return v.(map[string]string)
	}
	out := map[string]string{}
	p.memo["releaseWrappers"] = out
	for _, f := range p.allFuncs() {
		if f.Pkg != p.SPkg || f.Blocks == nil || f.Signature.Recv() == nil || len(f.Params) == 0 {
			continue
		}
		stop := map[ssa.Instruction]bool{}
		m := ""
		locks := false
		for _, b := range f.Blocks {
			for _, in := range b.Instrs {
				c, ok := in.(*ssa.Call)
				if !ok {
					continue
				}
				switch p.calleeName(c.Common()) {
				case "(*sync.Mutex).Unlock":
					if fa, ok := c.Call.Args[0].(*ssa.FieldAddr); ok && fa.X == f.Params[0] {
						m, _ = p.mutexOf(c.Common())
						stop[in] = true
					}
				case "(*sync.Mutex).Lock", "(*sync.Mutex).TryLock":
					locks = true
				}
				if _, ok := p.lockWrappers()[p.calleeName(c.Common())]; ok {
					locks = true
				}
			}
		}
		if m == "" || locks {
			continue
		}
		all := true
		for _, b := range f.Blocks {
			for _, in := range b.Instrs {
				if ret, ok := in.(*ssa.Return); ok && reachesInstr(f.Blocks[0], ret, stop) {
					all = false
				}
			}
		}
		if all {
			out[p.fname(f)] = m
		}
	}
	return out
}

// reachesAfter reports whether `to` can be reached from just after `from`
// without passing an instruction in stop.
func reachesAfter(from ssa.Instruction, to ssa.Instruction, stop map[ssa.Instruction]bool) bool {
	b := from.Block()
	after := false
	for _, x := range b.Instrs {
		if x == from {
			after = true
			continue
		}
		if !after {
			continue
		}
		if x == to {
			return true
		}
		if stop[x] {
			return false
		}
	}
	for _, s := range b.Succs {
		if reachesInstr(s, to, stop) {
			return true
		}
	}
	return false
}

// releaseWrappersWanted are the ones the tree has today; one that stops
// releasing is reported by name rather than through each of its callers.
var releaseWrappersWanted = map[string]string{
	"(*Ctx).release": "Ctx.lck",
}

func init() {
	register(&Rule{
		Name: "mutex-released-on-every-path", Props: []string{"C12", "C17", "C19"}, Engine: "PATH", Floor: 30,
		Doc: "every Lock of one of the package's mutexes (a plain Lock/RLock, or a call of a method that returns holding one) is followed on every path to a return of the same function by an Unlock of that mutex (plain, deferred, or through a method that releases it), unless the function is itself one that returns holding it on purpose; the methods that release a mutex they did not take still do. A path that returns with a mutex held stops the next goroutine that needs it for good: a loop, a RoundTrip, Close",
		Run: func(p *Prog, r *Out) {
			rel := p.releaseWrappers()
			for fn, m := range releaseWrappersWanted {
				r.fn(fn)
				r.check(rel[fn] == m, fn+" gives up "+m, "-", "an Unlock of "+m+" on every path through it, and no Lock", fn+" no longer unlocks "+m+" on every path: everything that takes the mutex through its counterpart keeps it")
			}
			holdOnPurpose := func(fn, m string) bool {
				if p.lockWrappers()[fn] == m {
					return true
				}
				// acquire / acquireFor return holding Ctx.lck when they report true; rule ctx-acquisition-shape has their refusing path
				return m == "Ctx.lck" && (fn == "(*Ctx).acquire" || fn == "(*Ctx).acquireFor")
			}
			n := 0
			for _, f := range p.allFuncs() {
				if f.Pkg != p.SPkg || f.Blocks == nil {
					continue
				}
				fn := p.closureLabel(f)
				type site struct {
					in ssa.Instruction
					m  string
				}
				var locks []site
				unl := map[string]map[ssa.Instruction]bool{}
				add := func(m string, in ssa.Instruction) {
					if unl[m] == nil {
						unl[m] = map[ssa.Instruction]bool{}
					}
					unl[m][in] = true
				}
				for _, b := range f.Blocks {
					for _, in := range b.Instrs {
						switch x := in.(type) {
						case *ssa.Call:
							if m, eff := p.lockEffect(x.Common(), rel); eff > 0 {
								locks = append(locks, site{in, m})
							} else if eff < 0 {
								add(m, in)
							}
						case *ssa.Defer:
							if m, eff := p.lockEffect(x.Common(), rel); eff < 0 {
								add(m, in)
								continue
							}
							// defer func() { ...Unlock... }()
							var gs []*ssa.Function
							if g := x.Common().StaticCallee(); g != nil && g.Blocks != nil {
								gs = append(gs, g)
							} else if !x.Common().IsInvoke() {
								gs = p.closureOf(x.Common().Value, f, 3)
							}
							for _, g := range gs {
								for _, b2 := range g.Blocks {
									for _, y := range b2.Instrs {
										if c2, ok := y.(*ssa.Call); ok {
											if m, eff := p.lockEffect(c2.Common(), rel); eff < 0 {
												add(m, in)
											}
										}
									}
								}
							}
						}
					}
				}
				for _, l := range locks {
					n++
					r.fn(p.fname(f))
					key := fn + " gives back " + l.m + " (" + p.calleeName(l.in.(*ssa.Call).Common()) + ")"
					if holdOnPurpose(p.fname(f), l.m) {
						r.ok(key, p.ipos(l.in), "returns holding it on purpose: its callers are checked instead")
						continue
					}
					// a deferred release registered before the Lock covers it too
					deferred := false
					for in := range unl[l.m] {
						if _, isDef := in.(*ssa.Defer); isDef && instrDominates(in, l.in) {
							deferred = true
						}
					}
					leak := ""
					if !deferred {
						for _, b2 := range f.Blocks {
							if b2 == f.Recover {
								continue
							}
							for _, y := range b2.Instrs {
								if ret, ok := y.(*ssa.Return); ok && reachesAfter(l.in, ret, unl[l.m]) {
									leak = p.ipos(ret)
								}
							}
						}
					}
					r.check(leak == "", key, p.ipos(l.in), "an Unlock of "+l.m+" on every path from here to a return", fn+" can return (at "+leak+") still holding "+l.m+": the next goroutine that needs it waits for ever")
				}
			}
			if n == 0 {
				r.undecided("lock sites", "?", "no Lock call found in the package")
			}
		},
	})
}

func returnsError(f *ssa.Function) bool {
	sig := f.Signature.Results()
	return sig.Len() >= 2 && sig.At(sig.Len()-1).Type().String() == "error"
}

// onlyFeedsReturns: every use of the local is a store into it or a load that
// only return instructions consume.
func onlyFeedsReturns(al *ssa.Alloc) bool {
	for _, u := range *al.Referrers() {
		switch x := u.(type) {
		case *ssa.Store:
			if x.Addr != ssa.Value(al) {
				return false
			}
		case *ssa.UnOp:
			for _, v := range *x.Referrers() {
				if _, ok := v.(*ssa.Return); !ok {
					return false
				}
			}
		case *ssa.DebugRef:
		default:
			return false
		}
	}
	return true
}

func init() {
	register(&Rule{
		Name: "previous-stream-lookup", Props: []string{"C01", "C08"}, Engine: "AST", Floor: 6,
		Doc: "getPrevious, which the stream loop asks for the stream whose header block must have ended before a new HEADERS may start one, never answers with the newest stream of that origin (the one the HEADERS just created, whose block is by definition open): it counts from zero, hands out an element only of the origin asked for and only after it has passed one, and counts only those",
		Run: func(p *Prog, r *Out) {
			fd := p.decl("(Streams).getPrevious")
			if fd == nil {
				r.undecided("getPrevious", "?", "(Streams).getPrevious no longer resolves")
				return
			}
			r.fn("(Streams).getPrevious")
			pm := p.pmFor(fd)
			zero := false
			for _, s := range fd.Body.List {
				if as, ok := s.(*ast.AssignStmt); ok && as.Tok == token.DEFINE && squash(p.text(as)) == "cnt:=0" {
					zero = true
				}
			}
			r.check(zero, "the count of streams passed starts at zero", p.pos(fd.Pos()), "cnt := 0", "getPrevious no longer starts its count at zero: the newest stream of the origin, the one just created, is handed out as the previous one, and every first HEADERS is answered with GOAWAY")
			// guards around each non-nil return and each change of cnt
			okRet, nRet, okInc, nInc := true, 0, true, 0
			under := func(n ast.Node) (origin, passed bool) {
				for _, g := range p.enclosingGuards(pm, n) {
					t := squash(p.text(g.Cond))
					if g.Val && (t == "strms[i].origType==frameType" || t == "frameType==strms[i].origType") {
						origin = true
					}
					if g.Val && (t == "cnt!=0" || t == "cnt>0" || t == "cnt>=1") {
						passed = true
					}
				}
				return
			}
			ast.Inspect(fd.Body, func(n ast.Node) bool {
				switch x := n.(type) {
				case *ast.ReturnStmt:
					if len(x.Results) == 1 && p.text(x.Results[0]) != "nil" {
						nRet++
						o, ps := under(x)
						if !o || !ps || squash(p.text(x.Results[0])) != "strms[i]" {
							okRet = false
						}
					}
				case *ast.IncDecStmt:
					if p.text(x.X) == "cnt" {
						nInc++
						o, ps := under(x)
						if !o || ps || x.Tok != token.INC {
							okInc = false
						}
					}
				case *ast.AssignStmt:
					if x.Tok != token.DEFINE && len(x.Lhs) == 1 && p.text(x.Lhs[0]) == "cnt" {
						nInc++
						okInc = false
					}
				}
				return true
			})
			r.check(okRet && nRet > 0, "a stream is handed out only of the origin asked for, and only after one was passed", p.pos(fd.Pos()), "return strms[i] under origType == frameType and cnt != 0", "getPrevious hands out a stream that is not of the origin asked for, or the first one it meets: a stream created by PRIORITY (no header block, so never 'finished'), or the stream just created, then stops every new request with GOAWAY")
			// newest first, every element
			okLoop := false
			for _, st := range fd.Body.List {
				if fs, ok := st.(*ast.ForStmt); ok && fs.Init != nil && fs.Cond != nil && fs.Post != nil {
					okLoop = squash(p.text(fs.Init)) == "i:=len(strms)-1" && squash(p.text(fs.Cond)) == "i>=0" && squash(p.text(fs.Post)) == "i--"
				}
			}
			r.check(okLoop, "the table is walked from the newest stream to the oldest, all of it", p.pos(fd.Pos()), "for i := len(strms) - 1; i >= 0; i--", "getPrevious no longer walks the whole table from the newest stream down: the stream it hands out is not the one before the newest of that origin")
			if gf := p.decl("(Streams).GetFirstOf"); gf != nil {
				r.fn("(Streams).GetFirstOf")
				okF, nF := true, 0
				pm2 := p.pmFor(gf)
				ast.Inspect(gf.Body, func(n ast.Node) bool {
					if x, ok := n.(*ast.ReturnStmt); ok && len(x.Results) == 1 && p.text(x.Results[0]) != "nil" {
						nF++
						under := false
						for _, g := range p.enclosingGuards(pm2, x) {
							if g.Val && squash(p.text(g.Cond)) == "strm.origType==frameType" {
								under = true
							}
						}
						if !under || p.text(x.Results[0]) != "strm" {
							okF = false
						}
					}
					return true
				})
				r.check(okF && nF == 1, "GetFirstOf hands out a stream of the origin asked for", p.pos(gf.Pos()), "return strm under strm.origType == frameType", "GetFirstOf hands out a stream of another origin: the request timer is armed for a stream PRIORITY created, which never times out as a request does")
			}
			if dl := p.decl("(*Streams).Del"); dl != nil {
				r.fn("(*Streams).Del")
				okD := true
				ast.Inspect(dl.Body, func(n ast.Node) bool {
					ifs, ok := n.(*ast.IfStmt)
					if !ok {
						return true
					}
					trunc := false
					for _, st := range ifs.Body.List {
						if squash(p.text(st)) == "*strms=(*strms)[:0]" {
							trunc = true
						}
					}
					if trunc && !p.isConjunctionOf(ifs.Cond, "len(*strms)==1", "(*strms)[0].ID()==id") {
						okD = false
					}
					return true
				})
				r.check(okD, "the table is emptied only when its one stream is the one to go", p.pos(dl.Pos()), "*strms = (*strms)[:0] only under len == 1 && [0].ID() == id", "Streams.Del empties the table under another condition than 'one stream, and it is the one': live streams vanish from the table and their frames are then taken for frames on closed streams")
			}
			r.check(okInc && nInc == 1, "only streams of that origin are counted", p.pos(fd.Pos()), "cnt++ under origType == frameType, nowhere else", "getPrevious no longer counts exactly the streams of the origin asked for")
		},
	})
}

// nilWithError: every return of g whose error operand is not the constant nil
// has the constant nil as result ri.
func nilWithError(g *ssa.Function, ri int) bool {
	n := 0
	for _, b := range g.Blocks {
		for _, in := range b.Instrs {
			ret, ok := in.(*ssa.Return)
			if !ok || len(ret.Results) <= ri {
				continue
			}
			e := ret.Results[len(ret.Results)-1]
			if k, isK := e.(*ssa.Const); isK && k.IsNil() {
				continue
			}
			n++
			if k, isK := ret.Results[ri].(*ssa.Const); !isK || !k.IsNil() {
				return false
			}
		}
	}
	return n > 0
}
