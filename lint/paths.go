package main

import (
	"go/ast"
	"go/token"
)

// Path enumeration over loop-free statement lists (AST level). Used where a
// function's structure is an if/else/switch tree (HPACK field decoder clauses,
// the encoder's representation choice): every syntactic path is listed with
// the events on it and the branch decisions taken, and a rule then judges each
// path. Repeated atoms (the same condition text with no intervening write)
// take the same decision, so infeasible combinations are not produced.

type pathState struct {
	Events []pathEvent
	Dec    map[string]bool  // condition text -> decision on this path
	Consts map[string]int64 // tracked integer locals with a known constant value
	Term   string           // "", "return", "goto", "fallthrough", "break", "continue"
}

type pathEvent struct {
	Kind string // rule-defined
	Node ast.Node
	Arg  int64
}

func (s *pathState) clone() *pathState {
	n := &pathState{Events: append([]pathEvent{}, s.Events...), Dec: map[string]bool{}, Consts: map[string]int64{}, Term: s.Term}
	for k, v := range s.Dec {
		n.Dec[k] = v
	}
	for k, v := range s.Consts {
		n.Consts[k] = v
	}
	return n
}

type pathWalker struct {
	p *Prog
	// onNode is called for every simple statement and for conditions; it
	// appends events / updates Consts. It must not descend into FuncLits.
	onNode func(st *pathState, n ast.Node)
	// evalCond may decide a condition from the state (nil = unknown).
	evalCond func(st *pathState, cond ast.Expr) *bool
	// invalidate lists condition texts to forget after an assignment to name.
	limit int
	count int
	over  bool

	extraTrue, extraFalse []*pathState
}

func (w *pathWalker) stmts(list []ast.Stmt, in []*pathState) []*pathState {
	cur := in
	for _, s := range list {
		var next []*pathState
		var live []*pathState
		for _, st := range cur {
			if st.Term != "" {
				next = append(next, st)
			} else {
				live = append(live, st)
			}
		}
		if len(live) == 0 {
			return cur
		}
		next = append(next, w.stmt(s, live)...)
		cur = next
		if len(cur) > w.limit {
			w.over = true
			return cur[:w.limit]
		}
	}
	return cur
}

func (w *pathWalker) decide(st *pathState, cond ast.Expr) (t, f *pathState) {
	cond = ast.Unparen(cond)
	// short-circuit operators are split so that atoms are shared across ifs
	if b, ok := cond.(*ast.BinaryExpr); ok && (b.Op == token.LAND || b.Op == token.LOR) {
		xt, xf := w.decide(st, b.X)
		if b.Op == token.LAND {
			var yt, yf *pathState
			if xt != nil {
				yt, yf = w.decide(xt, b.Y)
			}
			// false if x false or y false: rules judge paths individually,
			// so the two false variants are merged into the first non-nil one
			// only when identical decisions are impossible; keep both by
			// returning the x-false one and queuing y-false as an extra.
			if xf != nil && yf != nil {
				w.extraFalse = append(w.extraFalse, yf)
				return yt, xf
			}
			if xf == nil {
				return yt, yf
			}
			return yt, xf
		}
		var yt, yf *pathState
		if xf != nil {
			yt, yf = w.decide(xf, b.Y)
		}
		if xt != nil && yt != nil {
			w.extraTrue = append(w.extraTrue, yt)
			return xt, yf
		}
		if xt == nil {
			return yt, yf
		}
		return xt, yf
	}
	if u, ok := cond.(*ast.UnaryExpr); ok && u.Op == token.NOT {
		st0, sf0 := w.extraTrue, w.extraFalse
		w.extraTrue, w.extraFalse = nil, nil
		t, f := w.decide(st, u.X)
		nt, nf := w.extraTrue, w.extraFalse
		w.extraTrue, w.extraFalse = append(st0, nf...), append(sf0, nt...)
		return f, t
	}
	w.onNode(st, cond)
	if w.evalCond != nil {
		if v := w.evalCond(st, cond); v != nil {
			if *v {
				return st, nil
			}
			return nil, st
		}
	}
	key := w.p.text(cond)
	if v, ok := st.Dec[key]; ok {
		if v {
			return st, nil
		}
		return nil, st
	}
	t = st.clone()
	t.Dec[key] = true
	f = st.clone()
	f.Dec[key] = false
	return t, f
}

func (w *pathWalker) stmt(s ast.Stmt, in []*pathState) []*pathState {
	var out []*pathState
	switch x := s.(type) {
	case *ast.BlockStmt:
		return w.stmts(x.List, in)
	case *ast.LabeledStmt:
		return w.stmt(x.Stmt, in)
	case *ast.IfStmt:
		for _, st := range in {
			if x.Init != nil {
				w.onNode(st, x.Init)
			}
			w.extraTrue, w.extraFalse = nil, nil
			t, f := w.decide(st, x.Cond)
			ts := append([]*pathState{}, w.extraTrue...)
			fs := append([]*pathState{}, w.extraFalse...)
			w.extraTrue, w.extraFalse = nil, nil
			if t != nil {
				ts = append(ts, t)
			}
			if f != nil {
				fs = append(fs, f)
			}
			if len(ts) > 0 {
				out = append(out, w.stmts(x.Body.List, ts)...)
			}
			if len(fs) > 0 {
				if x.Else != nil {
					out = append(out, w.stmt(x.Else, fs)...)
				} else {
					out = append(out, fs...)
				}
			}
		}
		return out
	case *ast.ReturnStmt:
		for _, st := range in {
			w.onNode(st, x)
			st.Term = "return"
			out = append(out, st)
		}
		return out
	case *ast.BranchStmt:
		for _, st := range in {
			w.onNode(st, x)
			st.Term = x.Tok.String()
			out = append(out, st)
		}
		return out
	case *ast.SwitchStmt:
		// tagless or tagged switch: each clause is a path; bodies walked.
		for _, st := range in {
			if x.Init != nil {
				w.onNode(st, x.Init)
			}
			clauses := x.Body.List
			for i, c := range clauses {
				cc := c.(*ast.CaseClause)
				b := st.clone()
				b.Dec["switch@"+w.p.pos(x.Pos())] = true
				b.Events = append(b.Events, pathEvent{Kind: "case", Node: cc, Arg: int64(i)})
				res := w.stmts(cc.Body, []*pathState{b})
				j := i
				for {
					var ft []*pathState
					var rest []*pathState
					for _, r := range res {
						if r.Term == "fallthrough" {
							r.Term = ""
							ft = append(ft, r)
						} else {
							rest = append(rest, r)
						}
					}
					out = append(out, rest...)
					if len(ft) == 0 || j+1 >= len(clauses) {
						break
					}
					j++
					res = w.stmts(clauses[j].(*ast.CaseClause).Body, ft)
				}
			}
			hasDefault := false
			for _, c := range clauses {
				if c.(*ast.CaseClause).List == nil {
					hasDefault = true
				}
			}
			if !hasDefault {
				out = append(out, st) // no clause taken
			}
		}
		for _, st := range out {
			if st.Term == "break" {
				st.Term = ""
			}
		}
		return out
	case *ast.ForStmt, *ast.RangeStmt:
		// loops are not unrolled: the loop is one opaque event, body events are
		// reported once with kind prefixed by the rule if it wants them.
		for _, st := range in {
			w.onNode(st, s)
			out = append(out, st)
		}
		return out
	default:
		for _, st := range in {
			w.onNode(st, s)
			out = append(out, st)
		}
		return out
	}
}
