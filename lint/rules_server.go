package main

import (
	"fmt"
	"go/ast"
	"go/token"
	"strings"
)

func init() {
	register(&Rule{
		Name: "srv-dispatch-once", Props: []string{"C01", "C08", "C13"}, Engine: "DOM", Floor: 5,
		Doc: "every call of dispatchHandler is made only when the stream is half-closed (remote), its header block has ended and it has not been dispatched before, and the dispatched marker is set before the call; the marker is cleared nowhere but in NewStream",
		Run: ruleDispatchOnce,
	})
	register(&Rule{
		Name: "hdr-carryover", Props: []string{"C01", "C02"}, Engine: "AST", Floor: 2,
		Doc: "every header-block decode loop handles a field cut by the frame boundary: when decoding stops for lack of bytes and END_HEADERS is absent, the undecoded tail (cursor saved before the failed step) is stored in a per-stream buffer and the next frame's bytes are appended after it; and the decoder is told where the block starts",
		Run: ruleHdrCarryover,
	})
	register(&Rule{
		Name: "no-stream-error-inside-decode-loop", Props: []string{"C09"}, Engine: "AST", Floor: 10,
		Doc: "inside a header-block decode loop no return yields a stream-scoped error while undecoded block bytes remain: the shared HPACK dynamic table must see the whole block, or later blocks on the connection decode against a stale table (RFC 7540 s4.3). Only connection-terminating returns may leave early",
		Run: ruleNoStreamErrInLoop,
	})
	register(&Rule{
		Name: "handler-panic-reports-back", Props: []string{"C09", "C17"}, Engine: "AST", Floor: 3,
		Doc: "the handler goroutine's deferred function recovers a panic and, on the panic path as on the normal one, reports the stream back on handlerDone with handlerStop as the alternative",
		Run: ruleHandlerPanic,
	})
	register(&Rule{
		Name: "abandoned-bookkeeping", Props: []string{"C09", "C13", "C17", "C19"}, Engine: "DOM", Floor: 4,
		Doc: "a stream and its RequestCtx go back to their pools only when no handler is running on them: every release is either guarded by handlerRunning == false or follows the handlerDone receipt that cleared it; the pools are touched nowhere else",
		Run: ruleAbandoned,
	})
	register(&Rule{
		Name: "table-insert-counted", Props: []string{"C13", "C08"}, Engine: "AST", Floor: 2,
		Doc: "every insertion into the stream table takes a concurrency slot unconditionally, and the slot is given back exactly where the stream is released; an insertion that is counted only for some frame types lets PRIORITY/WINDOW_UPDATE on fresh ids allocate streams and request contexts outside the limit",
		Run: ruleTableInsert,
	})
	register(&Rule{
		Name: "stream-creation-guards", Props: []string{"C13", "C10", "C08"}, Engine: "DOM", Floor: 4,
		Doc: "stream creation (NewStream) happens only after the concurrency limit test, the closing-state test taken before the frame is handled, the closed-stream lookup and the lower-than-latest-id test have all declined to exit",
		Run: ruleStreamCreation,
	})
	register(&Rule{
		Name: "goaway-bookkeeping", Props: []string{"C10"}, Engine: "AST", Floor: 3,
		Doc: "writeGoAway marks the connection closing on every path, and the last-stream-id it puts in the frame derives from the connection's highest accepted stream id rather than from a literal or the offending frame",
		Run: ruleGoAwayBookkeeping,
	})
	register(&Rule{
		Name: "buffer-append-bounded", Props: []string{"C13"}, Engine: "DOM", Floor: 2,
		Doc: "every append to a per-stream buffer the peer feeds (request body, carried-over header bytes) is preceded by a rejecting comparison of the accumulated size against a configured limit",
		Run: ruleBufferBounded,
	})
	register(&Rule{
		Name: "closed-ring-bounded", Props: []string{"C13"}, Engine: "AST", Floor: 2,
		Doc: "the closed-stream memory is bounded: a map insert in markClosed is paired with a delete of the oldest id once the ring holds closedStrmsCap entries",
		Run: ruleClosedRing,
	})
	register(&Rule{
		Name: "validators-dominate-accept", Props: []string{"C20", "C13"}, Engine: "DOM", Floor: 20,
		Doc: "every site that accepts a decoded field into the request (server) or response (client) lies behind each applicable validator's rejecting early exit: header-list size limit, upper-case name, pseudo-after-regular, duplicate/unknown pseudo-header, connection-specific field, TE other than trailers (server); pseudo-after-regular, only :status, status range, upper-case, connection-specific (client); mandatory pseudo-headers and content-length/DATA agreement guard the dispatch",
		Run: ruleValidators,
	})
}

// ---------------------------------------------------------------- dispatch once

func ruleDispatchOnce(p *Prog, r *Out) {
	n := 0
	for _, f := range p.Files {
		pm := p.parentMaps()[f]
		inspectCalls(f, func(c *ast.CallExpr) {
			if p.calleeOf(c) != "(*serverConn).dispatchHandler" {
				return
			}
			n++
			fn := enclosingFunc(pm, c)
			r.fn(fn)
			facts := p.knownFacts(pm, c)
			notResponded, hdrDone, halfClosed := false, false, false
			var respIf *ast.IfStmt
			for _, g := range facts {
				if p.isFieldSel(g.Cond, "Stream", "responded") && !g.Val {
					notResponded = true
					respIf = g.If
				}
				if p.isFieldSel(g.Cond, "Stream", "headersFinished") && g.Val {
					hdrDone = true
				}
				if b, ok := g.Cond.(*ast.BinaryExpr); ok && g.Val && b.Op == token.EQL {
					if v, ok := p.intConst(b.Y); ok {
						if hc, ok2 := p.pkgConst("StreamStateHalfClosed"); ok2 && v == hc && strings.Contains(p.text(b.X), "State()") {
							halfClosed = true
						}
					}
				}
			}
			key := fn + " dispatch"
			r.check(notResponded, key+" guarded by !responded", p.pos(c.Pos()), "!strm.responded holds",
				"dispatchHandler is called without the guard !strm.responded: any later frame on the half-closed stream (WINDOW_UPDATE, PRIORITY) starts the handler a second time")
			r.check(hdrDone, key+" guarded by headersFinished", p.pos(c.Pos()), "strm.headersFinished holds",
				"dispatchHandler is called without the guard strm.headersFinished: END_STREAM on a HEADERS frame whose block continues in CONTINUATION frames would dispatch a half-decoded request")
			r.check(halfClosed, key+" guarded by half-closed", p.pos(c.Pos()), "State() == HalfClosed holds",
				"dispatchHandler is called without the guard State() == StreamStateHalfClosed: a request is dispatched before the peer has finished sending it")
			// the marker is set before the call inside the guarded block
			set := false
			if respIf != nil {
				for _, s := range respIf.Body.List {
					if s.Pos() > c.Pos() {
						break
					}
					if as, ok := s.(*ast.AssignStmt); ok && len(as.Lhs) == 1 && p.isFieldSel(as.Lhs[0], "Stream", "responded") && p.text(as.Rhs[0]) == "true" {
						set = true
					}
				}
			}
			r.check(set, key+" sets marker first", p.pos(c.Pos()), "strm.responded = true precedes the call", "strm.responded is not set to true before dispatchHandler runs inside the guarded block: the guard never closes")
		})
	}
	if n == 0 {
		r.bad("dispatch call", "?", "no call of dispatchHandler found: requests are never handed to the handler")
	}
	// stores to responded
	for _, f := range p.Files {
		pm := p.parentMaps()[f]
		ast.Inspect(f, func(x ast.Node) bool {
			as, ok := x.(*ast.AssignStmt)
			if !ok {
				return true
			}
			for i, l := range as.Lhs {
				if p.isFieldSel(l, "Stream", "responded") && i < len(as.Rhs) {
					fn := enclosingFunc(pm, as)
					val := p.text(as.Rhs[i])
					okk := (val == "false" && fn == "NewStream") || val == "true"
					r.check(okk, fn+" stores responded="+val, p.pos(as.Pos()), "allowed store", fmt.Sprintf("%s stores Stream.responded = %s: the dispatch-once marker may only be cleared when the stream object is (re)initialised", fn, val))
				}
			}
			return true
		})
	}
}

// ---------------------------------------------------------------- RST_STREAM calls

// resetCall: is c a call that sends RST_STREAM on a stream of the server? It
// answers the text of the stream-id expression, the code argument, and whether
// the call goes through resetStream (which also records that a reset was sent).
func (p *Prog) resetCall(c *ast.CallExpr) (id string, code ast.Expr, recorded bool, ok bool) {
	if len(c.Args) != 2 {
		return "", nil, false, false
	}
	switch p.calleeOf(c) {
	case "(*serverConn).writeReset":
		return squash(p.text(c.Args[0])), c.Args[1], false, true
	case "(*serverConn).resetStream":
		return squash(p.text(c.Args[0])) + ".ID()", c.Args[1], true, true
	}
	return "", nil, false, false
}

// ---------------------------------------------------------------- decode loops

type decodeLoop struct {
	fn     string
	fd     *ast.FuncDecl
	loop   *ast.ForStmt
	call   *ast.CallExpr // the nextField/Next call
	via    string        // the callee: the HPACK decoder itself or a one-field wrapper of it
	cursor string
	role   string
}

func (p *Prog) decodeLoops() []decodeLoop {
	var out []decodeLoop
	// a function that calls the field decoder once, outside any loop, and hands
	// back the rest is a decoder too: its callers' loops are the decode loops
	decoders := map[string]bool{"(*HPACK).nextField": true, "(*HPACK).Next": true}
	for _, f := range p.Files {
		pm := p.parentMaps()[f]
		inspectCalls(f, func(c *ast.CallExpr) {
			name := p.calleeOf(c)
			if name != "(*HPACK).nextField" && name != "(*HPACK).Next" {
				return
			}
			for cur := pm[c]; cur != nil; cur = pm[cur] {
				if _, ok := cur.(*ast.ForStmt); ok {
					return
				}
				if fd, ok := cur.(*ast.FuncDecl); ok {
					if fd.Type.Results != nil && len(fd.Type.Results.List) >= 1 && p.text(fd.Type.Results.List[0].Type) == "[]byte" {
						decoders[enclosingFunc(pm, c)] = true
					}
					return
				}
			}
		})
	}
	for _, f := range p.Files {
		pm := p.parentMaps()[f]
		inspectCalls(f, func(c *ast.CallExpr) {
			name := p.calleeOf(c)
			if !decoders[name] {
				return
			}
			var loop *ast.ForStmt
			for cur := pm[c]; cur != nil; cur = pm[cur] {
				if fs, ok := cur.(*ast.ForStmt); ok {
					loop = fs
					break
				}
				if _, ok := cur.(*ast.FuncDecl); ok {
					break
				}
			}
			if loop == nil {
				return
			}
			fn := enclosingFunc(pm, c)
			dl := decodeLoop{fn: fn, fd: p.decl(fn), loop: loop, call: c, via: name}
			if len(c.Args) > 0 {
				dl.cursor = p.text(c.Args[len(c.Args)-1])
			}
			if strings.HasPrefix(fn, "(*serverConn)") {
				dl.role = "server"
			} else {
				dl.role = "client"
			}
			out = append(out, dl)
		})
	}
	return out
}

func ruleHdrCarryover(p *Prog, r *Out) {
	loops := p.decodeLoops()
	if len(loops) == 0 {
		r.undecided("decode loops", "?", "no loop calling the HPACK field decoder found")
		return
	}
	for _, dl := range loops {
		r.fn(dl.fn)
		key := dl.fn + " decode loop"
		if dl.via == "(*Conn).nextField" {
			// the client keeps the block's state on the connection and all of
			// its decode loops go through one wrapper (client-block-state)
			okBlock, why := p.clientBlockOK()
			cursorOK := false
			if dl.fn == "(*Conn).skipFields" {
				cursorOK = true // a parameter: its callers are readHeader (cursor) and skipHeaderBlock (open)
				for _, f := range p.Files {
					inspectCalls(f, func(c *ast.CallExpr) {
						if p.calleeOf(c) == "(*Conn).skipFields" && len(c.Args) == 3 && p.text(c.Args[1]) != "b" {
							cursorOK = false
						}
					})
				}
			} else {
				for _, s := range dl.fd.Body.List {
					if squash(p.text(s)) == dl.cursor+":=c.block.open(fr)" {
						cursorOK = true
					}
				}
			}
			counted := false
			for _, s := range dl.loop.Body.List {
				if squash(p.text(s)) == "c.block.fields++" && s.Pos() > dl.call.Pos() {
					counted = true
				}
			}
			msg := strings.Join(why, "; ")
			r.check(okBlock && cursorOK, key+" carries a cut field over", p.pos(dl.loop.Pos()), "cut field kept on Conn.block by nextField and prepended by open()", fmt.Sprintf("%s no longer decodes from the connection's carried bytes through the wrapper that keeps a cut field (cursor from open(): %v; %s)", dl.fn, cursorOK, msg))
			r.check(okBlock && counted, key+" block position survives frames", p.pos(dl.call.Pos()), "Conn.block.fields: reset by open() on HEADERS, ++ per field", fmt.Sprintf("%s no longer counts every decoded field on the connection's block state (counted: %v; %s)", dl.fn, counted, msg))
			r.check(okBlock, key+" passes block position", p.pos(dl.call.Pos()), "decoder told whether this is the start of a block", fmt.Sprintf("%s no longer tells the decoder where in the block it is (%s)", dl.fn, msg))
			continue
		}
		if dl.fn == "(*serverConn).skipFields" {
			// the draining loop hands the cut field and the position back to its
			// callers instead of keeping them itself: the loop is judged by
			// skipFieldsOK, and every caller has to keep both results
			okLoop, why := p.skipFieldsOK()
			kept, sites := true, 0
			for _, f := range p.Files {
				pm := p.parentMaps()[f]
				inspectCalls(f, func(c *ast.CallExpr) {
					if p.calleeOf(c) != "(*serverConn).skipFields" {
						return
					}
					sites++
					as, ok := pm[c].(*ast.AssignStmt)
					if !ok || len(as.Lhs) != 3 {
						kept = false
						return
					}
					carryV, fieldsV := p.text(as.Lhs[0]), p.text(as.Lhs[1])
					fdn := p.decl(enclosingFunc(pm, c))
					cStored, fStored := false, false
					if fdn != nil {
						ast.Inspect(fdn.Body, func(n ast.Node) bool {
							a2, ok := n.(*ast.AssignStmt)
							if !ok || len(a2.Lhs) != 1 || len(a2.Rhs) != 1 || a2.Pos() < as.Pos() {
								return true
							}
							if _, isSel := a2.Lhs[0].(*ast.SelectorExpr); !isSel {
								return true
							}
							if ap, ok := a2.Rhs[0].(*ast.CallExpr); ok && p.calleeOf(ap) == "builtin.append" && len(ap.Args) == 2 && ap.Ellipsis != token.NoPos && p.text(ap.Args[1]) == carryV {
								cStored = true
							}
							if p.text(a2.Rhs[0]) == fieldsV {
								fStored = true
							}
							return true
						})
					}
					if !cStored || !fStored {
						kept = false
					}
				})
			}
			r.check(okLoop && kept && sites >= 2, key+" carries a cut field over", p.pos(dl.loop.Pos()), fmt.Sprintf("cut field handed back to %d callers, each of which keeps it", sites),
				fmt.Sprintf("%s hands a cut field back to its callers, but the loop is no longer exact or a caller drops it (callers keeping both results: %v of %d sites; %s)", dl.fn, kept, sites, strings.Join(why, "; ")))
			r.check(okLoop && kept, key+" block position survives frames", p.pos(dl.call.Pos()), "position is a parameter, advanced per field and handed back", fmt.Sprintf("%s no longer takes the block position from its caller, advances it per field and hands it back for the next fragment (%s)", dl.fn, strings.Join(why, "; ")))
			r.check(okLoop, key+" passes block position", p.pos(dl.call.Pos()), "decoder told whether this is the start of a block", fmt.Sprintf("%s no longer tells the decoder where in the block it is (%s)", dl.fn, strings.Join(why, "; ")))
			continue
		}
		// (a) saved cursor: first statement(s) of the loop body before the call: X := cursor
		saved := ""
		for _, s := range dl.loop.Body.List {
			if s.Pos() > dl.call.Pos() {
				break
			}
			if as, ok := s.(*ast.AssignStmt); ok && len(as.Lhs) == 1 && len(as.Rhs) == 1 && p.text(as.Rhs[0]) == dl.cursor {
				saved = p.text(as.Lhs[0])
			}
		}
		// (b) a store of append(buf, saved...) into a struct field under a
		// condition mentioning ErrUnexpectedSize and the absence of END_HEADERS
		carry := false
		carryField := ""
		pm := p.pmFor(dl.fd)
		ast.Inspect(dl.loop.Body, func(n ast.Node) bool {
			as, ok := n.(*ast.AssignStmt)
			if !ok || len(as.Lhs) != 1 || len(as.Rhs) != 1 {
				return true
			}
			sel, ok := as.Lhs[0].(*ast.SelectorExpr)
			if !ok {
				return true
			}
			o, f, ok := p.fieldOf(sel)
			if !ok {
				return true
			}
			ap, ok := as.Rhs[0].(*ast.CallExpr)
			if !ok || p.calleeOf(ap) != "builtin.append" || len(ap.Args) != 2 || ap.Ellipsis == token.NoPos {
				return true
			}
			if saved == "" || p.text(ap.Args[1]) != saved {
				return true
			}
			unexpected, noEnd := false, false
			for _, g := range p.knownFacts(pm, as) {
				t := p.text(g.Cond)
				if g.Val && strings.Contains(t, "ErrUnexpectedSize") {
					unexpected = true
				}
				if !g.Val && strings.Contains(t, "FlagEndHeaders") {
					noEnd = true
				}
			}
			if unexpected && noEnd {
				carry = true
				carryField = o + "." + f
			}
			return true
		})
		// (c) the cursor starts as append(carryField, frame bytes...)
		startsWithCarry := false
		if carry {
			ast.Inspect(dl.fd.Body, func(n ast.Node) bool {
				as, ok := n.(*ast.AssignStmt)
				if !ok || len(as.Lhs) != 1 || len(as.Rhs) != 1 || p.text(as.Lhs[0]) != dl.cursor || as.Pos() > dl.loop.Pos() {
					return true
				}
				if ap, ok := as.Rhs[0].(*ast.CallExpr); ok && p.calleeOf(ap) == "builtin.append" && len(ap.Args) == 2 {
					if sel, ok := ap.Args[0].(*ast.SelectorExpr); ok {
						if o, f, ok := p.fieldOf(sel); ok && o+"."+f == carryField {
							startsWithCarry = true
						}
					}
				}
				return true
			})
		}
		r.check(saved != "" && carry && startsWithCarry, key+" carries a cut field over", p.pos(dl.loop.Pos()), "tail saved to "+carryField+" and prepended to the next frame",
			fmt.Sprintf("%s decodes a header block frame by frame but has no carry-over for a field cut by the frame boundary (saved cursor=%q, store on ErrUnexpectedSize without END_HEADERS=%v, next frame appended after it=%v): a header block split inside a field fails, and the partly consumed bytes leave the shared HPACK state out of step", dl.fn, saved, carry, startsWithCarry))
		// (d) block position passed to the decoder
		positional := p.calleeOf(dl.call) == "(*HPACK).nextField" && len(dl.call.Args) == 4 && p.text(dl.call.Args[1]) != "true"
		// the position is per-block state kept on the stream, reset when a HEADERS
		// frame opens a block, advanced once per decoded field
		if positional {
			fld := ""
			ast.Inspect(dl.call.Args[2], func(n ast.Node) bool {
				if sel, ok := n.(*ast.SelectorExpr); ok {
					if o, f, ok := p.fieldOf(sel); ok && o == "Stream" {
						fld = f
					}
				}
				return true
			})
			usesInBoth := fld != "" && strings.Contains(p.text(dl.call.Args[1]), "."+fld)
			reset, incs := false, 0
			if fld != "" {
				hpm := p.pmFor(dl.fd)
				ast.Inspect(dl.fd.Body, func(n ast.Node) bool {
					switch x := n.(type) {
					case *ast.AssignStmt:
						if len(x.Lhs) == 1 && p.isFieldSel(x.Lhs[0], "Stream", fld) && p.text(x.Rhs[0]) == "0" && x.Pos() < dl.loop.Pos() {
							for _, g := range p.knownFacts(hpm, x) {
								if g.Val && squash(p.text(g.Cond)) == "fr.Type()!=FrameContinuation" {
									reset = true
								}
							}
						}
					case *ast.IncDecStmt:
						if p.isFieldSel(x.X, "Stream", fld) && x.Tok == token.INC && x.Pos() > dl.loop.Pos() {
							incs++
						}
					}
					return true
				})
			}
			r.check(usesInBoth && reset && incs >= 2, key+" block position survives frames", p.pos(dl.call.Pos()), "fields-decoded-in-this-block kept on the stream: reset by HEADERS, ++ per field",
				fmt.Sprintf("%s derives the decoder's block position from per-call state (stream field=%q, reset under a non-CONTINUATION frame=%v, increments=%d): when the first field after a dynamic table size update is cut by the frame boundary, the carried-over bytes (which begin with the update) are decoded again on the CONTINUATION as 'not at block start' and a legal block is refused with COMPRESSION_ERROR", dl.fn, fld, reset, incs))
		}
		r.check(positional, key+" passes block position", p.pos(dl.call.Pos()), "decoder told whether this is the start of a block",
			fmt.Sprintf("%s calls the field decoder without block position (always 'start of block'): a dynamic table size update in the middle of a block, or in a CONTINUATION, is accepted where RFC 7541 s4.2 requires a decoding error", dl.fn))
	}
}

func ruleNoStreamErrInLoop(p *Prog, r *Out) {
	for _, dl := range p.decodeLoops() {
		r.fn(dl.fn)
		pm := p.pmFor(dl.fd)
		ast.Inspect(dl.loop.Body, func(n ast.Node) bool {
			if _, ok := n.(*ast.FuncLit); ok {
				return false
			}
			rs, ok := n.(*ast.ReturnStmt)
			if !ok || len(rs.Results) == 0 {
				return true
			}
			e := rs.Results[len(rs.Results)-1]
			if p.text(e) == "nil" {
				return true
			}
			labelOf := func(e ast.Expr) string {
				label := p.text(e)
				if c, ok := e.(*ast.CallExpr); ok && len(c.Args) >= 2 {
					if v := p.constOf(c.Args[1]); v != nil {
						label = strings.Trim(v.ExactString(), "\"")
					} else if inner, ok := c.Args[1].(*ast.CallExpr); ok && len(inner.Args) > 0 {
						if v := p.constOf(inner.Args[0]); v != nil {
							label = strings.Trim(v.ExactString(), "\"")
						}
					}
				}
				return label
			}
			// a rejection that first runs the rest of the fragment through the
			// decoder leaves nothing undecoded behind
			if c, ok := e.(*ast.CallExpr); ok && p.calleeOf(c) == "(*serverConn).rejectBlock" && len(c.Args) == 4 {
				drains, why := p.rejectBlockOK()
				cursor := p.text(c.Args[2]) == dl.cursor
				r.check(drains && cursor, dl.fn+" return#"+labelOf(c.Args[3]), p.pos(rs.Pos()), "the rest of the fragment is decoded first (rejectBlock)",
					fmt.Sprintf("%s rejects the request (%s) through rejectBlock, but that no longer decodes the rest of the fragment (handed the loop's cursor: %v; %s): the shared HPACK dynamic table misses what followed the offending field", dl.fn, labelOf(c.Args[3]), cursor, strings.Join(why, "; ")))
				return true
			}
			if c, ok := e.(*ast.CallExpr); ok && p.calleeOf(c) == "(*Conn).skipFields" && len(c.Args) == 3 {
				drains, why := p.clientBlockOK()
				cursor := p.text(c.Args[1]) == dl.cursor
				r.check(drains && cursor, dl.fn+" return#"+labelOf(c.Args[2]), p.pos(rs.Pos()), "the rest of the fragment is decoded first (skipFields)",
					fmt.Sprintf("%s turns the response away (%s) through skipFields, but that no longer decodes the rest of the fragment (handed the loop's cursor: %v; %s): the shared HPACK dynamic table misses what followed the offending field", dl.fn, labelOf(c.Args[2]), cursor, strings.Join(why, "; ")))
				return true
			}
			class, _, isCall := p.errorCall(e)
			label := labelOf(e)
			// `return err` right after the decode step: the class is whatever the
			// decoder (or its wrapper) returns
			if id, ok := e.(*ast.Ident); ok && !isCall && id.Name == "err" && dl.via != "(*HPACK).nextField" && dl.via != "(*HPACK).Next" {
				if f := p.ssaFunc(dl.via); f != nil {
					cls := p.returnErrClasses(f, 4)
					only := len(cls) > 0
					for _, c := range cls {
						if c != "GoAway" && c != "Nil" {
							only = false
						}
					}
					if only {
						r.check(true, dl.fn+" return#"+label, p.pos(rs.Pos()), "connection-terminating return ("+dl.via+" only fails with a connection error)", "")
						return true
					}
				}
			}
			if !isCall {
				class = "Foreign"
				if id, ok := e.(*ast.Ident); ok {
					// a package-level sentinel: classify by its initialiser
					if init, _ := p.findVarInit(id.Name); init != nil {
						if cl, _, ok := p.errorCall(init); ok {
							class = cl
						}
					}
				}
			}
			key := dl.fn + " return#" + label
			_ = pm
			r.check(class == "GoAway", key, p.pos(rs.Pos()), "connection-terminating return",
				fmt.Sprintf("%s returns a %s-class error (%s) from inside the header decode loop while block bytes may remain undecoded: the connection carries on, but the shared HPACK dynamic table has not seen the rest of this block, so later header blocks decode against a stale table (COMPRESSION_ERROR or wrong fields on other streams)", dl.fn, strings.ToLower(class), label))
			return true
		})
	}
}

// ---------------------------------------------------------------- handler panic

func ruleHandlerPanic(p *Prog, r *Out) {
	fd := p.decl("(*serverConn).dispatchHandler")
	if fd == nil {
		r.undecided("dispatchHandler", "?", "no longer resolves")
		return
	}
	r.fn("(*serverConn).dispatchHandler")
	var goLit *ast.FuncLit
	ast.Inspect(fd.Body, func(n ast.Node) bool {
		if g, ok := n.(*ast.GoStmt); ok {
			if fl, ok := g.Call.Fun.(*ast.FuncLit); ok {
				goLit = fl
			}
		}
		return true
	})
	if goLit == nil {
		r.bad("handler goroutine", p.pos(fd.Pos()), "dispatchHandler no longer runs the handler on a goroutine of its own: a slow handler blocks every stream of the connection")
		return
	}
	var deferLit *ast.FuncLit
	for _, s := range goLit.Body.List {
		if d, ok := s.(*ast.DeferStmt); ok {
			if fl, ok := d.Call.Fun.(*ast.FuncLit); ok {
				deferLit = fl
			}
		}
	}
	if deferLit == nil {
		r.bad("deferred report", p.pos(goLit.Pos()), "the handler goroutine has no deferred function: a panicking handler takes the process down and never reports back")
		return
	}
	recovers := false
	ast.Inspect(deferLit.Body, func(n ast.Node) bool {
		if c, ok := n.(*ast.CallExpr); ok && p.calleeOf(c) == "builtin.recover" {
			recovers = true
		}
		return true
	})
	r.check(recovers, "recovers", p.pos(deferLit.Pos()), "recover() in the deferred function", "the handler goroutine's deferred function does not recover: a handler panic kills the process")
	// top-level select with handlerDone send and handlerStop receive, not
	// preceded by anything that can leave the deferred function
	reportTop := false
	leftEarly := false
	for _, s := range deferLit.Body.List {
		if _, ok := s.(*ast.SelectStmt); !ok && !reportTop {
			ast.Inspect(s, func(n ast.Node) bool {
				switch x := n.(type) {
				case *ast.FuncLit:
					return false
				case *ast.ReturnStmt:
					leftEarly = true
				case *ast.CallExpr:
					if p.calleeOf(x) == "builtin.panic" || p.calleeOf(x) == "runtime.Goexit" {
						leftEarly = true
					}
				}
				return true
			})
		}
		if sel, ok := s.(*ast.SelectStmt); ok {
			send, stop := false, false
			for _, c := range sel.Body.List {
				cc := c.(*ast.CommClause)
				if ss, ok := cc.Comm.(*ast.SendStmt); ok && p.isFieldSel(ss.Chan, "serverConn", "handlerDone") {
					send = true
				}
				if es, ok := cc.Comm.(*ast.ExprStmt); ok {
					if u, ok := es.X.(*ast.UnaryExpr); ok && u.Op == token.ARROW && p.isFieldSel(u.X, "serverConn", "handlerStop") {
						stop = true
					}
				}
			}
			if send && stop {
				reportTop = true
			}
		}
	}
	r.check(reportTop && !leftEarly, "reports back on every path", p.pos(deferLit.Pos()), "unconditional select{handlerDone<-strm; <-handlerStop}",
		"the deferred function does not unconditionally report the stream on handlerDone (with handlerStop as alternative): after a handler panic the stream keeps its slot and its RequestCtx for ever")
	// the handler is called in the goroutine body
	calls := false
	ast.Inspect(goLit.Body, func(n ast.Node) bool {
		if c, ok := n.(*ast.CallExpr); ok && p.text(c.Fun) == "sc.h" {
			calls = true
		}
		return true
	})
	r.check(calls, "runs the handler", p.pos(goLit.Pos()), "sc.h(ctx) on the goroutine", "the handler goroutine no longer calls the configured handler")
}

// ---------------------------------------------------------------- abandoned streams

func ruleAbandoned(p *Prog, r *Out) {
	fd := p.decl("(*serverConn).handleStreams")
	if fd == nil {
		r.undecided("handleStreams", "?", "no longer resolves")
		return
	}
	r.fn("(*serverConn).handleStreams")
	pm := p.pmFor(fd)
	// pool puts of ctx/stream anywhere in the package
	for _, f := range p.Files {
		fpm := p.parentMaps()[f]
		inspectCalls(f, func(c *ast.CallExpr) {
			sel, ok := c.Fun.(*ast.SelectorExpr)
			if !ok || sel.Sel.Name != "Put" {
				return
			}
			pool := p.text(sel.X)
			if pool != "ctxPool" && pool != "streamPool" {
				return
			}
			// must be inside the releaseStream closure of handleStreams
			inRelease := false
			for cur := fpm[c]; cur != nil; cur = fpm[cur] {
				if fl, ok := cur.(*ast.FuncLit); ok {
					if as, ok := fpm[fl].(*ast.AssignStmt); ok && len(as.Lhs) == 1 && p.text(as.Lhs[0]) == "releaseStream" {
						inRelease = true
					}
				}
			}
			r.check(inRelease, enclosingFunc(fpm, c)+" "+pool+".Put", p.pos(c.Pos()), "inside releaseStream",
				fmt.Sprintf("%s.Put is called outside releaseStream: the object is recycled without the handler-running guard", pool))
		})
	}
	// every call of releaseStream
	n := 0
	inspectCalls(fd.Body, func(c *ast.CallExpr) {
		if id, ok := c.Fun.(*ast.Ident); !ok || id.Name != "releaseStream" {
			return
		}
		n++
		guarded := false
		for _, g := range p.knownFacts(pm, c) {
			if p.isFieldSel(g.Cond, "Stream", "handlerRunning") && !g.Val {
				guarded = true
			}
		}
		// or: preceded in the same clause by handlerRunning = false
		if !guarded {
			for cur := pm[c]; cur != nil; cur = pm[cur] {
				var list []ast.Stmt
				switch x := cur.(type) {
				case *ast.CommClause:
					list = x.Body
				case *ast.BlockStmt:
					list = x.List
				}
				for _, s := range list {
					if s.Pos() > c.Pos() {
						break
					}
					if as, ok := s.(*ast.AssignStmt); ok && len(as.Lhs) == 1 && p.isFieldSel(as.Lhs[0], "Stream", "handlerRunning") && p.text(as.Rhs[0]) == "false" {
						guarded = true
					}
				}
				if _, ok := cur.(*ast.CommClause); ok {
					break
				}
			}
		}
		where := "stream loop"
		for cur := pm[c]; cur != nil; cur = pm[cur] {
			if fl, ok := cur.(*ast.FuncLit); ok {
				if as, ok := pm[fl].(*ast.AssignStmt); ok && len(as.Lhs) == 1 {
					where = p.text(as.Lhs[0])
				}
				break
			}
		}
		r.check(guarded, "releaseStream call in "+where, p.pos(c.Pos()), "handlerRunning is false here",
			"releaseStream is reached while the stream's handler may still be running: its RequestCtx goes back to the pool and is handed to another stream while the handler is still writing to it")
	})
	if n < 2 {
		r.bad("releaseStream calls", p.pos(fd.Pos()), fmt.Sprintf("only %d calls of releaseStream found; the normal and the abandoned path both need one", n))
	}
}

// ---------------------------------------------------------------- stream table

func ruleTableInsert(p *Prog, r *Out) {
	fd := p.decl("(*serverConn).handleStreams")
	if fd == nil {
		r.undecided("handleStreams", "?", "no longer resolves")
		return
	}
	r.fn("(*serverConn).handleStreams")
	pm := p.pmFor(fd)
	found := false
	ast.Inspect(fd.Body, func(n ast.Node) bool {
		as, ok := n.(*ast.AssignStmt)
		if !ok || len(as.Lhs) != 1 || len(as.Rhs) != 1 || p.text(as.Lhs[0]) != "strms" {
			return true
		}
		ap, ok := as.Rhs[0].(*ast.CallExpr)
		if !ok || p.calleeOf(ap) != "builtin.append" {
			return true
		}
		found = true
		// following statements in the same list: openStreams++ at top level?
		var list []ast.Stmt
		if b, ok := pm[as].(*ast.BlockStmt); ok {
			list = b.List
		}
		i := stmtIndexIn(list, as)
		uncond, cond := false, ""
		for _, s := range list[i+1:] {
			if inc, ok := s.(*ast.IncDecStmt); ok && p.text(inc.X) == "openStreams" && inc.Tok == token.INC {
				uncond = true
			}
			if ifs, ok := s.(*ast.IfStmt); ok {
				ast.Inspect(ifs.Body, func(m ast.Node) bool {
					if inc, ok := m.(*ast.IncDecStmt); ok && p.text(inc.X) == "openStreams" && inc.Tok == token.INC {
						cond = p.text(ifs.Cond)
					}
					return true
				})
			}
		}
		key := "insert takes a slot"
		if uncond {
			r.ok(key, p.pos(as.Pos()), "openStreams++ follows the insert unconditionally")
			return true
		}
		// counted for one frame type only: every other type that can get here must end the
		// connection on an idle stream, so that its uncounted entry does not outlive the frame
		counted := int64(-1)
		if b, ok := ast.Unparen(parseCondOf(list, i, p)).(*ast.BinaryExpr); ok && b.Op == token.EQL && squash(p.text(b.X)) == "fr.Type()" {
			if v, ok := p.intConst(b.Y); ok {
				counted = v
			}
		}
		reach := map[int64]bool{0: true, 1: true, 2: true, 3: true, 5: true, 8: true, 9: true} // stream-level frame types
		for _, s := range list[:i] {
			ifs, ok := s.(*ast.IfStmt)
			if !ok || len(ifs.Body.List) == 0 {
				continue
			}
			b, ok := ast.Unparen(ifs.Cond).(*ast.BinaryExpr)
			if !ok || b.Op != token.EQL || squash(p.text(b.X)) != "fr.Type()" {
				continue
			}
			v, ok := p.intConst(b.Y)
			if !ok {
				continue
			}
			if br, ok := ifs.Body.List[len(ifs.Body.List)-1].(*ast.BranchStmt); ok && (br.Tok == token.CONTINUE || br.Tok == token.BREAK) {
				delete(reach, v)
			}
		}
		var lingering []string
		for k := range reach {
			if k == counted {
				continue
			}
			cls, ok := p.idleOutcomeClasses(k)
			if !ok || len(cls) != 1 || !cls["GoAway"] {
				lingering = append(lingering, frameTypeNames[k])
			}
		}
		sortStrings(lingering)
		if len(lingering) > 0 {
			key += " (counted only under `" + cond + "`)"
		}
		r.check(counted >= 0 && len(lingering) == 0, key, p.pos(as.Pos()), "the insert is counted, or the frame that caused it ends the connection",
			fmt.Sprintf("the stream table insert `%s` is followed by a slot increment only under `%s`, and a %s frame on a fresh stream id reaches it without ending the connection: it allocates a Stream and a RequestCtx that are not counted against MaxConcurrentStreams and stay for the life of the connection (and the id can later be dispatched uncounted)", p.text(as), cond, strings.Join(lingering, "/")))
		return true
	})
	if !found {
		r.bad("insert", p.pos(fd.Pos()), "no `strms = append(strms, ...)` found in the stream loop")
	}
	// the decrement lives only in releaseStream
	ndec := 0
	ast.Inspect(fd.Body, func(n ast.Node) bool {
		if dec, ok := n.(*ast.IncDecStmt); ok && p.text(dec.X) == "openStreams" && dec.Tok == token.DEC {
			ndec++
			in := false
			for cur := pm[dec]; cur != nil; cur = pm[cur] {
				if fl, ok := cur.(*ast.FuncLit); ok {
					if as, ok := pm[fl].(*ast.AssignStmt); ok && len(as.Lhs) == 1 && p.text(as.Lhs[0]) == "releaseStream" {
						in = true
					}
				}
			}
			r.check(in, "slot returned in releaseStream", p.pos(dec.Pos()), "decrement only where the stream is released", "openStreams is decremented outside releaseStream: a slot is handed back while the stream (or its handler) is still alive")
		}
		return true
	})
	if ndec != 1 {
		r.bad("slot returned once", p.pos(fd.Pos()), fmt.Sprintf("openStreams is decremented at %d sites; exactly one (releaseStream) is expected", ndec))
	}
}

func ruleStreamCreation(p *Prog, r *Out) {
	n := 0
	for _, f := range p.Files {
		pm := p.parentMaps()[f]
		inspectCalls(f, func(c *ast.CallExpr) {
			if p.calleeOf(c) != "NewStream" {
				return
			}
			fn := enclosingFunc(pm, c)
			if !strings.HasPrefix(fn, "(*serverConn)") {
				return
			}
			n++
			r.fn(fn)
			limit, closing, closed, lower := false, false, false, false
			for _, g := range p.enclosingGuards(pm, c) {
				if g.Val || g.If == nil {
					continue
				}
				t := p.text(g.Cond)
				if strings.Contains(t, "openStreams >= ") && strings.Contains(t, "maxStreams") {
					limit = true
				}
				if strings.Contains(t, "wasClosing") {
					closing = true
				}
				if strings.Contains(t, "closedStrms[") {
					closed = true
				}
				if c2, ok := p.canonCmp(g.Cond, nil); ok && c2.Op == "le" && c2.L.eq(Lin{T: map[string]int64{"fr.Stream()": 1, "highID": -1}}) {
					lower = true
				}
			}
			// `if _, ok := closedStrms[id]; ok {...continue}` is an early exit whose cond is `ok`
			for _, g := range p.enclosingGuards(pm, c) {
				if g.If != nil && g.If.Init != nil && strings.Contains(p.text(g.If.Init), "closedStrms[") && !g.Val {
					closed = true
				}
			}
			// order of the classification of a frame on an unknown stream id
			var posClosed, posRefuse, posLower token.Pos
			for _, g := range p.enclosingGuards(pm, c) {
				if g.Val || g.If == nil {
					continue
				}
				t := p.text(g.Cond)
				if g.If.Init != nil && strings.Contains(p.text(g.If.Init), "closedStrms[") {
					posClosed = g.If.Pos()
				}
				if strings.Contains(t, "openStreams >= ") || strings.Contains(t, "wasClosing") {
					posRefuse = g.If.Pos()
				}
				if c2, ok := p.canonCmp(g.Cond, nil); ok && c2.Op == "le" && c2.L.eq(Lin{T: map[string]int64{"fr.Stream()": 1, "highID": -1}}) {
					posLower = g.If.Pos()
				}
			}
			r.check(posClosed.IsValid() && posRefuse.IsValid() && posClosed < posRefuse, fn+" closed-id lookup before refusal", p.pos(c.Pos()), "a frame on a recently closed stream is recognised before the limit/closing refusal",
				"the limit/closing refusal runs before the closed-stream lookup: at MaxConcurrentStreams (or after GOAWAY) a late WINDOW_UPDATE/PRIORITY on a stream the server just finished, which RFC 7540 s5.1 says must be ignored, is answered with RST_STREAM(REFUSED_STREAM), and DATA/HEADERS on it get REFUSED_STREAM instead of STREAM_CLOSED")
			r.check(posRefuse.IsValid() && posLower.IsValid() && posRefuse < posLower, fn+" refusal before lower-id test", p.pos(c.Pos()), "order: closed-id, refusal, lower-id, create", "the order of the unknown-stream classification changed: the lower-than-latest test now precedes the refusal")
			r.check(limit, fn+" NewStream after limit test", p.pos(c.Pos()), "openStreams >= maxStreams exits first", "a stream is created without first refusing when MaxConcurrentStreams slots are in use")
			r.check(closing, fn+" NewStream after closing test", p.pos(c.Pos()), "wasClosing exits first", "a stream is created although the connection has sent GOAWAY: a request above the advertised last-stream-id may be dispatched")
			r.check(closed, fn+" NewStream after closed-stream lookup", p.pos(c.Pos()), "closed ids exit first", "a stream is created without consulting the closed-stream memory: a late frame on a closed stream re-opens it")
			r.check(lower, fn+" NewStream after lower-id test", p.pos(c.Pos()), "ids below the latest exit first", "a stream is created for an id lower than the latest accepted one (RFC 7540 s5.1.1: PROTOCOL_ERROR)")
			// wasClosing is sampled before the frame is handled: its definition precedes the strm lookup
		})
	}
	if n == 0 {
		r.bad("NewStream", "?", "the server never creates streams")
	}
}

// ---------------------------------------------------------------- goaway

func ruleGoAwayBookkeeping(p *Prog, r *Out) {
	fd := p.decl("(*serverConn).writeGoAway")
	if fd == nil {
		r.undecided("writeGoAway", "?", "no longer resolves")
		return
	}
	r.fn("(*serverConn).writeGoAway")
	closing := false
	for _, s := range fd.Body.List {
		if es, ok := s.(*ast.ExprStmt); ok {
			if c, ok := es.X.(*ast.CallExpr); ok && strings.HasPrefix(p.calleeOf(c), "atomic.Store") && len(c.Args) == 2 {
				if strings.Contains(p.text(c.Args[0]), "sc.state") {
					if v, ok := p.intConst(c.Args[1]); ok {
						if cc, ok2 := p.pkgConst("connStateClosed"); ok2 && v == cc {
							closing = true
						}
					}
				}
			}
		}
	}
	r.check(closing, "sets closing state", p.pos(fd.Pos()), "state := closed on every path", "writeGoAway does not unconditionally mark the connection as closing: new streams are accepted after GOAWAY")
	queued := false
	for _, s := range fd.Body.List {
		if es, ok := s.(*ast.ExprStmt); ok {
			if c, ok := es.X.(*ast.CallExpr); ok && p.calleeOf(c) == "(*serverConn).write" {
				queued = true
			}
		}
	}
	r.check(queued, "queues the frame", p.pos(fd.Pos()), "frame queued on every path", "writeGoAway does not unconditionally queue the GOAWAY frame")
	// origin of the last-stream-id
	var setArg ast.Expr
	ast.Inspect(fd.Body, func(n ast.Node) bool {
		if c, ok := n.(*ast.CallExpr); ok && p.calleeOf(c) == "(*GoAway).SetStream" && len(c.Args) == 1 {
			setArg = c.Args[0]
		}
		return true
	})
	if setArg == nil {
		r.bad("last-stream-id origin", p.pos(fd.Pos()), "writeGoAway never sets the last-stream-id")
		return
	}
	fromLast := false
	ast.Inspect(setArg, func(n ast.Node) bool {
		if e, ok := n.(ast.Expr); ok && p.isFieldSel(e, "serverConn", "lastID") {
			fromLast = true
		}
		return true
	})
	// a local defined once, from an atomic load of the field
	loadAt, markAt := token.NoPos, token.NoPos
	if id, ok := setArg.(*ast.Ident); ok && !fromLast {
		defs := 0
		for _, s := range fd.Body.List {
			as, ok := s.(*ast.AssignStmt)
			if !ok || len(as.Lhs) != 1 || p.text(as.Lhs[0]) != id.Name {
				continue
			}
			defs++
			if squash(p.text(as.Rhs[0])) == "atomic.LoadUint32(&sc.lastID)" {
				fromLast, loadAt = true, as.Pos()
			}
		}
		if defs != 1 {
			fromLast = false
		}
	}
	if fromLast && loadAt.IsValid() {
		// the connection is marked as closing before the id is read: the stream
		// loop publishes an id and then re-reads the mark (Dekker), so either
		// the GOAWAY names the request or the stream loop refuses it
		for _, s := range fd.Body.List {
			if es, ok := s.(*ast.ExprStmt); ok {
				if c, ok := es.X.(*ast.CallExpr); ok && strings.HasPrefix(p.calleeOf(c), "atomic.Store") && len(c.Args) == 2 && strings.Contains(p.text(c.Args[0]), "sc.state") {
					markAt = es.Pos()
				}
			}
		}
		r.check(markAt.IsValid() && markAt < loadAt, "the closing mark is set before the last-stream-id is read", p.pos(fd.Pos()), "state = closed; last := atomic.LoadUint32(&sc.lastID)", "writeGoAway reads the highest accepted id before it marks the connection as closing: a request accepted in between runs although the GOAWAY, sent from another goroutine, names a lower id, and the client sends it again")
		pub := false
		if hs := p.decl("(*serverConn).handleStreams"); hs != nil {
			ast.Inspect(hs.Body, func(n ast.Node) bool {
				ifs, ok := n.(*ast.IfStmt)
				if !ok || len(ifs.Body.List) != 2 {
					return true
				}
				if squash(p.text(ifs.Body.List[0])) == "atomic.StoreUint32(&sc.lastID,fr.Stream())" && squash(p.text(ifs.Body.List[1])) == "wasClosing=isClosing()" &&
					p.isConjunctionOf(ifs.Cond, "newRequest", "openStreams<int(sc.st.maxStreams)", "!wasClosing") && p.newRequestDefined(hs, ifs) {
					// and the refusal test that reads wasClosing comes after it
					pm := p.pmFor(hs)
					if blk, ok := pm[ifs].(*ast.BlockStmt); ok {
						for _, s := range blk.List {
							if s.Pos() > ifs.Pos() {
								if nx, ok := s.(*ast.IfStmt); ok && strings.Contains(squash(p.text(nx.Cond)), "||wasClosing") {
									pub = true
								}
								break
							}
						}
					}
				}
				return true
			})
		}
		r.check(pub, "a request is made known before the closing mark is read one last time", p.pos(fd.Pos()), "if HEADERS on a new id, a free slot, not closing { lastID = id; wasClosing = isClosing() } right before the refusal test", "the stream loop no longer publishes the id of a request it is about to accept and then re-reads the closing mark before it decides: a GOAWAY from the read loop or the idle timer can name a lower id while this request is handed to its handler")
	}
	if !fromLast {
		// describe what call sites pass
		vals := map[string]int{}
		for _, cs := range p.callsTo("(*serverConn).writeGoAway") {
			if len(cs.Common.Args) >= 2 {
				vals[p.vdescN(cs.Common.Args[1], 3)]++
			}
		}
		var vs, ks []string
		for k, n := range vals {
			vs = append(vs, fmt.Sprintf("%s x%d", k, n))
			ks = append(ks, k)
		}
		sortStrings(vs)
		sortStrings(ks)
		// the key names the set of origins, not how many call sites share each
		r.bad("last-stream-id origin {"+strings.Join(ks, "; ")+"}", p.pos(setArg.Pos()), fmt.Sprintf("the GOAWAY last-stream-id is `%s`, a parameter whose call-site values are {%s}; none derives from serverConn.lastID, the highest stream id accepted, so GOAWAY(last=0) is sent after streams were dispatched and a client may replay requests the server already processed (RFC 7540 s6.8)", p.text(setArg), strings.Join(vs, ", ")))
	} else {
		r.ok("last-stream-id origin", p.pos(setArg.Pos()), "derives from serverConn.lastID")
	}
}

// ---------------------------------------------------------------- buffers

func ruleBufferBounded(p *Prog, r *Out) {
	fd := p.decl("(*serverConn).handleFrame")
	hd := p.decl("(*serverConn).handleHeaderFrame")
	if fd == nil || hd == nil {
		r.undecided("anchors", "?", "handleFrame/handleHeaderFrame no longer resolve")
		return
	}
	r.fn("(*serverConn).handleFrame", "(*serverConn).handleHeaderFrame")
	pm := p.pmFor(fd)
	nb := 0
	inspectCalls(fd.Body, func(c *ast.CallExpr) {
		if !strings.HasSuffix(p.calleeOf(c), ".AppendBody") {
			return
		}
		nb++
		bounded := false
		for _, g := range p.enclosingGuards(pm, c) {
			if g.Val || g.If == nil || !isRejectingBody(p, g.If.Body) {
				continue
			}
			t := p.text(g.Cond)
			if strings.Contains(t, "maxRequestBodySize") && strings.Contains(t, "recvBody") {
				bounded = true
			}
		}
		r.check(bounded, "request body append bounded", p.pos(c.Pos()), "recvBody > maxRequestBodySize rejected first", "request body bytes are appended without first rejecting a body above MaxRequestBodySize")
	})
	if nb == 0 {
		r.bad("request body append", p.pos(fd.Pos()), "no AppendBody call found in handleFrame")
	}
	// recvBody is advanced by the data length before the comparison
	adv := false
	ast.Inspect(fd.Body, func(n ast.Node) bool {
		if as, ok := n.(*ast.AssignStmt); ok && as.Tok == token.ADD_ASSIGN && len(as.Lhs) == 1 && p.isFieldSel(as.Lhs[0], "Stream", "recvBody") {
			if p.text(as.Rhs[0]) == "len(data)" {
				adv = true
			}
		}
		return true
	})
	r.check(adv, "recvBody counts every DATA byte", p.pos(fd.Pos()), "recvBody += len(data)", "Stream.recvBody is no longer advanced by the length of each DATA payload: the body limit and the content-length comparison see a wrong total")
	// ... and the order within the DATA case is count, compare, append: a
	// comparison that runs before the count lets the frame that crosses the
	// limit through
	ast.Inspect(fd.Body, func(n ast.Node) bool {
		cc, ok := n.(*ast.CaseClause)
		if !ok {
			return true
		}
		ia, ig, ip := -1, -1, -1
		arg := ""
		for i, s := range cc.Body {
			switch x := s.(type) {
			case *ast.AssignStmt:
				if x.Tok == token.ADD_ASSIGN && len(x.Lhs) == 1 && p.isFieldSel(x.Lhs[0], "Stream", "recvBody") && ia < 0 {
					ia = i
				}
			case *ast.IfStmt:
				t := p.text(x.Cond)
				if strings.Contains(t, "maxRequestBodySize") && strings.Contains(t, "recvBody") && ig < 0 {
					ig = i
				}
			case *ast.ExprStmt:
				if c, isC := x.X.(*ast.CallExpr); isC && strings.HasSuffix(p.calleeOf(c), ".AppendBody") && len(c.Args) == 1 {
					ip = i
					arg = p.text(c.Args[0])
				}
			}
		}
		if ip < 0 {
			return true
		}
		r.check(ia >= 0 && ig > ia && ip > ig && arg == "data", "body bytes are counted, then compared, then appended", p.pos(cc.Pos()), "recvBody += len(data); if recvBody > limit { reject }; AppendBody(data)", "the DATA case no longer counts the payload into recvBody before comparing with MaxRequestBodySize and appending that same payload: the frame that crosses the limit is appended, and a request that ends on it reaches the handler with a body above the limit")
		return true
	})
	// carried-over header bytes: the bound is one function, and every place that
	// keeps the bytes of a cut field asks it about exactly those bytes and gives
	// the connection up when it says so
	ccOK := false
	if cc := p.decl("(*serverConn).checkCarried"); cc != nil {
		r.fn("(*serverConn).checkCarried")
		if len(cc.Body.List) == 2 {
			if ifs, ok := cc.Body.List[0].(*ast.IfStmt); ok && ifs.Else == nil {
				okCond, _, _, folded := p.equivOver(ifs.Cond, fdeDomain{[]string{"sc.maxHeaderList", "n"}, [][]int64{{0, 1, 100}, {0, 1, 4, 5, 399, 400, 401, 1000}}}, nil, func(e fdeEnv) int64 {
					return b2i(e["sc.maxHeaderList"] > 0 && e["n"] > 4*e["sc.maxHeaderList"])
				})
				res := firstReturn(ifs.Body)
				okErr := false
				if len(res) == 1 {
					if cl, code, ok := p.errorCall(res[0]); ok && cl == "GoAway" && code == 11 {
						okErr = true
					}
				}
				last := retResults(cc.Body.List[1])
				ccOK = okCond && folded && okErr && len(last) == 1 && p.text(last[0]) == "nil"
			}
		}
	}
	r.check(ccOK, "carried header bytes bounded", p.pos(hd.Pos()), "checkCarried: limit > 0 && n > 4*limit -> GOAWAY(ENHANCE_YOUR_CALM)", "the bound on the bytes of an unfinished header field is no longer 'a limit is configured and the field is more than four times the header list limit -> connection error': a field that never ends grows the buffer without bound (MaxHeaderListSize only counts decoded fields), or a field that fits the limit is refused")
	// handleHeaderFrame: the store of the cut field and the question sit together, and the answer is what the function returns
	{
		asked := false
		ast.Inspect(hd.Body, func(n ast.Node) bool {
			blk, ok := n.(*ast.BlockStmt)
			if !ok {
				return true
			}
			t := stmtTexts(p, blk.List)
			si, qi := -1, -1
			for i, x := range t {
				if x == "strm.previousHeaderBytes=append(strm.previousHeaderBytes,pb...)" {
					si = i
				}
				if x == "err=sc.checkCarried(len(pb))" {
					qi = i
				}
			}
			if si >= 0 && qi >= 0 && len(t) == 2 {
				asked = true
			}
			return true
		})
		last := retResults(hd.Body.List[len(hd.Body.List)-1])
		r.check(asked && len(last) == 1 && p.text(last[0]) == "err", "handleHeaderFrame asks the bound about the field it keeps", p.pos(hd.Pos()), "err = checkCarried(len(pb)) next to the store; the loop is left and err returned", "handleHeaderFrame keeps the bytes of a cut field without asking checkCarried about them (or drops its answer)")
	}
	for _, site := range []struct{ fn, want, desc string }{
		{"(*serverConn).rejectBlock", "iferr:=sc.checkCarried(len(carry));err!=nil{returnerr}", "if err := checkCarried(len(carry)); err != nil { return err }"},
		{"(*serverConn).discardFrame", "iferr==nil{err=sc.checkCarried(len(carry))}", "if err == nil { err = checkCarried(len(carry)) } before the error return"},
	} {
		fdn := p.decl(site.fn)
		// the draining half of rejectBlock may live in rejectBlockFrom, which rejectBlock then only calls
		if site.fn == "(*serverConn).rejectBlock" && fdn != nil && len(fdn.Body.List) == 1 {
			if alt := p.decl("(*serverConn).rejectBlockFrom"); alt != nil {
				fdn = alt
			}
		}
		okSite := false
		if fdn != nil {
			ast.Inspect(fdn.Body, func(n ast.Node) bool {
				if st, ok := n.(ast.Stmt); ok && squash(p.text(st)) == site.want {
					okSite = true
				}
				return true
			})
		}
		r.check(okSite, site.fn+" asks the bound about the field it keeps", p.pos(hd.Pos()), site.desc, site.fn+" keeps the bytes of a cut field without asking checkCarried about them and leaving on its answer")
	}
}

func ruleClosedRing(p *Prog, r *Out) {
	fd := p.decl("(*serverConn).handleStreams")
	if fd == nil {
		r.undecided("handleStreams", "?", "no longer resolves")
		return
	}
	var lit *ast.FuncLit
	ast.Inspect(fd.Body, func(n ast.Node) bool {
		if as, ok := n.(*ast.AssignStmt); ok && len(as.Lhs) == 1 && p.text(as.Lhs[0]) == "markClosed" {
			if fl, ok := as.Rhs[0].(*ast.FuncLit); ok {
				lit = fl
			}
		}
		return true
	})
	if lit == nil {
		r.undecided("markClosed", p.pos(fd.Pos()), "closure no longer resolves")
		return
	}
	// the if/else: len(ring) < cap -> append ; else delete+overwrite
	okShape := false
	for _, s := range lit.Body.List {
		ifs, ok := s.(*ast.IfStmt)
		if !ok || ifs.Else == nil {
			continue
		}
		c, ok := p.canonCmp(ifs.Cond, nil)
		if !ok || c.Op != "le" {
			continue
		}
		capv, _ := p.pkgConst("closedStrmsCap")
		if !c.L.eq(Lin{T: map[string]int64{"len(closedRing)": 1}, C: 1 - capv}) {
			continue
		}
		del := false
		ast.Inspect(ifs.Else, func(n ast.Node) bool {
			if cc, ok := n.(*ast.CallExpr); ok && p.calleeOf(cc) == "builtin.delete" && p.text(cc.Args[0]) == "closedStrms" {
				del = true
			}
			return true
		})
		okShape = del
	}
	r.check(okShape, "ring evicts when full", p.pos(lit.Pos()), "insert paired with delete once len(ring) == cap", "markClosed inserts into closedStrms without deleting the oldest id once the ring is full: the closed-stream memory grows with every stream the peer opens")
	// map insert exists and happens once
	ins := 0
	ast.Inspect(lit.Body, func(n ast.Node) bool {
		// an update under `if _, ok := closedStrms[id]; ok` rewrites an entry
		// that exists and does not grow the memory
		if ifs, ok := n.(*ast.IfStmt); ok && ifs.Init != nil && strings.Contains(squash(p.text(ifs.Init)), ":=closedStrms[") && p.text(ifs.Cond) == "ok" {
			if ifs.Else != nil {
				ast.Inspect(ifs.Else, func(m ast.Node) bool {
					if as, ok := m.(*ast.AssignStmt); ok && len(as.Lhs) == 1 {
						if ix, ok := as.Lhs[0].(*ast.IndexExpr); ok && p.text(ix.X) == "closedStrms" {
							ins++
						}
					}
					return true
				})
			}
			return false
		}
		if as, ok := n.(*ast.AssignStmt); ok && len(as.Lhs) == 1 {
			if ix, ok := as.Lhs[0].(*ast.IndexExpr); ok && p.text(ix.X) == "closedStrms" {
				ins++
			}
		}
		return true
	})
	r.check(ins == 1, "one insert", p.pos(lit.Pos()), "closed id recorded", fmt.Sprintf("markClosed records the id %d times", ins))
}

// ---------------------------------------------------------------- validators

type validatorSpec struct {
	name    string
	markers []string // all must appear in the guard condition text
}

func (p *Prog) guardedBy(pm map[ast.Node]ast.Node, n ast.Node, v validatorSpec) bool {
	for _, g := range p.enclosingGuards(pm, n) {
		if g.Val || g.If == nil || !isRejectingBody(p, g.If.Body) {
			continue
		}
		t := p.text(g.Cond)
		all := true
		for _, m := range v.markers {
			if !strings.Contains(t, m) {
				all = false
			}
		}
		if all {
			return true
		}
	}
	return false
}

func ruleValidators(p *Prog, r *Out) {
	// ---- server
	hd := p.decl("(*serverConn).handleHeaderFrame")
	if hd == nil {
		r.undecided("handleHeaderFrame", "?", "no longer resolves")
	} else {
		r.fn("(*serverConn).handleHeaderFrame")
		pm := p.pmFor(hd)
		common := []validatorSpec{
			{"header-list-size limit", []string{"headerListSize", "maxHeaderList"}},
			{"upper-case name", []string{"hasUpperCase("}},
		}
		pseudo := []validatorSpec{{"pseudo-header after regular field", []string{"regularSeen"}}}
		regular := []validatorSpec{
			{"connection-specific field", []string{"isConnectionSpecific("}},
			{"TE other than trailers", []string{"StringTE", "StringTrailers"}},
		}
		inspectCalls(hd.Body, func(c *ast.CallExpr) {
			name := p.calleeOf(c)
			if !strings.HasPrefix(name, "(*fasthttp.RequestHeader).") {
				return
			}
			m := name[strings.LastIndex(name, ".")+1:]
			if !(strings.HasPrefix(m, "Set") || strings.HasPrefix(m, "Add")) {
				return
			}
			// is this site inside the IsPseudo block?
			isPseudo := false
			for _, g := range p.knownFacts(pm, c) {
				if cc, ok := g.Cond.(*ast.CallExpr); ok && p.calleeOf(cc) == "(*HeaderField).IsPseudo" && g.Val {
					isPseudo = true
				}
			}
			site := "accept " + m
			specs := append([]validatorSpec{}, common...)
			if isPseudo {
				specs = append(specs, pseudo...)
			} else {
				specs = append(specs, regular...)
				// a regular field site must also be outside the pseudo block by early exit (continue)
			}
			for _, v := range specs {
				r.check(p.guardedBy(pm, c, v), fmt.Sprintf("server %s behind %s", site, v.name), p.pos(c.Pos()), "rejecting early exit precedes the accept",
					fmt.Sprintf("the request field accept site %s is not behind the validator `%s`: a request the validator should refuse reaches the handler", p.text(c), v.name))
			}
			if isPseudo {
				// duplicate check in the same clause
				dup := false
				for _, g := range p.enclosingGuards(pm, c) {
					if !g.Val && g.If != nil && isRejectingBody(p, g.If.Body) {
						if sel, ok := g.Cond.(*ast.SelectorExpr); ok {
							if o, f, ok := p.fieldOf(sel); ok && o == "Stream" && strings.HasPrefix(f, "pseudo") {
								dup = true
							}
						}
					}
				}
				r.check(dup, fmt.Sprintf("server %s behind duplicate check", site), p.pos(c.Pos()), "duplicate pseudo-header rejected first", "a request pseudo-header is accepted without rejecting a second occurrence")
			}
		})
		// unknown pseudo-header: the switch inside the IsPseudo block has a rejecting default
		def := false
		ast.Inspect(hd.Body, func(n ast.Node) bool {
			if cc, ok := n.(*ast.CaseClause); ok && cc.List == nil {
				for _, s := range cc.Body {
					if rs, ok := s.(*ast.ReturnStmt); ok && len(rs.Results) == 1 {
						if _, _, ok := p.errorCall(rs.Results[0]); ok {
							for _, g := range p.knownFacts(pm, cc) {
								if c2, ok := g.Cond.(*ast.CallExpr); ok && p.calleeOf(c2) == "(*HeaderField).IsPseudo" && g.Val {
									def = true
								}
							}
						}
					}
				}
			}
			return true
		})
		r.check(def, "server unknown pseudo-header rejected", p.pos(hd.Pos()), "default clause rejects", "an unknown or response pseudo-header (e.g. :status) in a request is no longer rejected")
		// regularSeen is set for every regular field
		set := false
		for _, s := range loopBodyOf(p, hd) {
			if as, ok := s.(*ast.AssignStmt); ok && len(as.Lhs) == 1 && p.isFieldSel(as.Lhs[0], "Stream", "regularSeen") && p.text(as.Rhs[0]) == "true" {
				set = true
			}
		}
		r.check(set, "server marks regular fields", p.pos(hd.Pos()), "regularSeen = true unconditionally after the pseudo block", "Stream.regularSeen is not set for every regular field: a pseudo-header after a regular field goes unnoticed")
	}
	// mandatory pseudo-headers
	if vd := p.decl("validateRequestPseudoHeaders"); vd != nil {
		r.fn("validateRequestPseudoHeaders")
		t := ""
		nrej := 0
		for _, s := range vd.Body.List {
			if ifs, ok := s.(*ast.IfStmt); ok && isRejectingBody(p, ifs.Body) {
				t += p.text(ifs.Cond) + " ;; "
				nrej++
			}
		}
		need := []string{"!strm.pseudoMethod", "!strm.pseudoScheme", "!strm.pseudoPath", "len(strm.path) == 0"}
		all := true
		for _, m := range need {
			if !strings.Contains(t, m) {
				all = false
			}
		}
		r.check(all, "mandatory pseudo-headers", p.pos(vd.Pos()), ":method, :scheme, :path present, :path non-empty", fmt.Sprintf("validateRequestPseudoHeaders no longer rejects a request missing :method/:scheme/:path or with an empty :path (conditions found: %s)", t))
		// it is called on END_HEADERS and its error propagates
		called := false
		for _, f := range p.Files {
			pm := p.parentMaps()[f]
			inspectCalls(f, func(c *ast.CallExpr) {
				if p.calleeOf(c) != "validateRequestPseudoHeaders" {
					return
				}
				if as, ok := pm[c].(*ast.AssignStmt); ok {
					if ifs, ok := pm[as].(*ast.IfStmt); ok && isRejectingBody(p, ifs.Body) {
						for _, g := range p.knownFacts(pm, ifs) {
							if g.Val && strings.Contains(p.text(g.Cond), "FlagEndHeaders") {
								called = true
							}
						}
					}
				}
			})
		}
		r.check(called, "mandatory check runs at END_HEADERS", p.pos(vd.Pos()), "called under END_HEADERS, error returned", "validateRequestPseudoHeaders is not called (with its error returned) when the header block ends")
	} else {
		r.undecided("validateRequestPseudoHeaders", "?", "no longer resolves")
	}
	// content-length agreement guards the dispatch
	for _, f := range p.Files {
		pm := p.parentMaps()[f]
		inspectCalls(f, func(c *ast.CallExpr) {
			if p.calleeOf(c) != "(*serverConn).dispatchHandler" {
				return
			}
			okk := false
			for _, g := range p.enclosingGuards(pm, c) {
				t := p.text(g.Cond)
				if !g.Val && strings.Contains(t, "hasContentLength") && strings.Contains(t, "strm.recvBody != strm.contentLength") {
					okk = true
				}
			}
			r.check(okk, "dispatch behind content-length agreement", p.pos(c.Pos()), "recvBody != contentLength refuses the request", "the handler is dispatched without comparing the declared content-length with the DATA bytes received (RFC 7540 s8.1.2.6)")
		})
	}
	// ---- client
	rd := p.decl("(*Conn).readHeader")
	if rd == nil {
		r.undecided("readHeader", "?", "no longer resolves")
		return
	}
	r.fn("(*Conn).readHeader")
	pm := p.pmFor(rd)
	inspectCalls(rd.Body, func(c *ast.CallExpr) {
		name := p.calleeOf(c)
		var specs []validatorSpec
		switch name {
		case "(*fasthttp.Response).SetStatusCode":
			specs = []validatorSpec{
				{"pseudo-header after regular field", []string{"regularSeen"}},
				{"only :status", []string{"StringStatus"}},
				{"status in 100..999", []string{"n < 100", "n > 999"}},
			}
		case "(*fasthttp.ResponseHeader).SetContentLength":
			specs = []validatorSpec{
				{"upper-case name", []string{"hasUpperCase("}},
				{"connection-specific field", []string{"isConnectionSpecific("}},
				{"numeric content-length", []string{"err != nil"}},
			}
		case "(*fasthttp.ResponseHeader).AddBytesKV":
			specs = []validatorSpec{
				{"upper-case name", []string{"hasUpperCase("}},
				{"connection-specific field", []string{"isConnectionSpecific("}},
			}
		default:
			return
		}
		m := name[strings.LastIndex(name, ".")+1:]
		for _, v := range specs {
			r.check(p.guardedBy(pm, c, v), fmt.Sprintf("client accept %s behind %s", m, v.name), p.pos(c.Pos()), "rejecting early exit precedes the accept",
				fmt.Sprintf("the response field accept site %s is not behind the validator `%s`: a malformed response is delivered to the caller", p.text(c), v.name))
		}
	})
}

// loopBodyOf returns the statements of the decode loop body in fd.
func loopBodyOf(p *Prog, fd *ast.FuncDecl) []ast.Stmt {
	for _, dl := range p.decodeLoops() {
		if dl.fd == fd {
			return dl.loop.Body.List
		}
	}
	return nil
}

// parseCondOf returns the condition of the `if` after list[i] whose body increments openStreams.
func parseCondOf(list []ast.Stmt, i int, p *Prog) ast.Expr {
	for _, s := range list[i+1:] {
		if ifs, ok := s.(*ast.IfStmt); ok {
			hit := false
			ast.Inspect(ifs.Body, func(m ast.Node) bool {
				if inc, ok := m.(*ast.IncDecStmt); ok && p.text(inc.X) == "openStreams" && inc.Tok == token.INC {
					hit = true
				}
				return true
			})
			if hit {
				return ifs.Cond
			}
		}
	}
	return &ast.Ident{Name: "_"}
}
