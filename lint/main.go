package main

import (
	"encoding/json"
	"flag"
	"fmt"
	"os"
	"path/filepath"
	"sort"
	"strconv"
	"strings"
	"sync"
	"time"
)

var verifDir = func() string {
	if d := os.Getenv("VERIF_DIR"); d != "" {
		return d
	}
	exe, err := os.Executable()
	if err == nil {
		d := filepath.Dir(filepath.Dir(exe))
		if _, err := os.Stat(filepath.Join(d, "properties.jsonl")); err == nil {
			return d
		}
	}
	return "/verif"
}()

type KnownFinding struct {
	Properties []string `json:"properties"`
	Rule       string   `json:"rule"`
	Key        string   `json:"key"`
	What       string   `json:"what"`
	Status     string   `json:"status"` // "known" | "fixed"
	Commit     string   `json:"commit,omitempty"`
}

func loadKnown() ([]KnownFinding, error) {
	b, err := os.ReadFile(filepath.Join(verifDir, "known_findings.json"))
	if err != nil {
		if os.IsNotExist(err) {
			return nil, nil
		}
		return nil, err
	}
	var k struct {
		Findings []KnownFinding `json:"findings"`
	}
	if err := json.Unmarshal(b, &k); err != nil {
		return nil, err
	}
	return k.Findings, nil
}

type propMeta struct {
	Explanation string   // what is decided and what is not
	Assumptions []string // trusted base
}

var propMetas = map[string]propMeta{}

func main() {
	prop := flag.String("property", "", "property id (C01..C20)")
	tier := flag.String("tier", "quick", "quick | thorough")
	explain := flag.String("explain", "", "print a replay file in readable form")
	list := flag.Bool("list", false, "list rules")
	all := flag.Bool("all", false, "run every property (development aid)")
	selftest := flag.Bool("selftest", false, "run every seeded variant and fail if one survives (tests the checker, not the tree)")
	dump := flag.String("dump", "", "development: dump SSA of a function")
	repo := flag.String("repo", "", "repository directory (default /repo)")
	sweep := flag.Bool("sweep", false, "development: mechanical mutation sweep over the library, reports edits no rule notices")
	sweepOnly := flag.String("sweep-file", "", "restrict the sweep to files whose name contains this")
	sweepOut := flag.String("sweep-out", "", "write sweep results (json) here")
	sweepBCE := flag.Bool("sweep-bce", false, "include the (slow) compiler bounds rule in the sweep")
	emit := flag.Bool("emit-known", false, "development: print unlisted violations as known_findings.json entries")
	flag.Parse()
	if *repo != "" {
		repoDir = *repo
	}
	if e := os.Getenv("VERIF_TIER"); e != "" && (e == "quick" || e == "thorough") {
		t := e
		tierSet := false
		flag.Visit(func(f *flag.Flag) {
			if f.Name == "tier" {
				tierSet = true
			}
		})
		if !tierSet {
			*tier = t
		}
	}
	emitKnown = *emit
	switch {
	case *explain != "":
		doExplain(*explain)
	case *list:
		for _, r := range allRules {
			fmt.Printf("%-40s %-8s %-28s floor=%d\n", r.Name, r.Engine, strings.Join(r.Props, ","), r.Floor)
		}
	case *dump != "":
		doDump(*dump)
	case *selftest:
		os.Exit(doSelftest())
	case *sweep:
		os.Exit(doSweep(*sweepOnly, *sweepOut, *sweepBCE))
	case *all:
		code := 0
		for i := 1; i <= 20; i++ {
			id := fmt.Sprintf("C%02d", i)
			if len(rulesFor(id)) == 0 {
				fmt.Printf("== %s: no rules\n", id)
				continue
			}
			if c := runProperty(id, *tier); c != 0 {
				code = c
			}
		}
		os.Exit(code)
	case *prop != "":
		os.Exit(runProperty(*prop, *tier))
	default:
		flag.Usage()
		os.Exit(2)
	}
}

var emitKnown bool

type mutantResult struct {
	Name    string `json:"name"`
	Rule    string `json:"rule"`
	Outcome string `json:"outcome"` // killed | survived | skipped(anchor) | invalid(compile)
	By      string `json:"by,omitempty"`
}

func failingSet(outs []*Out) map[string]bool {
	m := map[string]bool{}
	for _, o := range outs {
		for _, in := range o.Insts {
			if !in.OK {
				m[fullKey(in)] = true
			}
		}
	}
	return m
}

// runMutants applies each seeded variant in memory and reports whether the
// named rule flags something new. It tests the checker, never the tree.
func runMutants(base *Base, muts []Mutant, baseFail map[string]bool, baseFailByRule func(rule string) map[string]bool) []mutantResult {
	res := make([]mutantResult, len(muts))
	sem := make(chan struct{}, 8)
	var wg sync.WaitGroup
	for i, m := range muts {
		wg.Add(1)
		go func(i int, m Mutant) {
			defer wg.Done()
			sem <- struct{}{}
			defer func() { <-sem }()
			mr := mutantResult{Name: m.Name, Rule: m.Rule}
			defer func() {
				if e := recover(); e != nil {
					mr.Outcome = fmt.Sprintf("invalid(panic: %v)", e)
				}
				res[i] = mr
			}()
			p, err := base.build(m.Subs)
			if err == errSubstNotFound {
				mr.Outcome = "skipped(anchor not in this tree)"
				return
			}
			if err != nil {
				mr.Outcome = "invalid(" + err.Error() + ")"
				return
			}
			r := ruleByName(m.Rule)
			if r == nil {
				mr.Outcome = "invalid(no such rule)"
				return
			}
			out := runRule(p, r)
			bf := baseFailByRule(m.Rule)
			for _, in := range out.Insts {
				if !in.OK && !bf[fullKey(in)] {
					if m.Expect == "" || strings.Contains(in.Key, m.Expect) {
						mr.Outcome = "killed"
						mr.By = fullKey(in)
						return
					}
				}
			}
			mr.Outcome = "survived"
		}(i, m)
	}
	wg.Wait()
	return res
}

func seedFromEnv() int {
	if s := os.Getenv("VERIF_SEED"); s != "" {
		if n, err := strconv.Atoi(s); err == nil {
			return n
		}
	}
	return 0
}

func runProperty(id, tier string) int {
	t0 := time.Now()
	evPath := filepath.Join(verifDir, "evidence", id+".json")
	_ = os.MkdirAll(filepath.Join(verifDir, "evidence", "violations"), 0o755)
	// stale replay files of this property are removed so that a path printed
	// by this run is always from this run.
	if old, _ := filepath.Glob(filepath.Join(verifDir, "evidence", "violations", id+"-*.json")); old != nil {
		for _, f := range old {
			_ = os.Remove(f)
		}
	}
	rules := rulesFor(id)
	fail := func(rule, key, msg string) int {
		rp := writeReplay(id, 0, Inst{Rule: rule, Key: key, Pos: "?", Msg: msg})
		fmt.Printf("FAIL rule=%s %s\n", rule, msg)
		fmt.Printf("VIOLATION property=%s replay=%s\n", id, rp)
		writeEvidence(evPath, id, tier, nil, nil, nil, nil, 1, time.Since(t0), "load failed: "+msg)
		return 1
	}
	if len(rules) == 0 {
		fmt.Printf("property %s has no rules in this build\n", id)
		return 2
	}
	known, err := loadKnown()
	if err != nil {
		return fail("known-findings", "file", "cannot read known_findings.json: "+err.Error())
	}
	base, err := loadBase()
	if err != nil {
		return fail("load", "packages", err.Error())
	}
	prog, err := base.build(nil)
	if err != nil {
		return fail("load", "typecheck", err.Error())
	}
	var outs []*Out
	for _, r := range rules {
		outs = append(outs, runRule(prog, r))
	}
	var extra []string
	if tier == "thorough" {
		extra = thoroughExtras(id, base, prog, &outs)
	}

	knownIdx := map[string]KnownFinding{}
	for _, k := range known {
		if k.Status == "known" {
			knownIdx[k.Rule+"|"+k.Key] = k
		}
	}
	var violations []Inst
	var knownPrinted []string
	nInst, nOK := 0, 0
	for _, o := range outs {
		for _, in := range o.Insts {
			nInst++
			if in.OK {
				nOK++
				continue
			}
			if k, ok := knownIdx[fullKey(in)]; ok && !in.Undecided {
				line := fmt.Sprintf("KNOWN-FINDING: property=%s rule=%s key=%q at %s: %s", id, in.Rule, in.Key, in.Pos, k.What)
				fmt.Println(line)
				knownPrinted = append(knownPrinted, line)
				continue
			}
			violations = append(violations, in)
		}
	}

	// seeded variants of the rules of this property (checker self-test)
	var muts []Mutant
	for _, m := range allMutants {
		if r := ruleByName(m.Rule); r != nil && hasProp(r, id) {
			muts = append(muts, m)
		}
	}
	if tier != "thorough" && len(muts) > 12 {
		muts = muts[:12]
	}
	byRule := func(rule string) map[string]bool {
		m := map[string]bool{}
		for _, o := range outs {
			if o.rule.Name == rule {
				for _, in := range o.Insts {
					if !in.OK {
						m[fullKey(in)] = true
					}
				}
			}
		}
		return m
	}
	mres := runMutants(base, muts, failingSet(outs), byRule)

	if emitKnown {
		for _, v := range violations {
			r := ruleByName(v.Rule)
			props := []string{id}
			if r != nil {
				props = r.Props
			}
			b, _ := json.Marshal(KnownFinding{Properties: props, Rule: v.Rule, Key: v.Key, What: v.Msg, Status: "known"})
			fmt.Println("EMIT " + string(b))
		}
	}
	for i, v := range violations {
		rp := writeReplay(id, i, v)
		fmt.Printf("FAIL rule=%s key=%q at %s: %s\n", v.Rule, v.Key, v.Pos, v.Msg)
		for _, s := range v.Path {
			fmt.Printf("      %s\n", s)
		}
		fmt.Printf("VIOLATION property=%s replay=%s\n", id, rp)
	}
	writeEvidence(evPath, id, tier, outs, knownPrinted, mres, extra, len(violations), time.Since(t0), "")
	killed := 0
	for _, m := range mres {
		if m.Outcome == "killed" {
			killed++
		}
	}
	fmt.Printf("%s tier=%s rules=%d instances=%d ok=%d known=%d violations=%d seeded-variants=%d/%d flagged wall=%.1fs\n",
		id, tier, len(rules), nInst, nOK, len(knownPrinted), len(violations), killed, len(mres), time.Since(t0).Seconds())
	if len(violations) > 0 {
		return 1
	}
	return 0
}

func writeReplay(id string, i int, v Inst) string {
	name := fmt.Sprintf("%s-%s-%d.json", id, v.Rule, i)
	path := filepath.Join(verifDir, "evidence", "violations", name)
	doc := map[string]interface{}{"property": id, "rule": v.Rule, "key": v.Key, "pos": v.Pos, "msg": v.Msg, "path": v.Path}
	if r := ruleByName(v.Rule); r != nil {
		doc["rule_text"] = r.Doc
		doc["engine"] = r.Engine
	}
	b, _ := json.MarshalIndent(doc, "", " ")
	_ = os.WriteFile(path, b, 0o644)
	return path
}

func doExplain(path string) {
	b, err := os.ReadFile(path)
	if err != nil {
		fmt.Println(err)
		os.Exit(2)
	}
	var doc map[string]interface{}
	if err := json.Unmarshal(b, &doc); err != nil {
		fmt.Println(err)
		os.Exit(2)
	}
	fmt.Printf("property %v, rule %v (%v)\n  rule: %v\n  construct: %v at %v\n  finding: %v\n", doc["property"], doc["rule"], doc["engine"], doc["rule_text"], doc["key"], doc["pos"], doc["msg"])
	if p, ok := doc["path"].([]interface{}); ok {
		for _, s := range p {
			fmt.Printf("    %v\n", s)
		}
	}
	fmt.Printf("re-run: ./bin/h2lint -property %v -tier quick\n", doc["property"])
}

func writeEvidence(path, id, tier string, outs []*Out, known []string, mres []mutantResult, extra []string, nviol int, wall time.Duration, loadFailure string) {
	meta := propMetas[id]
	keys := map[string]bool{}
	funcs := map[string]bool{}
	var samples []interface{}
	var ruleDocs []map[string]interface{}
	nInst, nOK, nUndec := 0, 0, 0
	for _, o := range outs {
		rd := map[string]interface{}{"rule": o.rule.Name, "engine": o.rule.Engine, "text": o.rule.Doc, "floor": o.rule.Floor, "instances": len(o.Insts)}
		nb := 0
		for _, in := range o.Insts {
			nInst++
			keys[fullKey(in)] = true
			if in.OK {
				nOK++
			} else {
				nb++
			}
			if in.Undecided {
				nUndec++
			}
		}
		rd["not_ok"] = nb
		ruleDocs = append(ruleDocs, rd)
		for f := range o.Funcs {
			funcs[f] = true
		}
		// samples: the first instances of every rule, failing ones first
		ins := append([]Inst{}, o.Insts...)
		sort.SliceStable(ins, func(i, j int) bool { return !ins[i].OK && ins[j].OK })
		for i, in := range ins {
			if i >= 6 {
				break
			}
			samples = append(samples, in)
		}
	}
	if len(samples) == 0 {
		samples = append(samples, map[string]string{"note": "no instance was analysed: " + loadFailure})
	}
	expl := meta.Explanation
	if expl == "" {
		expl = "static rules over the type-checked source; see DESIGN.md"
	}
	if loadFailure != "" {
		expl = "RUN FAILED BEFORE ANALYSIS (" + loadFailure + "). " + expl
	}
	cov := map[string]interface{}{
		"explanation":         expl,
		"evaluations":         nInst,
		"distinct_nontrivial": len(keys),
		"rule":                "an evaluation is one rule instance: a construct of /repo's current source located by type-resolved role and decided by the rule; distinct = distinct (rule, construct key); every instance is non-trivial in that it is an obligation found in the tree, not a generated input",
		"samples":             samples,
		"obligations":         nInst,
		"discharged":          nOK,
		"undecided":           nUndec,
		"rules":               ruleDocs,
		"functions_analysed":  sortedKeys(funcs),
		"known_findings":      known,
		"seeded_variants":     mres,
		"exhaustive":          false,
	}
	if extra != nil {
		cov["thorough_extras"] = extra
	}
	assume := meta.Assumptions
	assume = append(assume,
		"go/types, go/ssa (x/tools v0.29.0) and go/packages are trusted to represent /repo's working tree faithfully",
		"code outside package http2 cannot write its unexported fields",
		"only structural necessary conditions are decided; the behaviour itself (values, schedules, liveness) is not")
	doc := map[string]interface{}{
		"property_id": id,
		"tier":        tier,
		"seed":        seedFromEnv(),
		"level":       "other",
		"coverage":    cov,
		"assumptions": assume,
		"wall_s":      float64(int(wall.Seconds()*100)) / 100,
		"violations":  nviol,
	}
	b, _ := json.MarshalIndent(doc, "", " ")
	_ = os.MkdirAll(filepath.Dir(path), 0o755)
	if err := os.WriteFile(path, b, 0o644); err != nil {
		fmt.Fprintln(os.Stderr, "cannot write evidence:", err)
	}
}

func doSelftest() int {
	base, err := loadBase()
	if err != nil {
		fmt.Println("load:", err)
		return 1
	}
	prog, err := base.build(nil)
	if err != nil {
		fmt.Println("build:", err)
		return 1
	}
	cache := map[string]map[string]bool{}
	var mu sync.Mutex
	byRule := func(rule string) map[string]bool {
		mu.Lock()
		defer mu.Unlock()
		if m, ok := cache[rule]; ok {
			return m
		}
		m := map[string]bool{}
		if r := ruleByName(rule); r != nil {
			for _, in := range runRule(prog, r).Insts {
				if !in.OK {
					m[fullKey(in)] = true
				}
			}
		}
		cache[rule] = m
		return m
	}
	res := runMutants(base, allMutants, nil, byRule)
	bad := 0
	for _, r := range res {
		fmt.Printf("%-50s %-34s %s %s\n", r.Name, r.Rule, r.Outcome, r.By)
		if r.Outcome != "killed" {
			bad++
		}
	}
	fmt.Printf("seeded variants: %d, not flagged: %d\n", len(res), bad)
	if bad > 0 {
		return 1
	}
	return 0
}
