package main

import (
	"fmt"
	"go/types"
	"strings"

	"golang.org/x/tools/go/ssa"
)

// On 32-bit platforms a 64-bit sync/atomic function panics when its operand is
// not 8-byte aligned, and the compiler only aligns the first word of an
// allocated struct. The repository guards two fields with align32_test.go,
// which only compiles under a 32-bit GOARCH; this rule decides the same thing
// for every field the code hands to a 64-bit atomic, from the type layout.

func init() {
	register(&Rule{
		Name: "atomic64-alignment", Props: []string{"C17", "C19"}, Engine: "TYPES", Floor: 2,
		Doc: "every struct field whose address is passed to a 64-bit sync/atomic function sits at an offset that is a multiple of 8 under the 32-bit gc layout (fields of type atomic.Int64/Uint64 align themselves and are not concerned)",
		Run: ruleAtomic64Alignment,
	})
}

func ruleAtomic64Alignment(p *Prog, r *Out) {
	sizes := types.SizesFor("gc", "386")
	if sizes == nil {
		r.undecided("sizes", "?", "no 32-bit layout available")
		return
	}
	seen := map[string]bool{}
	for _, f := range p.allFuncs() {
		if f.Pkg != p.SPkg {
			continue
		}
		for _, b := range f.Blocks {
			for _, in := range b.Instrs {
				c, ok := in.(ssa.CallInstruction)
				if !ok {
					continue
				}
				name := p.calleeName(c.Common())
				if !strings.HasPrefix(name, "atomic.") || !(strings.HasSuffix(name, "Int64") || strings.HasSuffix(name, "Uint64")) {
					continue
				}
				if len(c.Common().Args) == 0 {
					continue
				}
				fa, ok := c.Common().Args[0].(*ssa.FieldAddr)
				if !ok {
					// a conversion of a field address
					if cv, ok := c.Common().Args[0].(*ssa.Convert); ok {
						fa, _ = cv.X.(*ssa.FieldAddr)
					}
					if fa == nil {
						continue
					}
				}
				pt, ok := fa.X.Type().Underlying().(*types.Pointer)
				if !ok {
					continue
				}
				st, ok := pt.Elem().Underlying().(*types.Struct)
				if !ok {
					continue
				}
				owner := types.TypeString(pt.Elem(), func(*types.Package) string { return "" })
				key := owner + "." + st.Field(fa.Field).Name()
				if seen[key] {
					continue
				}
				seen[key] = true
				r.fn(p.fname(f))
				fields := make([]*types.Var, st.NumFields())
				for i := range fields {
					fields[i] = st.Field(i)
				}
				off := sizes.Offsetsof(fields)[fa.Field]
				r.check(off%8 == 0, key+" is 8-byte aligned on 32-bit platforms", p.ipos(in), fmt.Sprintf("offset %d under the 386 layout", off),
					fmt.Sprintf("%s is used with %s but sits at offset %d under the 32-bit layout, which is not a multiple of 8: the first atomic operation on it panics on 386/arm/mips (and align32_test.go stops compiling there)", key, name, off))
			}
		}
	}
}
