package main

import (
	"fmt"
	"go/ast"
	"go/token"
	"strconv"
	"strings"
)

// guardedReturnFirst reports whether the function body has, before any other
// statement that does work (locking and deferred unlocking aside), an
// `if <cond> { ...; return ... }` whose condition text (squashed) is cond, and
// hands back the results of that return.
func guardedReturn(p *Prog, list []ast.Stmt, cond string) ([]ast.Expr, int, bool) {
	for i, s := range list {
		ifs, ok := s.(*ast.IfStmt)
		if !ok || ifs.Init != nil || ifs.Else != nil || len(ifs.Body.List) == 0 {
			continue
		}
		if squash(p.text(ifs.Cond)) != cond {
			continue
		}
		ret, ok := ifs.Body.List[len(ifs.Body.List)-1].(*ast.ReturnStmt)
		if !ok {
			continue
		}
		return ret.Results, i, true
	}
	return nil, -1, false
}

func init() {
	register(&Rule{
		Name: "client-pool-shape", Props: []string{"C12", "C11"}, Engine: "AST", Floor: 9,
		Doc: "the part of the client above the connection, as far as the properties reach into it: the response timeout that is armed is the configured one, or the default when none was given (sanitize, and createClient calls it); a pooled Ctx is born with its cancel timer; the cancel timer's function only touches a connection that exists; Close marks the client closed, closes every connection it held, and a closed client neither dials (pickConn, onConnectionDropped) nor hands out a connection; the retry loop of RoundTrip is bounded and goes round again only for an error retryable() accepts",
		Run: func(p *Prog, r *Out) {
			r.fn("(*ClientOpts).sanitize", "createClient", "(*Ctx).fireTimeout", "(*Client).Close", "(*Client).pickConn", "(*Client).onConnectionDropped", "(*Client).RoundTrip")
			// sanitize
			if fd := p.decl("(*ClientOpts).sanitize"); fd != nil {
				okT, okP := false, false
				for _, s := range fd.Body.List {
					ifs, ok := s.(*ast.IfStmt)
					if !ok || ifs.Else != nil || len(ifs.Body.List) != 1 {
						continue
					}
					as, ok := ifs.Body.List[0].(*ast.AssignStmt)
					if !ok || as.Tok != token.ASSIGN || len(as.Lhs) != 1 {
						continue
					}
					c, l, rh := squash(p.text(ifs.Cond)), squash(p.text(as.Lhs[0])), squash(p.text(as.Rhs[0]))
					if c == "opts.MaxResponseTime==0" && l == "opts.MaxResponseTime" && rh == "DefaultMaxResponseTime" {
						okT = true
					}
					if (c == "opts.PingInterval<=0" || c == "opts.PingInterval==0") && l == "opts.PingInterval" && rh == "DefaultPingInterval" {
						okP = true
					}
				}
				dv, okc := p.pkgConst("DefaultMaxResponseTime")
				r.check(okT && okc && dv > 0, "no response timeout given means the default one", p.pos(fd.Pos()), "if MaxResponseTime == 0 { MaxResponseTime = DefaultMaxResponseTime }, a positive constant", "ClientOpts.sanitize no longer turns a MaxResponseTime of 0 into DefaultMaxResponseTime (a positive constant): a client built without one waits for ever for a server that stays silent")
				di, okd := p.pkgConst("DefaultPingInterval")
				r.check(okP && okd && di > 0, "no ping interval given means the default one", p.pos(fd.Pos()), "if PingInterval <= 0 { PingInterval = DefaultPingInterval }", "ClientOpts.sanitize no longer replaces a missing ping interval by DefaultPingInterval")
			} else {
				r.undecided("sanitize", "?", "(*ClientOpts).sanitize no longer resolves")
			}
			if fd := p.decl("createClient"); fd != nil {
				si, li := -1, -1
				for i, s := range fd.Body.List {
					t := squash(p.fullText(s))
					if t == "opts.sanitize()" {
						si = i
					}
					if strings.Contains(t, "opts:opts") && li < 0 {
						li = i
					}
				}
				r.check(si >= 0 && li > si, "the client keeps the sanitized options", p.pos(fd.Pos()), "opts.sanitize() before &Client{opts: opts}", "createClient no longer sanitizes the options before it stores them: MaxResponseTime 0 then means no timeout at all")
			}
			// the pooled Ctx is born with a timer and a buffered Err
			if v, id := p.findVarInit("clientCtxPool"); v != nil {
				t := squash(p.fullText(v))
				r.check(strings.Contains(t, "ctx.timer=time.AfterFunc(timerDisarmed,ctx.fireTimeout)"), "a pooled Ctx is born with its cancel timer", p.pos(id.Pos()), "ctx.timer = time.AfterFunc(timerDisarmed, ctx.fireTimeout) in the pool's New", "a new Ctx no longer gets its cancel timer (or the timer runs something other than fireTimeout): arming it is a nil dereference, or the timeout resolves nothing")
			} else {
				r.undecided("clientCtxPool", "?", "clientCtxPool no longer resolves")
			}
			// fireTimeout: resolve first, cancel only on a connection that is there
			if fd := p.decl("(*Ctx).fireTimeout"); fd != nil {
				ri, ci := -1, -1
				okGuard := false
				for i, s := range fd.Body.List {
					t := squash(p.fullText(s))
					if t == "ctx.resolve(ErrRequestCanceled)" {
						ri = i
					}
					if ifs, ok := s.(*ast.IfStmt); ok && strings.Contains(t, ".cancel(ctx)") {
						ci = i
						if ifs.Init != nil && squash(p.text(ifs.Init)) == "c:=ctx.conn.Load()" && squash(p.text(ifs.Cond)) == "c!=nil" && len(ifs.Body.List) == 1 && squash(p.text(ifs.Body.List[0])) == "c.cancel(ctx)" && ifs.Else == nil {
							okGuard = true
						}
					} else if ci < 0 && strings.Contains(t, ".cancel(ctx)") {
						ci = i
					}
				}
				r.check(ri >= 0 && ci > ri && okGuard, "the timeout resolves, then cancels on the connection if there is one", p.pos(fd.Pos()), "resolve(ErrRequestCanceled); if c := conn.Load(); c != nil { c.cancel(ctx) }", "fireTimeout no longer resolves the request and then cancels it only on a connection that exists: it runs on a timer goroutine, where a nil dereference ends the process")
			} else {
				r.undecided("fireTimeout", "?", "(*Ctx).fireTimeout no longer resolves")
			}
			// Close
			if fd := p.decl("(*Client).Close"); fd != nil {
				_, gi, okG := guardedReturn(p, fd.Body.List, "cl.closed")
				mark, collect, closeAll := -1, -1, false
				for i, s := range fd.Body.List {
					t := squash(p.fullText(s))
					if t == "cl.closed=true" {
						mark = i
					}
					if fs, ok := s.(*ast.ForStmt); ok && fs.Init != nil && fs.Cond != nil && fs.Post != nil {
						if squash(p.text(fs.Init)) == "e:=cl.conns.Front()" && squash(p.text(fs.Cond)) == "e!=nil" && squash(p.text(fs.Post)) == "e=e.Next()" && len(fs.Body.List) == 1 && squash(p.text(fs.Body.List[0])) == "conns=append(conns,e.Value.(*Conn))" {
							collect = i
						}
					}
					if rs, ok := s.(*ast.RangeStmt); ok && squash(p.text(rs.X)) == "conns" && rs.Value != nil {
						v := p.text(rs.Value)
						inspectCalls(rs.Body, func(c *ast.CallExpr) {
							if squash(p.text(c.Fun)) == v+".Close" {
								closeAll = true
							}
						})
						// nothing leaves the loop early
						ast.Inspect(rs.Body, func(n ast.Node) bool {
							switch x := n.(type) {
							case *ast.ReturnStmt:
								closeAll = false
							case *ast.BranchStmt:
								if x.Tok == token.BREAK || x.Tok == token.GOTO {
									closeAll = false
								}
							}
							return true
						})
					}
				}
				r.check(okG && mark > gi && collect > mark && closeAll, "Close marks the client closed and closes every connection it held", p.pos(fd.Pos()), "if closed { return }; closed = true; collect every element of conns; close each", "Client.Close no longer marks the client closed before it collects, and then closes, every connection in its list: a connection left open keeps its two goroutines and its buffers for the life of the process, and a client not marked closed dials again when the closed ones report in")
			} else {
				r.undecided("Close", "?", "(*Client).Close no longer resolves")
			}
			// a closed client neither dials nor hands out a connection
			if fd := p.decl("(*Client).pickConn"); fd != nil {
				res, gi, okG := guardedReturn(p, fd.Body.List, "cl.closed")
				okRes := okG && len(res) == 2 && p.text(res[0]) == "nil" && p.text(res[1]) == "ErrClientClosed"
				before := true
				for i, s := range fd.Body.List {
					if i >= gi {
						break
					}
					t := squash(p.fullText(s))
					if t != "cl.lck.Lock()" && t != "defercl.lck.Unlock()" {
						before = false
					}
				}
				r.check(okRes && before, "a closed client hands out no connection", p.pos(fd.Pos()), "lock; if closed { return nil, ErrClientClosed } first", "pickConn no longer refuses with ErrClientClosed before anything else once the client is closed: a request made after Close dials a connection nobody will close")
			} else {
				r.undecided("pickConn", "?", "(*Client).pickConn no longer resolves")
			}
			if fd := p.decl("(*Client).onConnectionDropped"); fd != nil {
				res, gi, okG := guardedReturn(p, fd.Body.List, "cl.closed")
				dialAfter := true
				for i, s := range fd.Body.List {
					if i >= gi {
						break
					}
					inspectCalls(s, func(c *ast.CallExpr) {
						if p.calleeOf(c) == "(*Client).createConn" {
							dialAfter = false
						}
					})
				}
				r.check(okG && len(res) == 0 && dialAfter, "a closed client does not replace a dropped connection", p.pos(fd.Pos()), "if closed { return } before createConn", "onConnectionDropped no longer returns before dialling when the client is closed: Close closes the connections, each reports in here, and each gets a replacement nobody will close")
			} else {
				r.undecided("onConnectionDropped", "?", "(*Client).onConnectionDropped no longer resolves")
			}
			// RoundTrip: bounded, and round again only for a retryable error
			if fd := p.decl("(*Client).RoundTrip"); fd != nil {
				var loop *ast.ForStmt
				for _, s := range fd.Body.List {
					if fs, ok := s.(*ast.ForStmt); ok {
						loop = fs
					}
				}
				okBound, okGate := false, false
				if loop != nil && loop.Init != nil && loop.Post != nil && squash(p.text(loop.Init)) == "attempt:=0" && squash(p.text(loop.Post)) == "attempt++" {
					for i, s := range loop.Body.List {
						ifs, ok := s.(*ast.IfStmt)
						if !ok || len(ifs.Body.List) == 0 {
							continue
						}
						_, isRet := ifs.Body.List[len(ifs.Body.List)-1].(*ast.ReturnStmt)
						if !isRet {
							continue
						}
						if be, ok := ast.Unparen(ifs.Cond).(*ast.BinaryExpr); ok && (be.Op == token.EQL || be.Op == token.GEQ) && p.text(be.X) == "attempt" {
							if k, ok := p.intConst(be.Y); ok && k >= 0 && k < 64 {
								okBound = true
							}
						}
						if i == 1 && squash(p.text(ifs.Cond)) == "err==nil||!retryable(err)" {
							if as, ok := loop.Body.List[0].(*ast.AssignStmt); ok && squash(p.text(as)) == "err=cl.roundTripOnce(req,res)" {
								okGate = true
							}
						}
					}
					if loop.Cond != nil {
						okBound = true
					}
				}
				// between attempts the response is emptied, keeping the caller's two switches
				okReset := false
				if loop != nil {
					t := stmtTexts(p, loop.Body.List)
					sv, rs, rt, gate := -1, -1, -1, -1
					for i, x := range t {
						switch x {
						case "skipBody,streamBody:=res.SkipBody,res.StreamBody":
							sv = i
						case "res.Reset()":
							rs = i
						case "res.SkipBody,res.StreamBody=skipBody,streamBody":
							rt = i
						case "iferr==nil||!retryable(err){returnfalse,err}":
							gate = i
						}
					}
					okReset = gate >= 0 && sv > gate && rs > sv && rt > rs
				}
				r.check(okReset, "another attempt starts from an empty response", p.pos(fd.Pos()), "after the gate: save SkipBody/StreamBody; res.Reset(); restore", "RoundTrip no longer empties the response before it sends the request again: what a connection had received for a stream the server then disclaimed is run together with the answer of the next attempt and reported as a success")
				r.check(okBound, "the retry loop is bounded", p.pos(fd.Pos()), "for attempt := 0; ; attempt++ { ...; if attempt == <small constant> { return } }", "RoundTrip's retry loop no longer ends after a constant number of attempts: a server that refuses every stream keeps the caller inside RoundTrip for ever")
				r.check(okGate, "another attempt only for an error retryable() accepts", p.pos(fd.Pos()), "err = roundTripOnce(); if err == nil || !retryable(err) { return false, err } first in the loop", "RoundTrip goes round again without first returning on success or on an error retryable() does not accept: a request the server may have processed is sent twice")
			} else {
				r.undecided("RoundTrip", "?", "(*Client).RoundTrip no longer resolves")
			}
		},
	})
}

func init() {
	register(&Rule{
		Name: "client-stuck-writes-bounded", Props: []string{"C12"}, Engine: "AST", Floor: 6,
		Doc: "a server that stops reading cannot hold a request past its timeout: Conn.Write, which waits for room in the request queue, also waits for the request's own verdict (the timer's) and hands it back where RoundTrip reads it; the two writers of frames that belong to no request (writeFrame, writePing) put a deadline of a positive constant on their write once they hold the write lock, and take it off when they are done; and the end of a stream that has had no header block with a final status is an error, not a response",
		Run: func(p *Prog, r *Out) {
			r.fn("(*Conn).Write", "(*Conn).writeFrame", "(*Conn).writePing", "(*Conn).limitControlWrite", "(*Conn).readStreamOwned")
			if fd := p.decl("(*Conn).Write"); fd != nil && len(fd.Body.List) > 0 {
				okW := false
				if sel, ok := fd.Body.List[0].(*ast.SelectStmt); ok {
					send, done, verdict := false, false, false
					for _, c := range sel.Body.List {
						cc := c.(*ast.CommClause)
						if cc.Comm == nil {
							continue
						}
						switch squash(p.text(cc.Comm)) {
						case "c.in<-r":
							send = true
						case "<-c.done":
							done = true
						case "err:=<-r.Err":
							// handed back without blocking, then out
							t := stmtTexts(p, cc.Body)
							if len(t) == 2 && t[0] == "select{caser.Err<-err:default:}" && t[1] == "return" {
								verdict = true
							}
						}
					}
					okW = send && done && verdict
				}
				r.check(okW, "Write stops waiting for room when the request has been given up", p.pos(fd.Pos()), "select { c.in <- r; <-c.done; err := <-r.Err: put it back without blocking; return }", "Conn.Write waits for room in the request queue without also waiting for the request's own verdict: with the write loop stuck in a socket write the queue never drains, and once it is full every further request blocks here past MaxResponseTime, for good")
			} else {
				r.undecided("Write", "?", "(*Conn).Write no longer resolves")
			}
			// a request taken off the queue is the write loop's to answer: the loop does not leave, from the arm that took it, without having resolved it
			if fd := p.decl("(*Conn).runWriteLoop"); fd != nil {
				r.fn("(*Conn).runWriteLoop")
				pm := p.pmFor(fd)
				bad := ""
				found := false
				ast.Inspect(fd.Body, func(n ast.Node) bool {
					cc, ok := n.(*ast.CommClause)
					if !ok || cc.Comm == nil || squash(p.text(cc.Comm)) != "ctx:=<-c.in" {
						return true
					}
					found = true
					ast.Inspect(cc, func(x ast.Node) bool {
						ret, isRet := x.(*ast.ReturnStmt)
						if !isRet {
							return true
						}
						resolved := false
						var child ast.Node = ret
						for cur := pm[child]; cur != nil; child, cur = cur, pm[cur] {
							var list []ast.Stmt
							switch b := cur.(type) {
							case *ast.BlockStmt:
								list = b.List
							case *ast.CommClause:
								list = b.Body
							}
							for _, st := range list {
								if st.Pos() >= child.Pos() {
									break
								}
								inspectCalls(st, func(c *ast.CallExpr) {
									if squash(p.text(c.Fun)) == "ctx.resolve" {
										resolved = true
									}
								})
							}
							if cur == ast.Node(cc) {
								break
							}
						}
						if !resolved {
							bad = p.pos(ret.Pos())
						}
						return true
					})
					return true
				})
				r.check(found && bad == "", "the write loop does not leave with a request it took and did not answer", p.pos(fd.Pos()), "in `case ctx := <-c.in`: every return is preceded by ctx.resolve(...)", "the write loop can return from the arm that took a request off the queue ("+bad+") without resolving it: the request is in no table and no queue any more, so nothing the closing connection does will find it, and without a timer its caller waits for ever")
			}
			for _, fn := range []string{"(*Conn).writeFrame", "(*Conn).writePing"} {
				fd := p.decl(fn)
				if fd == nil {
					r.undecided(fn, "?", "no longer resolves")
					continue
				}
				t := stmtTexts(p, fd.Body.List)
				lk, lim, wr := -1, -1, -1
				for i, x := range t {
					switch {
					case x == "c.lockWrites()":
						lk = i
					case x == "deferc.limitControlWrite()()":
						lim = i
					case strings.Contains(x, ".WriteTo(c.bw)") && wr < 0:
						wr = i
					}
				}
				r.check(lk >= 0 && lim > lk && wr > lim, fn+" bounds its write", p.pos(fd.Pos()), "lockWrites(); defer limitControlWrite()(); ...WriteTo", fn+" no longer puts a deadline on the write of a frame that belongs to no request: a server that stops reading keeps the write loop in that write for good, the unanswered-PING check with it, and every request queued behind it")
			}
			if fd := p.decl("(*Conn).limitControlWrite"); fd != nil {
				okL := false
				v, okc := p.pkgConst("controlWriteTimeout")
				set, clr := false, false
				ast.Inspect(fd.Body, func(n ast.Node) bool {
					if c, ok := n.(*ast.CallExpr); ok && strings.HasSuffix(squash(p.text(c.Fun)), "c.c.SetWriteDeadline") && len(c.Args) == 1 {
						a := squash(p.text(c.Args[0]))
						if a == "time.Now().Add(controlWriteTimeout)" {
							set = true
						}
						if a == "time.Time{}" {
							// inside the function literal that is returned
							clr = true
						}
					}
					return true
				})
				okL = okc && v > 0 && set && clr
				r.check(okL, "the limit is a positive constant from now, and what is handed back removes it", p.pos(fd.Pos()), "SetWriteDeadline(now + controlWriteTimeout); return func() { SetWriteDeadline(zero) }", "limitControlWrite no longer sets a deadline of a positive constant from now and returns the function that clears it: control writes are unbounded again, or the deadline stays and fails a later write that is doing fine")
			} else {
				r.bad("the limit is a positive constant from now, and what is handed back removes it", "?", "(*Conn).limitControlWrite no longer resolves")
			}
			if fd := p.decl("(*Conn).readStreamOwned"); fd != nil {
				t := stmtTexts(p, fd.Body.List)
				mark, end := -1, -1
				for i, x := range t {
					if x == "ifc.block.final{c.block.final=falser.headersDone=true}" {
						mark = i
					}
				}
				for i, s := range fd.Body.List {
					ifs, ok := s.(*ast.IfStmt)
					if !ok || !p.isConjunctionOf(ifs.Cond, "err==nil", "!r.headersDone", "c.endsStream(fr)") || len(ifs.Body.List) != 1 {
						continue
					}
					if as, ok := ifs.Body.List[0].(*ast.AssignStmt); ok && len(as.Lhs) == 1 && p.text(as.Lhs[0]) == "err" {
						if cl, code, okE := p.errorCall(as.Rhs[0]); okE && cl == "Reset" && code == 1 {
							end = i
						}
					}
				}
				last := retResults(fd.Body.List[len(fd.Body.List)-1])
				r.check(mark >= 0 && end > mark && len(last) == 1 && p.text(last[0]) == "err", "a stream that ends before its final header block is an error", p.pos(fd.Pos()), "after headersDone is updated: if err == nil && !headersDone && endsStream(fr) { err = stream error PROTOCOL_ERROR }; return err", "readStreamOwned no longer turns the end of a stream that has had no header block with a final status into a stream error: DATA alone, or a 1xx block and nothing else, is reported to the caller as a successful response")
			} else {
				r.undecided("readStreamOwned", "?", "(*Conn).readStreamOwned no longer resolves")
			}
		},
	})
}

func init() {
	register(&Rule{
		Name: "stream-offences-stay-on-the-stream", Props: []string{"C09"}, Engine: "SSA", Floor: 3,
		Doc: "offences RFC 7540 defines as stream errors are answered on the stream: a WINDOW_UPDATE with an increment of 0 that names a stream (6.9), a second HEADERS block that does not end the stream (8.1: malformed request), a stream that depends on itself (5.3.1). The class of the error value each site produces is read from the code (reset-class or GOAWAY-class)",
		Run: func(p *Prog, r *Out) {
			type site struct {
				fn, cond, what, rfc string
			}
			for _, s := range []site{
				{"(*serverConn).handleFrame", "win==0", "a WINDOW_UPDATE with increment 0 on a stream", "6.9"},
				{"(*serverConn).handleHeaderFrame", "!fr.Flags().Has(FlagEndStream)", "trailers that do not end the stream", "8.1"},
				{"(*serverConn).handleHeaderFrame", "headerFrame,ok:=fr.Body().(*Headers);ok&&headerFrame.Stream()==strm.ID()", "a HEADERS frame that makes its stream depend on itself", "5.3.1"},
				{"(*serverConn).handleFrame", "priorityFrame,ok:=fr.Body().(*Priority);ok&&priorityFrame.Stream()==strm.ID()", "a PRIORITY frame that makes its stream depend on itself", "5.3.1"},
			} {
				fd := p.decl(s.fn)
				if fd == nil {
					r.undecided(s.fn, "?", "no longer resolves")
					continue
				}
				r.fn(s.fn)
				class := ""
				ast.Inspect(fd.Body, func(n ast.Node) bool {
					ifs, ok := n.(*ast.IfStmt)
					if !ok {
						return true
					}
					c := squash(p.text(ifs.Cond))
					if ifs.Init != nil {
						c = squash(p.text(ifs.Init)) + ";" + c
					}
					if c != s.cond {
						return true
					}
					if res := firstReturn(ifs.Body); len(res) == 1 {
						if cl, _, okE := p.errorCall(res[0]); okE {
							class = cl
						}
					} else if marksMalformed(p, ifs.Body, fd) {
						// the verdict is stored and returned, through rejectBlock, once the block is in hand
						for _, st := range ifs.Body.List {
							if as, isAs := st.(*ast.AssignStmt); isAs && len(as.Rhs) == 1 {
								if cl, _, okE := p.errorCall(as.Rhs[0]); okE {
									class = cl
								}
							}
						}
					}
					return true
				})
				key := s.fn + " answers " + s.what + " on the stream"
				switch class {
				case "":
					r.undecided(key, p.pos(fd.Pos()), "the test `"+s.cond+"` and the error it returns were not found")
				case "Reset":
					r.ok(key, p.pos(fd.Pos()), "stream error")
				default:
					r.bad(key, p.pos(fd.Pos()), s.fn+" answers "+s.what+" with a connection error ("+class+"): RFC 7540 s"+s.rfc+" makes it a stream error, and as a connection error one client's slip on one stream ends every other request on the connection")
				}
			}
		},
	})
}

func init() {
	register(&Rule{
		Name: "server-writes-have-a-standing-limit", Props: []string{"C10", "C17"}, Engine: "AST", Floor: 1,
		Doc: "a connection error can only be answered, and the connection ended, by a goroutine that is not parked: the stream loop and the read loop both queue frames for the write loop, and with a peer that has stopped reading they park on the full queue, the stream loop with the offending frame still unread behind it. That is bounded only if the write loop's socket writes carry a limit at all times (a limit in force from the start of the connection), not merely from the moment an error has been noticed",
		Run: func(p *Prog, r *Out) {
			wl := p.decl("(*serverConn).writeLoop")
			sv := p.decl("(*Server).ServeConn")
			if wl == nil || sv == nil {
				r.undecided("writeLoop", "?", "(*serverConn).writeLoop / ServeConn no longer resolve")
				return
			}
			r.fn("(*serverConn).writeLoop", "(*Server).ServeConn", "(*serverConn).Serve")
			// the deadline in the write loop: unconditional, or under writeLimit > 0 with writeLimit set positive before the loops start
			uncond, cond := false, false
			pm := p.pmFor(wl)
			inspectCalls(wl.Body, func(c *ast.CallExpr) {
				if !strings.HasSuffix(squash(p.text(c.Fun)), ".SetWriteDeadline") || len(c.Args) != 1 || squash(p.text(c.Args[0])) == "time.Time{}" {
					return
				}
				guards := p.enclosingGuards(pm, c)
				if len(guards) == 0 {
					uncond = true
				}
				for _, g := range guards {
					if g.Val && strings.Contains(squash(p.text(g.Cond)), "d>0") {
						cond = true
					}
				}
			})
			preset := false
			for _, fd := range []*ast.FuncDecl{sv, p.decl("(*serverConn).Serve")} {
				if fd == nil {
					continue
				}
				inspectCalls(fd.Body, func(c *ast.CallExpr) {
					if squash(p.text(c.Fun)) == "sc.writeLimit.Store" {
						preset = true
					}
				})
			}
			key := "the write loop's writes are limited from the start of the connection"
			if uncond || (cond && preset) {
				r.ok(key, p.pos(wl.Pos()), "a write deadline is in force for every write")
			} else {
				r.bad(key, p.pos(wl.Pos()), "the write loop puts a deadline on a socket write only once a connection error has set writeLimit (limitWrites, called from writeGoAway): until then a peer that stops reading parks the write loop in its write, the stream loop in enqueue on the full queue, and a connection error the stream loop would find in the frames behind it is never found, never answered, and ServeConn does not return")
			}
		},
	})
}

func init() {
	register(&Rule{
		Name: "pseudo-headers-once", Props: []string{"C20", "C01"}, Engine: "AST", Floor: 11,
		Doc: "a request's pseudo-header fields: each of :method, :path, :scheme and :authority is accepted at most once per request (its seen-mark is tested, rejecting with a PROTOCOL_ERROR stream error through rejectBlock, before it is set) and reaches the fasthttp request where the handler looks for it (method, request URI, scheme, Host both as the request's host and as a header field); any other pseudo-header is rejected the same way (RFC 7540 8.1.2.1, 8.1.2.3)",
		Run: func(p *Prog, r *Out) {
			fd := p.decl("(*serverConn).handleHeaderFrame")
			if fd == nil {
				r.undecided("handleHeaderFrame", "?", "no longer resolves")
				return
			}
			r.fn("(*serverConn).handleHeaderFrame")
			type spec struct {
				name, mark string
				stores     []string
			}
			specs := map[string]spec{
				"bytes.Equal(k,StringMethod)":    {":method", "strm.pseudoMethod", []string{"req.Header.SetMethodBytes(v)"}},
				"bytes.Equal(k,StringPath)":      {":path", "strm.pseudoPath", []string{"strm.path=append(strm.path[:0],v...)", "req.Header.SetRequestURIBytes(v)"}},
				"bytes.Equal(k,StringScheme)":    {":scheme", "strm.pseudoScheme", []string{"strm.scheme=append(strm.scheme[:0],v...)"}},
				"bytes.Equal(k,StringAuthority)": {":authority", "strm.pseudoAuthority", []string{"req.Header.SetHostBytes(v)", "req.Header.AddBytesV(\"Host\",v)"}},
			}
			seen := map[string]bool{}
			defReject := false
			ast.Inspect(fd.Body, func(n ast.Node) bool {
				ifs, ok := n.(*ast.IfStmt)
				if !ok || squash(p.text(ifs.Cond)) != "hf.IsPseudo()" {
					return true
				}
				for _, st := range ifs.Body.List {
					sw, isSw := st.(*ast.SwitchStmt)
					if !isSw || sw.Tag != nil {
						continue
					}
					for _, c := range sw.Body.List {
						cc := c.(*ast.CaseClause)
						if cc.List == nil {
							if res := retResults(cc.Body[len(cc.Body)-1]); len(res) == 1 {
								if cl, code, okE := p.errorCall(res[0]); okE && cl == "Reset" && code == 1 {
									defReject = true
								}
							}
							continue
						}
						sp, known := specs[squash(p.text(cc.List[0]))]
						if !known || len(cc.List) != 1 {
							continue
						}
						seen[sp.name] = true
						t := stmtTexts(p, cc.Body)
						once := false
						if len(cc.Body) >= 2 {
							if g, isIf := cc.Body[0].(*ast.IfStmt); isIf && squash(p.text(g.Cond)) == sp.mark && g.Else == nil {
								if res := firstReturn(g.Body); len(res) == 1 {
									if cl, code, okE := p.errorCall(res[0]); okE && cl == "Reset" && code == 1 {
										once = len(t) > 1 && t[1] == sp.mark+"=true"
									}
								}
							}
						}
						r.check(once, sp.name+" is accepted once", p.pos(cc.Pos()), "if "+sp.mark+" { reject (stream error PROTOCOL_ERROR) }; "+sp.mark+" = true", "a second "+sp.name+" pseudo-header is no longer turned away before the first is overwritten: a request that says two different things about itself is malformed (RFC 7540 8.1.2.3), and an intermediary and this server may each believe a different one")
						okStore := true
						for _, w := range sp.stores {
							f := false
							for _, x := range t {
								if x == w {
									f = true
								}
							}
							if !f {
								okStore = false
							}
						}
						r.check(okStore, sp.name+" reaches the request", p.pos(cc.Pos()), strings.Join(sp.stores, "; "), "the value of "+sp.name+" no longer reaches the fasthttp request in every place a handler reads it from ("+strings.Join(sp.stores, "; ")+")")
					}
				}
				return true
			})
			for _, sp := range specs {
				if !seen[sp.name] {
					r.bad(sp.name+" is accepted once", p.pos(fd.Pos()), "no case for "+sp.name+" in the pseudo-header switch of handleHeaderFrame")
				}
			}
			// :scheme is kept on the stream and put into the request URI once the block is complete (doing it earlier parses the URI early)
			if hf := p.decl("(*serverConn).handleFrame"); hf != nil {
				r.fn("(*serverConn).handleFrame")
				okS := false
				ast.Inspect(hf.Body, func(n ast.Node) bool {
					ifs, ok := n.(*ast.IfStmt)
					if !ok || squash(p.text(ifs.Cond)) != "fr.Flags().Has(FlagEndHeaders)" {
						return true
					}
					t := stmtTexts(p, ifs.Body.List)
					vi, si := -1, -1
					for i, x := range t {
						if strings.HasPrefix(x, "iferr:=validateRequestPseudoHeaders(strm);err!=nil{") {
							vi = i
						}
						if x == "strm.ctx.Request.URI().SetSchemeBytes(strm.scheme)" {
							si = i
						}
					}
					if vi >= 0 && si > vi {
						okS = true
					}
					return true
				})
				r.check(okS, ":scheme reaches the request URI when the block is complete", p.pos(hf.Pos()), "under END_HEADERS, after validateRequestPseudoHeaders: Request.URI().SetSchemeBytes(strm.scheme)", "the scheme the client sent no longer reaches the request's URI once the header block is complete: the handler sees fasthttp's default scheme whatever :scheme said")
			}
			// trailers carry no pseudo-header at all: the mark a regular field leaves is set when a trailer block starts
			okTr := false
			for _, st := range fd.Body.List {
				ifs, ok := st.(*ast.IfStmt)
				if !ok || !p.isConjunctionOf(ifs.Cond, "strm.headersFinished", "fr.Type()==FrameHeaders") {
					continue
				}
				if hasStmt(p, ifs.Body.List, "strm.regularSeen=true") {
					okTr = true
				}
			}
			r.check(okTr, "a pseudo-header in the trailers is turned away whatever the header block held", p.pos(fd.Pos()), "at the start of a trailer block: strm.regularSeen = true", "a trailer block no longer starts with the mark set that turns pseudo-header fields away: after a header block of pseudo-headers only, an :authority in the trailers goes into the request as its host and the handler runs on it")
			r.check(defReject, "any other pseudo-header is rejected", p.pos(fd.Pos()), "default: reject (stream error PROTOCOL_ERROR)", "a pseudo-header that is not one of the four request pseudo-headers (:status, say) is no longer a stream error")
		},
	})
}

// precededBy: walking from n up to root, some earlier sibling statement at one
// of the levels satisfies pred.
func precededBy(p *Prog, root ast.Node, n ast.Node, pred func(ast.Stmt) bool) bool {
	pm := p.pmFor(n)
	child := n
	for cur := pm[child]; cur != nil; child, cur = cur, pm[cur] {
		var list []ast.Stmt
		switch b := cur.(type) {
		case *ast.BlockStmt:
			list = b.List
		case *ast.CommClause:
			list = b.Body
		case *ast.CaseClause:
			list = b.Body
		}
		for _, st := range list {
			if st.Pos() >= child.Pos() {
				break
			}
			if pred(st) {
				return true
			}
		}
		if cur == root {
			break
		}
	}
	return false
}

func init() {
	register(&Rule{
		Name: "response-body-closed-with-the-response", Props: []string{"C17", "C13"}, Engine: "AST", Floor: 2,
		Doc: "a streamed response body is closed when the response is over, however it ends: every place sendData reports the response finished (sent in full, or given up after a failed Read) has closed the body stream first. What is behind the stream (a file, the pipe of a stream writer whose goroutine sits in a write to it) stays open otherwise, for as long as the process lives",
		Run: func(p *Prog, r *Out) {
			fd := p.decl("(*serverConn).sendData")
			if fd == nil {
				r.undecided("sendData", "?", "(*serverConn).sendData no longer resolves")
				return
			}
			r.fn("(*serverConn).sendData", "(*serverConn).closeBodyStream")
			n := 0
			ast.Inspect(fd.Body, func(x ast.Node) bool {
				ret, ok := x.(*ast.ReturnStmt)
				if !ok || len(ret.Results) != 1 || p.text(ret.Results[0]) != "true" {
					return true
				}
				n++
				closed := precededBy(p, fd.Body, ret, func(st ast.Stmt) bool { return squash(p.text(st)) == "sc.closeBodyStream(strm)" })
				r.check(closed, "sendData return "+strconv.Itoa(n)+" reports a finished response with its body stream closed", p.pos(ret.Pos()), "sc.closeBodyStream(strm) before return true", "sendData reports the response finished ("+p.pos(ret.Pos())+") without having closed its body stream: a file stays open, a stream writer's goroutine stays blocked in its pipe")
				return true
			})
			if n == 0 {
				r.undecided("sendData returns", "?", "no `return true` in sendData")
			}
		},
	})
}

func init() {
	register(&Rule{
		Name: "request-fields-sent-once", Props: []string{"C02"}, Engine: "AST", Floor: 3,
		Doc: "the header block of a request names each thing once: the four leading fields (:method, :path, :scheme, then user-agent) are each set on the scratch field and appended before the loop over the request's own header, that loop passes over user-agent (which has gone out already), lower-cases every name it sends and leaves out the connection-specific ones",
		Run: func(p *Prog, r *Out) {
			fd := p.decl("(*Conn).writeRequest")
			if fd == nil {
				r.undecided("writeRequest", "?", "no longer resolves")
				return
			}
			r.fn("(*Conn).writeRequest")
			t := stmtTexts(p, fd.Body.List)
			want := []string{"hf.SetBytes(StringMethod,req.Header.Method())", "hf.SetBytes(StringPath,req.URI().RequestURI())", "hf.SetBytes(StringScheme,req.URI().Scheme())", "hf.SetBytes(StringUserAgent,req.Header.UserAgent())"}
			at := -1
			okLead := true
			for _, w := range want {
				found := -1
				for i, x := range t {
					if x == w && i > at {
						found = i
						break
					}
				}
				if found < 0 || found+1 >= len(t) || t[found+1] != "enc.AppendHeaderField(h,hf,true)" {
					okLead = false
					break
				}
				at = found
			}
			var loop *ast.RangeStmt
			for i, s := range fd.Body.List {
				if rs, ok := s.(*ast.RangeStmt); ok && squash(p.text(rs.X)) == "req.Header.All()" && i > at {
					loop = rs
				}
			}
			r.check(okLead && loop != nil, "the four leading fields are each set and appended, in order, before the rest", p.pos(fd.Pos()), ":method, :path, :scheme, user-agent: hf.SetBytes(...); enc.AppendHeaderField(h, hf, true)", "writeRequest no longer sets and appends :method, :path, :scheme and user-agent, each once and in that order, ahead of the request's other fields: a pseudo-header is missing or comes after a regular field (a malformed request), or the field before it is sent twice in its place")
			if loop == nil {
				r.bad("the loop over the request's header", p.pos(fd.Pos()), "no `for k, v := range req.Header.All()` after the leading fields")
				return
			}
			lt := stmtTexts(p, loop.Body.List)
			has := func(w string) int {
				for i, x := range lt {
					if x == w {
						return i
					}
				}
				return -1
			}
			skip, set, low, conn, app := has("ifbytes.EqualFold(k,StringUserAgent){continue}"), has("hf.SetBytes(k,v)"), has("ToLower(hf.key)"), has("ifisConnectionSpecific(hf.key){continue}"), has("enc.AppendHeaderField(h,hf,false)")
			r.check(skip >= 0 && set > skip && low > set && conn > low && app > conn, "the rest goes out lower-cased, without user-agent again and without connection-specific fields", p.pos(loop.Pos()), "skip user-agent; hf.SetBytes(k, v); ToLower(hf.key); skip connection-specific; append", "the loop over the request's header no longer passes over user-agent (sent already: it would go out twice), lower-cases the name it is about to send (an upper-case name is a malformed request), and leaves out connection-specific fields, in that order before the append")
			r.check(skip >= 0, "user-agent is not sent a second time", p.pos(loop.Pos()), "if bytes.EqualFold(k, StringUserAgent) { continue }", "the loop over the request's header sends user-agent again after the leading fields have sent it")
		},
	})
}

func init() {
	register(&Rule{
		Name: "small-primitives", Props: []string{"C03", "C02", "C20", "C01", "C05"}, Engine: "FDE", Floor: 10,
		Doc: "three small functions much of the rest stands on: HeaderField.Empty is true exactly when both the name and the value are empty (the decoders take it for 'this step produced no field'; a field with an empty value is a field); HeaderField.Set and SetBytes set both the name and the value; parseUint starts from zero and takes each digit as ten times what it has plus the digit, after refusing a non-digit and a value that would not fit",
		Run: func(p *Prog, r *Out) {
			if fd := p.decl("(*HeaderField).Empty"); fd != nil && len(fd.Body.List) == 1 {
				r.fn("(*HeaderField).Empty")
				res := retResults(fd.Body.List[0])
				ok := false
				if len(res) == 1 {
					okE, _, _, folded := p.equivOver(res[0], fdeDomain{[]string{"len(hf.key)", "len(hf.value)"}, [][]int64{{0, 1, 2}, {0, 1, 2}}}, nil, func(e fdeEnv) int64 {
						return b2i(e["len(hf.key)"] == 0 && e["len(hf.value)"] == 0)
					})
					ok = okE && folded
				}
				r.check(ok, "a header field is empty exactly when it has neither name nor value", p.pos(fd.Pos()), "len(key) == 0 && len(value) == 0", "HeaderField.Empty is no longer 'no name and no value': a field whose value is empty is taken by the decoders for a step that produced nothing, and is dropped")
			} else {
				r.undecided("Empty", "?", "(*HeaderField).Empty no longer resolves as a single return")
			}
			for _, s := range []struct{ fn, a, b string }{
				{"(*HeaderField).Set", "hf.SetKey(k)", "hf.SetValue(v)"},
				{"(*HeaderField).SetBytes", "hf.SetKeyBytes(k)", "hf.SetValueBytes(v)"},
			} {
				fd := p.decl(s.fn)
				if fd == nil {
					r.undecided(s.fn, "?", "no longer resolves")
					continue
				}
				r.fn(s.fn)
				r.check(hasStmt(p, fd.Body.List, s.a) && hasStmt(p, fd.Body.List, s.b), s.fn+" sets the name and the value", p.pos(fd.Pos()), s.a+"; "+s.b, s.fn+" no longer sets both the name and the value of the field: the client's requests go out with the name or the value of the field before")
			}
			// the 31-bit quantities of the protocol (stream identifiers, the window increment) are cut to 31 bits
			// wherever one is stored: read off the wire the top bit is reserved and ignored, set by a caller it must go out as 0
			nMask := 0
			for _, f := range p.Files {
				pm := p.parentMaps()[f]
				ast.Inspect(f, func(n ast.Node) bool {
					as, ok := n.(*ast.AssignStmt)
					if !ok || len(as.Lhs) != 1 || len(as.Rhs) != 1 {
						return true
					}
					l := squash(p.text(as.Lhs[0]))
					if !(strings.HasSuffix(l, ".stream") || strings.HasSuffix(l, ".increment")) {
						return true
					}
					rhs := ast.Unparen(as.Rhs[0])
					if c, isC := rhs.(*ast.CallExpr); isC && p.isConversion(c) && len(c.Args) == 1 {
						rhs = ast.Unparen(c.Args[0])
					}
					be, isB := rhs.(*ast.BinaryExpr)
					if !isB || be.Op != token.AND {
						return true
					}
					k, okK := p.intConst(be.Y)
					nMask++
					fn := enclosingFunc(pm, as)
					r.check(okK && k == 1<<31-1, fn+" cuts "+l+" to 31 bits", p.pos(as.Pos()), "& (1<<31 - 1)", fn+" stores "+l+" through a mask other than 2^31-1: the reserved bit is taken for part of the value, or part of the value is thrown away")
					return true
				})
			}
			// ... and the 32-bit ones are not cut at all: an error code has no reserved bit
			for _, fn := range []string{"(*GoAway).SetCode", "(*RstStream).SetCode"} {
				fd := p.decl(fn)
				if fd == nil {
					continue
				}
				r.fn(fn)
				masked := false
				ast.Inspect(fd.Body, func(n ast.Node) bool {
					if be, ok := n.(*ast.BinaryExpr); ok && be.Op == token.AND {
						masked = true
					}
					return true
				})
				r.check(!masked, fn+" keeps all 32 bits of the error code", p.pos(fd.Pos()), "code stored as given", fn+" cuts the error code with a mask: a code has no reserved bit (RFC 7540 s6.4, s6.8), the parser keeps all 32, and a code read from one frame and set on another changes on the way")
			}
			if nMask < 6 {
				r.bad("31-bit masks", "?", fmt.Sprintf("only %d stores of a stream identifier or increment through a mask were found", nMask))
			}
			// the decoder's own account of whether a step produced a field: cleared on entry, set where a field representation has been decoded without error, stored nowhere else
			if fd := p.decl("(*HPACK).nextField"); fd != nil {
				r.fn("(*HPACK).nextField")
				t := stmtTexts(p, fd.Body.List)
				first, last := -1, -1
				for i, x := range t {
					if x == "hp.fieldDecoded=false" && first < 0 {
						first = i
					}
					if x == "hp.fieldDecoded=err==nil" {
						last = i
					}
				}
				others := 0
				for name, d := range p.funcDecls {
					if d.Body == nil || name == "(*HPACK).nextField" || name == "(*HPACK).Reset" {
						continue
					}
					ast.Inspect(d.Body, func(n ast.Node) bool {
						if as, ok := n.(*ast.AssignStmt); ok {
							for _, l := range as.Lhs {
								if strings.HasSuffix(squash(p.text(l)), ".fieldDecoded") {
									others++
								}
							}
						}
						return true
					})
				}
				// the label of the loop over size updates comes after the clearing; the final store sits just before the last return
				r.check(first >= 0 && first <= 2 && last == len(t)-2 && others == 0, "the decoder records whether a step produced a field", p.pos(fd.Pos()), "fieldDecoded = false on entry; fieldDecoded = err == nil before the final return; no other store", "HPACK.nextField no longer records, cleared on entry and set after a field representation has been decoded, whether the step produced a field (or something else stores the mark): the decode loops take its word, and a wrong word drops a field or counts a table size update as one")
			}
			if fd := p.decl("parseUint"); fd != nil {
				r.fn("parseUint")
				zero, step := false, false
				ast.Inspect(fd.Body, func(n ast.Node) bool {
					as, ok := n.(*ast.AssignStmt)
					if !ok || len(as.Lhs) != 1 || p.text(as.Lhs[0]) != "n" {
						return true
					}
					if as.Tok == token.DEFINE {
						if v, okv := p.intConst(as.Rhs[0]); okv && v == 0 {
							zero = true
						}
					}
					if as.Tok == token.ASSIGN {
						okE, _, _, folded := p.equivOver(as.Rhs[0], fdeDomain{[]string{"n", "c"}, [][]int64{{0, 1, 7, 12, 999}, {'0', '1', '5', '9'}}}, nil, func(e fdeEnv) int64 {
							return e["n"]*10 + (e["c"] - '0')
						})
						step = okE && folded
					}
					return true
				})
				r.check(zero && step, "parseUint accumulates base-10 digits from zero", p.pos(fd.Pos()), "n := 0; n = n*10 + int(c-'0')", "parseUint no longer starts at zero and takes each digit as ten times the value so far plus the digit: content-length and :status mean something else than what was sent")
			} else {
				r.undecided("parseUint", "?", "no longer resolves")
			}
		},
	})
}

func init() {
	register(&Rule{
		Name: "serialize-leaves-the-frame-alone", Props: []string{"C05"}, Engine: "AST", Floor: 8,
		Doc: "writing a frame does not change it: no Serialize method of a frame body assigns to a field of its receiver. What a Serialize adds for the wire (padding, the priority section) belongs in the frame header's payload; stored back into the body it is there the next time the body is read or written, as data",
		Run: func(p *Prog, r *Out) {
			var names []string
			for name := range p.funcDecls {
				if strings.HasSuffix(name, ").Serialize") {
					names = append(names, name)
				}
			}
			sortStrings(names)
			for _, name := range names {
				fd := p.funcDecls[name]
				if fd.Body == nil || fd.Recv == nil || len(fd.Recv.List) == 0 || len(fd.Recv.List[0].Names) == 0 {
					continue
				}
				r.fn(name)
				recv := fd.Recv.List[0].Names[0].Name
				stored := ""
				ast.Inspect(fd.Body, func(n ast.Node) bool {
					as, ok := n.(*ast.AssignStmt)
					if !ok {
						return true
					}
					for _, l := range as.Lhs {
						t := squash(p.text(l))
						if strings.HasPrefix(t, recv+".") {
							// an element store counts as well: h.rawHeaders[4] = ...
							f := strings.TrimPrefix(t, recv+".")
							if i := strings.IndexAny(f, "[."); i >= 0 {
								f = f[:i]
							}
							if stored == "" || !strings.Contains(stored, f) {
								if stored != "" {
									stored += ", "
								}
								stored += f
							}
						}
					}
					return true
				})
				key := name + " does not store into the frame it writes"
				if stored == "" {
					r.ok(key, p.pos(fd.Pos()), "no assignment to a field of the receiver")
				} else {
					r.bad(key, p.pos(fd.Pos()), name+" assigns to "+recv+"."+stored+" while it writes the frame: what it adds for the wire (padding, the priority section) stays in the frame, so the frame read back after a write, or written a second time, carries it as data")
				}
			}
		},
	})
}

func init() {
	register(&Rule{
		Name: "refusal-is-for-requests-in-order", Props: []string{"C08", "C13"}, Engine: "AST", Floor: 3,
		Doc: "the concurrency limit (and a connection that is closing) refuses requests, not frames: the refusing branch of the stream loop is entered only for a HEADERS frame on an id above the highest a request has named so far (decided once, before the id is published, as newRequest), so that every other frame on an id that names no stream is judged by that stream's state exactly as it is below the limit (RFC 7540 5.1: WINDOW_UPDATE or DATA on an idle stream is a connection error, whatever the handlers are doing); and a refused request still moves the mark that later ids are compared with (5.1.1)",
		Run: func(p *Prog, r *Out) {
			fd := p.decl("(*serverConn).handleStreams")
			if fd == nil {
				r.undecided("handleStreams", "?", "no longer resolves")
				return
			}
			r.fn("(*serverConn).handleStreams")
			var refuse *ast.IfStmt
			ast.Inspect(fd.Body, func(n ast.Node) bool {
				if ifs, ok := n.(*ast.IfStmt); ok && strings.Contains(squash(p.text(ifs.Cond)), "openStreams>=int(sc.st.maxStreams)") {
					refuse = ifs
				}
				return true
			})
			if refuse == nil {
				r.bad("the refusing branch", p.pos(fd.Pos()), "no branch testing openStreams >= maxStreams found in handleStreams")
				return
			}
			// (limit || closing) && HEADERS && id > lastID
			okCond := false
			if be, ok := ast.Unparen(refuse.Cond).(*ast.BinaryExpr); ok && be.Op == token.LAND {
				atoms := map[string]bool{}
				var lim ast.Expr
				for _, c := range conjunctsOf(refuse.Cond) {
					t := squash(p.text(ast.Unparen(c)))
					atoms[t] = true
					if strings.Contains(t, "openStreams>=") {
						lim = ast.Unparen(c)
					}
				}
				limOK := false
				if lim != nil {
					ds := map[string]bool{}
					for _, d := range disjuncts(lim) {
						ds[squash(p.text(d))] = true
					}
					limOK = len(ds) == 2 && ds["openStreams>=int(sc.st.maxStreams)"] && ds["wasClosing"]
				}
				okCond = limOK && atoms["newRequest"] && len(atoms) == 2 && p.newRequestDefined(fd, refuse)
			}
			r.check(okCond, "only a request that is in order is refused", p.pos(refuse.Pos()), "(openStreams >= maxStreams || wasClosing) && newRequest, newRequest := fr.Type() == FrameHeaders && fr.Stream() > highID decided before the id is published", "the stream loop refuses, at the concurrency limit or while closing, frames other than a HEADERS frame on an id above the latest: WINDOW_UPDATE or DATA on an idle stream, or HEADERS on an id below the latest, then comes back as RST_STREAM(REFUSED_STREAM) while the handlers are busy and is a connection error the moment one returns")
			// the refused id moves the ordering mark
			moves, promise := false, false
			for _, s := range refuse.Body.List {
				if squash(p.text(s)) == "highID=fr.Stream()" {
					moves = true
				}
			}
			ast.Inspect(refuse.Body, func(n ast.Node) bool {
				switch x := n.(type) {
				case *ast.AssignStmt:
					if strings.Contains(p.text(x.Lhs[0]), "lastID") {
						promise = true
					}
				case *ast.CallExpr:
					if p.calleeOf(x) == "atomic.StoreUint32" && len(x.Args) == 2 && strings.Contains(p.text(x.Args[0]), "lastID") {
						promise = true
					}
				}
				return true
			})
			r.check(!promise, "a refused request does not raise what a GOAWAY promises", p.pos(refuse.Pos()), "no store to sc.lastID in the refusing branch", "the refusing branch stores the refused id in sc.lastID: a GOAWAY then names, as the highest stream that was or will be processed, a request the peer was told was not processed at all (RFC 7540 s6.8)")
			key := "a refused request still moves the mark later ids are compared with"
			if moves {
				r.ok(key, p.pos(refuse.Pos()), "the refused id is recorded")
			} else {
				r.bad(key, p.pos(refuse.Pos()), "a request refused at the concurrency limit leaves no trace in what later stream ids are compared with (sc.lastID moves only when a request is accepted, and it is also the GOAWAY's last-stream-id, which a refused request must not raise): HEADERS on a lower id that the peer skipped is then accepted and served although RFC 7540 5.1.1 makes it a connection error, and after 256 more refusals the closed-stream memory has forgotten a stream that lastID still names, which is then served a second time")
			}
		},
	})
}

// newRequestDefined reports whether the condition `newRequest`, as read by the
// statement at, is `fr.Type() == FrameHeaders && fr.Stream() > highID` decided
// in the same block before the statement, with neither the frame nor the mark
// assigned in between and no second assignment of the name anywhere.
func (p *Prog) newRequestDefined(fd *ast.FuncDecl, at ast.Stmt) bool {
	pm := p.pmFor(fd)
	blk, ok := pm[at].(*ast.BlockStmt)
	if !ok {
		return false
	}
	var def ast.Stmt
	for _, s := range blk.List {
		if s.Pos() >= at.Pos() {
			break
		}
		if as, ok := s.(*ast.AssignStmt); ok && as.Tok == token.DEFINE && len(as.Lhs) == 1 && p.text(as.Lhs[0]) == "newRequest" && len(as.Rhs) == 1 {
			if p.isConjunctionOf(as.Rhs[0], "fr.Type()==FrameHeaders", "fr.Stream()>highID") {
				def = s
			}
		}
	}
	if def == nil {
		return false
	}
	clean := true
	ast.Inspect(fd.Body, func(n ast.Node) bool {
		as, ok := n.(*ast.AssignStmt)
		if !ok || as == def {
			return true
		}
		for _, l := range as.Lhs {
			switch t := squash(p.text(l)); {
			case t == "newRequest":
				clean = false
			case (t == "highID" || t == "fr") && as.Pos() > def.Pos() && as.Pos() < at.Pos():
				clean = false
			}
		}
		return true
	})
	return clean
}
