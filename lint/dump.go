package main

import (
	"fmt"
	"os"
)

func doDump(name string) {
	base, err := loadBase()
	if err != nil {
		fmt.Println(err)
		os.Exit(1)
	}
	p, err := base.build(nil)
	if err != nil {
		fmt.Println(err)
		os.Exit(1)
	}
	if name == "funcs" {
		for _, f := range p.allFuncs() {
			fmt.Println(p.fname(f))
		}
		return
	}
	f := p.ssaFunc(name)
	if f == nil {
		fmt.Println("no such function")
		os.Exit(1)
	}
	f.WriteTo(os.Stdout)
}
