package main

import (
	"fmt"
	"go/ast"
	"go/token"
	"sort"
	"strings"
)

// Lin is a linear form over opaque integer terms: sum(coef*term) + C.
// It lets rules compare arithmetic by meaning instead of spelling:
// "len(b) < 5", "5 > len(b)" and "!(len(b) >= 5)" canonicalise alike.
type Lin struct {
	T map[string]int64
	C int64
}

func (l Lin) add(o Lin, k int64) Lin {
	r := Lin{T: map[string]int64{}, C: l.C + k*o.C}
	for t, c := range l.T {
		r.T[t] = c
	}
	for t, c := range o.T {
		r.T[t] += k * c
		if r.T[t] == 0 {
			delete(r.T, t)
		}
	}
	return r
}

func (l Lin) scale(k int64) Lin {
	r := Lin{T: map[string]int64{}, C: l.C * k}
	for t, c := range l.T {
		if c*k != 0 {
			r.T[t] = c * k
		}
	}
	return r
}

func (l Lin) isConst() bool { return len(l.T) == 0 }

func (l Lin) String() string {
	var ks []string
	for k := range l.T {
		ks = append(ks, k)
	}
	sort.Strings(ks)
	var parts []string
	for _, k := range ks {
		c := l.T[k]
		switch c {
		case 1:
			parts = append(parts, "+"+k)
		case -1:
			parts = append(parts, "-"+k)
		default:
			parts = append(parts, fmt.Sprintf("%+d*%s", c, k))
		}
	}
	if l.C != 0 || len(parts) == 0 {
		parts = append(parts, fmt.Sprintf("%+d", l.C))
	}
	return strings.Join(parts, "")
}

func (l Lin) eq(o Lin) bool { return l.String() == o.String() }

// linOf computes the linear form of an integer expression. subst maps local
// variable names to defining expressions (single-assignment locals the caller
// wants seen through).
func (p *Prog) linOf(e ast.Expr, subst map[string]ast.Expr) Lin {
	e = ast.Unparen(e)
	if v, ok := p.intConst(e); ok {
		return Lin{T: map[string]int64{}, C: v}
	}
	switch x := e.(type) {
	case *ast.BinaryExpr:
		switch x.Op {
		case token.ADD:
			return p.linOf(x.X, subst).add(p.linOf(x.Y, subst), 1)
		case token.SUB:
			return p.linOf(x.X, subst).add(p.linOf(x.Y, subst), -1)
		case token.MUL:
			a, b := p.linOf(x.X, subst), p.linOf(x.Y, subst)
			if a.isConst() {
				return b.scale(a.C)
			}
			if b.isConst() {
				return a.scale(b.C)
			}
		}
	case *ast.CallExpr:
		// integer conversions are transparent
		if len(x.Args) == 1 {
			if tv, ok := p.infoFor(x).Types[x.Fun]; ok && tv.IsType() {
				return p.linOf(x.Args[0], subst)
			}
		}
	case *ast.Ident:
		if d, ok := subst[x.Name]; ok && d != nil {
			return p.linOf(d, subst)
		}
	}
	return Lin{T: map[string]int64{p.text(e): 1}}
}

// Cmp is a canonical comparison: L <= 0 (Op "le"), L == 0 ("eq"), L != 0 ("ne").
type Cmp struct {
	L  Lin
	Op string
}

func (c Cmp) String() string {
	switch c.Op {
	case "le":
		return c.L.String() + " <= 0"
	case "eq":
		return c.L.String() + " == 0"
	case "ne":
		return c.L.String() + " != 0"
	}
	return "?"
}

// canonCmp canonicalises an integer comparison; ok=false when e is not one.
func (p *Prog) canonCmp(e ast.Expr, subst map[string]ast.Expr) (Cmp, bool) {
	e = ast.Unparen(e)
	if u, ok := e.(*ast.UnaryExpr); ok && u.Op == token.NOT {
		c, ok := p.canonCmp(u.X, subst)
		if !ok {
			return c, false
		}
		return c.negate(), true
	}
	b, ok := e.(*ast.BinaryExpr)
	if !ok {
		return Cmp{}, false
	}
	x, y := p.linOf(b.X, subst), p.linOf(b.Y, subst)
	one := Lin{T: map[string]int64{}, C: 1}
	switch b.Op {
	case token.LSS: // x < y  <=> x - y + 1 <= 0
		return Cmp{x.add(y, -1).add(one, 1), "le"}, true
	case token.LEQ:
		return Cmp{x.add(y, -1), "le"}, true
	case token.GTR:
		return Cmp{y.add(x, -1).add(one, 1), "le"}, true
	case token.GEQ:
		return Cmp{y.add(x, -1), "le"}, true
	case token.EQL:
		return Cmp{normSign(x.add(y, -1)), "eq"}, true
	case token.NEQ:
		return Cmp{normSign(x.add(y, -1)), "ne"}, true
	}
	return Cmp{}, false
}

func (c Cmp) negate() Cmp {
	switch c.Op {
	case "le": // !(L <= 0) <=> L >= 1 <=> -L + 1 <= 0
		return Cmp{c.L.scale(-1).add(Lin{T: map[string]int64{}, C: 1}, 1), "le"}
	case "eq":
		return Cmp{c.L, "ne"}
	default:
		return Cmp{c.L, "eq"}
	}
}

// normSign makes the first term's coefficient positive so that a==b and b==a
// canonicalise alike.
func normSign(l Lin) Lin {
	var ks []string
	for k := range l.T {
		ks = append(ks, k)
	}
	sort.Strings(ks)
	if len(ks) > 0 && l.T[ks[0]] < 0 {
		return l.scale(-1)
	}
	if len(ks) == 0 && l.C < 0 {
		return l.scale(-1)
	}
	return l
}

// singleDefs returns the locals of fn that are defined once (:=) and never
// assigned again, with their defining expressions: safe to see through.
func singleDefs(body ast.Node) map[string]ast.Expr {
	defs := map[string]ast.Expr{}
	writes := map[string]int{}
	ast.Inspect(body, func(n ast.Node) bool {
		switch x := n.(type) {
		case *ast.AssignStmt:
			for i, l := range x.Lhs {
				id, ok := l.(*ast.Ident)
				if !ok {
					continue
				}
				writes[id.Name]++
				if x.Tok == token.DEFINE && len(x.Lhs) == len(x.Rhs) {
					defs[id.Name] = x.Rhs[i]
				}
			}
		case *ast.IncDecStmt:
			if id, ok := x.X.(*ast.Ident); ok {
				writes[id.Name] += 2
			}
		case *ast.RangeStmt:
			for _, e := range []ast.Expr{x.Key, x.Value} {
				if id, ok := e.(*ast.Ident); ok {
					writes[id.Name] += 2
				}
			}
		}
		return true
	})
	for k := range defs {
		if writes[k] != 1 {
			delete(defs, k)
		}
	}
	return defs
}
