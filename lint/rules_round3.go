package main

import (
	"fmt"
	"go/ast"
	"go/token"
	"go/types"
	"strings"

	"golang.org/x/tools/go/ssa"
)

// Clauses that came out of the third hunting round (C03, C05, C18, C20).

func init() {
	register(&Rule{
		Name: "decoded-field-state", Props: []string{"C03", "C19"}, Engine: "AST", Floor: 2,
		Doc: "what a decoded field reports is a function of its own representation: the field decoder clears the sensitive mark at the start of every field (callers decode a whole block into one HeaderField, and an entry copied into the dynamic table takes the mark with it), and sets it only in the never-indexed case",
		Run: func(p *Prog, r *Out) {
			fd := p.decl("(*HPACK).nextField")
			if fd == nil {
				r.undecided("nextField", "?", "no longer resolves")
				return
			}
			r.fn("(*HPACK).nextField")
			clearAt, switchAt := token.NoPos, token.NoPos
			sets := 0
			var setCase string
			for _, s := range fd.Body.List {
				st := s
				if ls, ok := s.(*ast.LabeledStmt); ok {
					st = ls.Stmt
				}
				if squash(p.text(st)) == "hf.sensible=false" && !clearAt.IsValid() {
					clearAt = st.Pos()
				}
				if sw, ok := st.(*ast.SwitchStmt); ok && !switchAt.IsValid() {
					switchAt = sw.Pos()
					for _, c := range sw.Body.List {
						cc := c.(*ast.CaseClause)
						for _, b := range cc.Body {
							if squash(p.text(b)) == "hf.sensible=true" {
								sets++
								if len(cc.List) == 1 {
									setCase = squash(p.text(cc.List[0]))
								}
							}
						}
					}
				}
			}
			r.check(clearAt.IsValid() && switchAt.IsValid() && clearAt < switchAt, "the sensitive mark is cleared before every field", p.pos(fd.Pos()), "hf.sensible = false in front of the representation switch (after the loop label)", "the field decoder no longer clears the sensitive mark before it decodes a field: every field after a never-indexed one in the same block is reported sensitive, and the next indexed one carries the mark into the dynamic table")
			// the exported one-field decoder has no way to know where a block starts
			if nx := p.decl("(*HPACK).Next"); nx != nil {
				r.fn("(*HPACK).Next")
				res := singleReturn(nx)
				positional := true
				if c, ok := res.(*ast.CallExpr); ok && p.calleeOf(c) == "(*HPACK).nextField" && len(c.Args) == 4 && p.text(c.Args[1]) == "true" {
					positional = false
				}
				r.check(positional, "(*HPACK).Next tells the decoder where in the block it is", p.pos(nx.Pos()), "block position passed on", "HPACK.Next always decodes as if at the start of a block: a dynamic table size update after a field, which RFC 7541 s4.2 makes a decoding error, is accepted and applied by users of the exported decoder (the library's own connections use the positional decoder)")
			}
			r.check(sets == 1 && setCase == "c&noIndexByte==16", "only the never-indexed representation sets it", p.pos(fd.Pos()), "hf.sensible = true under case c&noIndexByte == 16 only", fmt.Sprintf("the sensitive mark is set %d times (under %q): it belongs to the never-indexed literal (0001xxxx) alone", sets, setCase))
		},
	})
	register(&Rule{
		Name: "reread-rewrite-frames", Props: []string{"C05", "C16"}, Engine: "AST", Floor: 8,
		Doc: "a frame that was read can be written again and a FrameHeader can be read into again: readFrom empties the payload of a zero-length frame; every Deserialize that cuts padding takes the PADDED flag off the header it read from; FrameFlags.Del clears (AND NOT) rather than toggles; the exclusive bit of a stream dependency is bit 7 of its first octet in both directions; Headers.CopyTo copies the presence of the priority section",
		Run: func(p *Prog, r *Out) {
			if fd := p.decl("(*FrameHeader).readFrom"); fd != nil {
				r.fn("(*FrameHeader).readFrom")
				okE := false
				for _, s := range fd.Body.List {
					ifs, ok := s.(*ast.IfStmt)
					if !ok || squash(p.text(ifs.Cond)) != "f.length>0" {
						continue
					}
					if eb, ok := ifs.Else.(*ast.BlockStmt); ok && len(eb.List) == 1 && squash(p.text(eb.List[0])) == "f.payload=f.payload[:0]" {
						okE = true
					}
				}
				r.check(okE, "an empty frame gets an empty payload", p.pos(fd.Pos()), "if f.length > 0 { read } else { f.payload = f.payload[:0] }", "readFrom no longer empties the payload buffer for a zero-length frame: read into a FrameHeader that held another frame, it is deserialised from that frame's octets")
			} else {
				r.undecided("readFrom", "?", "no longer resolves")
			}
			for _, fn := range []string{"(*Data).Deserialize", "(*Headers).Deserialize", "(*PushPromise).Deserialize"} {
				fd := p.decl(fn)
				if fd == nil {
					r.undecided(fn, "?", "no longer resolves")
					continue
				}
				r.fn(fn)
				hdr := fd.Type.Params.List[0].Names[0].Name
				okC := false
				ast.Inspect(fd.Body, func(n ast.Node) bool {
					ifs, ok := n.(*ast.IfStmt)
					if !ok || !strings.Contains(p.text(ifs.Cond), "FlagPadded") {
						return true
					}
					cut, cleared := token.NoPos, token.NoPos
					for _, s := range ifs.Body.List {
						if strings.Contains(p.text(s), "CutPadding(") && !cut.IsValid() {
							cut = s.Pos()
						}
						t := squash(p.text(s))
						if t == hdr+".SetFlags("+hdr+".Flags().Del(FlagPadded))" || t == hdr+".SetFlags(flags.Del(FlagPadded))" {
							cleared = s.Pos()
						}
					}
					if cut.IsValid() && cleared.IsValid() && cut < cleared {
						okC = true
					}
					return true
				})
				r.check(okC, fn+" takes PADDED off with the padding", p.pos(fd.Pos()), "after CutPadding: header.SetFlags(flags.Del(FlagPadded))", fn+" cuts the padding but leaves the PADDED flag on the frame header: written out again the frame claims a Pad Length octet it no longer has, and the peer reads the first payload octet as one")
			}
			if fd := p.decl("(FrameFlags).Del"); fd != nil {
				res := singleReturn(fd)
				r.check(res != nil && squash(p.text(res)) == "flags&^f", "Del clears a flag", p.pos(fd.Pos()), "flags &^ f", "FrameFlags.Del no longer clears the given bits (AND NOT): with XOR it sets a flag that was not set")
			} else {
				r.undecided("(FrameFlags).Del", "?", "no longer resolves")
			}
			// exclusive bit: 0x80 of octet 0, read and written
			for _, site := range []struct{ fn, read, write string }{
				{"Priority", "pry.exclusive=fr.payload[0]&0x80!=0", "ifpry.exclusive{fr.payload[0]|=0x80}"},
				{"Headers", "h.exclusive=payload[0]&0x80!=0", "ifh.exclusive{h.rawHeaders[0]|=0x80}"},
			} {
				rd, wr := false, false
				for _, m := range []string{"Deserialize", "Serialize"} {
					fd := p.decl("(*" + site.fn + ")." + m)
					if fd == nil {
						continue
					}
					ast.Inspect(fd.Body, func(n ast.Node) bool {
						if st, ok := n.(ast.Stmt); ok {
							t := squash(p.text(st))
							if t == site.read {
								rd = true
							}
							// the octet is the first of the section wherever it is assembled: in the body's buffer or in the payload being built
							if t == site.write || (site.fn == "Headers" && t == "ifh.exclusive{payload[0]|=0x80}") {
								wr = true
							}
						}
						return true
					})
				}
				r.check(rd && wr, site.fn+" keeps the exclusive bit", "priority.go", "bit 7 of the first octet of the stream dependency, read and written", site.fn+" no longer reads the exclusive flag from, and writes it to, bit 7 of the first octet of the stream dependency (RFC 7540 s6.3)")
			}
			if fd := p.decl("(*Headers).CopyTo"); fd != nil {
				r.check(hasStmt(p, fd.Body.List, "h2.priority=h.priority") && hasStmt(p, fd.Body.List, "h2.exclusive=h.exclusive"), "Headers.CopyTo copies the priority section's presence", p.pos(fd.Pos()), "h2.priority = h.priority; h2.exclusive = h.exclusive", "a copy of a HEADERS frame loses its priority section (or the exclusive bit of it)")
			}
		},
	})
	register(&Rule{
		Name: "message-consistency", Props: []string{"C20", "C18", "C01"}, Engine: "AST", Floor: 5,
		Doc: "a request with two content-length fields that disagree is refused before the second one is stored; the client builds its own SETTINGS from the defaults (which are what it enforces) before it customises them; a SETTINGS frame from the server that sets ENABLE_PUSH is a connection error in the handshake and afterwards, and is not applied",
		Run: func(p *Prog, r *Out) {
			if fd := p.decl("(*serverConn).handleHeaderFrame"); fd != nil {
				r.fn("(*serverConn).handleHeaderFrame")
				rejAt, storeAt := token.NoPos, token.NoPos
				ast.Inspect(fd.Body, func(n ast.Node) bool {
					switch x := n.(type) {
					case *ast.IfStmt:
						if p.isConjunctionOf(x.Cond, "strm.hasContentLength", "n!=strm.contentLength") && isRejectingBody(p, x.Body) {
							rejAt = x.Pos()
						}
					case *ast.AssignStmt:
						if squash(p.text(x)) == "strm.contentLength=n" {
							storeAt = x.Pos()
						}
					}
					return true
				})
				r.check(rejAt.IsValid() && storeAt.IsValid() && rejAt < storeAt, "conflicting content-length fields are refused", p.pos(fd.Pos()), "if hasContentLength && n != contentLength { reject } before contentLength = n", "a second content-length that disagrees with the first is stored over it: the body is checked against whichever came last, trailers included (RFC 7230 s3.3.2)")
			}
			// what is compared with content-length is the body, not the frames: padding
			// and the Pad Length octet are not part of it (RFC 7540 s8.1.2.6)
			if fd := p.decl("(*serverConn).handleFrame"); fd != nil {
				r.fn("(*serverConn).handleFrame")
				dataDef, adv := false, false
				ast.Inspect(fd.Body, func(n ast.Node) bool {
					as, ok := n.(*ast.AssignStmt)
					if !ok {
						return true
					}
					t := squash(p.text(as))
					if t == "data:=fr.Body().(*Data).Data()" {
						dataDef = true
					}
					if t == "strm.recvBody+=len(data)" {
						adv = true
					}
					return true
				})
				r.check(dataDef && adv, "the body length counted is the data, without padding", p.pos(fd.Pos()), "data := frame's Data(); recvBody += len(data)", "the count that is compared with content-length is no longer advanced by the length of the DATA frame's data alone: with the frame length, a padded body of the declared length is refused as a mismatch")
			}
			if fd := p.decl("NewConn"); fd != nil {
				r.fn("NewConn")
				resetAt, firstSet := token.NoPos, token.NoPos
				ast.Inspect(fd.Body, func(n ast.Node) bool {
					es, ok := n.(*ast.ExprStmt)
					if !ok {
						return true
					}
					t := squash(p.text(es.X))
					if t == "nc.current.Reset()" {
						resetAt = es.Pos()
					} else if strings.HasPrefix(t, "nc.current.Set") && !firstSet.IsValid() {
						firstSet = es.Pos()
					}
					return true
				})
				r.check(resetAt.IsValid() && (!firstSet.IsValid() || resetAt < firstSet), "the client's own settings start from the defaults", p.pos(fd.Pos()), "nc.current.Reset() before the setters", "NewConn customises a zero Settings value: every parameter it does not set is sent as 0 (no header table, no streams), which is not what the client enforces")
			}
			// ENABLE_PUSH from the server
			sites := 0
			for _, fn := range []string{"(*Conn).doHandshake", "(*Conn).readNext"} {
				fd := p.decl(fn)
				if fd == nil {
					r.undecided(fn, "?", "no longer resolves")
					continue
				}
				r.fn(fn)
				okS := false
				ast.Inspect(fd.Body, func(n ast.Node) bool {
					ifs, ok := n.(*ast.IfStmt)
					if !ok {
						return true
					}
					c := squash(p.text(ifs.Cond))
					if c != "st.Push()" && c != "!st.IsAck()&&st.Push()" {
						return true
					}
					conn := false
					ast.Inspect(ifs.Body, func(m ast.Node) bool {
						if e, ok := m.(ast.Expr); ok {
							if cl, code, ok := p.errorCall(e); ok && cl == "GoAway" && code == 1 {
								conn = true
							}
						}
						return true
					})
					leaves := false
					if len(ifs.Body.List) > 0 {
						switch x := ifs.Body.List[len(ifs.Body.List)-1].(type) {
						case *ast.ReturnStmt:
							leaves = true
						case *ast.BranchStmt:
							leaves = x.Tok == token.BREAK
						}
					}
					if conn && leaves {
						okS = true
					}
					return true
				})
				if okS {
					sites++
				}
				r.check(okS, fn+" refuses a server that enables push", p.pos(fd.Pos()), "if st.Push() { PROTOCOL_ERROR; leave }", fn+" no longer treats SETTINGS_ENABLE_PUSH = 1 from the server as a connection error before it applies the frame (RFC 7540 s8.2)")
			}
		},
	})
}

func init() {
	register(&Rule{
		Name: "table-size-low-point", Props: []string{"C04", "C18"}, Engine: "AST", Floor: 6,
		Doc: "the lowest SETTINGS_HEADER_TABLE_SIZE the peer went through reaches the encoder before the final one (RFC 7541 s4.2): Settings.Read keeps the lowest value a frame carried; the server gives it to its encoder before the merged value; the client's read loop lowers an atomic low-water mark (never raises it) before it stores the latest value, and the write loop takes the mark (resetting it to the sentinel NewConn starts it at), gives it to the encoder first and then moves encoder and marker to the latest value",
		Run: func(p *Prog, r *Out) {
			r.fn("(*Settings).Read", "(*serverConn).handleSettings", "(*Conn).handleSettings", "(*Conn).writeRequest", "NewConn")
			// Read
			if fd := p.decl("(*Settings).Read"); fd != nil {
				okR := false
				ast.Inspect(fd.Body, func(n ast.Node) bool {
					cc, ok := n.(*ast.CaseClause)
					if !ok || len(cc.List) != 1 || p.text(cc.List[0]) != "HeaderTableSize" {
						return true
					}
					lowAt, setAt := token.NoPos, token.NoPos
					for _, s := range cc.Body {
						if ifs, ok := s.(*ast.IfStmt); ok && len(ifs.Body.List) == 1 && squash(p.text(ifs.Body.List[0])) == "st.tableSizeLow=value" {
							if atoms, pure := pureJunction(ifs.Cond, false); pure && len(atoms) == 2 {
								got := map[string]bool{}
								for _, a := range atoms {
									t := squash(p.text(a.Cond))
									if a.Val {
										t = "!" + t
									}
									got[t] = true
								}
								if got["!st.has(HeaderTableSize)"] && got["value<st.tableSizeLow"] {
									lowAt = ifs.Pos()
								}
							}
						}
						if squash(p.text(s)) == "st.tableSize=value" {
							setAt = s.Pos()
						}
					}
					okR = lowAt.IsValid() && setAt.IsValid()
					return true
				})
				r.check(okR, "Read keeps the lowest table size a frame carried", p.pos(fd.Pos()), "if !has(HEADER_TABLE_SIZE) || value < tableSizeLow { tableSizeLow = value }", "Settings.Read no longer keeps the smallest SETTINGS_HEADER_TABLE_SIZE of a frame that carries the parameter more than once (first occurrence sets it, later ones only lower it)")
			}
			if fd := p.decl("(*serverConn).handleSettings"); fd != nil {
				lowAt, finAt := token.NoPos, token.NoPos
				for _, s := range fd.Body.List {
					if squash(p.text(s)) == "ifst.has(HeaderTableSize){sc.enc.SetMaxTableSize(st.tableSizeLow)}" {
						lowAt = s.Pos()
					}
					if squash(p.text(s)) == "sc.enc.SetMaxTableSize(sc.clientS.HeaderTableSize())" {
						finAt = s.Pos()
					}
				}
				r.check(lowAt.IsValid() && finAt.IsValid() && lowAt < finAt, "the server's encoder hears the low point first", p.pos(fd.Pos()), "if st.has(HEADER_TABLE_SIZE) { enc.SetMaxTableSize(st.tableSizeLow) }; enc.SetMaxTableSize(merged)", "the server no longer gives its encoder the lowest table size of the frame before the final one: a frame that lowers and raises the size is announced as no change, and the next response refers to entries the peer dropped")
			}
			if fd := p.decl("(*Conn).handleSettings"); fd != nil {
				casAt, storeAt := token.NoPos, token.NoPos
				ast.Inspect(fd.Body, func(n ast.Node) bool {
					switch x := n.(type) {
					case *ast.IfStmt:
						if squash(p.text(x.Cond)) == "st.has(HeaderTableSize)" {
							t := squash(p.fullText(x.Body))
							if strings.Contains(t, "old:=atomic.LoadUint32(&c.encTableSizeLow)") && strings.Contains(t, "ifst.tableSizeLow>=old||atomic.CompareAndSwapUint32(&c.encTableSizeLow,old,st.tableSizeLow){break}") {
								casAt = x.Pos()
							}
						}
					case *ast.ExprStmt:
						if squash(p.text(x.X)) == "atomic.StoreUint32(&c.encTableSize,c.serverS.HeaderTableSize())" {
							storeAt = x.Pos()
						}
					}
					return true
				})
				r.check(casAt.IsValid() && storeAt.IsValid() && casAt < storeAt, "the client's read loop lowers the mark, then stores the latest size", p.pos(fd.Pos()), "CAS loop: low = min(low, frame's lowest); then encTableSize = merged", "the client's read loop no longer records the lowest table size the server went through (lowering the mark only, and before the latest value is stored): two SETTINGS frames between two requests that end where they started leave the encoder with entries the server dropped")
			}
			if fd := p.decl("(*Conn).writeRequest"); fd != nil {
				var t []string
				for _, s := range fd.Body.List {
					t = append(t, squash(p.fullText(s)))
				}
				swap, apply := false, false
				for i, x := range t {
					if x == "low:=atomic.SwapUint32(&c.encTableSizeLow,noTableSizeLow)" {
						swap = true
						if i+1 < len(t) && strings.HasPrefix(t[i+1], "ifsize:=atomic.LoadUint32(&c.encTableSize);low!=noTableSizeLow||size!=c.encTableSizeSeen{") &&
							strings.Contains(t[i+1], "iflow!=noTableSizeLow{c.enc.SetMaxTableSize(low)}c.encTableSizeSeen=sizec.enc.SetMaxTableSize(size)") {
							apply = true
						}
					}
				}
				// the first SETTINGS frame is applied by the handshake on its own: low point first there too
				if hd := p.decl("(*Conn).doHandshake"); hd != nil {
					r.fn("(*Conn).doHandshake")
					okHs := false
					ast.Inspect(hd.Body, func(n ast.Node) bool {
						blk, ok := n.(*ast.BlockStmt)
						if !ok {
							return true
						}
						t := stmtTexts(p, blk.List)
						lo, fi := -1, -1
						for i, x := range t {
							if x == "ifst.has(HeaderTableSize)&&st.tableSizeLow<size{c.enc.SetMaxTableSize(st.tableSizeLow)}" {
								lo = i
							}
							if x == "c.enc.SetMaxTableSize(size)" {
								fi = i
							}
						}
						if lo >= 0 && fi > lo {
							okHs = true
						}
						return true
					})
					r.check(okHs, "the handshake applies the low point of the first SETTINGS frame", p.pos(hd.Pos()), "if has(HEADER_TABLE_SIZE) && low < size { enc.Set(low) }; enc.Set(size)", "doHandshake no longer gives the encoder the lowest HEADER_TABLE_SIZE of the server's first SETTINGS frame before the final one: [0, 4096] there leaves the first request block without the update to 0 that a decoder which emptied its table is owed (RFC 7541 s4.2)")
				}
				r.check(swap && apply, "the client's write loop takes the mark and applies low, then latest", p.pos(fd.Pos()), "low := Swap(mark, sentinel); if low != sentinel || size != seen { if low != sentinel { enc.Set(low) }; seen = size; enc.Set(size) }", "the client's write loop no longer takes the low-water mark (resetting it), hands it to the encoder first and then moves encoder and marker to the latest size")
			}
			if fd := p.decl("NewConn"); fd != nil {
				okN := false
				ast.Inspect(fd.Body, func(n ast.Node) bool {
					if as, ok := n.(*ast.AssignStmt); ok && squash(p.text(as)) == "nc.encTableSizeLow=noTableSizeLow" {
						okN = true
					}
					return true
				})
				v, okc := p.pkgConst("noTableSizeLow")
				r.check(okN && okc && v == 1<<32-1, "the mark starts at the sentinel, which no size can be below", p.pos(fd.Pos()), "encTableSizeLow = noTableSizeLow = 2^32-1", "the low-water mark no longer starts at a sentinel above every possible size: a fresh connection announces a table size of 0 it was never asked for")
			}
			if fd := p.decl("(*Settings).Reset"); fd != nil {
				r.check(hasStmt(p, fd.Body.List, "st.tableSizeLow=defaultHeaderTableSize"), "a recycled Settings starts with no low point", p.pos(fd.Pos()), "tableSizeLow = default", "Settings.Reset no longer resets the lowest table size: a pooled frame object carries the previous frame's low point")
			}
		},
	})
}

func init() {
	register(&Rule{
		Name: "timer-callbacks-idempotent", Props: []string{"C17", "C19"}, Engine: "AST", Floor: 2,
		Doc: "a function a timer runs can run again (re-arming an AfterFunc timer that has fired runs it again) and on a goroutine nothing recovers: the idle callback tells the stream loop through the one-token channel with a non-blocking send and never closes it, and nothing else closes that channel",
		Run: func(p *Prog, r *Out) {
			fd := p.decl("(*serverConn).closeIdleConn")
			if fd == nil {
				r.undecided("closeIdleConn", "?", "no longer resolves")
				return
			}
			r.fn("(*serverConn).closeIdleConn", "(*serverConn).Serve")
			okSend := false
			for _, s := range fd.Body.List {
				if sel, ok := s.(*ast.SelectStmt); ok && len(sel.Body.List) == 2 {
					send, def := false, false
					for _, c := range sel.Body.List {
						cc := c.(*ast.CommClause)
						if cc.Comm == nil {
							def = true
						} else if squash(p.text(cc.Comm)) == "sc.closer<-struct{}{}" {
							send = true
						}
					}
					okSend = send && def
				}
			}
			r.check(okSend, "the idle callback tells the stream loop without blocking", p.pos(fd.Pos()), "select { case sc.closer <- struct{}{}: default: }", "closeIdleConn no longer hands the stream loop its token with a send that cannot block: run twice it parks the timer goroutine, or (closing instead) panics it")
			closes := []string{}
			for _, f := range p.Files {
				pm := p.parentMaps()[f]
				inspectCalls(f, func(c *ast.CallExpr) {
					if p.calleeOf(c) == "builtin.close" && len(c.Args) == 1 && squash(p.text(c.Args[0])) == "sc.closer" {
						closes = append(closes, enclosingFunc(pm, c)+" "+p.pos(c.Pos()))
					}
				})
			}
			r.check(len(closes) == 0, "nothing closes the idle channel", p.pos(fd.Pos()), "sc.closer is only ever sent on", "sc.closer is closed in "+strings.Join(closes, ", ")+": the idle timer's function runs again whenever the stream loop re-arms a timer that has fired, and closing a closed channel panics on a goroutine nothing recovers, which ends the process")
			// the channel holds one token
			made := false
			if sv := p.decl("(*serverConn).Serve"); sv != nil {
				made = hasStmt(p, sv.Body.List, "sc.closer=make(chanstruct{},1)")
			}
			r.check(made, "the idle channel holds one token", p.pos(fd.Pos()), "sc.closer = make(chan struct{}, 1)", "sc.closer is no longer a channel with a buffer of one: the non-blocking send of the idle callback is lost when the stream loop is busy")
		},
	})
}

func init() {
	register(&Rule{
		Name: "response-blocks-in-order", Props: []string{"C02", "C20"}, Engine: "AST", Floor: 5,
		Doc: "the client knows which header block of a response it is reading: a request records that its header block (final status) has arrived, readStreamOwned tells the connection's block state so when a HEADERS frame opens the next block and takes the verdict back, the pool reset clears the record, a block is final exactly when it ends with a status of 200 or more outside trailers, and a pseudo-header in trailers is refused before anything is stored",
		Run: func(p *Prog, r *Out) {
			r.fn("(*Conn).readStreamOwned", "(*Conn).readHeader", "acquireCtx")
			if fd := p.decl("(*Conn).readStreamOwned"); fd != nil {
				t := []string{}
				for _, s := range fd.Body.List {
					t = append(t, squash(p.fullText(s)))
				}
				in, call, out := -1, -1, -1
				for i, x := range t {
					switch x {
					case "iffr.Type()==FrameHeaders{c.block.trailers=r.headersDone}":
						in = i
					case "err:=c.readStream(fr,r.Response)":
						call = i
					case "ifc.block.final{c.block.final=falser.headersDone=true}":
						out = i
					}
				}
				r.check(in >= 0 && in < call && call < out, "the request and the block state exchange what they know around the read", p.pos(fd.Pos()), "HEADERS: block.trailers = r.headersDone; read; if block.final { r.headersDone = true }", "readStreamOwned no longer tells the block state whether the request already has its header block before the frame is read, and records afterwards that it has")
			} else {
				r.undecided("readStreamOwned", "?", "no longer resolves")
			}
			if fd := p.decl("acquireCtx"); fd != nil {
				r.check(hasStmt(p, fd.Body.List, "ctx.headersDone=false"), "a recycled Ctx has no header block yet", p.pos(fd.Pos()), "ctx.headersDone = false", "a Ctx from the pool keeps the previous request's record: the next response's header block is taken for trailers and refused for its :status")
			}
			if fd := p.decl("(*Conn).readHeader"); fd != nil {
				// trailers: refused before the status is looked at
				trAt, stAt := token.NoPos, token.NoPos
				ast.Inspect(fd.Body, func(n ast.Node) bool {
					switch x := n.(type) {
					case *ast.IfStmt:
						if squash(p.text(x.Cond)) == "c.block.trailers" && len(x.Body.List) == 1 && squash(p.text(x.Body.List[0])) == "returnc.skipFields(fr,b,errPseudoInTrailers)" {
							trAt = x.Pos()
						}
					case *ast.CallExpr:
						if strings.HasSuffix(p.calleeOf(x), ".SetStatusCode") {
							stAt = x.Pos()
						}
					}
					return true
				})
				r.check(trAt.IsValid() && stAt.IsValid() && trAt < stAt, "a pseudo-header in trailers is refused", p.pos(fd.Pos()), "if block.trailers { reject } before the status is stored", "a :status in the trailers is no longer refused before it is stored: it replaces the status the response came with (RFC 7540 s8.1.2.1: trailers carry no pseudo-header fields)")
				// final: END_HEADERS && !trailers { !statusSeen -> reject; status >= 200 -> final }
				okFin := false
				for _, s := range fd.Body.List {
					ifs, ok := s.(*ast.IfStmt)
					if !ok || !p.isConjunctionOf(ifs.Cond, "fr.Flags().Has(FlagEndHeaders)", "!c.block.trailers") || len(ifs.Body.List) != 2 {
						continue
					}
					a, okA := ifs.Body.List[0].(*ast.IfStmt)
					b, okB := ifs.Body.List[1].(*ast.IfStmt)
					if okA && okB && squash(p.text(a.Cond)) == "!c.block.statusSeen" && isRejectingBody(p, a.Body) &&
						squash(p.text(b.Cond)) == "res.StatusCode()>=200" && len(b.Body.List) == 1 && squash(p.text(b.Body.List[0])) == "c.block.final=true" {
						okFin = true
					}
				}
				r.check(okFin, "a block is the response's header block when it ends with a final status", p.pos(fd.Pos()), "END_HEADERS && !trailers: no status -> reject; status >= 200 -> final", "readHeader no longer decides at the end of a non-trailer block that it must have had a :status and that a status of 200 or more makes it the response's header block (1xx blocks are interim)")
			}
			if fd := p.decl("(*headerBlock).open"); fd != nil {
				okO := false
				if len(fd.Body.List) > 0 {
					if ifs, ok := fd.Body.List[0].(*ast.IfStmt); ok {
						okO = hasStmt(p, ifs.Body.List, "hb.statusSeen=false") && hasStmt(p, ifs.Body.List, "hb.final=false")
					}
				}
				r.check(okO, "a new block has had no :status", p.pos(fd.Pos()), "statusSeen = false; final = false on a frame that opens a block", "open no longer clears the :status marks when a HEADERS frame starts a block: the next block is refused for a duplicate, or taken for final without a status")
			}
		},
	})
}

func init() {
	register(&Rule{
		Name: "teardown-lets-go", Props: []string{"C17", "C13"}, Engine: "AST", Floor: 4,
		Doc: "what a connection holds is let go of when it ends: the ping callback re-arms its timer only while the writer is neither stopped nor gone; the stream loop, after it has closed handlerStop, closes the body streams of the responses still in its table and of those reported on handlerDone, never of a stream whose handler is still running; a handler that finds the loop gone closes the body stream of its own response",
		Run: func(p *Prog, r *Out) {
			r.fn("(*serverConn).sendPingAndSchedule", "(*serverConn).handleStreams", "(*serverConn).dispatchHandler", "(*serverConn).dropResponse")
			if fd := p.decl("(*serverConn).sendPingAndSchedule"); fd != nil {
				l := fd.Body.List
				okP := false
				if len(l) == 3 && squash(p.text(l[0])) == "sc.writePing()" && squash(p.text(l[2])) == "sc.pingTimer.Reset(sc.pingInterval)" {
					if sel, ok := l[1].(*ast.SelectStmt); ok && len(sel.Body.List) == 3 {
						stop, gone, def := false, false, false
						for _, c := range sel.Body.List {
							cc := c.(*ast.CommClause)
							ret := len(cc.Body) == 1 && squash(p.text(cc.Body[0])) == "return"
							switch {
							case cc.Comm == nil:
								def = len(cc.Body) == 0
							case squash(p.text(cc.Comm)) == "<-sc.writeStop":
								stop = ret
							case squash(p.text(cc.Comm)) == "<-sc.writeGone":
								gone = ret
							}
						}
						okP = stop && gone && def
					}
				}
				r.check(okP, "the ping timer is re-armed only on a live connection", p.pos(fd.Pos()), "writePing; select { <-writeStop: return; <-writeGone: return; default: }; Reset", "sendPingAndSchedule re-arms its timer without looking whether the writer has been stopped or has gone: a ping released by the teardown brings the timer back, and it fires for good on a dead connection")
			} else {
				r.undecided("sendPingAndSchedule", "?", "no longer resolves")
			}
			if fd := p.decl("(*serverConn).handleStreams"); fd != nil {
				dropAt, stopAt := token.NoPos, token.NoPos
				okBody := false
				for _, s := range fd.Body.List {
					d, ok := s.(*ast.DeferStmt)
					if !ok {
						continue
					}
					if squash(p.text(d.Call)) == "close(sc.handlerStop)" {
						stopAt = d.Pos()
					}
					if fl, ok := d.Call.Fun.(*ast.FuncLit); ok {
						t := squash(p.fullText(fl.Body))
						if strings.Contains(t, "for_,strm:=rangestrms{sc.dropResponse(strm)}") {
							dropAt = d.Pos()
							okBody = (strings.Contains(t, "casestrm:=<-sc.handlerDone:strm.handlerRunning=falsesc.dropResponse(strm)") || strings.Contains(t, "casestrm:=<-sc.handlerDone:strm.handlerRunning=falsesc.detachTimedOut(strm)sc.dropResponse(strm)")) && strings.Contains(t, "default:return")
						}
					}
				}
				// deferred before handlerStop's close, so it runs after it
				r.check(dropAt.IsValid() && stopAt.IsValid() && dropAt < stopAt && okBody, "the stream loop drops what it still holds, after it has told the handlers", p.pos(fd.Pos()), "defer { range strms: dropResponse; drain handlerDone: dropResponse } registered before defer close(handlerStop)", "the stream loop no longer closes, on its way out and after handlerStop is closed, the body streams of the responses in its table and of those already reported: a file stays open and a stream writer's goroutine stays blocked in its pipe for good")
			}
			if fd := p.decl("(*serverConn).dropResponse"); fd != nil {
				l := stmtTexts(p, fd.Body.List)
				okD := len(l) == 3 && l[0] == "ifstrm.handlerRunning||strm.ctx==nil{return}" && l[1] == "sc.closeBodyStream(strm)" && l[2] == "_=strm.ctx.Response.CloseBodyStream()"
				r.check(okD, "a response is dropped only when no handler owns it", p.pos(fd.Pos()), "if handlerRunning || ctx == nil { return }; closeBodyStream; Response.CloseBodyStream", "dropResponse no longer leaves alone a stream whose handler is still running (the RequestCtx is the handler's), or no longer closes both the stream's reader and the response's body stream")
			} else {
				r.bad("a response is dropped only when no handler owns it", "?", "(*serverConn).dropResponse no longer resolves")
			}
			if fd := p.decl("(*serverConn).dispatchHandler"); fd != nil {
				okH, nStop := true, 0
				ast.Inspect(fd.Body, func(n ast.Node) bool {
					cc, ok := n.(*ast.CommClause)
					if !ok || cc.Comm == nil || squash(p.text(cc.Comm)) != "<-sc.handlerStop" {
						return true
					}
					// every place the handler finds the loop gone lets go of a body: its own, or the ones left in the channel
					nStop++
					if !hasStmt(p, cc.Body, "_=ctx.Response.CloseBodyStream()") && !hasStmt(p, cc.Body, "closeLeftBody(ctx)") && !hasStmt(p, cc.Body, "sc.dropReported()") {
						okH = false
					}
					return true
				})
				okH = okH && nStop > 0
				r.check(okH, "a handler that finds the loop gone closes its response's body", p.pos(fd.Pos()), "case <-sc.handlerStop: ctx.Response.CloseBodyStream()", "a handler that finishes after the stream loop has gone drops its response with the body stream still open")
				if cl := p.decl("closeLeftBody"); cl != nil {
					r.fn("closeLeftBody")
					t := stmtTexts(p, cl.Body.List)
					r.check(len(t) == 1 && t[0] == "ifctx.LastTimeoutErrorResponse()==nil{_=ctx.Response.CloseBodyStream()}", "a left-over body is closed unless a timed-out handler still has the context", p.pos(cl.Pos()), "if ctx.LastTimeoutErrorResponse() == nil { ctx.Response.CloseBodyStream() }", "closeLeftBody no longer closes the body stream of a response nobody will send exactly when no timed-out handler can still be using the context")
				}
				// handlerDone is buffered, so once the loop is gone a report and the stop are both possible and select picks at random:
				// the stop is looked at first, alone; and after a report that went in, again, emptying the channel if the loop stopped meanwhile
				var sels []*ast.SelectStmt
				ast.Inspect(fd.Body, func(n ast.Node) bool {
					if sel, ok := n.(*ast.SelectStmt); ok {
						sels = append(sels, sel)
					}
					return true
				})
				arms := func(sel *ast.SelectStmt) (out []string) {
					for _, c := range sel.Body.List {
						cc := c.(*ast.CommClause)
						if cc.Comm == nil {
							out = append(out, "default")
						} else {
							out = append(out, squash(p.text(cc.Comm)))
						}
					}
					return
				}
				first, report, recheck := -1, -1, -1
				for i, sel := range sels {
					a := strings.Join(arms(sel), "|")
					switch a {
					case "<-sc.handlerStop|default":
						if first < 0 && report < 0 {
							// its stop arm ends the deferred function
							cc := sel.Body.List[0].(*ast.CommClause)
							if len(cc.Body) > 0 {
								if _, isRet := cc.Body[len(cc.Body)-1].(*ast.ReturnStmt); isRet {
									first = i
								}
							}
						} else if report >= 0 && sel.Pos() > sels[report].Pos() && sel.End() < sels[report].End() {
							cc := sel.Body.List[0].(*ast.CommClause)
							if hasStmt(p, cc.Body, "sc.dropReported()") {
								recheck = i
							}
						}
					case "sc.handlerDone<-strm|<-sc.handlerStop":
						report = i
					}
				}
				r.check(first >= 0 && report > first && recheck > report, "a finished handler looks for the stop before it reports, and again after", p.pos(fd.Pos()), "select { <-handlerStop: close; return; default }; select { handlerDone <- strm: select { <-handlerStop: dropReported(); default }; <-handlerStop: close }", "the handler's report is again a single select between a buffered send and the stop: after teardown both are ready, select picks at random, and about half of the late handlers leave their response, body stream open, in a channel nobody reads")
			}
		},
	})
}

func init() {
	register(&Rule{
		Name: "loops-run-no-application-code", Props: []string{"C14", "C12", "C19"}, Engine: "CALLGRAPH", Floor: 2,
		Doc: "the goroutine that returns flow-control credit and serves every stream of a connection (the server's stream loop, the client's write loop) does not call into code the application supplied and that may block for as long as it likes: a Read on a streamed body's reader made from one of those loops stalls every other stream of the connection, and on the client it is made on the caller's reader while no lock ties it to the request",
		Run: func(p *Prog, r *Out) {
			n := 0
			for _, f := range p.allFuncs() {
				if f.Pkg != p.SPkg || f.Blocks == nil {
					continue
				}
				for _, b := range f.Blocks {
					for _, in := range b.Instrs {
						c, ok := in.(*ssa.Call)
						if !ok || !c.Common().IsInvoke() || c.Common().Method.Name() != "Read" {
							continue
						}
						if types.TypeString(c.Common().Value.Type(), nil) != "io.Reader" {
							continue
						}
						fn := p.fname(f)
						r.fn(fn)
						roots := p.own().rootsAt(p, in)
						var loops []string
						for x := range roots {
							if strings.Contains(x, "Serve$3") || strings.Contains(x, "writeLoop") || strings.Contains(x, "readLoop") {
								loops = append(loops, x)
							}
						}
						sortStrings(loops)
						n++
						r.check(len(loops) == 0, fn+" calls the application's Read off the connection's loops", p.ipos(in), "not reached from a loop goroutine",
							fmt.Sprintf("%s calls Read on a body stream supplied by the application, and is reached from %v: while that Read blocks (a stream writer that has nothing to write yet, a slow pipe) the loop sends no WINDOW_UPDATE, no response and no request on any other stream of the connection", fn, loops))
					}
				}
			}
			if n == 0 {
				r.bad("body stream reads", "?", "no Read on an io.Reader found in the package: the rule has lost its anchors")
			}
		},
	})
	register(&Rule{
		Name: "slot-released-with-the-reset", Props: []string{"C18"}, Engine: "AST", Floor: 5,
		Doc: "the client gives a stream's slot back only behind the RST_STREAM that ends it: in every function that both queues a reset (cancelStream) and frees the slot (decrements openStreams, or calls finish, which does), every reset is queued before the slot is freed; and the write loop writes what is queued before it writes a new request, so a request admitted on the freed slot reaches the server after the reset. Until the server has the reset it counts the stream against SETTINGS_MAX_CONCURRENT_STREAMS",
		Run: func(p *Prog, r *Out) {
			n := 0
			var names []string
			for name := range p.funcDecls {
				names = append(names, name)
			}
			sortStrings(names)
			for _, fn := range names {
				fd := p.funcDecls[fn]
				if fd.Body == nil || !strings.HasPrefix(fn, "(*Conn).") {
					continue
				}
				var frees, resets []token.Pos
				ast.Inspect(fd.Body, func(nd ast.Node) bool {
					c, ok := nd.(*ast.CallExpr)
					if !ok {
						return true
					}
					switch p.calleeOf(c) {
					case "atomic.AddInt32":
						if squash(p.text(c.Args[0])) == "&c.openStreams" {
							if v, ok := p.intConst(c.Args[1]); ok && v < 0 {
								frees = append(frees, c.Pos())
							}
						}
					case "(*Conn).finish":
						if fn != "(*Conn).finish" {
							frees = append(frees, c.Pos())
						}
					case "(*Conn).cancelStream":
						resets = append(resets, c.Pos())
					}
					return true
				})
				if len(frees) == 0 || len(resets) == 0 {
					continue
				}
				n++
				r.fn(fn)
				// in source order within one function: the branches that free come after the ones that reset
				ok := true
				for _, rs := range resets {
					after := false
					for _, fr := range frees {
						if fr > rs {
							after = true
						}
					}
					// a reset with a free before it and none after it came too late
					for _, fr := range frees {
						if fr < rs && !after {
							ok = false
						}
					}
					for _, fr := range frees {
						if fr < rs {
							// a free that precedes this reset must belong to a branch that returned (the success path of dispatch)
							pm := p.pmFor(fd)
							returned := false
							for nd := nodeAt(fd, fr); nd != nil; nd = pm[nd] {
								if blk, isB := nd.(*ast.BlockStmt); isB && len(blk.List) > 0 {
									if _, isRet := blk.List[len(blk.List)-1].(*ast.ReturnStmt); isRet && blk.End() < rs {
										returned = true
									}
								}
							}
							if !returned {
								ok = false
							}
						}
					}
				}
				r.check(ok, fn+" queues its RST_STREAM before it frees the slot", p.pos(fd.Pos()), "cancelStream precedes the openStreams decrement / finish on the path that does both",
					fn+" frees the stream's slot and then queues the RST_STREAM: a request admitted on that slot can be written before the reset, and the server sees more streams than it allows")
			}
			if n < 3 {
				r.bad("functions that reset and free", "?", fmt.Sprintf("only %d found (cancel, finish, dispatch expected)", n))
			}
			// the write loop: what is queued goes before a new request
			if fd := p.decl("(*Conn).runWriteLoop"); fd != nil {
				r.fn("(*Conn).runWriteLoop", "(*Conn).flushOut")
				okArm := false
				ast.Inspect(fd.Body, func(nd ast.Node) bool {
					cc, ok := nd.(*ast.CommClause)
					if !ok || cc.Comm == nil || !strings.Contains(squash(p.text(cc.Comm)), "<-c.in") {
						return true
					}
					fl, wr := token.NoPos, token.NoPos
					for _, st := range cc.Body {
						inspectCalls(st, func(c *ast.CallExpr) {
							switch p.calleeOf(c) {
							case "(*Conn).flushOut":
								if !fl.IsValid() {
									fl = c.Pos()
								}
							case "(*Conn).writeRequest":
								wr = c.Pos()
							}
						})
					}
					okArm = fl.IsValid() && wr.IsValid() && fl < wr
					return true
				})
				r.check(okArm, "the write loop writes what is queued before a new request", p.pos(fd.Pos()), "case ctx := <-c.in: flushOut() before writeRequest(ctx)", "the write loop no longer empties the queue of outgoing frames before it writes a request: select picks between the two queues at random, so HEADERS on a freed slot can overtake the RST_STREAM that freed it")
			}
			if fd := p.decl("(*Conn).flushOut"); fd != nil {
				okF := false
				if len(fd.Body.List) == 1 {
					if fs, ok := fd.Body.List[0].(*ast.ForStmt); ok && fs.Cond == nil && len(fs.Body.List) == 1 {
						if sel, ok := fs.Body.List[0].(*ast.SelectStmt); ok && len(sel.Body.List) == 2 {
							recv, def := false, false
							for _, cl := range sel.Body.List {
								cc := cl.(*ast.CommClause)
								if cc.Comm == nil {
									if res := firstReturn(&ast.BlockStmt{List: cc.Body}); len(cc.Body) == 1 && len(res) == 1 && p.text(res[0]) == "nil" {
										def = true
									}
									continue
								}
								if squash(p.text(cc.Comm)) == "fr:=<-c.out" {
									wrote := false
									for _, st := range cc.Body {
										inspectCalls(st, func(c *ast.CallExpr) {
											if p.calleeOf(c) == "(*Conn).writeFrame" && len(c.Args) == 1 && p.text(c.Args[0]) == "fr" {
												wrote = true
											}
										})
									}
									// it leaves the loop early only with a write error
									early := false
									for _, st := range cc.Body {
										if _, isRet := st.(*ast.ReturnStmt); isRet {
											early = true
										}
										if ifs, isIf := st.(*ast.IfStmt); isIf && squash(p.text(ifs.Cond)) != "err!=nil" {
											ast.Inspect(ifs, func(x ast.Node) bool {
												if _, isRet := x.(*ast.ReturnStmt); isRet {
													early = true
												}
												return true
											})
										}
									}
									recv = wrote && !early
								}
							}
							okF = recv && def
						}
					}
				}
				r.check(okF, "flushOut writes every frame that is queued and stops when none is", p.pos(fd.Pos()), "for { select { case fr := <-c.out: writeFrame(fr)...; default: return nil } }", "flushOut no longer writes each queued frame until the queue is empty")
			} else {
				r.bad("flushOut writes every frame that is queued and stops when none is", "?", "(*Conn).flushOut no longer resolves")
			}
		},
	})
}

// nodeAt finds the innermost node of fd that starts at pos.
func nodeAt(fd *ast.FuncDecl, pos token.Pos) ast.Node {
	var found ast.Node
	ast.Inspect(fd, func(n ast.Node) bool {
		if n != nil && n.Pos() == pos {
			found = n
		}
		return true
	})
	return found
}

func init() {
	register(&Rule{
		Name: "client-lifecycle-shape", Props: []string{"C12", "C18", "C16"}, Engine: "AST", Floor: 6,
		Doc: "the small pieces of the client's connection lifecycle a rule-only sweep found unguarded: cancel drops the body, gives the slot back exactly when it removed the request from the table, and resets the stream (never stream 0); unanswered PINGs are counted up when one has been flushed, down when one is acknowledged, and three of them end the connection unless checking is disabled; frames of unknown type are skipped, not fatal; the handshake records the server's SETTINGS before it reads them back; closing is guarded by the compare-and-swap that makes it run once",
		Run: func(p *Prog, r *Out) {
			r.fn("(*Conn).cancel", "(*Conn).runWriteLoop", "(*Conn).writePing", "(*Conn).readNext", "(*Conn).doHandshake", "(*Conn).shut")
			if fd := p.decl("(*Conn).cancel"); fd != nil {
				t := stmtTexts(p, fd.Body.List)
				idx := func(s string) int {
					for i, x := range t {
						if x == squash(s) {
							return i
						}
					}
					return -1
				}
				guard := -1
				for i, s := range fd.Body.List {
					if ifs, ok := s.(*ast.IfStmt); ok && squash(p.text(ifs.Cond)) == "id==0" {
						if _, isRet := ifs.Body.List[len(ifs.Body.List)-1].(*ast.ReturnStmt); isRet {
							guard = i
						}
					}
				}
				slot := -1
				for i, s := range fd.Body.List {
					if ifs, ok := s.(*ast.IfStmt); ok && squash(p.text(ifs.Cond)) == "c.takeReq(id)" && len(ifs.Body.List) == 1 && squash(p.text(ifs.Body.List[0])) == "atomic.AddInt32(&c.openStreams,-1)" && ifs.Else == nil {
						slot = i
					}
				}
				dp, rs := idx("c.deletePending(id)"), idx("c.cancelStream(id, StreamCanceled)")
				r.check(guard >= 0 && dp > guard && rs > dp && slot > rs, "cancel lets go of everything the request held", p.pos(fd.Pos()), "id == 0 -> return; deletePending; RST_STREAM(CANCEL); if takeReq { openStreams-- }", "cancel no longer refuses stream 0, drops the pending body, gives the slot back exactly when it took the request off the table, and resets the stream: a timed-out request keeps its slot (the connection fills up), its body (sent after the caller has its buffer back), or its stream on the server")
			}
			if fd := p.decl("(*Conn).runWriteLoop"); fd != nil {
				okT := false
				ast.Inspect(fd.Body, func(n ast.Node) bool {
					ifs, ok := n.(*ast.IfStmt)
					if !ok || !p.isConjunctionOf(ifs.Cond, "!c.disableAcks", "atomic.LoadInt32(&c.unacks)>=3") {
						return true
					}
					if res := firstReturn(ifs.Body); len(res) == 1 && p.text(res[0]) == "ErrTimeout" {
						okT = true
					}
					return true
				})
				r.check(okT, "three unanswered pings end the connection", p.pos(fd.Pos()), "if !disableAcks && unacks >= 3 { return ErrTimeout }", "the write loop no longer gives a connection up after three PINGs without an acknowledgement (unless checking is disabled): with a server that has gone silent and no MaxResponseTime, requests are never resolved")
			}
			if fd := p.decl("(*Conn).writePing"); fd != nil {
				inc := false
				ast.Inspect(fd.Body, func(n ast.Node) bool {
					ifs, ok := n.(*ast.IfStmt)
					if ok && squash(p.text(ifs.Cond)) == "err==nil" && len(ifs.Body.List) == 1 && squash(p.text(ifs.Body.List[0])) == "atomic.AddInt32(&c.unacks,1)" {
						inc = true
					}
					return true
				})
				dec := false
				if rn := p.decl("(*Conn).readNext"); rn != nil {
					ast.Inspect(rn.Body, func(n ast.Node) bool {
						ifs, ok := n.(*ast.IfStmt)
						if !ok || squash(p.text(ifs.Cond)) != "!ping.IsAck()" {
							return true
						}
						if eb, ok := ifs.Else.(*ast.BlockStmt); ok && len(eb.List) == 1 && squash(p.text(eb.List[0])) == "atomic.AddInt32(&c.unacks,-1)" {
							dec = true
						}
						return true
					})
				}
				r.check(inc && dec, "unanswered pings are counted up when sent and down when acknowledged", p.pos(fd.Pos()), "flushed: unacks++; PING with ACK: unacks--", "the count of unanswered PINGs is no longer raised when one has been flushed and lowered when an acknowledgement arrives: a healthy connection is given up after three pings, or a dead one never")
			}
			if fd := p.decl("(*Conn).readNext"); fd != nil {
				okU := false
				ast.Inspect(fd.Body, func(n ast.Node) bool {
					ifs, ok := n.(*ast.IfStmt)
					if !ok || squash(p.text(ifs.Cond)) != "errors.Is(err,ErrUnknownFrameType)" || len(ifs.Body.List) != 2 {
						return true
					}
					if squash(p.text(ifs.Body.List[0])) == "err=nil" {
						if b, ok := ifs.Body.List[1].(*ast.BranchStmt); ok && b.Tok == token.CONTINUE {
							okU = true
						}
					}
					return true
				})
				r.check(okU, "a frame of unknown type is skipped", p.pos(fd.Pos()), "if errors.Is(err, ErrUnknownFrameType) { err = nil; continue }", "the client's read loop no longer skips a frame of a type it does not know (RFC 7540 s4.1: MUST be ignored): an extension frame such as ALTSVC ends the connection")
			}
			if fd := p.decl("(*Conn).doHandshake"); fd != nil {
				cpAt, useAt := token.NoPos, token.NoPos
				ast.Inspect(fd.Body, func(n ast.Node) bool {
					switch x := n.(type) {
					case *ast.ExprStmt:
						if squash(p.text(x.X)) == "st.CopyTo(&c.serverS)" {
							cpAt = x.Pos()
						}
					case *ast.AssignStmt:
						if strings.Contains(p.text(x), "c.serverS.") && !useAt.IsValid() {
							useAt = x.Pos()
						}
					}
					return true
				})
				r.check(cpAt.IsValid() && useAt.IsValid() && cpAt < useAt, "the handshake records the server's settings before it reads them", p.pos(fd.Pos()), "st.CopyTo(&c.serverS) before c.serverS is read", "doHandshake no longer copies the server's first SETTINGS into its record before it takes the stream window, the stream limit and the frame size from that record: they are taken from an empty record")
			}
			if f := p.ssaFunc("(*Conn).shut"); f != nil {
				okG := false
				for _, b := range f.Blocks {
					for _, in := range b.Instrs {
						ci, ok := in.(ssa.CallInstruction)
						if !ok || p.calleeName(ci.Common()) != "builtin.close" {
							continue
						}
						for _, ft := range p.factsAt(in) {
							if strings.Contains(p.vdescN(ft.Cond, 3), "atomic.CompareAndSwapUint64(") && ft.Val {
								okG = true
							}
						}
					}
				}
				r.check(okG, "the connection is shut once", p.pos(f.Pos()), "close(done) only after CompareAndSwap(&closed, 0, 1) succeeded", "shut closes the done channel without having won the compare-and-swap on closed: the second Close (the read loop and the write loop both close on their way out) closes a closed channel and panics")
			}
		},
	})
}

func init() {
	register(&Rule{
		Name: "serialize-essentials", Props: []string{"C05", "C18"}, Engine: "AST", Floor: 7,
		Doc: "the glue between a frame body and the octets that leave: a SETTINGS acknowledgement goes out with the ACK flag and an empty payload, any other SETTINGS frame with its freshly encoded parameters; setPayload replaces the payload with a copy; SetBody records the body and its type; the HEADERS block setters replace, append to and encode into the block they say they do; a parsed priority section is marked present, and padding asked for is flagged and added",
		Run: func(p *Prog, r *Out) {
			if fd := p.decl("(*Settings).Serialize"); fd != nil {
				r.fn("(*Settings).Serialize")
				okS := false
				if len(fd.Body.List) == 1 {
					if ifs, ok := fd.Body.List[0].(*ast.IfStmt); ok && squash(p.text(ifs.Cond)) == "st.ack" {
						a := stmtTexts(p, ifs.Body.List)
						var b []string
						if eb, ok := ifs.Else.(*ast.BlockStmt); ok {
							b = stmtTexts(p, eb.List)
						}
						okS = len(a) == 2 && a[0] == "fr.SetFlags(fr.Flags().Add(FlagAck))" && a[1] == "fr.payload=fr.payload[:0]" &&
							len(b) == 2 && b[0] == "st.Encode()" && b[1] == "fr.setPayload(st.rawSettings)"
					}
				}
				r.check(okS, "SETTINGS goes out as an empty acknowledgement or with its encoded parameters", p.pos(fd.Pos()), "ack: ACK flag, empty payload; else: Encode(); setPayload(rawSettings)", "Settings.Serialize no longer writes an acknowledgement as the ACK flag with an empty payload (a payload there is a FRAME_SIZE_ERROR) and any other frame as its freshly encoded parameters")
			}
			if fd := p.decl("(*FrameHeader).setPayload"); fd != nil {
				r.fn("(*FrameHeader).setPayload")
				t := stmtTexts(p, fd.Body.List)
				r.check(len(t) == 1 && t[0] == "f.payload=append(f.payload[:0],payload...)", "setPayload replaces the payload with a copy", p.pos(fd.Pos()), "f.payload = append(f.payload[:0], payload...)", "setPayload no longer replaces the frame's payload with a copy of what it is given: octets of the previous frame survive, or the frame aliases a buffer its owner goes on to change")
			}
			if fd := p.decl("(*FrameHeader).SetBody"); fd != nil {
				r.fn("(*FrameHeader).SetBody")
				r.check(hasStmt(p, fd.Body.List, "f.kind=fr.Type()") && hasStmt(p, fd.Body.List, "f.fr=fr"), "SetBody records the body and its type", p.pos(fd.Pos()), "f.kind = fr.Type(); f.fr = fr", "SetBody no longer records the body together with its frame type: the frame goes out under the type of whatever the header held before")
			}
			for _, m := range []struct{ fn, want, why string }{
				{"(*Headers).SetHeaders", "h.rawHeaders=append(h.rawHeaders[:0],b...)", "SetHeaders no longer replaces the block"},
				{"(*Headers).AppendRawHeaders", "h.rawHeaders=append(h.rawHeaders,b...)", "AppendRawHeaders no longer appends to the block"},
				{"(*Headers).AppendHeaderField", "h.rawHeaders=hp.AppendHeader(h.rawHeaders,hf,store)", "AppendHeaderField no longer encodes the field onto the block with the given encoder and indexing choice"},
			} {
				fd := p.decl(m.fn)
				if fd == nil {
					r.undecided(m.fn, "?", "no longer resolves")
					continue
				}
				r.fn(m.fn)
				t := stmtTexts(p, fd.Body.List)
				r.check(len(t) == 1 && t[0] == m.want, m.fn+" does what its name says", p.pos(fd.Pos()), m.want, m.why)
			}
			if fd := p.decl("(*Headers).Deserialize"); fd != nil {
				okP := false
				ast.Inspect(fd.Body, func(n ast.Node) bool {
					ifs, ok := n.(*ast.IfStmt)
					if ok && squash(p.text(ifs.Cond)) == "flags.Has(FlagPriority)" && hasStmt(p, ifs.Body.List, "h.priority=true") {
						okP = true
					}
					return true
				})
				r.check(okP, "a parsed priority section is marked present", p.pos(fd.Pos()), "under FlagPriority: h.priority = true", "Headers.Deserialize no longer records that the frame carried a priority section: written out again the frame has lost it")
			}
			for _, sn := range []string{"(*Headers).Serialize", "(*Data).Serialize"} {
				fd := p.decl(sn)
				if fd == nil {
					r.undecided(sn, "?", "no longer resolves")
					continue
				}
				r.fn(sn)
				okPad, nPad := true, 0
				ast.Inspect(fd.Body, func(n ast.Node) bool {
					ifs, ok := n.(*ast.IfStmt)
					if !ok || !strings.HasSuffix(squash(p.text(ifs.Cond)), ".hasPadding") {
						return true
					}
					nPad++
					flag, pad := false, false
					for _, st := range ifs.Body.List {
						t := squash(p.fullText(st))
						if strings.Contains(t, ".SetFlags(") && strings.Contains(t, ".Flags().Add(FlagPadded))") {
							flag = true
						}
						if as, isAs := st.(*ast.AssignStmt); isAs && len(as.Lhs) == 1 && len(as.Rhs) == 1 && squash(p.text(as.Rhs[0])) == "http2utils.AddPadding("+squash(p.text(as.Lhs[0]))+")" {
							pad = true
						}
					}
					if !flag || !pad {
						okPad = false
					}
					return true
				})
				r.check(okPad && nPad == 1, sn+": padding asked for is flagged and added", p.pos(fd.Pos()), "if hasPadding { PADDED flag added; x = AddPadding(x) }", sn+" no longer sets the PADDED flag together with adding the padding: one without the other is a frame the peer misreads")
			}
		},
	})
}

func init() {
	register(&Rule{
		Name: "ctx-acquire-released", Props: []string{"C12", "C19"}, Engine: "PATH", Floor: 4,
		Doc: "every successful acquire / acquireFor of a request's Ctx is followed, on every path to a return of the acquiring function, by a release (directly, through a helper or closure that releases, or by a deferred one that has been registered): a path that returns with the Ctx held wedges the RoundTrip that has to take it back, past any timeout",
		Run: func(p *Prog, r *Out) {
			n := 0
			for _, f := range p.allFuncs() {
				if f.Pkg != p.SPkg || f.Blocks == nil {
					continue
				}
				fn := p.fname(f)
				if fn == "(*Ctx).acquire" || fn == "(*Ctx).acquireFor" {
					continue
				}
				// releases in this function: direct, via helper, or deferred
				stop := map[ssa.Instruction]bool{}
				for _, b := range f.Blocks {
					for _, in := range b.Instrs {
						switch x := in.(type) {
						case *ssa.Call:
							if p.releasesCtx(x) {
								stop[in] = true
							}
						case *ssa.Defer:
							name := p.calleeName(x.Common())
							if name == "(*Ctx).release" {
								stop[in] = true
							} else if g := x.Common().StaticCallee(); g != nil && g.Blocks != nil {
								for _, b2 := range g.Blocks {
									for _, y := range b2.Instrs {
										if c2, ok := y.(*ssa.Call); ok && p.releasesCtx(c2) {
											stop[in] = true
										}
									}
								}
							} else if !x.Common().IsInvoke() {
								for _, g := range p.closureOf(x.Common().Value, f, 4) {
									for _, b2 := range g.Blocks {
										for _, y := range b2.Instrs {
											if c2, ok := y.(*ssa.Call); ok && p.releasesCtx(c2) {
												stop[in] = true
											}
										}
									}
								}
							}
						}
					}
				}
				for _, b := range f.Blocks {
					for _, in := range b.Instrs {
						c, ok := in.(*ssa.Call)
						if !ok {
							continue
						}
						name := p.calleeName(c.Common())
						if name != "(*Ctx).acquire" && name != "(*Ctx).acquireFor" {
							continue
						}
						// the If that tests it
						var tblock *ssa.BasicBlock
						for _, ref := range *c.Referrers() {
							cond := ssa.Value(c)
							neg := false
							if u, ok := ref.(*ssa.UnOp); ok && u.Op == token.NOT {
								neg = true
								for _, r2 := range *u.Referrers() {
									if iff, ok := r2.(*ssa.If); ok {
										tblock = iff.Block().Succs[1]
									}
								}
								continue
							}
							if iff, ok := ref.(*ssa.If); ok && iff.Cond == cond && !neg {
								tblock = iff.Block().Succs[0]
							}
						}
						n++
						r.fn(fn)
						key := fn + " gives back the Ctx it took (" + strings.TrimPrefix(name, "(*Ctx).") + ")"
						if tblock == nil {
							r.undecided(key, p.ipos(in), "the result of "+name+" is not tested by a branch")
							continue
						}
						// a function that hands the held Ctx to its caller on purpose
						if why, ok := ctxHandsOn[fn]; ok {
							r.ok(key, p.ipos(in), "exempt: "+why)
							continue
						}
						leak := ""
						for _, b2 := range f.Blocks {
							if b2 == f.Recover {
								continue
							}
							for _, y := range b2.Instrs {
								ret, ok := y.(*ssa.Return)
								if !ok {
									continue
								}
								if reachesInstr(tblock, ret, stop) {
									leak = p.ipos(ret)
								}
							}
						}
						r.check(leak == "", key, p.ipos(in), "a release on every path from the successful acquisition to a return",
							fmt.Sprintf("%s can return (at %s) still holding the Ctx it took with %s: the RoundTrip of that request blocks in takeBack for good, whatever MaxResponseTime says, and so does everything else that needs the Ctx", fn, leak, name))
					}
				}
			}
			if n == 0 {
				r.bad("acquisitions", "?", "no acquire / acquireFor call found: the rule has lost its anchors")
			}
		},
	})
}

// functions that return holding the Ctx by design: their callers release it.
var ctxHandsOn = map[string]string{}
