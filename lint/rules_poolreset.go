package main

import (
	"fmt"
	"go/ast"
	"go/token"
	"go/types"
	"sort"
	"strconv"
	"strings"

	"golang.org/x/tools/go/ssa"
)

// poolOf names the sync.Pool a Get/Put call works on: a package-level pool, or
// an element of the package-level array of frame pools.
func (p *Prog) poolOf(c *ssa.CallCommon) string {
	if len(c.Args) == 0 {
		return ""
	}
	v := c.Args[0]
	for i := 0; i < 4; i++ {
		switch x := v.(type) {
		case *ssa.Global:
			return x.Name()
		case *ssa.UnOp:
			v = x.X
		case *ssa.IndexAddr:
			v = x.X
		case *ssa.Index:
			v = x.X
		default:
			return ""
		}
	}
	return ""
}

// poolResetElsewhere: getters that are themselves the reset function of their
// type for rule reset-completeness (every field stored, checked there), and
// pools of scratch memory.
var poolResetElsewhere = map[string]string{
	"streamPool":    "NewStream stores every field of the Stream it takes out (rule reset-completeness, type Stream)",
	"clientCtxPool": "acquireCtx stores every field of the Ctx it takes out (rule reset-completeness, type Ctx)",
	"bytePool":      "scratch octets: every user writes before it reads (appendString / readString start from [:0])",
}

func init() {
	register(&Rule{
		Name: "pooled-objects-come-out-reset", Props: []string{"C19", "C05", "C16", "C03"}, Engine: "POOL", Floor: 8,
		Doc: "reset-completeness shows that each Reset clears every field; this rule shows that the Reset is applied: for every sync.Pool of the package, either every function that takes an object out calls Reset on it (or, for the fasthttp RequestCtx, on its Request and Response) before anything else can see it, or every function that puts one back calls Reset on it first. An object that comes out as it went in carries the last owner's flags, stream id, payload and body pointer into the next frame",
		Run: func(p *Prog, r *Out) {
			type site struct {
				fn     *ssa.Function
				in     *ssa.Call
				resets bool
			}
			gets, puts := map[string][]site{}, map[string][]site{}
			resetOn := func(f *ssa.Function, v ssa.Value, before ssa.Instruction, after ssa.Instruction) bool {
				// a call of a method named Reset whose receiver is v (through type
				// assertions and conversions), positioned after `after` / before `before`
				root := func(a ssa.Value) ssa.Value {
					for i := 0; i < 5; i++ {
						switch x := a.(type) {
						case *ssa.TypeAssert:
							a = x.X
						case *ssa.MakeInterface:
							a = x.X
						case *ssa.ChangeInterface:
							a = x.X
						case *ssa.ChangeType:
							a = x.X
						default:
							return a
						}
					}
					return a
				}
				rv := root(v)
				same := func(a ssa.Value) bool { return root(a) == rv }
				sub := map[string]bool{}
				for _, b := range f.Blocks {
					for _, in := range b.Instrs {
						c, ok := in.(*ssa.Call)
						if !ok {
							continue
						}
						if before != nil && !instrDominates(in, before) {
							continue
						}
						if after != nil && !instrDominates(after, in) {
							continue
						}
						cc := c.Common()
						if cc.IsInvoke() {
							if cc.Method.Name() == "Reset" && same(cc.Value) {
								return true
							}
							continue
						}
						g := cc.StaticCallee()
						if g == nil || g.Name() != "Reset" || len(cc.Args) == 0 {
							continue
						}
						if same(cc.Args[0]) {
							return true
						}
						// Reset of an embedded part: &v.Request, &v.Response
						if fa, ok := cc.Args[0].(*ssa.FieldAddr); ok && same(fa.X) {
							_, fld := p.fieldAddrName(fa)
							sub[fld] = true
						}
					}
				}
				return sub["Request"] && sub["Response"]
			}
			for _, f := range p.allFuncs() {
				if f.Pkg != p.SPkg && f.Pkg != p.SUPkg {
					continue
				}
				for _, b := range f.Blocks {
					for _, in := range b.Instrs {
						c, ok := in.(*ssa.Call)
						if !ok {
							continue
						}
						switch p.calleeName(c.Common()) {
						case "(*sync.Pool).Get":
							if pool := p.poolOf(c.Common()); pool != "" {
								gets[pool] = append(gets[pool], site{f, c, resetOn(f, c, nil, c)})
							}
						case "(*sync.Pool).Put":
							if pool := p.poolOf(c.Common()); pool != "" && len(c.Call.Args) == 2 {
								puts[pool] = append(puts[pool], site{f, c, resetOn(f, c.Call.Args[1], c, nil)})
							}
						}
					}
				}
			}
			var pools []string
			for k := range gets {
				pools = append(pools, k)
			}
			sort.Strings(pools)
			for _, pool := range pools {
				allGet, allPut := true, len(puts[pool]) > 0
				var gfn, pfn []string
				for _, s := range gets[pool] {
					r.fn(p.fname(s.fn))
					gfn = append(gfn, p.closureLabel(s.fn))
					if !s.resets {
						allGet = false
					}
				}
				for _, s := range puts[pool] {
					pfn = append(pfn, p.closureLabel(s.fn))
					if !s.resets {
						allPut = false
					}
				}
				key := "what comes out of " + pool + " has been reset"
				pos := p.ipos(gets[pool][0].in)
				if why, ok := poolResetElsewhere[pool]; ok {
					r.ok(key, pos, "by other means: "+why)
					continue
				}
				how := "Reset in every function that takes one out (" + strings.Join(gfn, ", ") + ")"
				if !allGet {
					how = "Reset in every function that puts one back (" + strings.Join(pfn, ", ") + ")"
				}
				r.check(allGet || allPut, key, pos, how,
					"objects of "+pool+" are neither reset by every function that takes one out ("+strings.Join(gfn, ", ")+") nor by every function that puts one back ("+strings.Join(pfn, ", ")+"): the next owner starts from the last owner's state")
			}
			if len(pools) == 0 {
				r.undecided("pools", "?", "no sync.Pool Get found")
			}
		},
	})
}

func init() {
	register(&Rule{
		Name: "readers-return-frame-or-error", Props: []string{"C16", "C19"}, Engine: "AST", Floor: 6,
		Doc: "ReadFrameFrom and ReadFrameFromWithSize hand back either a frame or an error, never both and never neither: the frame variable is set to nil under `err != nil` and nowhere else (the summary the kind analysis relies on), every call that gives the frame or its header back to a pool lies inside that branch, and the branch contains one. A reader that releases on success hands its caller a frame the pool will give to somebody else",
		Run: func(p *Prog, r *Out) {
			for _, name := range []string{"ReadFrameFrom", "ReadFrameFromWithSize"} {
				fd := p.decl(name)
				if fd == nil {
					r.undecided(name, "?", "no longer resolves")
					continue
				}
				r.fn(name)
				r.check(p.nilFrameOnError(p.ssaFunc(name)), name+" returns nil with an error", p.pos(fd.Pos()), "if err != nil { ...; fr = nil }; return fr, err as the last two statements, one return", name+" no longer ends in `if err != nil { ...; fr = nil }; return fr, err`: a frame comes back together with an error, or nil comes back without one")
				var errIf *ast.IfStmt
				if n := len(fd.Body.List); n >= 2 {
					errIf, _ = fd.Body.List[n-2].(*ast.IfStmt)
				}
				inside, outside := 0, 0
				inspectCalls(fd.Body, func(c *ast.CallExpr) {
					cal := p.calleeOf(c)
					if cal != "ReleaseFrameHeader" && cal != "ReleaseFrame" && cal != "(*sync.Pool).Put" {
						return
					}
					if errIf != nil && c.Pos() >= errIf.Body.Pos() && c.End() <= errIf.Body.End() {
						inside++
					} else {
						outside++
					}
				})
				r.check(outside == 0, name+" gives nothing back to a pool when it succeeds", p.pos(fd.Pos()), "every Release/Put inside the err != nil branch", name+" releases the frame, or puts its header back, outside the branch that handles a failed read: the caller is handed an object the pool will hand to somebody else")
				r.check(inside > 0, name+" gives the header back when it fails", p.pos(fd.Pos()), "a Release/Put inside the err != nil branch", name+" no longer gives the frame header back when the read fails")
			}
		},
	})
}

func init() {
	register(&Rule{
		Name: "counted-loops-advance", Props: []string{"C16", "C17", "C12"}, Engine: "AST", Floor: 8,
		Doc: "every counted loop of the library moves its counter towards its bound: a loop whose condition compares a variable with `<`, `<=` or `!=` against something steps it up in its post statement, one that compares with `>` or `>=` steps it down. A counter that moves the other way indexes below zero or past the end on its second round (a panic on a connection's goroutine ends the process) or never ends",
		Run: func(p *Prog, r *Out) {
			n := 0
			var names []string
			for name := range p.funcDecls {
				names = append(names, name)
			}
			sortStrings(names)
			for _, name := range names {
				fd := p.funcDecls[name]
				if fd.Body == nil {
					continue
				}
				k := 0
				ast.Inspect(fd.Body, func(nd ast.Node) bool {
					fs, ok := nd.(*ast.ForStmt)
					if !ok || fs.Cond == nil {
						return true
					}
					post := fs.Post
					if post == nil {
						// while-form: the step is the one top-level ++/-- of the loop body on the variable the condition tests
						if be, isB := ast.Unparen(fs.Cond).(*ast.BinaryExpr); isB {
							if id, isId := be.X.(*ast.Ident); isId {
								cnt := 0
								for _, st := range fs.Body.List {
									if inc, isInc := st.(*ast.IncDecStmt); isInc && p.text(inc.X) == id.Name {
										post = inc
										cnt++
									}
								}
								if cnt != 1 {
									post = nil
								}
							}
						}
						if post == nil {
							return true
						}
					}
					// the conjunct of the condition that mentions the stepped variable
					var v string
					dir := 0
					switch x := post.(type) {
					case *ast.IncDecStmt:
						v = p.text(x.X)
						if x.Tok == token.INC {
							dir = +1
						} else {
							dir = -1
						}
					case *ast.AssignStmt:
						if len(x.Lhs) != 1 || len(x.Rhs) != 1 {
							return true
						}
						v = p.text(x.Lhs[0])
						c, isConst := p.intConst(x.Rhs[0])
						switch {
						case x.Tok == token.ADD_ASSIGN && isConst && c > 0, x.Tok == token.ADD_ASSIGN && !isConst:
							dir = +1
						case x.Tok == token.SUB_ASSIGN && isConst && c > 0, x.Tok == token.SUB_ASSIGN && !isConst:
							dir = -1
						case x.Tok == token.ADD_ASSIGN && isConst && c < 0:
							dir = -1
						default:
							return true // e = e.Next() and the like: not a counted loop
						}
					default:
						return true
					}
					want := 0
					for _, g := range conjunctsOf(fs.Cond) {
						be, ok := ast.Unparen(g).(*ast.BinaryExpr)
						if !ok {
							continue
						}
						l, rr := p.text(be.X), p.text(be.Y)
						op := be.Op
						if rr == v && l != v {
							// bound on the left: mirror
							switch op {
							case token.LSS:
								op = token.GTR
							case token.LEQ:
								op = token.GEQ
							case token.GTR:
								op = token.LSS
							case token.GEQ:
								op = token.LEQ
							}
						} else if l != v {
							continue
						}
						switch op {
						case token.LSS, token.LEQ:
							want = +1
						case token.GTR, token.GEQ:
							want = -1
						}
					}
					if want == 0 {
						return true
					}
					k++
					n++
					key := name + " loop " + strconv.Itoa(k) + " steps " + v + " towards its bound"
					r.check(dir == want, key, p.pos(fs.Pos()), "condition and post statement agree on the direction", name+": the loop `for ...; "+p.text(fs.Cond)+"; "+p.text(post)+"` steps "+v+" away from its bound")
					return true
				})
				if k > 0 {
					r.fn(name)
				}
			}
			if n == 0 {
				r.undecided("counted loops", "?", "none found")
			}
		},
	})
}

func conjunctsOf(e ast.Expr) []ast.Expr {
	e = ast.Unparen(e)
	if be, ok := e.(*ast.BinaryExpr); ok && be.Op == token.LAND {
		return append(conjunctsOf(be.X), conjunctsOf(be.Y)...)
	}
	return []ast.Expr{e}
}

func init() {
	register(&Rule{
		Name: "frames-leave-with-a-body", Props: []string{"C05", "C18", "C10", "C02"}, Engine: "SSA", Floor: 18,
		Doc: "a frame header taken from the pool to be sent is given its body before it leaves: between AcquireFrameHeader and every place the header goes out (WriteTo, a channel send, Conn.writeOut / writeFrame, serverConn.write / enqueue, the header-block writers) a SetBody on that header dominates. A header without a body is written under whatever type the zero header has, or dereferences nil in WriteTo on a goroutine nothing recovers",
		Run: func(p *Prog, r *Out) {
			sinks := map[string]bool{
				"(*FrameHeader).WriteTo": true, "(*Conn).writeOut": true, "(*Conn).writeFrame": true,
				"(*serverConn).write": true, "(*serverConn).enqueue": true,
				"(*Conn).writeHeaderBlock": true, "(*serverConn).writeHeaderBlock": true,
			}
			n := 0
			for _, f := range p.allFuncs() {
				if f.Pkg != p.SPkg {
					continue
				}
				k := 0
				for _, b := range f.Blocks {
					for _, in := range b.Instrs {
						c, ok := in.(*ssa.Call)
						if !ok || p.calleeName(c.Common()) != "AcquireFrameHeader" {
							continue
						}
						var sets, outs []ssa.Instruction
						handed := false
						for _, u := range *c.Referrers() {
							switch x := u.(type) {
							case *ssa.Call:
								name := p.calleeName(x.Common())
								if name == "(*FrameHeader).SetBody" && len(x.Call.Args) > 0 && x.Call.Args[0] == ssa.Value(c) {
									sets = append(sets, u)
								} else if sinks[name] {
									outs = append(outs, u)
								}
							case *ssa.Send:
								outs = append(outs, u)
							case *ssa.Return, *ssa.Store, *ssa.MakeClosure, *ssa.Phi:
								handed = true
							case *ssa.Defer, *ssa.Go:
								if sinks[p.calleeName(x.(ssa.CallInstruction).Common())] {
									outs = append(outs, u)
								}
							}
						}
						if len(outs) == 0 {
							continue // a reader's header, or one handed to its caller
						}
						k++
						n++
						fn := p.closureLabel(f)
						r.fn(p.fname(f))
						key := fn + " frame " + strconv.Itoa(k) + " has its body when it leaves"
						bad := ""
						for _, o := range outs {
							dom := false
							for _, s := range sets {
								if instrDominates(s, o) {
									dom = true
								}
							}
							if !dom {
								bad = p.ipos(o)
							}
						}
						if bad != "" && handed {
							r.undecided(key, p.ipos(in), "the header also flows through memory or a phi; its body cannot be followed")
							continue
						}
						r.check(bad == "", key, p.ipos(in), "SetBody dominates every place the header goes out", fn+" lets a frame header out (at "+bad+") that no SetBody on every path has given a body")
					}
				}
			}
			if n == 0 {
				r.undecided("frames sent", "?", "no AcquireFrameHeader followed by a write found")
			}
		},
	})
}

func init() {
	register(&Rule{
		Name: "nil-error-not-reported", Props: []string{"C12", "C17", "C16", "C02"}, Engine: "SSA", Floor: 60,
		Doc: "a contradiction rule: nowhere in the package is an error value returned, wrapped, stored or passed on in a place where that same value has just been found nil. The library writes `return nil` when it means success, so `if err == nil { return err }`, `if err == nil { resolve(err) }` and the like are an error test with its sense inverted: the failure path then runs on success (a request resolved with nil that was never answered, a loop that stops on a good write) and the success path on failure",
		Run: func(p *Prog, r *Out) {
			n := 0
			for _, f := range p.allFuncs() {
				if f.Pkg != p.SPkg && f.Pkg != p.SUPkg {
					continue
				}
				k := 0
				for _, b := range f.Blocks {
					if len(b.Instrs) == 0 {
						continue
					}
					iff, ok := b.Instrs[len(b.Instrs)-1].(*ssa.If)
					if !ok {
						continue
					}
					bo, ok := iff.Cond.(*ssa.BinOp)
					if !ok || (bo.Op != token.EQL && bo.Op != token.NEQ) {
						continue
					}
					v, other := bo.X, bo.Y
					if kc, isK := v.(*ssa.Const); isK && kc.IsNil() {
						v, other = bo.Y, bo.X
					}
					if kc, isK := other.(*ssa.Const); !isK || !kc.IsNil() || v.Type().String() != "error" {
						continue
					}
					nilSucc := b.Succs[1]
					if bo.Op == token.EQL {
						nilSucc = b.Succs[0]
					}
					if len(nilSucc.Preds) != 1 || b.Succs[0] == b.Succs[1] {
						continue
					}
					k++
					n++
					fn := p.closureLabel(f)
					key := fn + " error test " + strconv.Itoa(k) + ": the value found nil is not then used as an error"
					bad := ""
					// the value, and what is reloaded from the local it lives in while nothing writes that local
					vals := []ssa.Value{v}
					if ld, isLd := v.(*ssa.UnOp); isLd && ld.Op == token.MUL {
						if addr, isAl := ld.X.(*ssa.Alloc); isAl {
							written := false
							var loads []ssa.Value
							for _, u := range *addr.Referrers() {
								if !nilSucc.Dominates(u.Block()) {
									continue
								}
								switch x := u.(type) {
								case *ssa.Store:
									if x.Addr == ssa.Value(addr) {
										written = true
									}
								case *ssa.UnOp:
									loads = append(loads, x)
								default:
									written = true // address taken: give up on the reloads
								}
							}
							if !written {
								vals = append(vals, loads...)
							} else {
								// at least the reloads at the head of the nil branch, before anything is stored
								for _, y := range nilSucc.Instrs {
									if st, isSt := y.(*ssa.Store); isSt && st.Addr == ssa.Value(addr) {
										break
									}
									if _, isCall := y.(*ssa.Call); isCall {
										// a call cannot write a local whose address does not escape (it is an Alloc that is not Heap)
										if addr.Heap {
											break
										}
									}
									if l2, isLd2 := y.(*ssa.UnOp); isLd2 && l2.Op == token.MUL && l2.X == ssa.Value(addr) {
										vals = append(vals, l2)
									}
								}
							}
						}
					}
					for _, vv := range vals {
						refs := vv.Referrers()
						if refs == nil {
							continue
						}
						for _, u := range *refs {
							if !nilSucc.Dominates(u.Block()) {
								continue
							}
							switch x := u.(type) {
							case *ssa.Return, *ssa.MakeInterface, *ssa.Store, *ssa.Send:
								bad = p.ipos(u)
							case *ssa.Call:
								bad = p.ipos(x)
							case *ssa.Go, *ssa.Defer:
								bad = p.ipos(u)
							}
						}
					}
					if bad == "" {
						r.ok(key, p.ipos(iff), "no use of the nil value as an error")
					} else {
						r.fn(p.fname(f))
						r.bad(key, bad, fn+" returns, stores or passes on an error value at a place where it has just been found nil ("+bad+"): an error test with its sense inverted")
					}
				}
			}
			if n == 0 {
				r.undecided("error tests", "?", "none found")
			}
		},
	})
}

// flushedByCaller: writers that leave the flush to whoever called them.
var flushedByCaller = map[string]string{
	"(*Conn).writeData":        "flushData / sendPending flush once the chunk's frames are in the buffer",
	"(*Conn).writeHeaderBlock": "writeRequest flushes after the block (and the first DATA) is in the buffer",
}

func init() {
	register(&Rule{
		Name: "client-writes-are-flushed", Props: []string{"C12", "C18", "C14", "C02"}, Engine: "SSA", Floor: 8,
		Doc: "the client writes through a bufio.Writer, so a frame is only sent once the buffer is flushed: every client function that writes a frame reaches a Flush afterwards, and that Flush is not confined to the branch where the write's own error was found non-nil; the two writers that leave flushing to their caller are a table, and each of their callers is held to the same rule. A frame left in the buffer is a request, a SETTINGS acknowledgement or a WINDOW_UPDATE the server never sees",
		Run: func(p *Prog, r *Out) {
			n := 0
			isWrite := func(c *ssa.CallCommon) bool {
				name := p.calleeName(c)
				if name == "(*FrameHeader).WriteTo" {
					return true
				}
				_, ok := flushedByCaller[name]
				return ok
			}
			for _, f := range p.allFuncs() {
				if f.Pkg != p.SPkg {
					continue
				}
				fn := p.fname(f)
				if strings.HasPrefix(fn, "(*serverConn)") || strings.HasPrefix(fn, "(*FrameHeader)") {
					continue // the server batches: rule server-writer-flushes
				}
				var writes, flushes []*ssa.Call
				for _, b := range f.Blocks {
					for _, in := range b.Instrs {
						c, ok := in.(*ssa.Call)
						if !ok {
							continue
						}
						if isWrite(c.Common()) {
							writes = append(writes, c)
						}
						if p.calleeName(c.Common()) == "(*bufio.Writer).Flush" {
							flushes = append(flushes, c)
						}
					}
				}
				if len(writes) == 0 {
					continue
				}
				n++
				r.fn(fn)
				key := fn + " flushes what it writes"
				if why, ok := flushedByCaller[fn]; ok && len(flushes) == 0 {
					r.ok(key, p.ipos(writes[0]), "left to its callers, which are checked: "+why)
					continue
				}
				// errors that come from the writes
				fromWrite := map[ssa.Value]bool{}
				for _, w := range writes {
					for _, u := range *w.Referrers() {
						if ex, ok := u.(*ssa.Extract); ok && ex.Type().String() == "error" {
							fromWrite[ex] = true
						}
					}
					if w.Type().String() == "error" {
						fromWrite[w] = true
					}
				}
				for changed := true; changed; {
					changed = false
					for _, b := range f.Blocks {
						for _, in := range b.Instrs {
							switch x := in.(type) {
							case *ssa.Phi:
								if fromWrite[x] {
									continue
								}
								for _, e := range x.Edges {
									if fromWrite[e] {
										fromWrite[x] = true
										changed = true
									}
								}
							case *ssa.Store:
								if fromWrite[x.Val] {
									if al, ok := x.Addr.(*ssa.Alloc); ok {
										for _, u := range *al.Referrers() {
											if ld, ok := u.(*ssa.UnOp); ok && !fromWrite[ld] {
												fromWrite[ld] = true
												changed = true
											}
										}
									}
								}
							}
						}
					}
				}
				// blocks where such an error is known non-nil
				var failed []*ssa.BasicBlock
				for _, b := range f.Blocks {
					if len(b.Instrs) == 0 {
						continue
					}
					iff, ok := b.Instrs[len(b.Instrs)-1].(*ssa.If)
					if !ok {
						continue
					}
					bo, ok := iff.Cond.(*ssa.BinOp)
					if !ok || (bo.Op != token.EQL && bo.Op != token.NEQ) || !(fromWrite[bo.X] || fromWrite[bo.Y]) {
						continue
					}
					t := b.Succs[0]
					if bo.Op == token.EQL {
						t = b.Succs[1]
					}
					if len(t.Preds) == 1 {
						failed = append(failed, t)
					}
				}
				bad := ""
				for _, w := range writes {
					ok := false
					for _, fl := range flushes {
						if !reachesAfter(w, fl, nil) {
							continue
						}
						confined := false
						for _, fb := range failed {
							if fb.Dominates(fl.Block()) {
								confined = true
							}
						}
						if !confined {
							ok = true
						}
					}
					if !ok {
						bad = p.ipos(w)
					}
				}
				r.check(bad == "", key, p.ipos(writes[0]), "each write reaches a Flush that is not confined to the write's failure branch", fn+" writes a frame (at "+bad+") into the connection's buffer and no Flush follows on the path where the write succeeded: the frame stays in the buffer")
			}
			if n == 0 {
				r.undecided("client writers", "?", "none found")
			}
		},
	})
}

func init() {
	register(&Rule{
		Name: "optional-callbacks-guarded", Props: []string{"C12", "C17"}, Engine: "SSA", Floor: 3,
		Doc: "a contradiction rule over function-valued struct fields: a field that some code compares with nil is optional, so every call through it is dominated by the non-nil side of such a test on the same field. The callbacks (OnDisconnect, OnRTT, NetDial) are called from the connection's own goroutines, where a nil call is a panic nothing recovers",
		Run: func(p *Prog, r *Out) {
			type fieldLoad struct {
				owner, field string
			}
			loadOf := func(v ssa.Value) (fieldLoad, ssa.Value, bool) {
				ld, ok := v.(*ssa.UnOp)
				if !ok || ld.Op != token.MUL {
					return fieldLoad{}, nil, false
				}
				fa, ok := ld.X.(*ssa.FieldAddr)
				if !ok {
					return fieldLoad{}, nil, false
				}
				o, f := p.fieldAddrName(fa)
				return fieldLoad{o, f}, fa.X, true
			}
			// which func fields are ever nil-tested, and the tests
			optional := map[fieldLoad]bool{}
			type test struct {
				fl     fieldLoad
				nonNil *ssa.BasicBlock
				fn     *ssa.Function
			}
			var tests []test
			for _, f := range p.allFuncs() {
				if f.Pkg != p.SPkg {
					continue
				}
				for _, b := range f.Blocks {
					for _, in := range b.Instrs {
						bo, ok := in.(*ssa.BinOp)
						if !ok || (bo.Op != token.EQL && bo.Op != token.NEQ) {
							continue
						}
						v, other := bo.X, bo.Y
						if k, isK := v.(*ssa.Const); isK && k.IsNil() {
							v, other = bo.Y, bo.X
						}
						if k, isK := other.(*ssa.Const); !isK || !k.IsNil() {
							continue
						}
						if _, isSig := v.Type().Underlying().(*types.Signature); !isSig {
							continue
						}
						fl, _, ok := loadOf(v)
						if !ok {
							continue
						}
						optional[fl] = true
						for _, u := range *bo.Referrers() {
							if iff, ok := u.(*ssa.If); ok {
								t := iff.Block().Succs[0]
								if bo.Op == token.EQL {
									t = iff.Block().Succs[1]
								}
								if len(t.Preds) == 1 {
									tests = append(tests, test{fl, t, f})
								}
							}
						}
					}
				}
			}
			n := 0
			for _, f := range p.allFuncs() {
				if f.Pkg != p.SPkg {
					continue
				}
				k := 0
				for _, b := range f.Blocks {
					for _, in := range b.Instrs {
						ci, ok := in.(ssa.CallInstruction)
						if !ok || ci.Common().IsInvoke() || ci.Common().StaticCallee() != nil {
							continue
						}
						fl, _, ok := loadOf(ci.Common().Value)
						if !ok || !optional[fl] {
							continue
						}
						k++
						n++
						fn := p.closureLabel(f)
						r.fn(p.fname(f))
						guarded := false
						for _, t := range tests {
							if t.fn == f && t.fl == fl && t.nonNil.Dominates(in.Block()) {
								guarded = true
							}
						}
						r.check(guarded, fn+" calls "+fl.owner+"."+fl.field+" only when it is set ("+strconv.Itoa(k)+")", p.ipos(in), "dominated by the non-nil side of a test of that field", fn+" calls the optional callback "+fl.owner+"."+fl.field+" where no test has found it non-nil: with the callback unset this is a nil call, on a goroutine nothing recovers")
					}
				}
			}
			if n == 0 {
				r.undecided("optional callbacks", "?", "no call through a nil-tested function field found")
			}
		},
	})
}

func init() {
	register(&Rule{
		Name: "stream-birth-and-timeout", Props: []string{"C17", "C01", "C13", "C10"}, Engine: "AST", Floor: 6,
		Doc: "a stream the loop creates is put in the table and given its request context and origin (createStream) in the same breath, before any frame handler can dereference them; createStream initialises the context for this connection, records the frame type that created the stream and the time, and attaches the context. The request-timeout arm collects the streams that are due and whose request is still arriving, stopping at the first that is not due, resets, closes and removes each, and arms the timer again for the oldest request still arriving",
		Run: func(p *Prog, r *Out) {
			hs := p.decl("(*serverConn).handleStreams")
			cs := p.decl("(*serverConn).createStream")
			if hs == nil || cs == nil {
				r.undecided("anchors", "?", "handleStreams / createStream no longer resolve")
				return
			}
			r.fn("(*serverConn).handleStreams", "(*serverConn).createStream")
			// birth
			found := false
			ast.Inspect(hs.Body, func(n ast.Node) bool {
				blk, ok := n.(*ast.BlockStmt)
				if !ok {
					return true
				}
				t := stmtTexts(p, blk.List)
				ni, ai, ci := -1, -1, -1
				for i, x := range t {
					switch {
					case strings.HasPrefix(x, "strm=NewStream(fr.Stream(),"):
						ni = i
					case x == "strms=append(strms,strm)":
						ai = i
					case x == "sc.createStream(sc.c,fr.Type(),strm)":
						ci = i
					}
				}
				if ni < 0 {
					return true
				}
				found = true
				// nothing between birth and createStream hands the stream to a frame handler
				okBetween := ci > ni
				for i := ni + 1; i < ci && okBetween; i++ {
					inspectCalls(blk.List[i], func(c *ast.CallExpr) {
						switch p.calleeOf(c) {
						case "(*serverConn).handleFrame", "(*serverConn).handleHeaderFrame", "(*serverConn).dispatchHandler", "(*serverConn).writeError":
							okBetween = false
						}
					})
				}
				r.check(ai > ni && okBetween, "a new stream enters the table and gets its context at once", p.pos(blk.List[ni].Pos()), "strm = NewStream(...); strms = append(strms, strm); ...; sc.createStream(sc.c, fr.Type(), strm)", "the stream loop no longer puts a stream it creates into the table and gives it its request context before the frame is handled: the first HEADERS on it dereferences a nil context, on the stream loop, and the process ends")
				return true
			})
			if !found {
				r.bad("a new stream enters the table and gets its context at once", p.pos(hs.Pos()), "no `strm = NewStream(fr.Stream(), ...)` found in handleStreams")
			}
			ct := stmtTexts(p, cs.Body.List)
			at := func(w string) int {
				for i, x := range ct {
					if x == w {
						return i
					}
				}
				return -1
			}
			get, init2, org, set := at("ctx:=ctxPool.Get().(*fasthttp.RequestCtx)"), at("ctx.Init2(c,sc.logger,false)"), at("strm.origType=frameType"), at("strm.SetData(ctx)")
			r.check(get >= 0 && init2 > get && org >= 0 && set > init2, "createStream initialises and attaches the context and records the origin", p.pos(cs.Pos()), "ctx := ctxPool.Get(); ...; ctx.Init2(c, logger, false); strm.origType = frameType; strm.SetData(ctx)", "createStream no longer initialises the pooled context for this connection, records which frame type created the stream, and attaches the context to it")
			// timeout arm
			var arm *ast.CommClause
			ast.Inspect(hs.Body, func(n ast.Node) bool {
				if cc, ok := n.(*ast.CommClause); ok && cc.Comm != nil && squash(p.text(cc.Comm)) == "<-sc.maxRequestTimer.C" {
					arm = cc
				}
				return true
			})
			if arm == nil {
				r.bad("the request-timeout arm", p.pos(hs.Pos()), "no `case <-sc.maxRequestTimer.C` in handleStreams")
				return
			}
			// the idle timer only tells the loop; the loop ends an idle connection, and one with requests in flight is not idle
			if ci := p.decl("(*serverConn).closeIdleConn"); ci != nil {
				r.fn("(*serverConn).closeIdleConn")
				says := false
				inspectCalls(ci.Body, func(c *ast.CallExpr) {
					if p.calleeOf(c) == "(*serverConn).writeGoAway" {
						says = true
					}
				})
				var carm *ast.CommClause
				ast.Inspect(hs.Body, func(n ast.Node) bool {
					if cc, ok := n.(*ast.CommClause); ok && cc.Comm != nil && squash(p.text(cc.Comm)) == "<-sc.closer" {
						carm = cc
					}
					return true
				})
				okIdle := false
				if carm != nil && len(carm.Body) >= 3 {
					if ifs, ok := carm.Body[0].(*ast.IfStmt); ok && squash(p.text(ifs.Cond)) == "len(strms)!=0" && ifs.Else == nil {
						t := stmtTexts(p, ifs.Body.List)
						again := len(t) == 2 && t[0] == "sc.maxIdleTimer.Reset(sc.maxIdleTime)" && t[1] == "continue"
						bye, leave := -1, -1
						for i, st := range carm.Body {
							x := squash(p.text(st))
							if strings.HasPrefix(x, "sc.writeGoAway(0,NoError,") {
								bye = i
							}
							if x == "breakloop" {
								leave = i
							}
						}
						okIdle = again && bye > 0 && leave > bye
					}
				}
				r.check(!says && okIdle, "a connection with requests in flight is not idle", p.pos(ci.Pos()), "closeIdleConn only signals; case <-sc.closer: if len(strms) != 0 { idle timer again; continue }; GOAWAY(NO_ERROR); break loop", "the idle timer again ends the connection on its own (GOAWAY from the timer's goroutine, or the loop leaving with streams in the table): a request that takes longer than IdleTimeout to answer is named in the GOAWAY as accepted and then cut off without its response")
			}
			okCount, okDrop, okArm := false, false, false
			for _, st := range arm.Body {
				x, ok := st.(*ast.RangeStmt)
				if !ok {
					continue
				}
				bt := stmtTexts(p, x.Body.List)
				switch squash(p.text(x.X)) {
				case "strms":
					if len(bt) == 2 && bt[0] == "if!time.Now().After(strm.startedAt.Add(sc.maxRequestTime)){break}" && bt[1] == "if!strm.responded{due=append(due,strm)}" {
						okCount = true
					}
					if len(bt) >= 4 && bt[0] == "ifstrm.origType!=FrameHeaders||strm.responded{continue}" && bt[len(bt)-1] == "break" {
						rs := false
						for _, y := range bt {
							if y == "sc.maxRequestTimer.Reset(when)" {
								rs = true
							}
						}
						okArm = rs && hasStmt(p, x.Body.List, "reqTimerArmed=true") && hasStmt(p, x.Body.List, "when:=time.Until(strm.startedAt.Add(sc.maxRequestTime))")
					}
				case "due":
					rs, st2, cl := -1, -1, -1
					for i, y := range bt {
						switch y {
						case "sc.resetStream(strm,StreamCanceled)":
							rs = i
						case "strm.SetState(StreamStateClosed)":
							st2 = i
						case "closeStream(strm)":
							cl = i
						}
					}
					okDrop = rs >= 0 && st2 > rs && cl > st2
				}
			}
			r.check(okCount, "the timeout arm collects the streams that are due and still arriving, and stops at the first that is not due", p.pos(arm.Pos()), "for _, strm := range strms { if !due { break }; if !strm.responded { due = append(due, strm) } }", "the request-timeout arm no longer collects exactly the leading streams whose time is up and whose request has not arrived in full: a request that is complete is reset under its handler (the response is thrown away), a stream that is not due is reset, or one that is due is left")
			r.check(okDrop, "each collected stream is reset, closed and removed", p.pos(arm.Pos()), "for _, strm := range due { resetStream; SetState(Closed); closeStream }", "the request-timeout arm no longer resets, closes and removes each stream it collected, in that order")
			r.check(okArm, "the timer is armed again for the oldest request still arriving", p.pos(arm.Pos()), "first strm with origType == HEADERS and !responded: reqTimerArmed = true; Reset(time.Until(startedAt + limit)); break", "the request timer is no longer re-armed for the oldest request that is still arriving: armed for a stream that is merely slow to answer it fires at once, again and again; not armed at all, a request that never completes is never timed out")
		},
	})
}

func init() {
	register(&Rule{
		Name: "loops-do-not-queue-to-themselves", Props: []string{"C12", "C17"}, Engine: "CALLGRAPH", Floor: 2,
		Doc: "the goroutine that is the only one to empty a queue never waits for room in it: nothing reachable (through static calls and closures, not through go statements) from the client's write loop sends on Conn.out, and nothing reachable from the server's write loop sends on serverConn.writer. With the queue full, which takes no more than a peer sending frames that need an answer, such a send waits for the sender itself",
		Run: func(p *Prog, r *Out) {
			for _, spec := range []struct{ root, owner, field string }{
				{"(*Conn).runWriteLoop", "Conn", "out"},
				{"(*serverConn).writeLoop", "serverConn", "writer"},
			} {
				root := p.ssaFunc(spec.root)
				if root == nil {
					r.undecided(spec.root, "?", "no longer resolves")
					continue
				}
				r.fn(spec.root)
				seen := map[*ssa.Function]*ssa.Function{root: nil}
				work := []*ssa.Function{root}
				for len(work) > 0 {
					f := work[0]
					work = work[1:]
					for _, b := range f.Blocks {
						for _, in := range b.Instrs {
							ci, ok := in.(ssa.CallInstruction)
							if !ok {
								continue
							}
							if _, isGo := in.(*ssa.Go); isGo {
								continue
							}
							for _, g := range p.calleesOf(ci) {
								if g == nil || g.Blocks == nil || (g.Pkg != p.SPkg) {
									continue
								}
								if _, ok := seen[g]; !ok {
									seen[g] = f
									work = append(work, g)
								}
							}
						}
					}
				}
				bad := ""
				for f := range seen {
					for _, b := range f.Blocks {
						for _, in := range b.Instrs {
							var ch ssa.Value
							switch x := in.(type) {
							case *ssa.Send:
								ch = x.Chan
							case *ssa.Select:
								for _, st := range x.States {
									if st.Dir == types.SendOnly && p.isFieldLoad(st.Chan, spec.owner, spec.field) {
										ch = st.Chan
									}
								}
							}
							if ch != nil && p.isFieldLoad(ch, spec.owner, spec.field) {
								// the path back to the root, for the report
								path := p.fname(f)
								for g := seen[f]; g != nil; g = seen[g] {
									path = p.fname(g) + " -> " + path
								}
								if bad == "" || path < bad {
									bad = path + " (" + p.ipos(in) + ")"
								}
							}
						}
					}
				}
				r.check(bad == "", spec.root+" never sends on "+spec.owner+"."+spec.field, "-", fmt.Sprintf("%d functions reachable, none sends on the queue", len(seen)), spec.root+" can reach a send on "+spec.owner+"."+spec.field+", the queue only it empties: "+bad+". With the queue full the loop waits for itself, and everything behind it for good")
			}
		},
	})
}

// isFieldLoad: v is a load of the field owner.field.
func (p *Prog) isFieldLoad(v ssa.Value, owner, field string) bool {
	ld, ok := v.(*ssa.UnOp)
	if !ok || ld.Op != token.MUL {
		return false
	}
	fa, ok := ld.X.(*ssa.FieldAddr)
	if !ok {
		return false
	}
	o, f := p.fieldAddrName(fa)
	return o == owner && f == field
}
