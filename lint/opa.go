package main

// OPA — per-frame obligation path analysis on go/ssa, using KSA.
//
// Region: the blocks that handle one received frame (from the block where the
// frame value is defined to the edges that move on to the next frame). Forward
// "may be undischarged" analysis: a path is discharged once it executes an
// instruction the rule names as discharging obligation O, or as terminating
// the connection. A violation is an exit from the region (edge back to the
// loop head, or a return the rule does not accept) reached on an undischarged
// path at which the frame can still be of one of the kinds the obligation
// applies to. The report carries a shortest witness: the branch decisions from
// frame receipt to the exit.

import (
	"fmt"
	"go/ast"
	"go/token"
	"strings"

	"golang.org/x/tools/go/ssa"
)

type opaSpec struct {
	fn        *ssa.Function
	entry     *ssa.BasicBlock // region entry; nil = function entry
	fr        ssa.Value
	kinds     uint16
	discharge func(in ssa.Instruction) bool
	terminate func(in ssa.Instruction) bool
	// returnOK: a return that is acceptable even undischarged
	returnOK func(r *ssa.Return) bool
	// loopHead: edges into it are next-frame exits (nil = only returns exit)
	loopHead *ssa.BasicBlock
	// dischargeBlock: reaching this block discharges (e.g. the decode loop head)
	dischargeBlock func(b *ssa.BasicBlock) bool
}

type opaViolation struct {
	Exit string // description of the exit
	Pos  string
	K    uint16
	Path []string
	Key  string
}

// loopHeadOf finds the innermost block that dominates b and has a back edge.
func loopHeadOf(b *ssa.BasicBlock) *ssa.BasicBlock {
	for d := b; d != nil; d = d.Idom() {
		for _, pr := range d.Preds {
			if d.Dominates(pr) && pr != d {
				return d
			}
		}
	}
	return nil
}

func (p *Prog) runOPA(s opaSpec) []opaViolation {
	ks := p.ksa()
	entry := s.entry
	if entry == nil {
		entry = s.fn.Blocks[0]
	}
	type pred struct {
		from *ssa.BasicBlock
		si   int
	}
	kEntry := kAll
	if bs, ok := ks.in[s.fn]; ok {
		if m, ok := bs[entry.Index][s.fr]; ok {
			kEntry = m
		}
	}
	// und[b] = kinds for which some undischarged path reaches the start of b
	und := map[*ssa.BasicBlock]uint16{entry: kEntry & s.kinds}
	parent := map[*ssa.BasicBlock]pred{}
	queue := []*ssa.BasicBlock{entry}
	inQueue := map[*ssa.BasicBlock]bool{entry: true}
	type exitRec struct {
		v opaViolation
	}
	exits := map[string]*opaViolation{}
	var order []string
	witness := func(b *ssa.BasicBlock) []string {
		var rev []string
		seen := map[*ssa.BasicBlock]bool{}
		for cur := b; cur != entry && !seen[cur]; {
			seen[cur] = true
			pr, ok := parent[cur]
			if !ok {
				break
			}
			if n := len(pr.from.Instrs); n > 0 {
				if iff, ok := pr.from.Instrs[n-1].(*ssa.If); ok {
					rev = append(rev, fmt.Sprintf("%s: %s is %v", p.ipos(iff), p.vdescN(iff.Cond, 4), pr.si == 0))
				}
			}
			cur = pr.from
		}
		for i, j := 0, len(rev)-1; i < j; i, j = i+1, j-1 {
			rev[i], rev[j] = rev[j], rev[i]
		}
		return rev
	}
	lastCall := func(b *ssa.BasicBlock, upto int) string {
		for cur, first := b, true; cur != nil; first = false {
			n := len(cur.Instrs)
			if first && upto >= 0 {
				n = upto
			}
			for i := n - 1; i >= 0; i-- {
				if c, ok := cur.Instrs[i].(*ssa.Call); ok {
					if nm := p.calleeName(c.Common()); nm != "" && !strings.HasPrefix(nm, "(fasthttp.Logger)") && !strings.HasPrefix(nm, "invoke.") && !strings.HasPrefix(nm, "New") && !strings.HasPrefix(nm, "builtin.") {
						return nm
					}
				}
			}
			pr, ok := parent[cur]
			if !ok || cur == entry {
				break
			}
			cur = pr.from
		}
		return "entry"
	}
	record := func(key string, v opaViolation) {
		if old, ok := exits[key]; ok {
			old.K |= v.K
			return
		}
		vv := v
		exits[key] = &vv
		order = append(order, key)
	}
	for len(queue) > 0 {
		b := queue[0]
		queue = queue[1:]
		inQueue[b] = false
		k := und[b]
		if k == 0 {
			continue
		}
		live := !(s.dischargeBlock != nil && s.dischargeBlock(b))
		var lastPos ssa.Instruction
		if live {
			for _, in := range b.Instrs {
				if in.Pos().IsValid() {
					lastPos = in
				}
				if (s.discharge != nil && s.discharge(in)) || (s.terminate != nil && s.terminate(in)) {
					live = false
					break
				}
				if r, ok := in.(*ssa.Return); ok {
					if s.returnOK == nil || !s.returnOK(r) {
						desc := "return"
						if len(r.Results) > 0 {
							desc = "return " + p.vdescN(p.resolveSpill(r, len(r.Results)-1), 3)
						}
						key := "return under " + p.astGuardAt(r.Pos(), lastPos)
						_ = lastCall
						record(key+"|"+p.ipos(r), opaViolation{Exit: desc, Pos: p.ipos(r), K: k, Path: witness(b), Key: key})
					}
					live = false
					break
				}
			}
		}
		if !live {
			continue
		}
		var ifc ssa.Value
		if n := len(b.Instrs); n > 0 {
			if iff, ok := b.Instrs[n-1].(*ssa.If); ok {
				ifc = iff.Cond
			}
		}
		for si, sc := range b.Succs {
			ke := k
			if ifc != nil {
				t, f := p.ksaRefine(ifc, s.fr, k)
				if si == 0 {
					ke = t
				} else {
					ke = f
				}
			}
			if ke == 0 {
				continue
			}
			if s.loopHead != nil && sc == s.loopHead {
				at := "?"
				if lastPos != nil {
					at = p.ipos(lastPos)
				}
				w := witness(b)
				if ifc != nil {
					w = append(w, fmt.Sprintf("%s: %s is %v", p.ipos(b.Instrs[len(b.Instrs)-1]), p.vdescN(ifc, 4), si == 0))
				}
				key := "next frame under " + p.astGuardAt(token.NoPos, lastPos)
				record(key+"|"+at, opaViolation{Exit: "moves on to the next frame after " + at, Pos: at, K: ke, Path: w, Key: key})
				continue
			}
			if old := und[sc]; old|ke != old {
				if old == 0 {
					parent[sc] = pred{b, si}
				}
				und[sc] = old | ke
				if !inQueue[sc] {
					inQueue[sc] = true
					queue = append(queue, sc)
				}
			}
		}
	}
	var out []opaViolation
	for _, k := range order {
		out = append(out, *exits[k])
	}
	return out
}

// resolveSpill sees through go/ssa's spilling of results into allocs in
// functions that defer: the returned value is the one stored last in the block.
func (p *Prog) resolveSpill(r *ssa.Return, i int) ssa.Value {
	v := r.Results[i]
	u, ok := v.(*ssa.UnOp)
	if !ok {
		return v
	}
	a, ok := u.X.(*ssa.Alloc)
	if !ok {
		return v
	}
	b := r.Block()
	for j := len(b.Instrs) - 1; j >= 0; j-- {
		if st, ok := b.Instrs[j].(*ssa.Store); ok && st.Addr == a {
			return st.Val
		}
	}
	return v
}

// astGuardAt names a program point by the innermost enclosing condition in the
// source (`if` condition, with "else" when in the else branch, or case list):
// a stable, role-like name for an exit path.
func (p *Prog) astGuardAt(pos token.Pos, fallback ssa.Instruction) string {
	if !pos.IsValid() && fallback != nil {
		pos = fallback.Pos()
	}
	if !pos.IsValid() {
		return "?"
	}
	var file *ast.File
	for _, f := range append(append([]*ast.File{}, p.Files...), p.UFiles...) {
		if f.Pos() <= pos && pos < f.End() {
			file = f
		}
	}
	if file == nil {
		return "?"
	}
	best := "function body"
	ast.Inspect(file, func(n ast.Node) bool {
		if n == nil {
			return true
		}
		if pos < n.Pos() || pos >= n.End() {
			return false
		}
		switch x := n.(type) {
		case *ast.IfStmt:
			if pos >= x.Body.Pos() && pos < x.Body.End() {
				best = "`" + p.text(x.Cond) + "`"
			} else if x.Else != nil && pos >= x.Else.Pos() && pos < x.Else.End() {
				best = "else of `" + p.text(x.Cond) + "`"
			}
		case *ast.CaseClause:
			if len(x.List) > 0 {
				var ts []string
				for _, e := range x.List {
					ts = append(ts, p.text(e))
				}
				best = "case " + strings.Join(ts, ", ")
			} else {
				best = "default case"
			}
		}
		return true
	})
	return best
}
